"""C05 — MPS cost equals the exact bit-cost of the selected precision assignment (DESIGN.md §C10/C02/C05).

Theorems: coq/Props/C05.v over coq/Model/MpsCost.v (layer) and coq/Model/MpsCostNet.v (network: feature propagation over the IR, mps_net_cost).
Cases: grammar networks of vlib/mps_gen.py x search mode (per-layer / per-channel / per-channel with the
0-bit option) x precision tuples x coefficients with arg-max margin x temperature x flags, in eval mode or in
training mode with hard (non-Gumbel) sampling, after one forward pass.
Oracle (implementation only): get_cost of params_bit / ops_bit == sum over layers of (weights, resp. MACs, with
effective input/output features) x selected bits taken from summary(); mpic_latency / ne16_latency == the
spec's own function at the selected precisions (per-layer search); a probing CostSpec records the keys each
layer type is shown: convolutions must see effective counts under in_channels/out_channels, linear layers
under in_features/out_features.
Correspondence: Model/MpsCostNet.v `run_net` (IR + per-layer geometry + the implementation's sampled coefficient
vectors / matrices -> TOTAL params_bit, ops_bit, probe_in, probe_out, evaluated by vm_compute) vs get_cost; LUT specs
through `run_table` on the cost tables computed by the specs' own functions.
"""
import os, glob, json, math
from concurrent.futures import ProcessPoolExecutor
import multiprocessing as mp
from .common import *
from . import mps_gen as G
from . import c05_gen
from .c05_gen import regenerate      # setup.sh regenerates Gen/MpsCostGen.v through this name

PRECS = [2, 4, 8]
KNOWN_SCALED = 'cost-not-exact:per-channel-0bit-scaled-by-alive-fraction'


def gen_case(rng, idx, dwin=False, reuse=False):
    """dwin: separate small stream — per-channel 0-bit search with a depthwise conv. in the sharing group
    of the network input (open finding; kept apart from the main stream)"""
    mode = 'chan0' if dwin else rng.choice(['layer', 'layer', 'chan']) if reuse else rng.choice(['layer', 'layer', 'layer', 'chan', 'chan0', 'chan0'])
    # reuse: separate stream — one conv / linear module invoked twice (same / other resolution); no 0-bit (a module has ONE input-feature calculator)
    ne16 = mode == 'layer' and rng.random() < 0.3
    first = 'reuse2' if (reuse and rng.random() < 0.8) else None
    while True:
        nodes = G.gen_spec(rng, ne16=ne16, first=first, reuse=reuse)
        if reuse and not G.has_reuse(nodes):
            continue
        # per-channel pruning next to the (unprunable) network input in one sharing group: not generated
        if mode == 'chan0' and (G.input_group_requantized(nodes) != dwin):
            first = 'dw' if dwin else None
            continue
        break
    if mode == 'chan0':
        wp = rng.sample(PRECS, rng.randint(1, 3)) + [0]
        rng.shuffle(wp)
    else:
        wp = rng.sample(PRECS, rng.randint(1, 3))
    r = rng.random()
    T = 0.05 if r < 0.12 else 20.0 if r < 0.24 else round(math.exp(rng.uniform(math.log(0.05), math.log(20))), 4)
    phase = 'hardtrain' if rng.random() < 0.3 else 'eval'
    return {'nodes': nodes, 'seed': rng.randrange(1 << 30), 'aseed': rng.randrange(1 << 30), 'mode': mode, 'ne16': ne16,
            'ap': [8] if ne16 else rng.sample(PRECS, rng.randint(1, 3)), 'wp': wp, 'T': T,
            'gumbel': (rng.random() < 0.4) and phase == 'eval', 'hard': True if phase == 'hardtrain' else rng.random() < 0.3,
            'dsq': rng.random() < 0.25 and mode != 'chan0', 'phase': phase, 'idx': idx, 'dwin': dwin,
            'respec': rng.choice([None, None, None, 'single', 'rebind', 'rebind-one']), 'batch': rng.choice([None, None, 1, 2, 3, 4]),
            # mode of the wrapped network at construction; 'eval-as-returned': eval at construction and NO .eval()/.train() call afterwards
            'handin': (rng.choice(['eval', 'train', 'eval-as-returned', 'eval-as-returned']) if phase == 'eval' else rng.choice(['eval', 'train'])),
            # qinfo with layer-specific entries named after layers INSIDE a sharing group (depthwise behind a conv, residual addends)
            'qlayers': (lambda cand: sorted(rng.sample(cand, min(len(cand), rng.randint(1, 2)))) if (cand and rng.random() < 0.5) else [])(G.qlayer_candidates(nodes)),
            # further assignments on the SAME model kept in eval under no_grad: coefficients written through .data / in place,
            # cost read before and after the forward
            'rounds': ([{'how': rng.choice(['data=', 'data.copy_', 'data[i]=', 'copy_'])} for _ in range(rng.choice([0, 1, 2, 3]))] if (phase == 'eval' and not dwin) else [])}


def gen_dwsel(rng, idx):
    """separate stream: chain conv -> depthwise (-> conv) -> head, per-channel search with the 0-bit option and
    disable_shared_quantizers=True (producer and depthwise layer have their OWN weight selectors); either the
    producer prunes channels the depthwise layer keeps (then the depthwise bits are changed from a to b and the
    cost DIFFERENCE is checked: not touched by the open 0-bit scaling finding), or vice versa.  Conv1d and Conv2d."""
    dim = rng.choice([1, 2])
    hw = rng.choice([4, 6, 8])
    cin = rng.randint(2, 4)
    nodes = [{'k': 'in', 'c': cin, 'hw': hw, 'dim': dim}]

    def push(nd):
        nodes.append(nd)
        return len(nodes) - 1
    cur, c = 0, cin
    if rng.random() < 0.3:
        c2 = rng.randint(2, 4)
        cur = push({'k': 'conv', 'src': cur, 'cin': c, 'cout': c2, 'ks': rng.choice([1, 3]), 'stride': 1, 'bias': rng.random() < 0.7})
        cur = push({'k': 'relu', 'src': cur, 'fn': rng.random() < 0.5})
        c = c2
    C = rng.randint(3, 6)
    prod = cur = push({'k': 'conv', 'src': cur, 'cin': c, 'cout': C, 'ks': rng.choice([1, 3, 5]), 'stride': 1, 'bias': rng.random() < 0.7})
    if dim == 2 and rng.random() < 0.4:
        cur = push({'k': 'bn', 'src': cur, 'c': C, 'dim': 2})
    if rng.random() < 0.6:
        cur = push({'k': 'relu', 'src': cur, 'fn': rng.random() < 0.5})
    if hw >= 4 and rng.random() < 0.3:
        cur = push({'k': 'pool', 'src': cur, 't': rng.choice(['max2', 'avg2'])})
        hw //= 2
    dw = cur = push({'k': 'dw', 'src': cur, 'c': C, 'ks': 3, 'bias': rng.random() < 0.7})
    if rng.random() < 0.5:
        cur = push({'k': 'relu', 'src': cur, 'fn': rng.random() < 0.5})
    c = C
    if rng.random() < 0.6:
        c2 = rng.randint(2, 5)
        cur = push({'k': 'conv', 'src': cur, 'cin': c, 'cout': c2, 'ks': rng.choice([1, 3]), 'stride': 1, 'bias': rng.random() < 0.7})
        cur = push({'k': 'relu', 'src': cur, 'fn': rng.random() < 0.5})
        c = c2
    if rng.random() < 0.5:
        cur = push({'k': 'pool', 'src': cur, 't': 'adapt'})
        hw = 1
    cur = push({'k': 'flatten', 'src': cur, 'mult': hw ** dim})
    push({'k': 'lin', 'src': cur, 'cin': c * hw ** dim, 'cout': rng.randint(2, 4), 'bias': rng.random() < 0.8})
    nz = rng.sample(PRECS, rng.randint(2, 3))
    wp = nz + [0]
    rng.shuffle(wp)
    a, b = rng.sample([k for k in range(len(wp)) if wp[k] != 0], 2)
    npr = rng.randint(1, C - 1)
    phase = 'hardtrain' if rng.random() < 0.3 else 'eval'
    return {'nodes': nodes, 'seed': rng.randrange(1 << 30), 'aseed': rng.randrange(1 << 30), 'mode': 'chan0', 'ne16': False,
            'ap': rng.sample(PRECS, rng.randint(1, 3)), 'wp': wp, 'T': round(math.exp(rng.uniform(math.log(0.05), math.log(20))), 4),
            'gumbel': False, 'hard': phase == 'hardtrain' or rng.random() < 0.3, 'dsq': True, 'phase': phase, 'idx': idx, 'dwin': False,
            'dwsel': {'variant': rng.choice(['prod-prunes', 'prod-prunes', 'dw-prunes']), 'prod': prod, 'dw': dw, 'a': a, 'b': b,
                      'pruned': sorted(rng.sample(range(C), npr))},
            'handin': (rng.choice(['eval', 'train', 'eval-as-returned']) if phase == 'eval' else rng.choice(['eval', 'train']))}


def _ltype(nd):
    return 'dw' if G.is_dw(nd) else nd['k']


def run_case(c):
    import random
    torch = setup_torch()
    obs = {'exc': None}
    stage = 'build'
    try:
        import torch.nn as nn
        from plinio.methods import MPS
        from plinio.methods.mps import MPSType, get_default_qinfo
        from plinio.cost import CostSpec, params_bit, ops_bit
        from plinio.cost.mpic_latency import mpic_latency
        from plinio.cost.pattern import Conv2dGeneric, LinearGeneric, Conv2dDW, Conv1dGeneric, Conv1dDW
        nodes = c['nodes']
        shp = G.shapes(nodes)
        m = G.build(nodes, c['seed'])
        orig = {i: m.layers['n%d' % i] for i, nd in enumerate(nodes) if nd['k'] in ('conv', 'dw', 'lin')}
        orig_vars = {i: dict(vars(l)) for i, l in orig.items()}
        wid = {}
        rec = []

        def probe(which, kind):
            def f(spec):
                shown = {k: (float(spec[k]) if k in spec else None) for k in ('in_channels', 'out_channels', 'in_features', 'out_features')}
                shown['output_shape'] = [int(v) for v in spec['output_shape']] if 'output_shape' in spec else None
                rec.append((which, kind, id(spec['_parameters']['weight']), shown))
                key = ('in_' if which == 'in' else 'out_') + ('features' if kind == 'lin' else 'channels')
                return torch.as_tensor(spec[key], dtype=torch.float32) * 1.0
            return f
        specs = {'pb': params_bit, 'ob': ops_bit, 'mpic': mpic_latency}
        for which in ('in', 'out'):
            ps = CostSpec(shared=False, default_behavior='zero')      # per invocation: every call site of a re-used layer is shown
            ps[Conv2dGeneric] = probe(which, 'conv')
            ps[Conv2dDW] = probe(which, 'dw')
            ps[Conv1dGeneric] = probe(which, 'conv')
            ps[Conv1dDW] = probe(which, 'dw')
            ps[LinearGeneric] = probe(which, 'lin')
            specs['probe_' + which] = ps
        # a probe that is non-zero at every precision (also 0 bit): in + 1000 * out features of the layer it is shown
        pm_ = CostSpec(shared=False, default_behavior='zero')

        def mix(kind):
            ik, ok_ = ('in_features', 'out_features') if kind == 'lin' else ('in_channels', 'out_channels')
            return lambda spec: torch.as_tensor(spec[ik], dtype=torch.float32) * 1.0 + 1000.0 * torch.as_tensor(spec[ok_], dtype=torch.float32)
        for pat_, kd_ in ((Conv2dGeneric, 'conv'), (Conv2dDW, 'dw'), (Conv1dGeneric, 'conv'), (Conv1dDW, 'dw'), (LinearGeneric, 'lin')):
            pm_[pat_] = mix(kd_)
        specs['probe_mix'] = pm_
        if c['ne16']:
            from plinio.cost.ne16_latency import ne16_latency
            specs['ne16'] = ne16_latency
        ishape = G.input_shape(nodes)
        dim = nodes[0].get('dim', 2)
        stage = 'convert'
        # how the cost specification reaches the model: given at construction (default), or re-assigned afterwards through the
        # cost_specification setter: single spec -> dict; dict -> dict with the SAME names bound to other CostSpecs (names
        # permuted / re-bound).  get_cost(name) must always evaluate what the name is bound to NOW.
        # construction-time mode of the wrapped network: every sub-module of the wrapper must come back in that mode
        handin_train = c.get('handin') == 'train'
        m.train(handin_train)
        rs = c.get('respec')
        init_cost = specs
        if rs == 'single':
            init_cost = [params_bit, ops_bit][c['aseed'] % 2]
        elif rs == 'rebind':
            names_ = list(specs)
            perm = list(names_)
            random.Random(c['aseed'] ^ 0x1234).shuffle(perm)
            if perm == names_:
                perm = names_[1:] + names_[:1]
            init_cost = {n: specs[q_] for n, q_ in zip(names_, perm)}
        elif rs == 'rebind-one':
            init_cost = dict(specs)
            init_cost['ob'], init_cost['probe_in'] = specs['pb'], specs['probe_out']
        # how the tracing input is given: input_shape (batch 1), or an input_example with batch size > 1 (costs are per inference)
        tr = {'input_shape': ishape} if not c.get('batch') else {'input_example': torch.rand((c['batch'],) + ishape)}
        p = MPS(m, qinfo=G.make_qinfo(nodes, c['wp'], c['ap'], c.get('qlayers', ())), cost=init_cost, **tr,
                w_search_type=MPSType.PER_LAYER if c['mode'] == 'layer' else MPSType.PER_CHANNEL,
                temperature=c['T'], gumbel_softmax=c['gumbel'], hard_softmax=c['hard'], disable_shared_quantizers=c['dsq'])
        obs['mode_mismatch'] = sorted(n_ or '<root>' for n_, md_ in p.named_modules() if md_.training != handin_train)[:8]
        if rs:
            p.cost_specification = specs
        rng = random.Random(c['aseed'])
        G.set_alphas(rng, p)
        L = G.mps_layers(nodes, p)
        for i, (name, mod) in L.items():
            if hasattr(mod, 'weight'):
                wid[id(mod.weight)] = i
        ds = c.get('dwsel')

        def setcols(mod, sel):
            a_ = torch.full_like(mod.w_mps_quantizer.alpha, -1.0)
            for ch, k_ in enumerate(sel):
                a_[k_, ch] = 1.0
            with torch.no_grad():
                mod.w_mps_quantizer.alpha.copy_(a_)
        if ds:
            pm, dm = L[ds['prod']][1], L[ds['dw']][1]
            if pm.w_mps_quantizer is dm.w_mps_quantizer:
                raise RuntimeError('disable_shared_quantizers=True but producer and depthwise layer share a weight selector')
            z = c['wp'].index(0)
            nzi = [k_ for k_ in range(len(c['wp'])) if k_ != z]
            Cd = nodes[ds['dw']]['c']
            prunesel = [z if ch in ds['pruned'] else rng.choice(nzi) for ch in range(Cd)]
            if ds['variant'] == 'prod-prunes':
                setcols(pm, prunesel)
                setcols(dm, [ds['a']] * Cd)
            else:
                setcols(pm, [rng.choice(nzi) for _ in range(Cd)])
                setcols(dm, prunesel)
        g = torch.Generator().manual_seed(c['seed'] ^ 0x5bd1)
        x = torch.rand((2,) + ishape, generator=g)
        stage = 'forward'
        if c.get('handin') == 'eval-as-returned':
            pass            # network handed over in eval mode and the wrapper used as MPS() returned it: no mode call at all
        elif c['phase'] == 'eval':
            p.eval()
        else:
            p.train()
        with torch.no_grad():
            p(x)
        stage = 'cost'
        costs = {}
        for k in specs:
            del rec[:]
            try:
                with torch.no_grad():
                    costs[k] = float(p.get_cost(k))
            except Exception as ex:
                costs[k] = 'EXC:%s:%s' % (type(ex).__name__, str(ex)[:120])
            if k.startswith('probe'):
                obs['shown_' + k[6:]] = [(w, kd, wid.get(wi), sh) for (w, kd, wi, sh) in rec]
        obs['costs'] = costs
        stage = 'summary'
        summ = p.summary()
        layers = {}
        for i, (name, mod) in sorted(L.items()):
            nd = nodes[i]
            if nd['k'] not in ('conv', 'dw', 'lin'):
                continue
            wq, iq = mod.w_mps_quantizer, mod.in_mps_quantizer
            th = wq.theta_alpha
            ent = {'name': name, 'type': _ltype(nd), 'summary': {k: v for k, v in summ[name].items() if k != 'type'},
                   'pin': [int(v) for v in iq.precision], 'tin': [float(v) for v in iq.theta_alpha],
                   'pw': [int(v) for v in wq.precision],
                   'tw': [float(v) for v in th] if th.dim() == 1 else [[float(v) for v in row] for row in th],
                   'zero': getattr(wq, 'zero_index', None), 'wq': id(wq)}
            k2, h2 = (nd.get('ks', 1), shp[i][1]) if dim == 2 else (1, 1)
            ent['geom'] = ([nd['cin'], nd['cout'], nd['ks'], k2, shp[i][1], h2] if nd['k'] == 'conv' else
                           [nd['c'], nd['c'], nd['ks'], k2, shp[i][1], h2] if nd['k'] == 'dw' else
                           [nd['cin'], nd['cout'], 1, 1, 1, 1])
            layers[i] = ent
        # call sites: (node of the call, node of the layer); a 're-use' node is a further call of an earlier layer
        sites = [(i, nd['of'] if nd['k'] == 'reuse' else i) for i, nd in enumerate(nodes) if nd['k'] in ('conv', 'dw', 'lin', 'reuse')]
        tabs = {}
        obs['sites'] = sites
        # LUT specs: the table of cost_fn values at every precision pair, from the spec's own function on
        # the ORIGINAL layer's attributes with effective features (per-layer search: effective = static)
        if c['mode'] == 'layer':
            stage = 'lut-tables'
            for sk in ('mpic', 'ne16'):
                if sk not in specs:
                    continue
                for site, i in sites:
                    ent = layers[i]
                    v0 = dict(orig_vars[i])
                    v0['output_shape'] = (2, shp[site][0]) + (((shp[site][1],) * dim) if shp[site][1] else ())
                    fn = specs[sk][(type(orig[i]), v0)]
                    tab = []
                    for ip in ent['pin']:
                        row = []
                        for wp_ in ent['pw']:
                            v = dict(v0)
                            v.update(in_precision=torch.tensor(float(ip)), w_precision=torch.tensor(float(wp_)), w_theta_alpha=torch.tensor(1.0), in_format=int, w_format=int)
                            row.append(float(fn(v)))
                        tab.append(row)
                    tabs.setdefault(sk, {})[str(site)] = tab
        obs['layers'] = {str(k): v for k, v in layers.items()}
        obs['tabs'] = tabs
        if ds and ds['variant'] == 'prod-prunes':
            stage = 'second-run'
            setcols(L[ds['dw']][1], [ds['b']] * nodes[ds['dw']]['c'])
            with torch.no_grad():
                p(x)
                obs['costs2'] = {k: float(p.get_cost(k)) for k in ('pb', 'ob')}
            s2 = p.summary()
            obs['summary2'] = {str(i): {k: v for k, v in s2[name].items() if k != 'type'} for i, (name, mod) in L.items() if str(i) in obs['layers']}
        rounds = []
        for k_, rd in enumerate(c.get('rounds', [])):
            stage = 'round-%d' % (k_ + 1)
            tg = G.alpha_targets(random.Random(c['aseed'] + 104729 * (k_ + 1)), p)
            for _, q_, t_ in tg:
                if rd['how'] == 'copy_':
                    with torch.no_grad():
                        q_.copy_(t_)
                elif rd['how'] == 'data=':
                    q_.data = t_.clone()
                elif rd['how'] == 'data.copy_':
                    q_.data.copy_(t_)
                else:
                    fl = t_.reshape(-1)
                    for j_ in range(fl.numel()):
                        q_.data.view(-1)[j_] = fl[j_]
            with torch.no_grad():
                before = {k: float(p.get_cost(k)) for k in ('pb', 'ob')}      # read before the forward (sampled coefficients still the old ones)
                p(x)
                after = {k: float(p.get_cost(k)) for k in ('pb', 'ob')}
            s_ = p.summary()
            rounds.append({'round': k_ + 1, 'how': rd['how'], 'before': before, 'costs': after,
                           'summary': {str(i): {k: v for k, v in s_[layers[i]['name']].items() if k != 'type'} for i in layers}})
        obs['rounds'] = rounds
    except Exception as ex:
        import traceback
        obs['exc'] = 'EXC:%s:%s:%s' % (stage, type(ex).__name__, str(ex)[:200])
        obs['tb'] = traceback.format_exc()[-1500:]
    return obs


def expected(c, o):
    """exact costs of the assignment summary() reports, from the IR and summary() only.
    Alive channels are tracked as masks: a conv / linear layer's output channel is alive iff its selected
    weight precision is not 0; a depthwise layer's output channel is alive iff its own precision is not 0 AND its
    input channel is alive (matters only when it has its own selector, disable_shared_quantizers=True).
    A layer's own cost counts ITS weights x ITS bits.  Returns totals {'pb','ob','pb_scaled','ob_scaled'} and per
    layer (effective input features, own alive output channels)."""
    nodes = c['nodes']
    shp = G.shapes(nodes)
    dim_ = nodes[0].get('dim', 2)
    mask = {}      # node -> list of bools (alive features of its output tensor)
    feats = {}
    tot = {'pb': 0, 'ob': 0, 'pb_scaled': Fraction(0), 'ob_scaled': Fraction(0)}
    for i, nd in enumerate(nodes):
        k = nd['k']
        if k == 'in':
            mask[i] = [True] * nd['c']
        elif k in ('bn', 'relu', 'pool'):
            mask[i] = mask[nd['src']]
        elif k == 'flatten':
            mask[i] = [b for b in mask[nd['src']] for _ in range(nd['mult'])]
        elif k == 'add':
            mask[i] = mask[nd['src'][0]]
        else:
            reused = k == 'reuse'
            ent = o['layers'][str(nd['of'] if reused else i)]
            s = ent['summary']
            wps = s['w_precision'] if isinstance(s['w_precision'], list) else [s['w_precision']] * ent['geom'][1]
            C = len(wps)
            own = [q != 0 for q in wps]
            alive = sum(own)
            ein = sum(mask[nd['src']])
            mask[i] = [a and b for a, b in zip(own, mask[nd['src']])] if ent['type'] == 'dw' else own
            feats[i] = (ein, alive)
            kk = ent['geom'][2] * ent['geom'][3]
            hw_site = shp[i][1]
            hw2 = 1 if ent['type'] == 'lin' else (hw_site ** dim_)      # output pixels of THIS call site
            unit = kk if ent['type'] == 'dw' else kk * ein if ent['type'] == 'conv' else ein
            pb = sum(unit * q for q in wps)
            ob = pb * hw2 * s['in_precision']
            if reused:
                pb = 0          # the weights of a re-used module exist once; its operations once per invocation
            tot['pb'] += pb
            tot['ob'] += ob
            tot['pb_scaled'] += Fraction(pb * alive, C)
            tot['ob_scaled'] += Fraction(ob * alive, C)
    return tot, feats


def near(a, b, rel=1e-5):
    return isinstance(a, float) and abs(a - float(b)) <= rel * max(1.0, abs(float(b)))


DWSEL_KEY = 'spec-keys:consumer-of-depthwise-with-own-selector-not-shown-surviving-channels'
DWIN_KEY = 'spec-keys:consumer-of-pruned-depthwise-in-network-input-group'


def oracle(c, o):
    if o['exc']:
        return [('mps-raises:' + o['exc'].split(':')[1], o['exc'])]
    if c.get('dwin'):
        tot, feats = expected(c, o)
        for (w, kd, node, sh) in o.get('shown_in', []):
            ik = 'in_features' if kd == 'lin' else 'in_channels'
            if node is not None and kd != 'dw' and sh[ik] != feats[node][0]:
                return [(DWIN_KEY, 'layer node %d (%s): cost function shown %s=%r but only %r channels of its input survive (producer: depthwise conv. on the network input with pruned channels)' % (node, kd, ik, sh[ik], feats[node][0]))]
        return []
    out = []
    if o.get('mode_mismatch'):
        out.append(('mps-wrapper-mode-differs-from-model-handed-in', 'network handed to MPS() in %s mode, but these sub-modules of the wrapper have the other mode: %r'
                    % ('train' if c.get('handin') == 'train' else 'eval', o['mode_mismatch'])))
    costs = o['costs']
    for k, v in costs.items():
        if not isinstance(v, float):
            out.append(('get-cost-raises:' + k, '%s: %s' % (k, v)))
    tot, feats = expected(c, o)
    for k in ('pb', 'ob'):
        v = costs[k]
        if not isinstance(v, float) or near(v, tot[k]):
            continue
        name = {'pb': 'params_bit', 'ob': 'ops_bit'}[k]
        if c['mode'] == 'chan0' and near(v, tot[k + '_scaled']):
            out.append((KNOWN_SCALED, '%s: get_cost = %r, exact cost of the summary() assignment = %r (each layer scaled by alive/C channels)' % (name, v, tot[k])))
        else:
            out.append(('cost-not-exact:%s:%s' % (name, 'per-layer' if c['mode'] == 'layer' else 'per-channel'),
                        '%s: get_cost = %r, exact cost of the summary() assignment = %r' % (name, v, tot[k])))
    # LUT models at the selected precisions
    if c['mode'] == 'layer':
        for sk in ('mpic', 'ne16'):
            if sk in costs and isinstance(costs[sk], float):
                exp = 0.0
                for site, i in o['sites']:
                    ent = o['layers'][str(i)]
                    s = ent['summary']
                    exp += o['tabs'][sk][str(site)][ent['pin'].index(s['in_precision'])][ent['pw'].index(s['w_precision'])]
                if not near(costs[sk], exp, 1e-4):
                    out.append(('cost-not-exact:%s_latency:per-layer' % sk, '%s_latency: get_cost = %r, spec function at the selected precisions summed = %r' % (sk, costs[sk], exp)))
    # every invocation of a layer is costed with the output shape of THAT invocation
    shp = G.shapes(c['nodes'])
    dim_ = c['nodes'][0].get('dim', 2)
    sites_of = {}
    for site, i in o['sites']:
        sites_of.setdefault(i, []).append(site)
    seen_calls = {}
    for (w, kd, node, sh) in o.get('shown_out', []):
        if node is None or sh.get('output_shape') is None:
            continue
        ent = o['layers'][str(node)]
        per_site = len(ent['pin']) * len(ent['pw'])
        k_ = seen_calls.get(node, 0)
        seen_calls[node] = k_ + 1
        site = sites_of[node][min(k_ // per_site, len(sites_of[node]) - 1)]
        exp_sp = [shp[site][1]] * dim_ if kd != 'lin' else []
        if sh['output_shape'][2:] != exp_sp:
            out.append(('spec-shown-wrong-output-shape' + (':layer-invoked-more-than-once' if len(sites_of[node]) > 1 else ''),
                        'layer node %d (%s), invocation at node %d: cost function shown output_shape %r, this invocation produces spatial size %r'
                        % (node, kd, site, sh['output_shape'], exp_sp)))
    # what the cost functions are shown
    for which in ('in', 'out'):
        for (w, kd, node, sh) in o.get('shown_' + which, []):
            if node is None:
                continue
            ein, eout = feats[node]
            ik, ok_ = ('in_features', 'out_features') if kd == 'lin' else ('in_channels', 'out_channels')
            if kd != 'dw' and sh[ik] != ein:
                out.append(('spec-keys:%s-not-shown-effective-%s' % ({'lin': 'linear', 'conv': 'conv'}[kd], ik),
                            'layer node %d (%s): cost function shown %s=%r, effective input features %r (all keys shown: %r)' % (node, kd, ik, sh[ik], ein, sh)))
            if sh[ok_] != eout:
                out.append(('spec-keys:%s-not-shown-effective-%s' % ({'lin': 'linear', 'conv': 'conv', 'dw': 'dw'}[kd], ok_),
                            'layer node %d (%s): cost function shown %s=%r, effective output features %r (all keys shown: %r)' % (node, kd, ok_, sh[ok_], eout, sh)))
    # the probing specs do not depend on the precisions (non-zero at 0 bit too): read back through the cost interface they must
    # return the feature counts of the summary() assignment, summed over the call sites, pruned channels or not
    if not any(k.startswith('spec-keys:') for k, _ in out):
        sites_ = [site for site, _ in o['sites']]
        ref = {'probe_in': sum(feats[s_][0] for s_ in sites_), 'probe_out': sum(feats[s_][1] for s_ in sites_)}
        ref['probe_mix'] = ref['probe_in'] + 1000 * ref['probe_out']
        for k, rv in ref.items():
            if isinstance(costs.get(k), float) and not near(costs[k], rv):
                out.append(('probe-cost-differs-from-features-of-summary-assignment:' + k,
                            '%s (independent of the precisions): get_cost = %r, feature counts of the summary() assignment summed over the layers = %r%s'
                            % (k, costs[k], rv, ' (some layers have pruned 0-bit channels)' if c['mode'] == 'chan0' else '')))
    ds = c.get('dwsel')
    if ds and ds['variant'] == 'prod-prunes' and 'costs2' in o:
        # only the depthwise layer's bits changed (a -> b, all its channels kept): every other layer's cost
        # term is untouched, so the difference must be exactly (its own weights / MACs) x delta bits
        ent = o['layers'][str(ds['dw'])]
        s1, s2 = ent['summary'], o['summary2'][str(ds['dw'])]
        C = ent['geom'][1]
        pa, pb_ = c['wp'][ds['a']], c['wp'][ds['b']]
        others_same = all(o['summary2'][i] == v['summary'] for i, v in o['layers'].items() if i != str(ds['dw']))
        if s1['w_precision'] == [pa] * C and s2['w_precision'] == [pb_] * C and others_same:
            kk, hw2 = ent['geom'][2] * ent['geom'][3], ent['geom'][4] * ent['geom'][5]
            for k, name, exp in (('pb', 'params_bit', kk * C * (pb_ - pa)), ('ob', 'ops_bit', kk * C * (pb_ - pa) * hw2 * s1['in_precision'])):
                got = o['costs2'][k] - costs[k]
                if isinstance(costs[k], float) and abs(got - exp) > 1e-5 * max(1.0, abs(exp), abs(costs[k])):
                    out.append(('cost-difference-not-weights-x-delta-bits:depthwise-own-selector:' + name,
                                '%s: depthwise layer node %d (%d channels, all kept; its producer keeps %d) changes from %d to %d bits: get_cost changes by %r, its own weights%s x delta bits = %r'
                                % (name, ds['dw'], C, C - len(ds['pruned']), pa, pb_, got, '' if k == 'pb' else ' (MACs) x input bits', exp)))
        else:
            out.append(('harness:dwsel-selection-not-as-set', 'summary() does not show the selection the case set: %r / %r' % (s1, s2)))
    if ds:
        # own-selector stream: a consumer shown something else than the channels surviving BOTH the depthwise layer
        # and its producer is one call site (own key); totals are then consequences and not reported separately
        bad = [w for k, w in out if k.startswith('spec-keys:') and k.endswith(('in_channels', 'in_features')) and not k.startswith('spec-keys:dw')]
        if bad:
            out = [(k, w) for k, w in out if k.startswith('cost-difference')] + \
                  [(DWSEL_KEY, bad[0] + ' [depthwise layer with its own weight selector (disable_shared_quantizers=True): %s]' % ds['variant'])]
    if not c.get('dwsel'):
        for rd in o.get('rounds', []):
            # same model, still in eval under no_grad, next assignment: the cost after the forward is the exact cost of the CURRENT one
            o_r = dict(o, costs=rd['costs'], rounds=[], shown_in=[], shown_out=[],
                       layers={i: dict(ent, summary=rd['summary'][i]) for i, ent in o['layers'].items()})
            for k, w in oracle(c, o_r):
                if k == KNOWN_SCALED:
                    out.append((k, w))
                elif k.startswith('cost-not-exact'):
                    out.append((k + ':re-assignment-in-eval-no-grad', 'assignment no. %d on the same model (coefficients written via %s, cost also read before the forward = %r): %s' % (rd['round'] + 1, rd['how'], rd['before'], w)))
    seen = set()
    return [(k, w) for k, w in out if not (k in seen or seen.add(k))]


TYPES = {'conv': 'LConv', 'dw': 'LDw', 'lin': 'LLin'}


def model_exprs(c, o, fixed):
    """Coq expressions of one case: `run_net` (Model/MpsCostNet.v: feature propagation over the IR + sum of the
    layer costs; totals of params_bit, ops_bit, probe_in, probe_out) fed with the IR, the static geometry and the
    implementation's sampled coefficient vectors / matrices of every layer; LUT specs: one `run_table` per layer."""
    nodes = c['nodes']
    ex, tags = [], []
    lays = []
    shp = G.shapes(nodes)
    dim_ = nodes[0].get('dim', 2)
    q = lambda l: coq([Fraction(v) for v in l])
    for i, nd in enumerate(nodes):
        reused = nd['k'] == 'reuse'
        ent = o['layers'].get(str(nd['of'] if reused else i))
        if ent is None:
            lays.append('no_lay')
            continue
        pc = isinstance(ent['tw'][0], list)
        th = [[Fraction(v) for v in row] for row in ent['tw']] if pc else []
        tw = [] if pc else [Fraction(v) for v in ent['tw']]
        z = some(Nat(ent['zero'])) if (pc and ent['zero'] is not None) else None
        geom = ent['geom'][2:4] + ([1, 1] if ent['type'] == 'lin' else [shp[i][1], shp[i][1] if dim_ == 2 else 1])
        lays.append('(mkLay %s %s %s %s %s %s %s %s %s)' % (q(geom), q(ent['pin']), q(ent['tin']), q(ent['pw']), coq(pc), coq(tw), coq(th), coq(z), coq(reused)))
    for sk, per in o.get('tabs', {}).items():
        for site, i in o['sites']:
            ent = o['layers'][str(i)]
            ex.append('run_table %s %s %s' % (coq([[Fraction(v) for v in row] for row in per[str(site)]]), q(ent['tin']), q(ent['tw'])))
            tags.append(sk)
    ex.append('run_net false %s [%s]' % (coq(G.coq_ir(nodes)), '; '.join(lays)))
    tags.append('net')
    return ex, tags


def run(ctx):
    gen_rejected = c05_gen.regenerate(ctx)
    built = ctx.build()
    ctx.extra['generated_model'] = c05_gen.status(gen_rejected, built)
    ctx.rule = ('grammar networks of vlib/mps_gen.py x search mode {per-layer (1/2), per-channel, per-channel with 0-bit (1/3)} x precision tuples from {2,4,8} (+0), any order x random alpha with arg-max margin '
                'x temperature in [0.05,20] x gumbel/hard/disable_shared_quantizers flags x phase {eval, training with hard non-Gumbel sampling} x mode of the wrapped network at construction {eval, train, eval and the wrapper then used as returned without any .eval()/.train() call} x qinfo {default, + layer-specific entries named after depthwise layers / residual addends inside a sharing group} x 0-3 further assignments on the same eval model under no_grad (coefficients written through .data / in place, cost read before and after the forward) x cost specification {given at construction, re-assigned through the cost_specification setter: single -> dict, dict -> dict with the names re-bound / permuted} x tracing input {input_shape, input_example of batch 1..4: costs are per inference}; NE16 cases: activations (8,), kernels {1,3}. '
                'separate streams: (r) one conv (c->c) / linear (h->h) module invoked twice, at the same or (after pooling) another resolution: per-invocation specs compared per call site; (a) pruned depthwise layer in the network-input group (open finding, own key); (b) disable_shared_quantizers=True x per-channel 0-bit x chain conv -> depthwise (Conv1d and Conv2d) where the producer prunes channels the depthwise layer keeps (cost DIFFERENCE when only the depthwise bits change must be own weights x delta bits) or vice versa. '
                'one case = one network with one coefficient assignment, 5-6 cost specs; distinct by (architecture, mode, precisions, selected assignment); non-trivial = some layer has >= 2 candidate weight precisions')
    n = 240 if ctx.quick else 2400
    cases = []
    for f in sorted(glob.glob(os.path.join(VERIF, 'corpus', 'C05', '*.json'))):
        try:
            cc = json.load(open(f))
            cases.append(dict(cc.get('case', cc), corpus=os.path.basename(f)))
        except Exception:
            ctx.notes.append('unreadable corpus file ' + f)
    for i in range(n):
        cases.append(gen_case(ctx.rng, i))
    for i in range(8 if ctx.quick else 40):
        cases.append(gen_case(ctx.rng, n + i, dwin=True))
    for i in range(24 if ctx.quick else 200):
        cases.append(gen_dwsel(ctx.rng, n + 100 + i))
    for i in range(30 if ctx.quick else 250):
        cases.append(gen_case(ctx.rng, n + 400 + i, reuse=True))
    with ProcessPoolExecutor(min(NPROC, 8), mp_context=mp.get_context('fork')) as ex:
        obs = list(ex.map(run_case, cases, chunksize=8))

    fails = []
    pruned_cases = 0
    for c, o in zip(cases, obs):
        kinds = [nd['k'] for nd in c['nodes']]
        sel = tuple((k, json.dumps(v['summary'], sort_keys=True)) for k, v in sorted(o.get('layers', {}).items()))
        key = (tuple(json.dumps(nd, sort_keys=True) for nd in c['nodes']), c['mode'], tuple(c['ap']), tuple(c['wp']), sel)
        ctx.case(key, nontrivial=len(c['wp']) > 1, kind='exc' if o['exc'] else c['mode'] + ':' + c['phase'],
                 sample={'nodes': kinds, 'mode': c['mode'], 'phase': c['phase'], 'ap': c['ap'], 'wp': c['wp'], 'T': c['T'], 'costs': o.get('costs')})
        ctx.dist['ne16:%s' % c['ne16']] += 1
        ctx.dist['handed-in:%s' % c.get('handin', 'eval')] += 1
        if c.get('qlayers'):
            ctx.dist['layer-specific-qinfo-entries'] += 1
        ctx.dist['re-assignments-in-eval:%d' % len(o.get('rounds', []))] += 1
        ctx.dist['cost-spec:%s' % (c.get('respec') or 'at-construction')] += 1
        ctx.dist['tracing:%s' % ('input_shape' if not c.get('batch') else 'input_example-batch-%d' % c['batch'])] += 1
        if G.has_reuse(c['nodes']):
            ctx.dist['layer-invoked-twice'] += 1
        if c.get('dwsel'):
            ctx.dist['dwsel:%s:%dd' % (c['dwsel']['variant'], c['nodes'][0].get('dim', 2))] += 1
        if c['mode'] == 'chan0' and not o['exc']:
            if any(isinstance(v['summary']['w_precision'], list) and 0 in v['summary']['w_precision'] for v in o['layers'].values()):
                pruned_cases += 1
        for key_, what in oracle(c, o):
            fails.append((key_, what, c, o))
    ctx.extra['cases_with_pruned_channels'] = pruned_cases
    for key_, what, c, o in fails:
        ctx.violation(key_, {'case': c, 'observed': {k: v for k, v in o.items() if k != 'tb'}, 'requires': 'get_cost == exact bit cost of the summary() assignment; cost functions shown effective features under the PyTorch names of the layer type'}, what)
    fixed = not any(k.startswith('spec-keys:linear') for k, _, _, _ in fails)
    ctx.extra['modified_vars_model'] = 'repaired (in_features/out_features for Linear)' if fixed else 'unchanged (in_channels/out_channels for Linear)'

    # ---------------- model in Coq
    mism = []
    model_ok = built
    if built:
        try:
            good = [(c, o) for c, o in zip(cases, obs) if not o['exc']]
            allex, owner = [], []
            for k, (c, o) in enumerate(good):
                ex, tags = model_exprs(c, o, fixed)
                allex += ex
                owner += [(k, t) for t in tags]
            vals = ctx.coq_eval_sharded('cases', ['Plinio.Model.MpsNet', 'Plinio.Model.MpsCost', 'Plinio.Model.MpsCostNet'], 'Open Scope Q_scope.\n', allex, shard=150)
            gex, gidx = c05_gen.gen_exprs(good, allex, owner)     # the run_net cases, run by the model GENERATED from the source on this run
            gvals = ctx.coq_eval_sharded('gcases', c05_gen.IMPORTS, 'Open Scope Q_scope.\n', gex, shard=150)
            mism += c05_gen.differences(ctx, good, owner, gidx, vals, gvals)
            sums = {}
            for (k, t), v in zip(owner, vals):
                if t == 'net':
                    for t2, (a, b) in zip(('pb', 'ob', 'probe_in', 'probe_out'), v):
                        sums[(k, t2)] = Fraction(a, b)
                    sums[(k, 'probe_mix')] = sums[(k, 'probe_in')] + 1000 * sums[(k, 'probe_out')]
                else:
                    sums[(k, t)] = sums.get((k, t), Fraction(0)) + Fraction(v[0], v[1])
            for (k, t), mv in sorted(sums.items()):
                c, o = good[k]
                iv = o['costs'].get(t)
                ctx.corr += 1
                if not isinstance(iv, float) or not close(iv, mv, 2.0 ** -16 if t in ('mpic', 'ne16') else 2.0 ** -20):
                    mism.append(('%s: implementation %r, model %r' % (t, iv, float(mv)), c, o))
        except RuntimeError as e:
            model_ok = False
            ctx.notes.append('model evaluation failed: ' + str(e)[-800:])
    ctx.extra['model_impl_mismatches'] = len(mism)
    ctx.assumptions += ['network-level model: effective feature propagation and the sum over layers are evaluated inside Coq (Model/MpsCostNet.v run_net) on the IR + the sampled coefficients of every layer; the harness only transcribes them',
                        'mpic_latency / ne16_latency enter the model as cost tables computed by the specs\' own functions (the theorem C05_mps_cost_onehot holds for every cost function)',
                        'float32 cost accumulation compared within 2^-20 relative (2^-16 for the LUT models)',
                        'per-channel search with 0-bit: residual add with the network input in the same sharing group is not generated']

    if not ctx.violations:      # known (open) findings are always hit here: they must not hide a broken proof / model
        if c05_gen.report(ctx, gen_rejected, built):
            pass
        elif not built:
            ctx.violation('proof-broken', {'theorems': [o_[0] for o_ in ctx.obligations if not o_[1]], 'log': getattr(ctx, 'broken_log', '')[-3000:]}, 'Props/C05.v no longer checks', no_input=True)
        elif not model_ok:
            ctx.violation('model-eval-broken', {'notes': ctx.notes}, 'the model could not be evaluated', no_input=True)
    if not ctx.violations and model_ok and built and mism:
        what, c, o = mism[0]
        ctx.violation('correspondence-broken', {'what': what, 'case': c, 'observed': {k: v for k, v in o.items() if k != 'tb'}, 'n_mismatches': len(mism), 'correspondence': 'Model/MpsCost.v vs MPS.get_cost'},
                      'model and implementation disagree on %d totals (first: %s) but the property oracle found no failing input' % (len(mism), what), no_input=True)


def replay(r):
    c = r.get('case')
    if not c:
        print(json.dumps(r, indent=1)[:3000])
        print('no concrete input in this replay file (%s)' % r.get('key'))
        return 1
    o = run_case(c)
    print('network:', [nd['k'] for nd in c['nodes']])
    print('network handed to MPS() in mode:', c.get('handin', 'eval'))
    print('cost specification:', c.get('respec') or 'given at construction', '| tracing input:', 'input_shape' if not c.get('batch') else 'input_example with batch %d' % c['batch'])
    print('mode', c['mode'], 'phase', c['phase'], 'activation precisions', c['ap'], 'weight precisions', c['wp'], 'T', c['T'])
    print('property requires: get_cost == exact bit cost of the assignment summary() reports; cost functions shown effective feature counts under in_channels/out_channels (conv) resp. in_features/out_features (linear)')
    if o['exc']:
        print('observed:', o['exc'])
        print(o.get('tb', ''))
    else:
        tot, feats = expected(c, o)
        print('observed costs:', o['costs'])
        print('exact: params_bit %s ops_bit %s; effective (in,out) features per layer node: %s' % (tot['pb'], tot['ob'], feats))
        for i, ent in sorted(o['layers'].items(), key=lambda t: int(t[0])):
            print('  node %s %-12s %s summary %s' % (i, ent['name'], ent['type'], ent['summary']))
        print('  shown (in probe):', [(kd, node, {k: v for k, v in sh.items() if v is not None}) for (w, kd, node, sh) in o.get('shown_in', [])][:12])
    fails = oracle(c, o)
    for k, w in fails:
        print('FAILS', k, '-', w)
    print('property holds on this input' if not fails else 'property violated on this input')
    return 0 if not fails else 1
