"""Translator: the SuperNet cost composition  ->  coq/Gen/SnCostGen.v   (C06)

Reads, with `ast`, the SOURCE of
  plinio/methods/supernet/nn/combiner.py   SuperNetCombiner.get_cost                      -> comb_get_cost_gen
                                           SuperNetCombiner.best_layer_index              -> comb_best_layer_index_gen
  plinio/methods/supernet/supernet.py      SuperNet._get_single_cost                      -> sn_get_single_cost_gen
                                           SuperNet._single_cost_fn_map                   -> sn_single_cost_fn_map_gen
                                           SuperNet.__init__                              -> sn_init_gen
                                           SuperNet.cost_specification (setter)           -> sn_set_cost_specification_gen
  plinio/methods/dnas_base/dnas.py         DNAS.get_cost                                  -> dnas_get_cost_gen
                                           DNAS.cost (property)                           -> dnas_cost_gen
                                           DNAS._create_cost_fn_map                       -> dnas_create_cost_fn_map_gen
                                           DNAS.__init__                                  -> dnas_init_gen
of the tree under test and emits Gallina definitions that follow the code statement by statement over a fixed vocabulary
(HEADER below) built on Model/SuperNet.v.  Proofs/SnCostGen.v proves: for every network, every cost specification (one
CostSpec or a dictionary of them), every later re-assignment of `full_cost` / `cost_specification`, every value of the
coefficients at the time of the call,   get_cost(name) == sn_cost <functions of that spec> <its shared flag> <full_cost now> theta.

How the code is read (TRUSTED conventions)
  * a leaf tuple `(lname, node, layer)` of `_leaf_modules` / `_unique_leaf_modules`:
      lname : gname = (id, tag)   the qualified name; tag 0 = a layer outside the choice blocks, 1 = a combiner, 2 = a layer inside
                                  a branch.  `'sn_branches' in str(node.target)` is `tag = 2` of the node's target (the name of a
                                  module that lives inside SuperNetModule.sn_branches contains that string and no other does);
                                  the tuple component `lname` is only usable as a dictionary key.
      node  : gnode               its target (= lname, as named_leaf_modules builds the tuple) and WHICH call of the module this
                                  node is (`n_site`); shapes_dict(node) depends on the node only through that call site.
      layer : glayer              `LComb c` for a SuperNetCombiner (isinstance(layer, SuperNetCombiner)), `LPlain id` otherwise;
                                  inside the combiner's own lists every layer is plain (bleaf).
    WHICH tuples the lists hold for a network of the IR (graph.py: convert / named_leaf_modules / uniquify_leaf_modules /
    link_combiners_to_branches) is the FIXED glue `convert_import` of the footer; those functions are pinned by an AST digest.
  * numbers: torch.tensor(0, dtype=torch.float32) is 0 : Q, float32 `+` / `*` are the rational ones (the differential run
    compares within 2^-18).  `self.theta_alpha[i]` is `nth i (theta (c_bid self)) 0` where `theta` -- a parameter of every
    generated function -- is the value of the attribute theta_alpha of each combiner AT THE TIME OF THE CALL (who writes it:
    the samplers, translated by translator/sampler2coq.py whose structural checks are re-run here).
    `range(self.n_branches)` is `seq 0 (c_nbr self)`; `xs[i]` on a list is `nth i xs <empty / 0>` (the glue gives
    c_nbr = number of branches = number of branch lists; an IndexError is not modelled).
  * cost functions: `c[(type(layer), vars(layer))]` is `spec_get c (t, v)` = FSpec (id of c) (layer whose type) (layer whose
    attributes); `cost_fn_map[lname]` is `fm_get` (an absent key reads FKeyError);  `f(v)` with `v = vars(layer);
    v.update(shapes_dict(node))` is `call_fn costv f v` = costv c t vl (layer whose attributes are passed) (call site) for an
    ARBITRARY `costv` -- 0 for FKeyError or when the output shape was not put into `v` (the hand model's `cost i s` is
    `costv c i i i s`: the function the specification selects for module i, applied to module i at site s; any mix-up of names
    breaks the equality).  vars(layer) is read as a fresh value: that `v.update` also writes `output_shape` into the
    module's own __dict__ is not modelled.  CostSpec.__getitem__ itself: translator/costspec2coq.py (C15).
  * the SuperNet object `self` : gsn = (cost specification: one CostSpec `CSingle c` or a dict `CDict [(name, c)]`, insertion
    ordered, keys distinct (`cs_wf`); the cost-function maps `MSingle m` / `MDict [(name, m)]`; full_cost; the two leaf lists).
    `isinstance(self._cost_specification, dict)` / `(…, CostSpec)` discriminates the two forms.  DNAS.get_cost returns
    `option Q`: None = the assertion / the dictionary lookup fails (or a map of the wrong form is used as a dictionary).
    `self.x = e` is `with_x self e`; `super(SuperNet, self).__init__(model, cost, input_example, input_shape)` is
    `dnas_init_gen self cost`; the tuple assignment from `convert(model, self._input_example, 'import')` is `with_leaves`.
    `sn.full_cost = b` from outside is `with_full` (full_cost is a plain attribute: no property of that name may exist).
  * Python names are kept (prefixed with l_ when they collide with the vocabulary).

Fail closed: anything outside this subset raises Reject -- no numeric comparison, no `continue` / `break` / `while` / `try`,
no other attribute of `self`, no other call.  Loops are `for pattern in <range | leaf list | dict.items()>` with exactly one
variable carried from one iteration to the next.  The wiring around the translated functions is checked structurally: the
classes of each module and the methods of each class are fixed lists (an unknown method -> Reject); every method that is not
translated must be READ-ONLY on the attributes the model tracks (`_cost_specification`, `_cost_fn_map`, `full_cost`,
`_leaf_modules`, `_unique_leaf_modules`, and for the combiner `_unique_leaf_modules`, `n_branches`): no store, no in-place
list / dict method, no setattr / vars(self) / __dict__; the getters, DNAS's own setter, `set_sn_branch` and the statements of
the constructors that are not translated are compared with fixed texts; `DNAS._preserve_state` and the graph.py /
inspection.py functions behind the glue are pinned by digest; the imports that give `SuperNetCombiner`, `DNAS`, `convert`,
`shapes_dict`, `cast`, `CostSpec`, `torch` their meaning are checked; the sampler side of combiner.py / supernet.py is
checked by re-running translator/sampler2coq.py's `translate_comb` (its refusals are refusals here).
"""
import ast
import hashlib
import os
import re

try:
    from translator import sampler2coq
except ImportError:                                   # run as a script from translator/
    import sampler2coq


class Reject(Exception):
    pass


def _u(n):
    return ast.unparse(n)


def _strip(stmts):
    return [s for s in stmts if not (isinstance(s, ast.Expr) and isinstance(s.value, ast.Constant) and isinstance(s.value.value, str))
            and not isinstance(s, ast.Pass)]


def digest(fn):
    """AST digest of a function, docstrings excluded (comments and layout are not in the AST)"""
    fn = ast.parse(ast.unparse(fn)).body[0]
    for x in ast.walk(fn):
        if isinstance(x, (ast.FunctionDef, ast.ClassDef)):
            x.body = _strip(x.body) or [ast.Pass()]
    return hashlib.sha256(ast.dump(fn).encode()).hexdigest()[:16]


def _attr_chain(n):
    parts = []
    while isinstance(n, ast.Attribute):
        parts.append(n.attr)
        n = n.value
    if isinstance(n, ast.Name):
        parts.append(n.id)
        return '.'.join(reversed(parts))
    return None


def _is_self_attr(n, attr=None):
    return isinstance(n, ast.Attribute) and isinstance(n.value, ast.Name) and n.value.id == 'self' and (attr is None or n.attr == attr)


# Coq identifiers a Python local must not capture
RESERVED = set('''costv theta self it fst snd nth seq map fold_left length app rev filter negb andb orb true false Some None
    if then else let in fun match with end as return forall exists fix cofix at using where Type Prop Set
    fm_set fm_get zd_set zd_find vars_of_plain type_of_plain shapes_dict v_update spec_get call_fn name_in_branches
    gname gnode gvars gfn gspec bleaf gcomb glayer gleaf fnmap gcs gmaps gsn mkNode mkV mkSpec mkComb mkSn
    n_target n_site v_layer v_shape sp_id sp_shared c_bid c_nbr c_ulm sn_spec sn_maps sn_full sn_lm sn_ulm
    with_spec with_maps with_full with_leaves FSpec FKeyError LPlain LComb CSingle CDict MSingle MDict
    argmax Q Z nat bool list option cs_d cs_c fm_d'''.split())


def cname(py):
    if not re.fullmatch(r'[A-Za-z_][A-Za-z0-9_]*', py) or py.startswith('l_') or py.endswith('_gen') or py.endswith('_c') or py.endswith('_p') or py.endswith('_v'):
        raise Reject('local name %s is not usable' % py)
    if py == '_':
        return '_'
    return 'l_' + py if (py in RESERVED or py[0].isupper()) else py


ELEM = {'BLeaves': ('bleaf', ['LName', 'Node', 'PLayer']), 'Leaves': ('gleaf', ['LName', 'Node', 'Layer']), 'SpecItems': ('Z * gspec', ['Metric', 'Spec'])}
ZERO_OF = {'BLeavesList': '[]', 'QList': '0'}
ELEM_OF = {'BLeavesList': 'BLeaves', 'QList': 'Q'}


class Tr:
    """translation of one function body.  kind: 'comb' (self : gcomb) | 'sn' (self : gsn);  monad: the value is option Q"""

    def __init__(self, kind, ret, monad=False):
        self.kind, self.ret, self.monad = kind, ret, monad

    # ------------------------------------------------------------------ expressions
    def expr(self, n, env):
        """-> (type, Coq term)"""
        if isinstance(n, ast.Name):
            if n.id in env:
                return env[n.id]
            raise Reject('unknown name %s' % n.id)
        if self._is_zero(n):
            return 'Q', '0'
        if isinstance(n, ast.Dict) and not n.keys:
            return 'EmptyDict', '[]'
        if isinstance(n, ast.BinOp) and isinstance(n.op, (ast.Add, ast.Mult)):
            (ta, a), (tb, b) = self.expr(n.left, env), self.expr(n.right, env)
            if ta == tb == 'Q':
                return 'Q', '(%s %s %s)' % (a, '+' if isinstance(n.op, ast.Add) else '*', b)
            raise Reject('arithmetic on %s, %s: %s' % (ta, tb, _u(n)[:120]))
        if isinstance(n, ast.IfExp):
            t = self.test(n.test, env)
            (ta, a), (tb, b) = self.expr(n.body, env), self.expr(n.orelse, env)
            if ta != tb:
                raise Reject('conditional expression of two types: ' + _u(n)[:120])
            return ta, '(if %s then %s else %s)' % (t, a, b)
        if isinstance(n, ast.Attribute):
            if _is_self_attr(n, '_cost_specification') and self.kind == 'sn' and env.get('@spec', (None,))[0] == 'Spec':
                return env['@spec']                         # inside the CostSpec side of an isinstance test
            if _is_self_attr(n):
                return self.self_attr(n.attr)
            ty, v = self.expr(n.value, env)
            if ty == 'Spec' and n.attr == 'shared':
                return 'B', '(sp_shared %s)' % v
            raise Reject('attribute not in the subset: ' + _u(n)[:120])
        if isinstance(n, ast.Subscript):
            tb, b = self.expr(n.value, env)
            if tb in ELEM_OF:
                ti, i = self.expr(n.slice, env)
                if ti != 'N':
                    raise Reject('index is not the loop counter: ' + _u(n)[:120])
                return ELEM_OF[tb], '(nth %s %s %s)' % (i, b, ZERO_OF[tb])
            if tb == 'FnMap':
                tk, k = self.expr(n.slice, env)
                if tk != 'LName':
                    raise Reject('key of a cost-function map is not the name component of a leaf tuple: ' + _u(n)[:120])
                return 'Fn', '(fm_get %s %s)' % (b, k)
            if tb == 'Spec':
                k = n.slice
                if isinstance(k, ast.Tuple) and len(k.elts) == 2:
                    (t1, a1), (t2, a2) = self.expr(k.elts[0], env), self.expr(k.elts[1], env)
                    if (t1, t2) == ('Ty', 'V'):
                        return 'Fn', '(spec_get %s (%s, %s))' % (b, a1, a2)
                raise Reject('CostSpec lookup key is not (type(layer), vars(layer)): ' + _u(n)[:120])
            raise Reject('subscript not in the subset: ' + _u(n)[:120])
        if isinstance(n, ast.Call):
            return self.call(n, env)
        if isinstance(n, (ast.Compare, ast.BoolOp)) or (isinstance(n, ast.UnaryOp) and isinstance(n.op, ast.Not)):
            return 'B', self.test(n, env)
        raise Reject('expression not in the subset: ' + _u(n)[:160])

    @staticmethod
    def _is_zero(n):
        """torch.tensor(0, dtype=torch.float32) | torch.tensor(0.0) | torch.zeros(()) ... : the float32 scalar 0"""
        if isinstance(n, ast.Call) and _attr_chain(n.func) == 'torch.tensor' and 1 <= len(n.args) <= 1:
            a = n.args[0]
            if isinstance(a, ast.Constant) and type(a.value) in (int, float) and a.value == 0:
                for k in n.keywords:
                    if k.arg != 'dtype' or _attr_chain(k.value) not in ('torch.float32', 'torch.float'):
                        return False
                return True
        return False

    def self_attr(self, a):
        if self.kind == 'comb':
            tab = {'n_branches': ('N', '(c_nbr self)'), '_unique_leaf_modules': ('BLeavesList', '(c_ulm self)'),
                   'theta_alpha': ('QList', '(theta (c_bid self))')}
        else:
            tab = {'_unique_leaf_modules': ('Leaves', '(sn_ulm self)'), '_leaf_modules': ('Leaves', '(sn_lm self)'),
                   'full_cost': ('B', '(sn_full self)')}
        if a in tab:
            return tab[a]
        raise Reject('self.%s is not readable here' % a)

    def call(self, n, env):
        f = n.func
        if n.keywords or any(isinstance(a, ast.Starred) for a in n.args):
            raise Reject('keyword / starred arguments: ' + _u(n)[:120])
        args = n.args
        if isinstance(f, ast.Name):
            if f.id == 'cast' and len(args) == 2:
                return self.expr(args[1], env)
            if f.id == 'range' and len(args) == 1:
                t, v = self.expr(args[0], env)
                if t == 'N':
                    return 'Range', '(seq 0 %s)' % v
            if f.id in ('vars', 'type') and len(args) == 1 and f.id not in env:
                t, v = self.expr(args[0], env)
                if t == 'PLayer':
                    return ('V', '(vars_of_plain %s)' % v) if f.id == 'vars' else ('Ty', '(type_of_plain %s)' % v)
                raise Reject('%s() of something that is not known to be a plain layer (no isinstance test before): %s' % (f.id, _u(n)[:120]))
            if f.id == 'shapes_dict' and len(args) == 1 and f.id not in env:
                t, v = self.expr(args[0], env)
                if t == 'Node':
                    return 'Shape', '(shapes_dict %s)' % v
            if f.id == 'str' and len(args) == 1 and isinstance(args[0], ast.Attribute) and args[0].attr == 'target' and f.id not in env:
                t, v = self.expr(args[0].value, env)
                if t == 'Node':
                    return 'Name', '(n_target %s)' % v
            if f.id in env and len(args) == 1:
                tf, fv = env[f.id]
                ta, av = self.expr(args[0], env)
                if (tf, ta) == ('Fn', 'V'):
                    return 'Q', '(call_fn costv %s %s)' % (fv, av)
            raise Reject('call not in the subset: ' + _u(n)[:120])
        if isinstance(f, ast.Attribute):
            if _is_self_attr(f, '_single_cost_fn_map') and self.kind == 'sn' and len(args) == 1:
                t, v = self.expr(args[0], env)
                if t == 'Spec':
                    return 'FnMap', '(sn_single_cost_fn_map_gen self %s)' % v
            if f.attr == 'get_cost' and self.kind == 'sn' and len(args) == 2 and not _is_self_attr(f):
                t0, v0 = self.expr(f.value, env)
                (t1, v1), (t2, v2) = self.expr(args[0], env), self.expr(args[1], env)
                if (t0, t1, t2) == ('Comb', 'Spec', 'FnMap'):
                    return 'Q', '(comb_get_cost_gen %s %s %s)' % (v0, v1, v2)
            raise Reject('call not in the subset: ' + _u(n)[:120])
        if isinstance(f, ast.Subscript) and len(args) == 1:                 # cost_fn_map[lname](v)
            tf, fv = self.expr(f, env)
            ta, av = self.expr(args[0], env)
            if (tf, ta) == ('Fn', 'V'):
                return 'Q', '(call_fn costv %s %s)' % (fv, av)
        raise Reject('call not in the subset: ' + _u(n)[:120])

    def test(self, n, env):
        if isinstance(n, ast.UnaryOp) and isinstance(n.op, ast.Not):
            return '(negb %s)' % self.test(n.operand, env)
        if isinstance(n, ast.BoolOp):
            op = 'andb' if isinstance(n.op, ast.And) else 'orb'
            out = self.test(n.values[0], env)
            for v in n.values[1:]:
                out = '(%s %s %s)' % (op, out, self.test(v, env))       # the operands have no effect and cannot fail: lazy = strict
            return out
        if isinstance(n, ast.Compare) and len(n.ops) == 1 and isinstance(n.ops[0], (ast.In, ast.NotIn)) \
                and isinstance(n.left, ast.Constant) and n.left.value == 'sn_branches':
            t, v = self.expr(n.comparators[0], env)
            if t == 'Name':
                r = '(name_in_branches %s)' % v
                return r if isinstance(n.ops[0], ast.In) else '(negb %s)' % r
        if isinstance(n, (ast.Name, ast.Attribute, ast.IfExp)):
            t, v = self.expr(n, env)
            if t == 'B':
                return v
        raise Reject('test not in the subset: ' + _u(n)[:160])

    # ------------------------------------------------------------------ statements
    @staticmethod
    def assigned(stmts):
        out = []
        for s in stmts:
            for x in ast.walk(s):
                ts = x.targets if isinstance(x, ast.Assign) else [x.target] if isinstance(x, (ast.AugAssign, ast.AnnAssign, ast.For)) else []
                for t in ts:
                    while isinstance(t, (ast.Subscript, ast.Attribute)):          # d[k] = e changes d
                        t = t.value
                    for y in ast.walk(t):
                        if isinstance(y, ast.Name) and y.id not in out:
                            out.append(y.id)
                if isinstance(x, ast.Expr) and isinstance(x.value, ast.Call) and isinstance(x.value.func, ast.Attribute) \
                        and isinstance(x.value.func.value, ast.Name) and x.value.func.attr == 'update' and x.value.func.value.id not in out:
                    out.append(x.value.func.value.id)
        return out

    def isinst(self, n, env):
        """`isinstance(x, SuperNetCombiner)` on a leaf layer / `isinstance(self._cost_specification, dict | CostSpec)`
        -> (what, positive) ; what = ('layer', x) | ('spec', 'dict' | 'single')"""
        pos = True
        while isinstance(n, ast.UnaryOp) and isinstance(n.op, ast.Not):
            n, pos = n.operand, not pos
        if isinstance(n, ast.Call) and isinstance(n.func, ast.Name) and n.func.id == 'isinstance' and len(n.args) == 2 and not n.keywords \
                and isinstance(n.args[1], ast.Name) and 'isinstance' not in env:
            x, cl = n.args
            if isinstance(x, ast.Name) and cl.id == 'SuperNetCombiner' and x.id in env and env[x.id][0] == 'Layer':
                return ('layer', x.id), pos
            if _is_self_attr(x, '_cost_specification') and self.kind == 'sn' and cl.id in ('dict', 'CostSpec'):
                return ('spec', 'dict' if cl.id == 'dict' else 'single'), pos
        return None, pos

    def wrap_ret(self, ty, v):
        if self.ret == 'Q' and ty == 'Q':
            return v
        if self.ret == 'OQ' and ty == 'Q':
            return 'Some %s' % v
        if self.ret == 'FnMap' and ty in ('FnMap', 'EmptyDict'):
            return v
        if self.ret == 'Maps' and ty == 'FnMap':
            return 'MSingle %s' % v
        if self.ret == 'Maps' and ty in ('DictFnMap', 'EmptyDict'):
            return 'MDict %s' % v
        raise Reject('the function returns a %s where a %s is expected' % (ty, self.ret))

    def spec_read(self, n, env):
        """self._cost_specification / self._cost_fn_map [ [name] ] read as a value
        -> (type, pattern builder(K) -> text) or None"""
        none = 'None' if self.monad else None
        key = None
        if isinstance(n, ast.Subscript) and (_is_self_attr(n.value, '_cost_specification') or _is_self_attr(n.value, '_cost_fn_map')):
            tk, key = self.expr(n.slice, env)
            if tk != 'Metric':
                raise Reject('the key is not known to be a metric name (no `is None` test before): ' + _u(n)[:120])
            n = n.value
        if not (_is_self_attr(n, '_cost_specification') or _is_self_attr(n, '_cost_fn_map')) or self.kind != 'sn':
            return None
        is_spec = n.attr == '_cost_specification'
        nar = env.get('@spec')
        if is_spec and nar is not None:                      # inside `if isinstance(self._cost_specification, ...)`
            if key is None and nar[0] == 'Spec':
                return 'Spec', nar[1], None
            if key is not None and nar[0] == 'SpecItems' and none is not None:
                return 'Spec', None, lambda x, K, pad: 'match zd_find %s %s with Some %s =>\n%s\n%s| None => None end' % (nar[1], key, x, K, pad)
            raise Reject('self._cost_specification used as another form than the isinstance test established: ' + _u(n)[:120])
        if none is None:
            raise Reject('%s read outside get_cost / an isinstance test' % _u(n))
        ty = 'Spec' if is_spec else 'FnMap'
        field, one, many, dv = ('sn_spec', 'CSingle', 'CDict', 'cs_d') if is_spec else ('sn_maps', 'MSingle', 'MDict', 'fm_d')
        if key is None:
            return ty, None, lambda x, K, pad: 'match %s self with %s %s =>\n%s\n%s| _ => None end' % (field, one, x, K, pad)
        return ty, None, lambda x, K, pad: 'match %s self with %s %s => match zd_find %s %s with Some %s =>\n%s\n%s| None => None end | _ => None end' % (field, many, dv, dv, key, x, K, pad)

    def block(self, stmts, env, ret, ind=1):
        """statement list -> Coq term; `ret(env)` is the term for falling off the end"""
        pad = '  ' * ind
        stmts = _strip(stmts)
        if not stmts:
            return pad + ret(env)
        s, rest = stmts[0], stmts[1:]
        if isinstance(s, ast.Return):
            if rest or s.value is None:
                raise Reject('return in the middle / without a value')
            if self.ret == 'OQ' and isinstance(s.value, ast.Call) and _is_self_attr(s.value.func, '_get_single_cost') and len(s.value.args) == 2 and not s.value.keywords:
                (t1, v1), (t2, v2) = self.expr(s.value.args[0], env), self.expr(s.value.args[1], env)
                if (t1, t2) != ('Spec', 'FnMap'):
                    raise Reject('_get_single_cost called with (%s, %s)' % (t1, t2))
                return pad + 'Some (sn_get_single_cost_gen self %s %s)' % (v1, v2)
            return pad + self.wrap_ret(*self.expr(s.value, env))
        if isinstance(s, ast.AugAssign) and isinstance(s.target, ast.Name) and isinstance(s.op, (ast.Add, ast.Mult)):
            s = ast.Assign(targets=[s.target], value=ast.BinOp(left=ast.Name(id=s.target.id, ctx=ast.Load()), op=s.op, right=s.value))
        if isinstance(s, ast.AnnAssign) and isinstance(s.target, ast.Name) and s.value is not None:
            s = ast.Assign(targets=[s.target], value=s.value)
        if isinstance(s, ast.Assign) and len(s.targets) == 1:
            t = s.targets[0]
            if isinstance(t, ast.Name):
                x = cname(t.id)
                sr = self.spec_read(s.value.args[1] if (isinstance(s.value, ast.Call) and isinstance(s.value.func, ast.Name) and s.value.func.id == 'cast'
                                                      and len(s.value.args) == 2 and not s.value.keywords) else s.value, env)
                if sr is not None:
                    ty, direct, build = sr
                    env2 = dict(env)
                    env2[t.id] = (ty, x)
                    if direct is not None:
                        return pad + 'let %s := %s in\n' % (x, direct) + self.block(rest, env2, ret, ind)
                    return pad + build(x, self.block(rest, env2, ret, ind), pad)
                ty, v = self.expr(s.value, env)
                if t.id in env and env[t.id][0] not in (ty, 'EmptyDict'):
                    raise Reject('%s changes type (%s -> %s)' % (t.id, env[t.id][0], ty))
                if ty in ('N', 'Range', 'Layer', 'Comb', 'Metric', 'OptMetric'):
                    raise Reject('assignment of a %s to a local' % ty)
                env2 = dict(env)
                env2[t.id] = (ty, x)
                return pad + 'let %s := %s in\n' % (x, v) + self.block(rest, env2, ret, ind)
            if isinstance(t, ast.Subscript) and isinstance(t.value, ast.Name) and t.value.id in env:       # d[k] = e
                d = t.value.id
                td, dv = env[d]
                (tk, k), (te, e) = self.expr(t.slice, env), self.expr(s.value, env)
                if td in ('EmptyDict', 'FnMap') and (tk, te) == ('LName', 'Fn'):
                    nt_, setter = 'FnMap', 'fm_set'
                elif td in ('EmptyDict', 'DictFnMap') and (tk, te) == ('Metric', 'FnMap'):
                    nt_, setter = 'DictFnMap', 'zd_set'
                else:
                    raise Reject('dictionary store not in the subset: ' + _u(s)[:120])
                env2 = dict(env)
                env2[d] = (nt_, dv)
                return pad + 'let %s := %s %s %s %s in\n' % (dv, setter, dv, k, e) + self.block(rest, env2, ret, ind)
            raise Reject('assignment not in the subset: ' + _u(s)[:160])
        if isinstance(s, ast.Expr) and isinstance(s.value, ast.Call):
            c = s.value
            if isinstance(c.func, ast.Attribute) and c.func.attr == 'update' and isinstance(c.func.value, ast.Name) and len(c.args) == 1 and not c.keywords \
                    and c.func.value.id in env and env[c.func.value.id][0] == 'V':
                ta, a = self.expr(c.args[0], env)
                if ta == 'Shape':
                    v = env[c.func.value.id][1]
                    return pad + 'let %s := v_update %s %s in\n' % (v, v, a) + self.block(rest, env, ret, ind)
            raise Reject('call statement not in the subset: ' + _u(s)[:160])
        if isinstance(s, ast.Assert):
            what, pos = self.isinst(s.test, env)
            if what is not None and what[0] == 'spec' and self.monad:
                form = what[1] if pos else ('single' if what[1] == 'dict' else 'dict')
                return (pad + 'match sn_spec self with %s _ =>\n' % ('CDict' if form == 'dict' else 'CSingle') + self.block(rest, env, ret, ind) +
                        '\n' + pad + '| _ => None end')
            raise Reject('assert not in the subset: ' + _u(s)[:160])
        if isinstance(s, ast.For):
            return self.loop(s, rest, env, ret, ind)
        if isinstance(s, ast.If):
            return self.cond(s, rest, env, ret, ind)
        raise Reject('statement not in the subset: ' + _u(s)[:160])

    def loop(self, s, rest, env, ret, ind):
        pad = '  ' * ind
        if s.orelse:
            raise Reject('for ... else')
        for x in ast.walk(s):
            if isinstance(x, (ast.Break, ast.Continue, ast.Return, ast.While, ast.Try, ast.With)):
                raise Reject('%s inside a loop' % type(x).__name__)
        # what is iterated
        it = s.iter
        if isinstance(it, ast.Call) and isinstance(it.func, ast.Attribute) and it.func.attr == 'items' and not it.args and not it.keywords \
                and _is_self_attr(it.func.value, '_cost_specification') and env.get('@spec', (None,))[0] == 'SpecItems':
            ti, iv = 'SpecItems', env['@spec'][1]
        else:
            ti, iv = self.expr(it, env)
        state = [v for v in self.assigned(s.body) if v in env]
        if len(state) != 1:
            raise Reject('a loop must carry exactly one variable from one iteration to the next (found %s)' % state)
        st = state[0]
        sty, sv = env[st]
        if sty not in ('Q', 'EmptyDict', 'FnMap', 'DictFnMap'):
            raise Reject('loop variable %s of type %s' % (st, sty))
        if ti == 'Range':
            if not isinstance(s.target, ast.Name) or s.target.id in env:
                raise Reject('loop target of range(): ' + _u(s.target))
            benv = dict(env)
            benv[s.target.id] = ('N', cname(s.target.id))
            head = 'fun %s %s =>' % (sv, cname(s.target.id))
        elif ti in ELEM:
            cty, comps = ELEM[ti]
            if not (isinstance(s.target, ast.Tuple) and len(s.target.elts) == len(comps) and all(isinstance(e, ast.Name) for e in s.target.elts)):
                raise Reject('loop target %s for a list of %s' % (_u(s.target), cty))
            benv = dict(env)
            names = []
            for e, k in zip(s.target.elts, comps):
                if e.id != '_':
                    if e.id in env or e.id in names:
                        raise Reject('loop target re-binds ' + e.id)
                    benv[e.id] = (k, cname(e.id))
                names.append(e.id)
            head = "fun %s (it : %s) => let '(%s) := it in" % (sv, cty, ', '.join(cname(x) for x in names))
        else:
            raise Reject('iteration over a %s: %s' % (ti, _u(it)[:120]))
        end = {}

        def body_ret(e):
            end['ty'] = e[st][0]
            return e[st][1]
        body = self.block(s.body, benv, body_ret, ind + 1)
        if end['ty'] != sty:
            if sty != 'EmptyDict':
                raise Reject('loop variable %s changes type' % st)
            benv[st] = (end['ty'], sv)
            body = self.block(s.body, benv, body_ret, ind + 1)
            if end['ty'] != benv[st][0]:
                raise Reject('loop variable %s changes type' % st)
        env2 = dict(env)
        env2[st] = (end['ty'], sv)
        return pad + 'let %s := fold_left (%s\n%s) %s %s in\n' % (sv, head, body, iv, sv) + self.block(rest, env2, ret, ind)

    def cond(self, s, rest, env, ret, ind):
        pad = '  ' * ind
        what, pos = self.isinst(s.test, env)
        a, b = (s.body, s.orelse) if pos else (s.orelse, s.body)
        if what is not None and what[0] == 'layer':
            x = what[1]
            xv = env[x][1]
            ea, eb = dict(env), dict(env)
            ea[x], eb[x] = ('Comb', xv + '_c'), ('PLayer', xv + '_p')
            heads = ('match %s with\n%s| LComb %s_c =>\n' % (xv, pad, xv), '\n%s| LPlain %s_p =>\n' % (pad, xv), '\n%send' % pad)
            envs = (ea, eb)
        elif what is not None and what[0] == 'spec':
            if env.get('@spec') is not None:
                raise Reject('nested isinstance tests on the cost specification')
            ea, eb = dict(env), dict(env)
            d_env, s_env = (ea, eb) if what[1] == 'dict' else (eb, ea)
            d_env['@spec'], s_env['@spec'] = ('SpecItems', 'cs_d'), ('Spec', 'cs_c')
            pa, pb = ('CDict cs_d', 'CSingle cs_c') if what[1] == 'dict' else ('CSingle cs_c', 'CDict cs_d')
            heads = ('match sn_spec self with\n%s| %s =>\n' % (pad, pa), '\n%s| %s =>\n' % (pad, pb), '\n%send' % pad)
            envs = (ea, eb)
        elif self._opt_test(s.test, env) is not None:
            x, is_none = self._opt_test(s.test, env)
            xv = env[x][1]
            a, b = (s.body, s.orelse) if is_none else (s.orelse, s.body)
            eb = dict(env)
            eb[x] = ('Metric', xv + '_v')
            heads = ('match %s with\n%s| None =>\n' % (xv, pad), '\n%s| Some %s_v =>\n' % (pad, xv), '\n%send' % pad)
            envs = (env, eb)
        else:
            a, b = s.body, s.orelse
            heads = ('if %s then\n' % self.test(s.test, env), '\n%selse\n' % pad, '')
            envs = (env, env)
        asg = self.assigned([s])
        new = [v for v in asg if v not in env]
        has_ret = any(isinstance(x, ast.Return) for x in ast.walk(s))
        if new or has_ret or self.monad:
            # a return / a local first bound inside: the statements that follow are copied into the branches that reach them
            def cont(x):
                x = _strip(list(x))
                return x if (x and isinstance(x[-1], ast.Return)) else x + rest
            return pad + heads[0] + self.block(cont(a), envs[0], ret, ind + 1) + heads[1] + self.block(cont(b), envs[1], ret, ind + 1) + heads[2]
        if len(asg) > 1:
            raise Reject('a conditional statement must change at most one variable (found %s)' % asg)
        if not asg:
            raise Reject('conditional statement without effect: ' + _u(s.test)[:100])
        st = asg[0]
        sv = env[st][1]
        ends = []

        def jret(e):
            ends.append(e[st][0])
            return e[st][1]
        ta = self.block(a, envs[0], jret, ind + 1)
        tb = self.block(b, envs[1], jret, ind + 1)
        tys = set(ends)
        if len(tys) == 2 and 'EmptyDict' in tys:
            tys.discard('EmptyDict')
        if len(tys) != 1:
            raise Reject('%s has two types after the conditional statement' % st)
        env2 = dict(env)
        env2[st] = (tys.pop(), sv)
        return pad + 'let %s := (%s%s%s%s%s) in\n' % (sv, heads[0].lstrip(), ta, heads[1], tb, heads[2]) + self.block(rest, env2, ret, ind)

    @staticmethod
    def _opt_test(n, env):
        """`name is None` -> (name, True) ; `name is not None` -> (name, False)"""
        if isinstance(n, ast.Compare) and len(n.ops) == 1 and isinstance(n.ops[0], (ast.Is, ast.IsNot)) and isinstance(n.left, ast.Name) \
                and isinstance(n.comparators[0], ast.Constant) and n.comparators[0].value is None \
                and n.left.id in env and env[n.left.id][0] == 'OptMetric':
            return n.left.id, isinstance(n.ops[0], ast.Is)
        return None


# ---------------------------------------------------------------------------------------------- structure
def _methods(cls):
    out = {}
    for m in _strip(cls.body):
        if not isinstance(m, ast.FunctionDef):
            raise Reject('class %s: class-level statement %s' % (cls.name, _u(m)[:100]))
        key = m.name
        decs = [_u(d) for d in m.decorator_list]
        if any(d.endswith('.setter') for d in decs):
            key = m.name + '.setter'
        if key in out:
            raise Reject('class %s defines %s twice' % (cls.name, key))
        out[key] = m
    return out


def _decs(fn, cname_, want):
    if [_u(d) for d in fn.decorator_list] != list(want):
        raise Reject('%s.%s: decorators %s (expected %s)' % (cname_, fn.name, [_u(d) for d in fn.decorator_list], list(want)))


def _sig(fn, cname_, want):
    """want: [(position, {accepted annotation texts})]; -> the parameter names"""
    a = fn.args
    if a.vararg or a.kwarg or a.kwonlyargs or a.posonlyargs:
        raise Reject('%s.%s: * / ** / keyword-only parameters' % (cname_, fn.name))
    ps = a.args
    if len(ps) != len(want) + 1 or ps[0].arg != 'self':
        raise Reject('%s.%s: parameters %s' % (cname_, fn.name, [p.arg for p in ps]))
    for p, anns in zip(ps[1:], want):
        ann = _u(p.annotation) if p.annotation is not None else ''
        if ann not in anns:
            raise Reject('%s.%s: parameter %s is annotated %r (expected one of %s)' % (cname_, fn.name, p.arg, ann, sorted(anns)))
        if p.arg == 'self':
            raise Reject('parameter named self')
    return [p.arg for p in ps[1:]]


SN_TRACKED = ('_cost_specification', '_cost_fn_map', 'full_cost', '_leaf_modules', '_unique_leaf_modules', 'cost_specification', '_single_cost_fn_map',
              '_create_cost_fn_map', '_get_single_cost', 'get_cost', 'cost')
COMB_TRACKED = ('_unique_leaf_modules', 'n_branches', 'get_cost')
MUTATORS = ('append', 'extend', 'insert', 'pop', 'remove', 'clear', 'sort', 'reverse', 'update', 'setdefault', 'popitem', '__setitem__', '__delitem__')


def readonly(fn, tracked, what):
    """a method the translator does not model must not change what the model tracks"""
    for x in ast.walk(fn):
        if isinstance(x, ast.Attribute) and isinstance(x.value, ast.Name) and x.value.id == 'self' and x.attr in tracked and isinstance(x.ctx, (ast.Store, ast.Del)):
            raise Reject('%s%s assigns self.%s' % (what, fn.name, x.attr))
        if isinstance(x, (ast.Subscript, ast.Attribute)) and isinstance(x.ctx, (ast.Store, ast.Del)):
            base = x.value
            while isinstance(base, (ast.Subscript, ast.Attribute)) and not _is_self_attr(base):
                base = base.value
            if _is_self_attr(base) and base.attr in tracked:
                raise Reject('%s%s writes into self.%s' % (what, fn.name, base.attr))
        if isinstance(x, ast.Call) and isinstance(x.func, ast.Attribute) and x.func.attr in MUTATORS:
            base = x.func.value
            while isinstance(base, (ast.Subscript, ast.Attribute, ast.Call)) and not _is_self_attr(base):
                base = base.func if isinstance(base, ast.Call) else base.value
            if _is_self_attr(base) and base.attr in tracked:
                raise Reject('%s%s: in-place %s on self.%s' % (what, fn.name, x.func.attr, base.attr))
        if isinstance(x, ast.Call) and isinstance(x.func, ast.Name) and x.func.id in ('setattr', 'delattr', 'vars', 'exec', 'eval', 'globals', 'locals'):
            if x.func.id not in ('vars',) or any(isinstance(a, ast.Name) and a.id == 'self' for a in x.args):
                raise Reject('%s%s calls %s' % (what, fn.name, x.func.id))
        if isinstance(x, ast.Attribute) and (x.attr in ('__dict__', '__setattr__', '__getattribute__', '__getattr__') or
                                             (x.attr == '__class__' and not isinstance(x.ctx, ast.Load))):
            raise Reject('%s%s uses %s' % (what, fn.name, x.attr))
        if isinstance(x, (ast.Global, ast.Nonlocal)):
            raise Reject('%s%s: global / nonlocal' % (what, fn.name))


def _module(tree, classes, imports, fname, functions=()):
    """classes: {name: [bases]}; imports: {bound name: origin}; nothing else at module level"""
    out, seen = {}, {}
    for n in tree.body:
        if isinstance(n, ast.ClassDef):
            if n.name in out or n.decorator_list or n.keywords:
                raise Reject('%s: class %s defined twice / decorated / with a metaclass' % (fname, n.name))
            out[n.name] = n
        elif isinstance(n, ast.Import):
            for a in n.names:
                seen.setdefault(a.asname or a.name.split('.')[0], set()).add(a.name if a.asname else a.name.split('.')[0])
        elif isinstance(n, ast.ImportFrom):
            for a in n.names:
                seen.setdefault(a.asname or a.name, set()).add('%s%s:%s' % ('.' * n.level, n.module or '', a.name))
        elif isinstance(n, ast.Expr) and isinstance(n.value, ast.Constant) and isinstance(n.value.value, str):
            continue
        elif isinstance(n, ast.FunctionDef) and n.name in functions:
            out[n.name] = n
        else:
            raise Reject('%s: module-level statement: %s' % (fname, _u(n)[:120]))
    for c, bases in classes.items():
        if c not in out:
            raise Reject('%s: class %s not found' % (fname, c))
        if [_u(b) for b in out[c].bases] != bases:
            raise Reject('%s: class %s has bases %s' % (fname, c, [_u(b) for b in out[c].bases]))
    extra = {k for k, v in out.items() if isinstance(v, ast.ClassDef)} - set(classes)
    if extra:
        raise Reject('%s defines classes the translator does not know: %s' % (fname, sorted(extra)))
    for x in ast.walk(tree):
        names = []
        if isinstance(x, (ast.Assign, ast.AnnAssign, ast.AugAssign, ast.NamedExpr, ast.For)):
            ts = x.targets if isinstance(x, ast.Assign) else [x.target]
            names = [y.id for t in ts for y in ast.walk(t) if isinstance(y, ast.Name)]
        elif isinstance(x, ast.arg):
            names = [x.arg]
        elif isinstance(x, (ast.FunctionDef, ast.ClassDef)):
            names = [x.name] if x.name not in classes and x.name not in functions else []
        elif isinstance(x, ast.ExceptHandler) and x.name:
            names = [x.name]
        elif isinstance(x, ast.With):
            names = [y.id for i in x.items if i.optional_vars is not None for y in ast.walk(i.optional_vars) if isinstance(y, ast.Name)]
        elif isinstance(x, (ast.Import, ast.ImportFrom)) and x not in tree.body:
            names = [a.asname or a.name.split('.')[0] for a in x.names]
        for nm in names:
            if nm in imports or nm in ('isinstance', 'vars', 'type', 'range', 'str', 'dict', 'super', 'len'):
                raise Reject('%s: the name %s is re-bound' % (fname, nm))
    for nm, origin in imports.items():
        if seen.get(nm) != {origin}:
            raise Reject('%s: %s is not %s (%s)' % (fname, nm, origin, sorted(seen.get(nm, []))))
    return out


def _texts(stmts):
    return [_u(s) for s in _strip(stmts)]


def obj_block(stmts, fixed, table, cname_):
    """a constructor / setter, object style: every statement is either one of the `fixed` texts (no effect on what the model
    tracks; each at most once) or one of `table` (text -> effect on self)"""
    out, seen = '', []
    for s in _strip(stmts):
        u = _u(s)
        if u in seen:
            raise Reject('%s: statement repeated: %s' % (cname_, u[:100]))
        seen.append(u)
        if u in fixed:
            continue
        if u in table:
            out += '  let self := %s in\n' % table[u]
            continue
        raise Reject('%s: statement not in the subset: %s' % (cname_, u[:160]))
    return out + '  self', seen


# ---------------------------------------------------------------------------------------------- the three files
PINNED = {
    'DNAS._preserve_state': '1591d0e1b947211c',                  # restores training flags and tensor attributes after export()
    'graph.link_combiners_to_branches': 'b911ec20927752e6',      # per (block, branch index): the uniquified call_module nodes under sn_branches.<i>
    'inspection.named_leaf_modules': 'da0d4af86e09004f',         # (str(n.target), n, submodule) for every call_module node, graph order
    'inspection.uniquify_leaf_modules': '13080fac8c51336d',      # first tuple of every name
    'inspection.shapes_dict': '8c28301cd17c8205',                # {'output_shape': n.meta['tensor_meta'].shape}
}

COMB_METHODS = {'__init__', 'set_sn_branch', 'get_cost', 'sample_alpha_sm', 'sample_alpha_gs', 'forward', 'best_layer_index', 'softmax_temperature',
                'softmax_temperature.setter', 'summary', 'train_selection', 'train_selection.setter', 'named_nas_parameters', 'nas_parameters'}
SN_METHODS = {'__init__', 'forward', 'cost_specification', 'cost_specification.setter', 'train_selection', 'train_selection.setter', 'get_total_icv',
              'update_softmax_options', 'export', 'summary', 'named_nas_parameters', 'named_net_parameters', '_get_single_cost', '_single_cost_fn_map', '__str__'}
DNAS_METHODS = {'__init__', 'forward', 'cost_specification', 'cost_specification.setter', 'cost', 'export', '_preserve_state', 'summary', 'get_cost',
                '_get_single_cost', '_create_cost_fn_map', '_single_cost_fn_map', 'train_nas_only', 'train_net_only', 'train_net_and_nas',
                'named_nas_parameters', 'nas_parameters', 'named_net_parameters', 'net_parameters', '_resolve_input_example'}

SPEC_ANN = {'CostSpec'}
MAP_ANN = {'Dict[str, CostFn]'}
CS_ANN = {'Union[CostSpec, Dict[str, CostSpec]]'}


def _pin(key, fn):
    if fn is None:
        raise Reject('%s not found' % key)
    if digest(fn) != PINNED[key]:
        raise Reject('%s is not the function the model was written for (AST digest %s, expected %s)' % (key, digest(fn), PINNED[key]))


def _fun(name, params, rty, body):
    return 'Definition %s %s : %s :=\n%s.\n' % (name, params, rty, body)


def translate_comb(src):
    tree = ast.parse(src)
    cl = _module(tree, {'SuperNetCombiner': ['nn.Module']},
                 {'torch': 'torch', 'nn': 'torch.nn', 'F': 'torch.nn.functional', 'shapes_dict': 'plinio.graph.inspection:shapes_dict',
                  'CostSpec': 'plinio.cost:CostSpec', 'CostFn': 'plinio.cost:CostFn', 'cast': 'typing:cast', 'Dict': 'typing:Dict'}, 'combiner.py')
    ms = _methods(cl['SuperNetCombiner'])
    if set(ms) != COMB_METHODS:
        raise Reject('SuperNetCombiner: methods %s (expected %s)' % (sorted(set(ms) - COMB_METHODS), sorted(COMB_METHODS - set(ms))))
    # the attributes get_cost reads: who writes them
    init = _texts(ms['__init__'].body)
    for need in ('self.n_branches = n_branches', 'self._unique_leaf_modules = [[]] * self.n_branches',
                 'self.alpha = nn.Parameter(1 / n_branches * torch.ones(n_branches, dtype=torch.float), requires_grad=False)'):
        if init.count(need) != 1:
            raise Reject('SuperNetCombiner.__init__: `%s` not found (once)' % need)
    n_store = sum(1 for x in ast.walk(ms['__init__']) if isinstance(x, ast.Attribute) and _is_self_attr(x) and isinstance(x.ctx, ast.Store)
                  and x.attr in ('n_branches', '_unique_leaf_modules', 'alpha'))
    if n_store != 3:
        raise Reject('SuperNetCombiner.__init__ assigns n_branches / _unique_leaf_modules / alpha more than once')
    if [a.arg for a in ms['set_sn_branch'].args.args] != ['self', 'i', 'ulf'] or _texts(ms['set_sn_branch'].body) != ['self._unique_leaf_modules[i] = ulf']:
        raise Reject('SuperNetCombiner.set_sn_branch is not `self._unique_leaf_modules[i] = ulf`')
    for nm, m in ms.items():
        if nm not in ('__init__', 'set_sn_branch', 'get_cost', 'best_layer_index'):
            readonly(m, COMB_TRACKED, 'SuperNetCombiner.')
    # get_cost
    gc = ms['get_cost']
    _decs(gc, 'SuperNetCombiner', [])
    p = _sig(gc, 'SuperNetCombiner', [SPEC_ANN, MAP_ANN])
    tr = Tr('comb', 'Q')
    env = {p[0]: ('Spec', cname(p[0])), p[1]: ('FnMap', cname(p[1]))}

    def no_fall(e):
        raise Reject('the function can end without a return')
    out = _fun('comb_get_cost_gen', '(self : gcomb) (%s : gspec) (%s : fnmap)' % (cname(p[0]), cname(p[1])), 'Q', tr.block(gc.body, env, no_fall))
    # best_layer_index
    bl = ms['best_layer_index']
    _decs(bl, 'SuperNetCombiner', [])
    _sig(bl, 'SuperNetCombiner', [])
    b = _strip(bl.body)
    ok = False
    if len(b) == 1 and isinstance(b[0], ast.Return) and b[0].value is not None:
        e = b[0].value
        if isinstance(e, ast.Call) and isinstance(e.func, ast.Name) and e.func.id == 'int' and len(e.args) == 1 and not e.keywords:
            e = e.args[0]
        if isinstance(e, ast.Call) and isinstance(e.func, ast.Attribute) and e.func.attr == 'item' and not e.args and not e.keywords:
            e = e.func.value
        if isinstance(e, ast.Call) and _attr_chain(e.func) == 'torch.argmax' and len(e.args) == 1 and _is_self_attr(e.args[0], 'alpha') \
                and all(k.arg == 'dim' and isinstance(k.value, ast.Constant) and k.value.value == 0 for k in e.keywords):
            ok = True
        if isinstance(e, ast.Call) and isinstance(e.func, ast.Attribute) and e.func.attr == 'argmax' and _is_self_attr(e.func.value, 'alpha') and not e.args \
                and all(k.arg == 'dim' and isinstance(k.value, ast.Constant) and k.value.value == 0 for k in e.keywords):
            ok = True
    if not ok:
        raise Reject('SuperNetCombiner.best_layer_index is not `return int(torch.argmax(self.alpha).item())`')
    out += '\n(* torch.argmax of a 1-D tensor: the index of the FIRST maximum *)\nDefinition comb_best_layer_index_gen (alpha : list Q) : nat := argmax alpha.\n'
    return out


DNAS_INIT_FIXED = ['super(DNAS, self).__init__()', 'self._device = next(model.parameters()).device',
                   'self._input_example = self._resolve_input_example(input_example, input_shape)']
SN_INIT_FIXED = ['self.train_selection = True']
SN_CONVERT = "self.seed, self._leaf_modules, self._unique_leaf_modules = convert(model, self._input_example, 'import')"


def translate_dnas(src):
    tree = ast.parse(src)
    cl = _module(tree, {'DNAS': ['nn.Module']},
                 {'torch': 'torch', 'nn': 'torch.nn', 'CostSpec': 'plinio.cost:CostSpec', 'CostFn': 'plinio.cost:CostFn', 'cast': 'typing:cast',
                  'Dict': 'typing:Dict', 'Union': 'typing:Union', 'Optional': 'typing:Optional', 'abstractmethod': 'abc:abstractmethod',
                  'contextmanager': 'contextlib:contextmanager'}, 'dnas.py')
    ms = _methods(cl['DNAS'])
    if set(ms) != DNAS_METHODS:
        raise Reject('DNAS: methods %s (expected %s)' % (sorted(set(ms) - DNAS_METHODS), sorted(DNAS_METHODS - set(ms))))
    for nm, m in ms.items():
        if nm not in ('__init__', 'cost_specification.setter', '_preserve_state', 'get_cost', 'cost', '_create_cost_fn_map'):
            readonly(m, SN_TRACKED, 'DNAS.')
    _pin('DNAS._preserve_state', ms['_preserve_state'])
    _decs(ms['cost_specification'], 'DNAS', ['property'])
    _decs(ms['cost_specification.setter'], 'DNAS', ['cost_specification.setter'])
    if _texts(ms['cost_specification'].body) != ['return self._cost_specification'] or [a.arg for a in ms['cost_specification.setter'].args.args] != ['self', 'cs'] \
            or _texts(ms['cost_specification.setter'].body) != ['self._cost_specification = cs']:
        raise Reject('DNAS.cost_specification is not a plain property over _cost_specification')
    for nm in ('_get_single_cost', '_single_cost_fn_map'):
        _decs(ms[nm], 'DNAS', ['abstractmethod'])
        b = _strip(ms[nm].body)
        if len(b) != 1 or not isinstance(b[0], ast.Raise):
            raise Reject('DNAS.%s is not abstract' % nm)
    out = {}
    # _create_cost_fn_map
    cm = ms['_create_cost_fn_map']
    _decs(cm, 'DNAS', [])
    _sig(cm, 'DNAS', [])

    def no_fall(e):
        raise Reject('the function can end without a return')
    out['create'] = _fun('dnas_create_cost_fn_map_gen', '(self : gsn)', 'gmaps', Tr('sn', 'Maps').block(cm.body, {}, no_fall))
    # get_cost
    gc = ms['get_cost']
    _decs(gc, 'DNAS', [])
    p = _sig(gc, 'DNAS', [{'Optional[str]'}])
    if len(gc.args.defaults) != 1 or not (isinstance(gc.args.defaults[0], ast.Constant) and gc.args.defaults[0].value is None):
        raise Reject('DNAS.get_cost: the name does not default to None')
    out['get_cost'] = _fun('dnas_get_cost_gen', '(self : gsn) (%s : option Z)' % cname(p[0]), 'option Q',
                           Tr('sn', 'OQ', monad=True).block(gc.body, {p[0]: ('OptMetric', cname(p[0]))}, no_fall))
    # cost
    cp = ms['cost']
    _decs(cp, 'DNAS', ['property'])
    _sig(cp, 'DNAS', [])
    if _texts(cp.body) not in (['return self.get_cost(None)'], ['return self.get_cost()'], ['return self.get_cost(name=None)']):
        raise Reject('DNAS.cost is not `return self.get_cost(None)`')
    out['cost'] = 'Definition dnas_cost_gen (self : gsn) : option Q :=\n  dnas_get_cost_gen self None.\n'
    # __init__
    init = ms['__init__']
    _decs(init, 'DNAS', ['abstractmethod'])
    ip = _sig(init, 'DNAS', [{'nn.Module'}, CS_ANN, {'Optional[Any]'}, {'Optional[Tuple[int, ...]]'}])
    if ip != ['model', 'cost', 'input_example', 'input_shape']:
        raise Reject('DNAS.__init__ parameters: %s' % ip)
    body, seen = obj_block(init.body, DNAS_INIT_FIXED, {'self._cost_specification = cost': 'with_spec self cost', 'self._cost_fn_map = {}': 'with_maps self (MDict [])'}, 'DNAS.__init__')
    if DNAS_INIT_FIXED[0] not in seen:
        raise Reject('DNAS.__init__ does not call nn.Module.__init__')
    out['init'] = _fun('dnas_init_gen', '(self : gsn) (cost : gcs)', 'gsn', body)
    return out


def translate_sn(src):
    tree = ast.parse(src)
    cl = _module(tree, {'SuperNet': ['DNAS']},
                 {'torch': 'torch', 'nn': 'torch.nn', 'DNAS': 'plinio.methods.dnas_base:DNAS', 'SuperNetCombiner': '.nn.combiner:SuperNetCombiner',
                  'CostSpec': 'plinio.cost:CostSpec', 'CostFn': 'plinio.cost:CostFn', 'params': 'plinio.cost:params',
                  'shapes_dict': 'plinio.graph.inspection:shapes_dict', 'convert': '.graph:convert', 'cast': 'typing:cast',
                  'Dict': 'typing:Dict', 'Union': 'typing:Union', 'Optional': 'typing:Optional'}, 'supernet.py')
    ms = _methods(cl['SuperNet'])
    if set(ms) != SN_METHODS:
        raise Reject('SuperNet: methods %s (expected %s)' % (sorted(set(ms) - SN_METHODS), sorted(SN_METHODS - set(ms))))
    for nm, m in ms.items():
        if nm not in ('__init__', 'cost_specification.setter', '_get_single_cost', '_single_cost_fn_map'):
            readonly(m, SN_TRACKED, 'SuperNet.')
    _decs(ms['cost_specification'], 'SuperNet', ['property'])
    if _texts(ms['cost_specification'].body) != ['return self._cost_specification']:
        raise Reject('SuperNet.cost_specification (getter) is not `return self._cost_specification`')

    def no_fall(e):
        raise Reject('the function can end without a return')
    # _get_single_cost
    gc = ms['_get_single_cost']
    _decs(gc, 'SuperNet', [])
    p = _sig(gc, 'SuperNet', [SPEC_ANN, MAP_ANN])
    out = _fun('sn_get_single_cost_gen', '(self : gsn) (%s : gspec) (%s : fnmap)' % (cname(p[0]), cname(p[1])), 'Q',
               Tr('sn', 'Q').block(gc.body, {p[0]: ('Spec', cname(p[0])), p[1]: ('FnMap', cname(p[1]))}, no_fall))
    # _single_cost_fn_map
    sm = ms['_single_cost_fn_map']
    _decs(sm, 'SuperNet', [])
    p = _sig(sm, 'SuperNet', [SPEC_ANN])
    out2 = _fun('sn_single_cost_fn_map_gen', '(self : gsn) (%s : gspec)' % cname(p[0]), 'fnmap',
                Tr('sn', 'FnMap').block(sm.body, {p[0]: ('Spec', cname(p[0]))}, no_fall))
    # __init__
    init = ms['__init__']
    _decs(init, 'SuperNet', [])
    ip = _sig(init, 'SuperNet', [{'nn.Module'}, CS_ANN, {'Optional[Any]'}, {'Optional[Tuple[int, ...]]'}, {'bool'}])
    if ip != ['model', 'cost', 'input_example', 'input_shape', 'full_cost']:
        raise Reject('SuperNet.__init__ parameters: %s' % ip)
    table = {'super(SuperNet, self).__init__(model, cost, input_example, input_shape)': 'dnas_init_gen self cost',
             'super().__init__(model, cost, input_example, input_shape)': 'dnas_init_gen self cost',
             SN_CONVERT: 'with_leaves self (fst cv) (snd cv)',
             'self._cost_fn_map = self._create_cost_fn_map()': 'with_maps self (dnas_create_cost_fn_map_gen self)',
             'self.full_cost = full_cost': 'with_full self full_cost'}
    body, seen = obj_block(init.body, SN_INIT_FIXED, table, 'SuperNet.__init__')
    if not seen or not seen[0].startswith('super(') or SN_CONVERT not in seen:
        raise Reject('SuperNet.__init__ does not start with DNAS.__init__ / does not call convert')
    out3 = _fun('sn_init_gen', '(self : gsn) (cv : list gleaf * list gleaf) (cost : gcs) (full_cost : bool)', 'gsn', body)
    # the setter
    st = ms['cost_specification.setter']
    _decs(st, 'SuperNet', ['cost_specification.setter'])
    sp = _sig(st, 'SuperNet', [CS_ANN])
    if sp != ['cs']:
        raise Reject('SuperNet.cost_specification.setter parameter: %s' % sp)
    body, _ = obj_block(st.body, [], {'self._cost_specification = cs': 'with_spec self cs',
                                      'self._cost_fn_map = self._create_cost_fn_map()': 'with_maps self (dnas_create_cost_fn_map_gen self)'}, 'SuperNet.cost_specification.setter')
    out4 = _fun('sn_set_cost_specification_gen', '(self : gsn) (cs : gcs)', 'gsn', body)
    # train_selection (called by __init__): touches the combiners' requires_grad and _train_selection only (readonly() above)
    return out, out2, out3, out4


def check_glue(graph_src, insp_src):
    """the functions behind the fixed `convert_import` of the footer"""
    g = ast.parse(graph_src)
    gf = {n.name: n for n in g.body if isinstance(n, ast.FunctionDef)}
    _pin('graph.link_combiners_to_branches', gf.get('link_combiners_to_branches'))
    cv = gf.get('convert')
    if cv is None:
        raise Reject('graph.convert not found')
    texts = _texts(cv.body)
    want = ["if conversion_type == 'import':\n    link_combiners_to_branches(mod)", 'nlf = named_leaf_modules(mod)', 'ulf = uniquify_leaf_modules(nlf)']
    pos = -1
    for w in want:
        if texts.count(w) != 1 or texts.index(w) < pos:
            raise Reject('graph.convert: `%s` not found (once, in order)' % w.split('\n')[0])
        pos = texts.index(w)
    if not texts[-1].startswith('return') or texts[-1] not in ('return (mod, nlf, ulf)',):
        raise Reject('graph.convert does not end with `return mod, nlf, ulf`')
    stores = [x.id for x in ast.walk(cv) if isinstance(x, ast.Name) and isinstance(x.ctx, (ast.Store, ast.Del)) and x.id in ('nlf', 'ulf', 'mod')]
    if sorted(stores) != ['mod', 'nlf', 'ulf']:
        raise Reject('graph.convert re-binds mod / nlf / ulf')
    imp = {}
    for n in g.body:
        if isinstance(n, ast.ImportFrom):
            for a in n.names:
                imp[a.asname or a.name] = '%s%s:%s' % ('.' * n.level, n.module or '', a.name)
    for nm in ('named_leaf_modules', 'uniquify_leaf_modules'):
        if imp.get(nm) != 'plinio.graph.inspection:' + nm or nm in gf:
            raise Reject('graph.py: %s is not the function of plinio.graph.inspection' % nm)
    i = ast.parse(insp_src)
    fi = {n.name: n for n in i.body if isinstance(n, ast.FunctionDef)}
    for nm in ('named_leaf_modules', 'uniquify_leaf_modules', 'shapes_dict'):
        _pin('inspection.' + nm, fi.get(nm))
        if sum(1 for n in ast.walk(i) if isinstance(n, (ast.FunctionDef, ast.ClassDef)) and n.name == nm) != 1:
            raise Reject('inspection.py defines %s more than once' % nm)


HEADER = '''(* GENERATED by translator/sncost2coq.py from plinio/methods/supernet/nn/combiner.py, plinio/methods/supernet/supernet.py and
   plinio/methods/dnas_base/dnas.py of the tree under test -- do not edit.
   The SuperNet cost composition (SuperNetCombiner.get_cost / best_layer_index, SuperNet._get_single_cost / _single_cost_fn_map /
   __init__ / cost_specification.setter, DNAS.get_cost / cost / _create_cost_fn_map / __init__), statement by statement. *)
From Coq Require Import QArith ZArith List Bool.
Import ListNotations.
Require Import Plinio.Base.Qx Plinio.Model.SuperNet.
Local Open Scope Q_scope.

(* ---- fixed vocabulary (not generated from the source): leaf tuples (lname, node, layer) ... *)
Definition gname := (Z * Z)%type.      (* (id, tag): 0 = layer outside the choice blocks, 1 = combiner, 2 = layer inside a branch *)
Definition gname_eqb (a b : gname) : bool := Z.eqb (fst a) (fst b) && Z.eqb (snd a) (snd b).
Definition name_in_branches (n : gname) : bool := Z.eqb (snd n) 2.                    (* 'sn_branches' in <name> *)
Record gnode := mkNode { n_target : gname; n_site : nat }.                              (* an fx node: str(node.target), which call of the module *)
Record gvars := mkV { v_layer : Z; v_shape : option nat }.                              (* vars(layer) [+ output shape of a call site] *)
Inductive gfn := FSpec (spec ty vl : Z) | FKeyError.                                    (* spec[(type(layer ty), vars(layer vl))] *)
Record gspec := mkSpec { sp_id : Z; sp_shared : bool }.                                 (* a CostSpec: which one, its `shared` flag *)
Definition bleaf := (gname * gnode * Z)%type.                                           (* a leaf tuple whose layer is a plain module *)
Record gcomb := mkComb { c_bid : Z; c_nbr : nat; c_ulm : list (list bleaf) }.           (* a SuperNetCombiner: n_branches, _unique_leaf_modules *)
Inductive glayer := LPlain (id : Z) | LComb (c : gcomb).
Definition gleaf := (gname * gnode * glayer)%type.
Definition fnmap := list (gname * gfn).                                                 (* Dict[str, CostFn], insertion ordered *)
Inductive gcs := CSingle (c : gspec) | CDict (d : list (Z * gspec)).                    (* Union[CostSpec, Dict[str, CostSpec]] *)
Inductive gmaps := MSingle (m : fnmap) | MDict (d : list (Z * fnmap)).
(* ... the SuperNet object *)
Record gsn := mkSn { sn_spec : gcs; sn_maps : gmaps; sn_full : bool; sn_lm : list gleaf; sn_ulm : list gleaf }.
Definition with_spec (o : gsn) (c : gcs) : gsn := mkSn c (sn_maps o) (sn_full o) (sn_lm o) (sn_ulm o).
Definition with_maps (o : gsn) (m : gmaps) : gsn := mkSn (sn_spec o) m (sn_full o) (sn_lm o) (sn_ulm o).
Definition with_full (o : gsn) (b : bool) : gsn := mkSn (sn_spec o) (sn_maps o) b (sn_lm o) (sn_ulm o).
Definition with_leaves (o : gsn) (l u : list gleaf) : gsn := mkSn (sn_spec o) (sn_maps o) (sn_full o) l u.
(* ... dictionaries *)
Fixpoint fm_set (d : fnmap) (k : gname) (v : gfn) : fnmap :=
  match d with
  | [] => [(k, v)]
  | (k', v') :: r => if gname_eqb k' k then (k', v) :: r else (k', v') :: fm_set r k v
  end.
Fixpoint fm_get (d : fnmap) (k : gname) : gfn :=
  match d with
  | [] => FKeyError
  | (k', v') :: r => if gname_eqb k' k then v' else fm_get r k
  end.
Fixpoint zd_set {V} (d : list (Z * V)) (k : Z) (v : V) : list (Z * V) :=
  match d with
  | [] => [(k, v)]
  | (k', v') :: r => if Z.eqb k' k then (k', v) :: r else (k', v') :: zd_set r k v
  end.
Fixpoint zd_find {V} (d : list (Z * V)) (k : Z) : option V :=
  match d with
  | [] => None
  | (k', v') :: r => if Z.eqb k' k then Some v' else zd_find r k
  end.
(* ... layers, shapes, cost functions *)
Definition vars_of_plain (id : Z) : gvars := mkV id None.
Definition type_of_plain (id : Z) : Z := id.
Definition shapes_dict (n : gnode) : nat := n_site n.
Definition v_update (v : gvars) (s : nat) : gvars := mkV (v_layer v) (Some s).
Definition spec_get (c : gspec) (key : Z * gvars) : gfn := FSpec (sp_id c) (fst key) (v_layer (snd key)).
Definition call_fn (costv : Z -> Z -> Z -> Z -> nat -> Q) (f : gfn) (v : gvars) : Q :=
  match f, v_shape v with
  | FSpec c t vl, Some s => costv c t vl (v_layer v) s
  | _, _ => 0
  end.

(* ---- generated *)
Section Gen.
Variable costv : Z -> Z -> Z -> Z -> nat -> Q.      (* value of (the function spec c selects for layer t / vars of vl) on (vars of a layer, call site) *)
Variable theta : Z -> list Q.                       (* theta_alpha of every combiner at the time of the call *)

'''

FOOTER = '''End Gen.

(* ---- fixed glue (not generated from the source): what convert(model, example, 'import') hands to the SuperNet for a network
   of the IR of Model/SuperNet.v -- named_leaf_modules: one tuple per call_module node, in graph order (the layers of every
   branch of a block, then its combiner); the call site of a layer outside the blocks counts its earlier calls;
   uniquify_leaf_modules: first tuple of every name; link_combiners_to_branches: per branch the uniquified tuples of its
   modules, i.e. each with the node of its FIRST call (site 0: a module of a branch is not called before its block).
   The call sites of the tuples of the layers inside branches are never read at the top level (site 0 written). *)
Definition branch_leaves (br : branch) : list bleaf :=
  map (fun i => ((i, 2%Z), mkNode (i, 2%Z) 0, i)) (zuniq (branch_mods br)).
Definition comb_of (b : Z) (brs : list branch) : gcomb := mkComb b (length brs) (map branch_leaves brs).
Definition inner_leaves (brs : list branch) : list gleaf :=
  flat_map (fun br => map (fun i => ((i, 2%Z), mkNode (i, 2%Z) 0, LPlain i)) (branch_mods br)) brs.
Fixpoint gleaves_from (seen : list Z) (nt : net) : list gleaf :=
  match nt with
  | [] => []
  | NFixed (Mod i) :: r => ((i, 0%Z), mkNode (i, 0%Z) (count_before i seen), LPlain i) :: gleaves_from (i :: seen) r
  | NFixed (Fn _) :: r => gleaves_from seen r
  | NChoice b brs :: r => inner_leaves brs ++ ((b, 1%Z), mkNode (b, 1%Z) 0, LComb (comb_of b brs)) :: gleaves_from seen r
  end.
Definition gleaves := gleaves_from [].
Fixpoint gmem (k : gname) (l : list gname) : bool :=
  match l with [] => false | y :: r => gname_eqb k y || gmem k r end.
Fixpoint guniq_acc (seen : list gname) (l : list gleaf) : list gleaf :=
  match l with
  | [] => []
  | e :: r => let k := fst (fst e) in if gmem k seen then guniq_acc seen r else e :: guniq_acc (k :: seen) r
  end.
Definition guniq := guniq_acc [].
Definition convert_import (nt : net) : list gleaf * list gleaf := (gleaves nt, guniq (gleaves nt)).
Definition sn_blank : gsn := mkSn (CDict []) (MDict []) false [] [].

(* later assignments on the live object: sn.full_cost = b ; sn.cost_specification = cs *)
Inductive snop := OSetFull (b : bool) | OSetSpec (cs : gcs).
Definition sn_step (self : gsn) (op : snop) : gsn :=
  match op with OSetFull b => with_full self b | OSetSpec cs => sn_set_cost_specification_gen self cs end.
Definition sn_run (self : gsn) (ops : list snop) : gsn := fold_left sn_step ops self.

(* correspondence helper: the generated get_cost on the cases of run_cost (Model/SuperNet.v), reached in four ways --
   a single specification / a dictionary holding it under one of two names / full_cost flipped after construction /
   the specification re-assigned on the live object.  (n, 0) = get_cost raised.  The per-layer cost is the table value only
   for the function of specification 0 selected for the very layer it is applied to, 0 for any mix-up. *)
Definition costv_of_table (costs : list (Z * list Q)) : Z -> Z -> Z -> Z -> nat -> Q :=
  fun c t vl i s => if (Z.eqb c 0 && Z.eqb t i && Z.eqb vl i)%bool then cost_of_table costs i s else 0.
Definition run_cost_gen (shared full : bool) (costs : list (Z * list Q)) (thetas : list (Z * list Q)) (nt : net) : list (Z * Z) :=
  let c := mkSpec 0 shared in
  let other := mkSpec 1 (negb shared) in
  let cv := costv_of_table costs in
  let th := lookup [] thetas in
  let q := fun o : option Q => match o with Some v => qpair v | None => (0%Z, 0%Z) end in
  let mk := fun cs f => sn_init_gen sn_blank (convert_import nt) cs f in
  [ q (dnas_cost_gen cv th (mk (CSingle c) full));
    q (dnas_get_cost_gen cv th (mk (CDict [(7%Z, other); (3%Z, c)]) full) (Some 3%Z));
    q (dnas_get_cost_gen cv th (sn_run (mk (CSingle c) (negb full)) [OSetFull full]) None);
    q (dnas_get_cost_gen cv th (sn_run (mk (CDict [(3%Z, other)]) (negb full)) [OSetSpec (CDict [(3%Z, c); (7%Z, other)]); OSetFull full]) (Some 3%Z)) ].
'''


def translate_repo(repo):
    def rd(*p):
        return open(os.path.join(repo, 'plinio', *p)).read()
    comb_src, sn_src, dnas_src = rd('methods', 'supernet', 'nn', 'combiner.py'), rd('methods', 'supernet', 'supernet.py'), rd('methods', 'dnas_base', 'dnas.py')
    try:
        sampler2coq.translate_comb(comb_src, sn_src)          # the sampler side of the same two files: its refusals are refusals here
    except sampler2coq.Reject as e:
        raise Reject('translator/sampler2coq.py (who writes theta_alpha) refuses combiner.py / supernet.py: %s' % e)
    check_glue(rd('methods', 'supernet', 'graph.py'), rd('graph', 'inspection.py'))
    comb = translate_comb(comb_src)
    single_cost, fn_map, sn_init, sn_set = translate_sn(sn_src)
    dnas = translate_dnas(dnas_src)
    # order of definition: a function after the ones it calls
    return (HEADER + comb + '\n' + single_cost + '\n' + fn_map + '\n' + dnas['create'] + '\n' + dnas['get_cost'] + '\n' +
            dnas['cost'] + '\n' + dnas['init'] + '\n' + sn_init + '\n' + sn_set + FOOTER)


def pins(repo):
    def rd(*p):
        return ast.parse(open(os.path.join(repo, 'plinio', *p)).read())
    out = {}
    for n in rd('methods', 'dnas_base', 'dnas.py').body:
        if isinstance(n, ast.ClassDef) and n.name == 'DNAS':
            out['DNAS._preserve_state'] = digest(_methods(n)['_preserve_state'])
    for n in rd('methods', 'supernet', 'graph.py').body:
        if isinstance(n, ast.FunctionDef) and n.name == 'link_combiners_to_branches':
            out['graph.link_combiners_to_branches'] = digest(n)
    for n in rd('graph', 'inspection.py').body:
        if isinstance(n, ast.FunctionDef) and n.name in ('named_leaf_modules', 'uniquify_leaf_modules', 'shapes_dict'):
            out['inspection.' + n.name] = digest(n)
    return out


if __name__ == '__main__':
    import sys
    if len(sys.argv) > 1 and sys.argv[1] == '--pins':
        print(pins(sys.argv[2] if len(sys.argv) > 2 else '/repo'))
    else:
        print(translate_repo(sys.argv[1] if len(sys.argv) > 1 else '/repo'))
