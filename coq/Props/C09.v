(* C09 — Every layer sees exactly the alive features of the tensor that reaches it.
   Statements only (model: Model/Calc.v, proofs: Proofs/Calc.v).  A network is ANY list of nodes of the IR
   (input, full / depthwise conv or linear — searchable or fixed/excluded —, BatchNorm, propagating op,
   flatten/squeeze with multiplier, add/sub/time-cat, features-cat of any number of operands) that passes the
   boolean `wf` (sources point backwards, widths agree at sums and depthwise layers); the theorems hold for
   every such network (unbounded depth, width, fan-out) and every mask assignment `ms` (layer -> mask of its
   masker) that satisfies `sound_b`:
     sound_b nt ms  :=  a searchable depthwise layer's mask equals the alive set of its input, both operands
                        of a sum / time-cat have the same alive set, a fixed (excluded) module only sees fully
                        alive tensors.
   `true` as first argument of the model functions selects the repaired code, `false` the pinned upstream one.

   FULL STRENGTH: the `_full` theorems below replace the premise `sound_b` by `consistent_b true nt ms`, i.e. they
   hold for EVERY mask assignment the repaired build_shared_features_map can produce (one masker per sharing
   component, masks of the layer's width, frozen components all ones) — C09_sharing_sound proves
   consistent_b true -> sound_b for every well-formed network (invariant: in a frozen component every tensor is
   fully alive; in any other component every tensor is an expansion of the component's single mask / single
   concat; the closure of `pinned` is shown to have converged after length nt rounds).  The `_refuted` theorems
   show the same implication fails for the upstream sharing (fixd = false). *)
From Coq Require Import List Bool Arith.
Import ListNotations.
Require Import Plinio.Model.Calc Plinio.Proofs.Calc Plinio.Gen.CalcGen Plinio.Proofs.CalcGen.

(* the implementation's calculators (evaluated through the buffers they register) give exactly the alive
   features of the tensor feeding each converted layer, and their number *)
Theorem C09_calc_sound : forall nt ms, wf nt = true -> sound_b nt ms = true ->
  forall i, i < length nt -> consumer nt i = true ->
    smask (register_all true nt) ms (input_calc true nt i) = nth (src1 (node_at nt i)) (alive nt ms) [] /\
    sfeat (register_all true nt) ms (input_calc true nt i) = count (nth (src1 (node_at nt i)) (alive nt ms) []).
Proof. exact calc_sound_fixed. Qed.

(* registration never lets two calculators share a buffer (prefix-based names are pairwise distinct) *)
Theorem C09_names_ok : forall nt, wf nt = true -> names_ok true nt = true.
Proof. exact names_ok_fixed. Qed.

(* the calculators themselves (constants read from the term) are sound, independently of registration *)
Theorem C09_calc_ideal_sound : forall nt ms, wf nt = true -> sound_b nt ms = true ->
  forall i, i < length nt ->
    cmask ms (nth (nth i (setters nt) 0) (calcs true nt) (CConst 0 0)) = nth i (alive nt ms) [].
Proof. exact calc_ideal_sound. Qed.

(* exported in_channels / in_features / num_features = number of alive input features *)
Theorem C09_in_features_export : forall nt ms, wf nt = true -> sound_b nt ms = true ->
  forall i, i < length nt -> consumer nt i = true ->
    export_in true nt ms i = count (nth (src1 (node_at nt i)) (alive nt ms) []).
Proof. intros nt ms H1 H2. exact (in_features_export nt ms H1 H2 (names_ok_fixed nt H1)). Qed.

(* the width of every tensor of the exported network is its number of alive features ... *)
Theorem C09_exported_width_is_alive_count : forall nt ms, wf nt = true -> sound_b nt ms = true ->
  forall j, j < length nt -> nth j (xwidths nt ms) 0 = count (nth j (alive nt ms) []).
Proof. exact xwidth_count. Qed.

(* ... and every exported module (searchable, depthwise, BatchNorm, excluded) and every sum is shape-consistent *)
Theorem C09_export_shape_consistent : forall nt ms, wf nt = true -> sound_b nt ms = true ->
  shape_ok true nt ms = true.
Proof. exact export_shape_consistent_fixed. Qed.

(* sharing: both operands of a sum (and the sum itself) are in one component; so is every node that passes
   its features through (depthwise, BatchNorm, element-wise, flatten); layers of one component get one masker *)
Theorem C09_join_same_component : forall nt i a b t, wf nt = true -> i < length nt ->
  node_at nt i = NJoin a b t ->
  nth a (labels nt) 0 = nth b (labels nt) 0 /\ nth i (labels nt) 0 = nth a (labels nt) 0.
Proof. exact join_same_component. Qed.

Theorem C09_through_same_component : forall nt i, wf nt = true -> i < length nt ->
  is_cut (node_at nt i) = false -> (forall a b t, node_at nt i <> NJoin a b t) ->
  nth i (labels nt) 0 = nth (src1 (node_at nt i)) (labels nt) 0.
Proof. exact through_same_component. Qed.

Theorem C09_shared_groups_equal_masks : forall fixd nt x y,
  is_search_layer (node_at nt x) = true -> is_search_layer (node_at nt y) = true ->
  x < length nt -> y < length nt ->
  nth x (labels nt) 0 = nth y (labels nt) 0 -> masker_of fixd nt x = masker_of fixd nt y.
Proof. exact shared_groups_equal_masks. Qed.


(* ================================================================ full strength *)
(* every mask assignment the repaired sharing can produce satisfies the decidable premise *)
Theorem C09_sharing_sound : forall nt ms, wf nt = true -> consistent_b true nt ms = true -> sound_b nt ms = true.
Proof. exact P3. Qed.

(* the closure over concat operands in build_shared_features_map has converged: a frozen concat has frozen operands *)
Theorem C09_frozen_closed : forall nt, wf nt = true -> closed_b nt = true.
Proof. exact closed_b_holds. Qed.

Theorem C09_calc_sound_full : forall nt ms, wf nt = true -> consistent_b true nt ms = true ->
  forall i, i < length nt -> consumer nt i = true ->
    smask (register_all true nt) ms (input_calc true nt i) = nth (src1 (node_at nt i)) (alive nt ms) [] /\
    sfeat (register_all true nt) ms (input_calc true nt i) = count (nth (src1 (node_at nt i)) (alive nt ms) []).
Proof. intros nt ms H1 H2. exact (calc_sound_fixed nt ms H1 (P3 nt ms H1 H2)). Qed.

Theorem C09_in_features_export_full : forall nt ms, wf nt = true -> consistent_b true nt ms = true ->
  forall i, i < length nt -> consumer nt i = true ->
    export_in true nt ms i = count (nth (src1 (node_at nt i)) (alive nt ms) []).
Proof. intros nt ms H1 H2. exact (in_features_export nt ms H1 (P3 nt ms H1 H2) (names_ok_fixed nt H1)). Qed.

Theorem C09_export_shape_consistent_full : forall nt ms, wf nt = true -> consistent_b true nt ms = true ->
  shape_ok true nt ms = true.
Proof. intros nt ms H1 H2. exact (export_shape_consistent_fixed nt ms H1 (P3 nt ms H1 H2)). Qed.

(* identical on both sides of a residual sum, for every mask assignment *)
Theorem C09_sum_operands_equal_full : forall nt ms, wf nt = true -> consistent_b true nt ms = true ->
  forall i a b t, i < length nt -> node_at nt i = NJoin a b t ->
    nth a (alive nt ms) [] = nth b (alive nt ms) [].
Proof.
  intros nt ms H1 H2 i a b t Hi E.
  pose proof (sound_at nt ms i (P3 nt ms H1 H2) Hi) as S. rewrite E in S. exact (lbeq_eq _ _ S).
Qed.

(* --- the pinned upstream behaviour violates the statements (witness networks in Proofs/Calc.v) *)
(* DESIGN §9 row 6: cat(x, excluded_conv(x)) -> searchable layer reports 10 input features instead of 8 *)
Theorem C09_calc_sound_refuted :
  wf w_const = true /\ sound_b w_const m_const = true /\
  sfeat (register_all false w_const) m_const (input_calc false w_const 3) = 10 /\
  count (nth 2 (alive w_const m_const) []) = 8 /\ names_ok false w_const = false /\
  sfeat (register_all true w_const) m_const (input_calc true w_const 3) = 8 /\ names_ok true w_const = true.
Proof. exact calc_sound_refuted. Qed.

Theorem C09_flatten_names_refuted :
  wf w_flat = true /\ sfeat (register_all false w_flat) m_flat (input_calc false w_flat 7) <> count (nth 6 (alive w_flat m_flat) []) /\
  sfeat (register_all true w_flat) m_flat (input_calc true w_flat 7) = count (nth 6 (alive w_flat m_flat) []).
Proof. exact flatten_names_refuted. Qed.

Theorem C09_dup_cat_refuted :
  wf w_dup = true /\ sound_b w_dup m_dup = true /\
  length (smask (register_all false w_dup) m_dup (input_calc false w_dup 4)) = 5 /\
  length (nth 3 (alive w_dup m_dup) []) = 7 /\
  smask (register_all true w_dup) m_dup (input_calc true w_dup 4) = nth 3 (alive w_dup m_dup) [].
Proof. exact dup_cat_refuted. Qed.

(* DESIGN §9 row 7: add with a cat operand: masks the upstream sharing allows give a shape-inconsistent export *)
Theorem C09_add_of_cat_refuted :
  wf w_addcat = true /\ consistent_b false w_addcat m_addcat = true /\
  sound_b w_addcat m_addcat = false /\ shape_ok false w_addcat m_addcat = false /\
  consistent_b true w_addcat m_addcat = false /\
  map (masker_of true w_addcat) [1; 2; 4] = [Some (1, true); Some (2, true); Some (4, true)].
Proof. exact add_of_cat_refuted. Qed.

Theorem C09_dw_after_cat_refuted :
  wf w_dwcat = true /\ masker_of false w_dwcat 4 = None /\
  map (masker_of true w_dwcat) [1; 2; 4] = [Some (1, true); Some (2, true); Some (4, true)].
Proof. exact dw_after_cat_refuted. Qed.

Theorem C09_excluded_downstream_refuted :
  wf w_excl = true /\ consistent_b false w_excl m_excl = true /\ shape_ok false w_excl m_excl = false /\
  masker_of true w_excl 1 = Some (1, true) /\ consistent_b true w_excl m_excl = false.
Proof. exact excluded_downstream_refuted. Qed.

(* non-vacuity: a network with a searchable/fixed cat, a residual sum, a depthwise layer, flatten x4 and a
   pruning mask assignment satisfies every hypothesis, and the conclusions are non-trivial on it *)
Definition ex_net : net :=
  [NIn 3; NLayer 0 4 Full true; NProp 1 TPlain; NLayer 2 4 Full true; NJoin 2 3 false; NLayer 4 4 Dw true;
   NLayer 0 2 Full false; NCat [5; 6; 0]; NBn 7 true; NLayer 8 3 Full true; NFlat 9 4 FFlatten; NLayer 10 2 Full true].
Definition ex_ms := assoc [(1, [true; false; false; true]); (3, [true; false; false; true]); (5, [true; false; false; true]);
                           (9, [false; true; true]); (11, [true; true])].
Example C09_example :
  wf ex_net = true /\ sound_b ex_net ex_ms = true /\ consistent_b true ex_net ex_ms = true /\
  map (fun i => sfeat (register_all true ex_net) ex_ms (input_calc true ex_net i)) [1; 3; 5; 8; 9; 11] = [3; 2; 2; 7; 7; 8] /\
  smask (register_all true ex_net) ex_ms (input_calc true ex_net 9) = [true; false; false; true; true; true; true; true; true] /\
  map (masker_of true ex_net) [1; 3; 5; 9; 11] = [Some (1, false); Some (1, false); Some (1, false); Some (9, false); Some (11, true)] /\
  shape_ok true ex_net ex_ms = true.
Proof. vm_compute. repeat split. Qed.

(* ================================================================ the model GENERATED from the source of the calculators *)
(* Gen/CalcGen.v is rewritten by translator/calc2coq.py on every run from plinio/graph/features_calculation.py of the tree
   under test: `features`, `features_mask`, `register` and the buffers created in `__init__` of Const / ModAttr / Flatten /
   Concat FeaturesCalculator, statement by statement (buffers with their real names, the fields `mod` / `prefix` of every
   calculator object, `if self.mod is None`, the prefixes handed to the recursive calls).  `geval st ms c` evaluates a
   calculator term with the generated per-class functions: (.features, .features_mask); `gregister_all nt` runs the
   generated `register` of every consumer's calculator in graph order; `gok` = every buffer read found a registered
   buffer of the right kind (no AttributeError, no default value). *)

(* it computes the hand-written model: same .features and .features_mask for every consumer of every network ... *)
Theorem C09_generated_eval_is_model : forall nt ms, wf nt = true -> forall i, i < length nt -> consumer nt i = true ->
  geval (gregister_all nt) ms (input_calc true nt i)
  = (sfeat (register_all true nt) ms (input_calc true nt i), smask (register_all true nt) ms (input_calc true nt i)).
Proof. exact gen_eval_is_model. Qed.

(* ... because the generated registration simulates the model's (real buffers <-> one number per key), for EVERY term,
   consumer, prefix and pair of related states, hence for the whole network ... *)
Theorem C09_generated_register_simulates : forall c cons P G S, sim G S -> sim (greg c cons P G) (reg true cons P c S).
Proof. exact greg_sim. Qed.
Theorem C09_generated_register_all_simulates : forall nt, sim (gregister_all nt) (register_all true nt).
Proof. exact gregister_all_sim. Qed.

(* ... and no read of a buffer is undefined or served by another calculator's buffer *)
Theorem C09_generated_defined : forall nt ms, wf nt = true -> forall i, i < length nt -> consumer nt i = true ->
  gok (gregister_all nt) ms (input_calc true nt i) = true.
Proof. exact gen_defined. Qed.

(* the main sentence of C09 for the code as it is now: every converted layer's calculator reports the number of alive
   features of the tensor feeding it, and their positions *)
Theorem C09_generated_calc_sound : forall nt ms, wf nt = true -> sound_b nt ms = true ->
  forall i, i < length nt -> consumer nt i = true ->
    geval (gregister_all nt) ms (input_calc true nt i)
    = (count (nth (src1 (node_at nt i)) (alive nt ms) []), nth (src1 (node_at nt i)) (alive nt ms) []).
Proof. exact gen_calc_sound. Qed.

Theorem C09_generated_calc_sound_full : forall nt ms, wf nt = true -> consistent_b true nt ms = true ->
  forall i, i < length nt -> consumer nt i = true ->
    geval (gregister_all nt) ms (input_calc true nt i)
    = (count (nth (src1 (node_at nt i)) (alive nt ms) []), nth (src1 (node_at nt i)) (alive nt ms) []).
Proof. exact gen_calc_sound_full. Qed.

(* charged for (.features) = exported with (ones of .features_mask) *)
Theorem C09_generated_features_is_mask_count : forall nt ms, wf nt = true -> sound_b nt ms = true ->
  forall i, i < length nt -> consumer nt i = true ->
    cv_features (geval (gregister_all nt) ms (input_calc true nt i))
    = count (cv_mask (geval (gregister_all nt) ms (input_calc true nt i))).
Proof. exact gen_features_is_mask_count. Qed.

Theorem C09_generated_in_features_export : forall nt ms, wf nt = true -> forall i, i < length nt -> consumer nt i = true ->
  export_in true nt ms i = count (cv_mask (geval (gregister_all nt) ms (input_calc true nt i))).
Proof. exact gen_in_features_export. Qed.

(* one class at a time: constant, product with the spatial size across flatten, sum across concatenation *)
Theorem C09_generated_const : forall id n cons P,
  let G := const_register_gen id n cons P gempty in
  const_features_gen G id = n /\ const_features_mask_gen G id = repeat true n /\
  const_features_ok G id && const_features_mask_ok G id = true.
Proof. exact gen_const_unit. Qed.

Theorem C09_generated_flatten_product : forall id m cons P v,
  let G := flatten_register_gen id m (fun _ _ st => st) cons P gempty in
  flatten_features_gen G id v = m * cv_features v /\ flatten_features_mask_gen G id v = expand m (cv_mask v) /\
  flatten_features_ok G id v && flatten_features_mask_ok G id v = true.
Proof. exact gen_flatten_unit. Qed.

Theorem C09_generated_concat_sum : forall vs,
  concat_features_gen vs = list_sum (map cv_features vs) /\ concat_features_mask_gen vs = flat_map cv_mask vs /\
  count (concat_features_mask_gen vs) = list_sum (map (fun v => count (cv_mask v)) vs).
Proof. exact gen_concat_unit. Qed.

Theorem C09_generated_modattr : forall a m, modattr_features_gen a m = a /\ modattr_features_mask_gen a m = m.
Proof. exact modattr_eq. Qed.

(* non-vacuity: the generated calculators on the example network (flatten x4 of a pruned layer, cat of three tensors) *)
Example C09_generated_example :
  map (fun i => geval (gregister_all ex_net) ex_ms (input_calc true ex_net i)) [8; 11]
  = [(7, [true; false; false; true; true; true; true; true; true]);
     (8, [false; false; false; false; true; true; true; true; true; true; true; true])] /\
  map (fun i => gok (gregister_all ex_net) ex_ms (input_calc true ex_net i)) [1; 3; 5; 8; 9; 11] = [true; true; true; true; true; true] /\
  length (run_names_gen ex_net) = 6.
Proof. vm_compute. repeat split. Qed.

Print Assumptions C09_calc_sound.
Print Assumptions C09_names_ok.
Print Assumptions C09_calc_ideal_sound.
Print Assumptions C09_in_features_export.
Print Assumptions C09_exported_width_is_alive_count.
Print Assumptions C09_export_shape_consistent.
Print Assumptions C09_join_same_component.
Print Assumptions C09_through_same_component.
Print Assumptions C09_shared_groups_equal_masks.
Print Assumptions C09_sharing_sound.
Print Assumptions C09_frozen_closed.
Print Assumptions C09_calc_sound_full.
Print Assumptions C09_in_features_export_full.
Print Assumptions C09_export_shape_consistent_full.
Print Assumptions C09_sum_operands_equal_full.
Print Assumptions C09_calc_sound_refuted.
Print Assumptions C09_flatten_names_refuted.
Print Assumptions C09_dup_cat_refuted.
Print Assumptions C09_add_of_cat_refuted.
Print Assumptions C09_dw_after_cat_refuted.
Print Assumptions C09_excluded_downstream_refuted.
Print Assumptions C09_generated_eval_is_model.
Print Assumptions C09_generated_register_simulates.
Print Assumptions C09_generated_register_all_simulates.
Print Assumptions C09_generated_defined.
Print Assumptions C09_generated_calc_sound.
Print Assumptions C09_generated_calc_sound_full.
Print Assumptions C09_generated_features_is_mask_count.
Print Assumptions C09_generated_in_features_export.
Print Assumptions C09_generated_const.
Print Assumptions C09_generated_flatten_product.
Print Assumptions C09_generated_concat_sum.
Print Assumptions C09_generated_modattr.
