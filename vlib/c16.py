"""C16 — built-in cost models (DESIGN.md §C16).

Theorems: coq/Props/C16.v (generic: Base/Expr.v reflection, Proofs/CostFns.v hand proofs) plus the
obligations of coq/Gen/CostGen.v, which this check REGENERATES from the tree under test on every run
(translator/cost2coq.py, write-if-changed) before building.  A generated obligation that no longer
checks is reported by name and the implementation grid is searched for a concrete failing input.

Correspondence: every registered cost function of every spec in plinio.cost is called on
one-dimensional sweeps (channels 0..130 + tile boundaries +-1 + quarter-step fractional counts, kernels
{1,3,5,7}, output sizes 1..33, bits {0,2,4,8} + unsupported ones, bias, groups, theta) through several
base points with float64 0-dim tensors; values (exact rationals of the returned floats) and raised
exceptions are compared INSIDE Coq with the generated / hand models (`run_cases`, vm_compute).
Oracle: the sentences of the property evaluated on the implementation along the same sweeps.
"""
import math, re
from .common import *
from translator import cost2coq

TOL40 = Fraction(1, 2 ** 40)
TOL20 = Fraction(1, 2 ** 20)
ALL_SPECS = cost2coq.MODULES + ['ne16_latency', 'diana_latency']
HAND = {('ne16_latency', '_ne16_latency_conv2d_generic'): 'ne16_conv2d_generic',
        ('ne16_latency', '_ne16_latency_conv2d_dw'): 'ne16_conv2d_dw',
        ('ne16_latency', '_ne16_latency_linear'): 'ne16_linear',
        ('diana_latency', '_diana_latency_conv2d_generic'): 'diana_conv2d_generic',
        ('diana_latency', '_diana_latency_linear'): 'diana_linear'}
MONO_WP = {'params_bit', 'ops_bit', 'mpic_latency', 'mpic_energy', 'ne16_latency'}
MONO_IP = {'ops_bit', 'mpic_latency', 'mpic_energy'}
SIZE_VARS = ('cin', 'cout', 'ch', 'k0', 'k1', 'k', 'o2', 'o3')
ENV_KEYS = ('cin', 'cout', 'k0', 'k1', 'o2', 'o3', 'wp', 'ip', 'bias', 'groups', 'theta')
REP_TEXT = {'int': 'plain Python ints', 'float': 'plain Python floats', 'f32': 'float32 0-dim tensors', 'module': 'vars() of a real nn module + the output shape of a real forward', 'f64': 'float64 0-dim tensors'}
IMPORTS = ['Plinio.Base.Qx', 'Plinio.Base.Expr', 'Plinio.Model.CostFns', 'Plinio.Gen.CostGen']
GEN_V = os.path.join(COQ, 'Gen', 'CostGen.v')


class Fn:
    pass


def _torch():
    torch = setup_torch()
    return torch


def T(torch, x):
    return torch.tensor(float(x), dtype=torch.float64)


_BIAS = object()


REPS = ('int', 'float', 'f32', 'module')      # besides 'f64' (float64 0-dim tensors) used by the sweeps


def rep_value(torch, rep, x):
    if rep == 'int':
        assert Fraction(x).denominator == 1
        return int(x)
    if rep == 'float':
        return float(x)
    if rep == 'f32':
        return torch.tensor(float(x), dtype=torch.float32)
    return T(torch, x)


PREC_KEYS = {'diana_latency': ('both', 'in_only', 'a_only')}     # names under which a spec documents the activation precision


def mk_spec(torch, F, env, rep='f64', keys='both'):
    """layer description for cost function F from an environment (dict of Fractions).  rep: how the numeric entries
    are represented — 'f64'/'f32' 0-dim tensors (what the NAS layers hand over), plain 'int' / 'float' (static
    descriptions), 'module': vars() of a real nn.Conv1d/Conv2d/Linear + the output shape of a real forward."""
    e = env
    if rep == 'module':
        return mk_spec_module(torch, F, e)
    cv = lambda x: rep_value(torch, rep, x)
    s = {'_parameters': {'bias': _BIAS if e['bias'] else None}, 'groups': int(e['groups']),
         'w_precision': cv(e['wp']), 'in_precision': cv(e['ip']), 'a_precision': cv(e['ip']),
         'w_theta_alpha': cv(e['theta'])}
    if keys == 'in_only':
        del s['a_precision']
    elif keys == 'a_only':
        del s['in_precision']
    cout_i = int(math.ceil(e['cout']))
    if F.kind == 'linear':
        s['in_features'], s['out_features'] = cv(e['cin']), cv(e['cout'])
        s['output_shape'] = (1, cout_i)
    else:
        s['in_channels'], s['out_channels'] = cv(e['cin']), cv(e['cout'])
        if F.kind == 'conv1d':
            s['kernel_size'] = (int(e['k0']),)
            s['output_shape'] = (1, cout_i, int(e['o2']))
        else:
            s['kernel_size'] = (int(e['k0']), int(e['k1']))
            s['output_shape'] = (1, cout_i, int(e['o2']), int(e['o3']))
    return s


def mk_spec_module(torch, F, e):
    """what PIT hands over for a layer it does not optimise (full_cost=True): vars(layer) updated with the shapes of a
    real forward pass; the bit-width entries (absent from a float layer) are added as plain ints"""
    import torch.nn as nn
    cin, cout, g, bias = int(e['cin']), int(e['cout']), int(e['groups']), bool(e['bias'])
    with torch.no_grad():
        if F.kind == 'linear':
            m = nn.Linear(cin, cout, bias=bias)
            x = torch.zeros(1, cin)
        elif F.kind == 'conv1d':
            m = nn.Conv1d(cin, cout, int(e['k0']), groups=g, bias=bias)
            x = torch.zeros(1, cin, int(e['o2']) + int(e['k0']) - 1)
        else:
            m = nn.Conv2d(cin, cout, (int(e['k0']), int(e['k1'])), groups=g, bias=bias)
            x = torch.zeros(1, cin, int(e['o2']) + int(e['k0']) - 1, int(e['o3']) + int(e['k1']) - 1)
        s = dict(vars(m))
        s['output_shape'] = m(x).shape
    s.update(w_precision=int(e['wp']), in_precision=int(e['ip']), a_precision=int(e['ip']), w_theta_alpha=int(e['theta']))
    return s


def call(torch, F, env, rep='f64', keys='both'):
    """-> (value as float | None, exception type name | None)"""
    try:
        v = F.fn(mk_spec(torch, F, env, rep, keys))
    except Exception as ex:
        return None, type(ex).__name__
    return float(v), None


def rep_tol(F, e, v, rep):
    """static descriptions may be computed in float32 (torch.tensor(float(x)) is a float32 tensor): exact where every
    argument is an integer and the value is an integer below 2^24 (exactly representable on every path), 2^-20 relative otherwise (DESIGN §4)"""
    if rep == 'f64':
        return tol_for(F, e)
    if v is not None and tol_for(F, e) == 0 and abs(v) < 2 ** 24 and float(v).is_integer() and all(Fraction(x).denominator == 1 for x in e.values()):
        return Fraction(0)
    return TOL20


def all_pairs_walk(n):
    """a walk over states 0..n-1 in which every ordered pair (a, b), a == b included, occurs as two consecutive steps
    (Eulerian circuit of the complete digraph with loops, n*n + 1 steps)"""
    out_edges = {a: list(range(n)) for a in range(n)}
    stack, walk = [0], []
    while stack:
        a = stack[-1]
        if out_edges[a]:
            stack.append(out_edges[a].pop())
        else:
            walk.append(stack.pop())
    return walk[::-1]


def sequence_for(F, quick):
    """call sequence for one cost function in ONE process: every ordered pair of (naming convention of the activation
    precision, activation precision in {8, 4, 3}) occurs as two consecutive calls; weight precision and channel count
    alternate so that consecutive descriptions differ.  -> [(env, keys)]"""
    b = dict(bases_for(F, quick)[0], theta=Fraction(1))
    convs = PREC_KEYS.get(F.spec, ('both', 'in_only'))
    states = [(c, ip) for c in convs for ip in (8, 4, 3)]
    seq = []
    for i, st in enumerate(all_pairs_walk(len(states))):
        conv, ip = states[st]
        e = dict(b, ip=Fraction(ip), wp=Fraction(8 if i % 2 == 0 else 2))
        if i % 3 == 1:
            c = b['cout'] + 1
            e.update(dict(cin=c, cout=c, groups=c) if F.dw else dict(cout=c))
        seq.append((e, conv))
    return seq


def static_envs(F, quick):
    """integer-sized layers (>= 1 everywhere, theta = 1) for the representation stream: the base points, a few channel
    counts around the tile sizes, and one unsupported precision for the bit-width-restricted models"""
    out, seen = [], set()

    def add(e):
        k = envkey(e)
        if k not in seen:
            seen.add(k)
            out.append(e)
    for b in bases_for(F, quick):
        b = dict(b, theta=Fraction(1))
        add(b)
        for c in (1, 3, 4, 5, 33):
            add(dict(b, cin=Fraction(c), cout=Fraction(c), groups=Fraction(c)) if F.dw else dict(b, cout=Fraction(c)))
        if not F.dw:
            for c in (1, 17):
                add(dict(b, cin=Fraction(c)))
        add(dict(b, cin=Fraction(0), cout=Fraction(0)) if F.dw else dict(b, cout=Fraction(0)))      # an empty (fully pruned) layer
        if F.spec in ('mpic_latency', 'mpic_energy'):
            add(dict(b, ip=Fraction(3)))
        if F.spec in ('ne16_latency', 'diana_latency'):
            add(dict(b, ip=Fraction(4)))
        if F.spec in MONO_WP | {'diana_latency'}:      # non-integer bit-widths (floats / float32 tensors only)
            for fb in FRACTIONAL_BITS:
                add(dict(b, wp=fb))
                add(dict(b, ip=fb))
    return out


def reps_for(e):
    if not all(Fraction(e[k]).denominator == 1 for k in ('wp', 'ip', 'theta', 'cin', 'cout')):
        return ('float', 'f32')
    if e['cin'] == 0 or e['cout'] == 0 or e['cin'] % e['groups'] or e['cout'] % e['groups']:      # no real nn module has zero channels / channels that the groups do not divide
        return ('int', 'float', 'f32')
    return REPS


def lookup_layers(kind):
    """layers looked up THROUGH each spec (`spec[(type, description)](description)`): every intersection of the
    constraint families a pattern may be registered for — dense / grouped / depthwise / one-to-one x kernel 1, 3, 5, mixed"""
    Fr = Fraction
    base = dict(k0=Fr(3), k1=Fr(3), o2=Fr(6), o3=Fr(5), wp=Fr(8), ip=Fr(8), bias=Fr(1), theta=Fr(1))
    if kind == 'linear':
        return [('dense', dict(base, cin=Fr(16), cout=Fr(32), groups=Fr(1), k0=Fr(1), k1=Fr(1), o2=Fr(1), o3=Fr(1))),
                ('dense-no-bias', dict(base, cin=Fr(5), cout=Fr(3), groups=Fr(1), k0=Fr(1), k1=Fr(1), o2=Fr(1), o3=Fr(1), bias=Fr(0)))]
    out = []
    kernels = [(1, 1), (3, 3), (5, 5), (3, 1)] if kind == 'conv2d' else [(1, 1), (3, 1), (5, 1)]
    shapes = [('dense', 8, 16, 1), ('dense-square', 8, 8, 1), ('depthwise', 8, 8, 8), ('depthwise-wide', 33, 33, 33), ('one-to-one', 1, 1, 1),
              ('grouped', 8, 16, 2), ('grouped-square', 8, 8, 2),
              ('channel-multiplier', 4, 8, 4), ('channel-multiplier-x3', 3, 9, 3),      # groups == in_channels, out = K * in
              ('single-input', 1, 8, 1), ('single-output', 8, 1, 1)]
    for tag, cin, cout, g in shapes:
        for k0, k1 in kernels:
            e = dict(base, cin=Fr(cin), cout=Fr(cout), groups=Fr(g), k0=Fr(k0), k1=Fr(k1))
            if kind == 'conv1d':
                e['o3'] = Fr(1)
            out.append(('%s-%s' % (tag, '%dx%d' % (k0, k1) if kind == 'conv2d' else str(k0)), e))
    for tag, e in list(out):                      # the analog DIANA precision pair and a low-precision point as well
        if tag.endswith('3x3') or tag.endswith('-3') or tag.endswith('1x1') or tag.endswith('-1'):
            out.append((tag + '-w2', dict(e, wp=Fr(2))))
    return out


REAL_COUNT = {'params': lambda w, b, pos: w + b, 'params_no_bias': lambda w, b, pos: w,
              'ops': lambda w, b, pos: (w + b) * pos, 'ops_no_bias': lambda w, b, pos: w * pos}


def real_counts(torch, kind, e):
    """(weight elements, bias elements, output positions) of the real torch layer described by e"""
    import torch.nn as nn
    cin, cout, g, bias = int(e['cin']), int(e['cout']), int(e['groups']), bool(e['bias'])
    with torch.no_grad():
        if kind == 'linear':
            m, x = nn.Linear(cin, cout, bias=bias), torch.zeros(1, cin)
        elif kind == 'conv1d':
            m, x = nn.Conv1d(cin, cout, int(e['k0']), groups=g, bias=bias), torch.zeros(1, cin, int(e['o2']) + int(e['k0']) - 1)
        else:
            m = nn.Conv2d(cin, cout, (int(e['k0']), int(e['k1'])), groups=g, bias=bias)
            x = torch.zeros(1, cin, int(e['o2']) + int(e['k0']) - 1, int(e['o3']) + int(e['k1']) - 1)
        y = m(x)
    pos = 1
    for d in y.shape[2:]:
        pos *= int(d)
    return m.weight.numel(), (m.bias.numel() if m.bias is not None else 0), pos


def call_lookup(torch, sname, kind, env, rep):
    """look the layer up in the spec and evaluate what comes back -> (value | None, exception | None, function | None)"""
    import torch.nn as nn
    import plinio.cost as pc
    ltype = {'conv1d': nn.Conv1d, 'conv2d': nn.Conv2d, 'linear': nn.Linear}[kind]
    P = Fn()
    P.kind = kind
    try:
        d = mk_spec(torch, P, env, rep)
        fn = getattr(pc, sname)[(ltype, d)]
    except Exception as ex:
        return None, type(ex).__name__, None
    try:
        v = fn(d)
    except Exception as ex:
        return None, type(ex).__name__, fn
    return float(v), None, fn


def supported(F, e):
    """True: a valid layer description the model covers (must return a value);  False: an unsupported
    precision / layer kind (must be rejected);  None: either behaviour is acceptable.
    Written from the property and the models' documentation, not from the Coq model."""
    if F.spec in ('mpic_latency', 'mpic_energy'):
        return e['ip'] in (2, 4, 8) and e['wp'] in (0, 2, 4, 8)
    if F.spec == 'ne16_latency':
        if e['wp'] == 0 or e['theta'] == 0:
            return None if e['ip'] != 8 else True      # a pruned (0-bit) layer costs nothing on any accelerator
        if e['ip'] != 8:
            return False
        if F.kind == 'conv2d':
            k = (e['k0'], e['k1'])
            return k == (3, 3) or (k == (1, 1) and not F.dw)
        return True
    if F.spec == 'diana_latency':
        if (e['wp'], e['ip']) == (2, 8):
            return e['groups'] == 1 or F.kind == 'linear'
        return (e['wp'], e['ip']) == (8, 8)
    return True


def _mentions(t, var):
    if not isinstance(t, tuple):
        return False
    if t[0] == 'var':
        return t[1] == var
    return any(_mentions(x, var) if isinstance(x, tuple) else (isinstance(x, list) and False) for x in t[1:])


def load_fns(torch, res, notes):
    import plinio.cost as pc
    from plinio.cost import pattern as pat
    fns = []
    live_tables = {}
    for sname in ALL_SPECS:
        cs = getattr(pc, sname, None)
        if cs is None:
            notes.append('plinio.cost.%s missing' % sname)
            continue
        live_tables[sname] = (bool(cs.shared), [])
        for ltype, lst in cs.data.items():
            for constr, fn in lst:
                lname = ltype.__name__
                # the name plinio.cost.pattern itself gives to this (layer type, constraint) pair
                named = [k for k, v in vars(pat).items() if isinstance(v, tuple) and len(v) == 2 and v[0] is ltype and v[1] is constr]
                pname = named[0] if named else lname + ':' + getattr(constr, '__name__', 'unconstrained' if constr is None else 'constraint')
                live_tables[sname][1].append((pname, fn.__name__))
                F = Fn()
                F.spec, F.pattern, F.fn, F.py_name = sname, pname, fn, fn.__name__
                F.id = '%s/%s' % (sname, pname)
                F.kind = lname.lower()
                F.dw = constr is pat.conv_dw_constraint
                cn = cost2coq.coq_name(sname, fn.__name__)
                F.cn = cn
                if cn in res['functions']:
                    F.model = '(run_cost %s)' % cn
                elif (sname, fn.__name__) in HAND:
                    F.model = HAND[(sname, fn.__name__)]
                else:
                    F.model = None
                # does the function's result depend on spec['groups']?  (translated: the term mentions it; hand models: DIANA conv2d)
                F.reads_groups = (_mentions(res['functions'][cn]['body'], 9) if cn in res['functions'] else (sname == 'diana_latency' and F.kind == 'conv2d'))
                F.idx = len(fns)
                fns.append(F)
    return fns, live_tables


# ----------------------------------------------------------------------------- grids
# non-integer bit-widths (0.5, 2.5, 4.75, 8.875, just below / above 8): dyadic so that float32, float64 and Q agree exactly
FRACTIONAL_BITS = [Fraction(1, 2), Fraction(5, 2), Fraction(19, 4), Fraction(71, 8), 8 - Fraction(1, 2048), 8 + Fraction(1, 4096)]
BOUNDARY_CH = [0, 1, 2, 3, 4, 5, 7, 8, 9, 15, 16, 17, 31, 32, 33, 47, 48, 49, 63, 64, 65, 95, 96, 97, 127, 128, 129, 130]


# fractional (relaxed) channel counts just below / above the tile multiples: k*16 -+ 2^-17 .. 2^-10 (7.6e-6 .. 1e-3), dyadic
NEAR_TILE = sorted(Fraction(m) + sg * Fraction(1, 2 ** p) for m in (16, 32, 48, 64, 128) for p in (17, 15, 14, 12, 10) for sg in (-1, 1))
TILED_SPECS = ('gap8_latency', 'ne16_latency', 'diana_latency')


def ch_values(quick, dense=True, frac=True, near=False):
    ints = (list(range(0, 131)) if dense else BOUNDARY_CH) + [255, 256, 257, 511, 512, 513]
    if quick:
        fr = [Fraction(c) + f for c in (0, 1, 2, 3, 4, 7, 8, 15, 16, 17, 31, 32, 33, 63, 64, 65, 127, 128, 129)
              for f in (Fraction(1, 4), Fraction(1, 2), Fraction(3, 4))]
    else:
        fr = [Fraction(n, 4) for n in range(1, 521) if n % 4]
    return sorted(set(Fraction(x) for x in ints) | (set(fr) if frac else set()) | (set(NEAR_TILE) if near else set()))


def bases_for(F, quick):
    Fr = Fraction
    B = [dict(cin=16, cout=32, k0=3, k1=3, o2=6, o3=6, wp=8, ip=8, bias=1, groups=1, theta=1),
         dict(cin=3, cout=5, k0=1, k1=1, o2=1, o3=1, wp=2, ip=8, bias=0, groups=1, theta=Fr(1, 2)),
         dict(cin=100, cout=130, k0=5, k1=7, o2=33, o3=17, wp=4, ip=4, bias=1, groups=1, theta=Fr(1, 4))]
    if not quick:
        B += [dict(cin=1, cout=1, k0=7, k1=7, o2=2, o3=9, wp=2, ip=2, bias=1, groups=1, theta=1),
              dict(cin=64, cout=64, k0=3, k1=1, o2=16, o3=16, wp=8, ip=2, bias=0, groups=1, theta=Fr(3, 4)),
              dict(cin=33, cout=17, k0=7, k1=1, o2=8, o3=33, wp=4, ip=8, bias=1, groups=1, theta=Fr(1, 8)),
              dict(cin=128, cout=129, k0=1, k1=3, o2=3, o3=3, wp=8, ip=4, bias=0, groups=1, theta=1),
              dict(cin=17, cout=48, k0=1, k1=1, o2=32, o3=4, wp=2, ip=8, bias=1, groups=1, theta=Fr(1, 2)),
              dict(cin=65, cout=31, k0=3, k1=3, o2=15, o3=16, wp=8, ip=8, bias=1, groups=1, theta=Fr(1, 4)),
              dict(cin=2, cout=96, k0=5, k1=5, o2=7, o3=1, wp=4, ip=2, bias=0, groups=1, theta=1)]
    out, seen = [], set()
    for b in B:
        b = {k: Fraction(v) for k, v in b.items()}
        if F.spec == 'ne16_latency':
            b['ip'] = Fraction(8)
            if F.dw or (b['k0'], b['k1']) not in ((3, 3), (1, 1)):
                b['k0'] = b['k1'] = Fraction(3)
        if F.spec == 'diana_latency':
            b['ip'] = Fraction(8)
            b['wp'] = Fraction(2) if b['wp'] == 2 else Fraction(8)
        if F.kind == 'conv1d':
            b['k1'] = b['o3'] = Fraction(1)
        if F.kind == 'linear':
            b['k0'] = b['k1'] = b['o2'] = b['o3'] = Fraction(1)
        if F.dw:
            b['cin'] = b['groups'] = b['cout']
        key = tuple(b[k] for k in ENV_KEYS)
        if key not in seen:
            seen.add(key)
            out.append(b)
    if getattr(F, 'reads_groups', False) and not F.dw and F.kind != 'linear':
        # models whose result depends on `groups`: the same sweeps (0 effective channels included) through a grouped and
        # a depthwise-shaped layer, at the precision of the first base point
        b0 = out[0]
        out.append(dict(b0, groups=Fraction(2)))
        out.append(dict(b0, cin=b0['cout'], groups=b0['cout']))
    return out


def sweeps_for(F, quick):
    """yields (base index, swept variable, [env, ...] in increasing order of the variable)"""
    ks = [Fraction(x) for x in (1, 3, 5, 7)]
    os_ = [Fraction(x) for x in range(1, 34)]
    bits = sorted([Fraction(x) for x in (0, 1, 2, 3, 4, 6, 8, 16)] + FRACTIONAL_BITS)
    for bi, b in enumerate(bases_for(F, quick)):
        chs = ch_values(quick, dense=(bi == 0 or not quick), frac=(bi <= 1 or not quick), near=(not quick or (bi <= 1 and F.spec in TILED_SPECS)))   # quick: every channel count through the first base point, tile boundaries +-1 through the others

        def sw(var, vals, keys):
            envs = []
            for v in vals:
                e = dict(b)
                for k in keys:
                    e[k] = v
                if var == 'ch':
                    e['groups'] = Fraction(max(1, math.ceil(v)))
                envs.append(e)
            return (bi, var, envs)
        if F.dw:
            yield sw('ch', chs, ('cin', 'cout'))
        else:
            yield sw('cin', chs, ('cin',))
            yield sw('cout', chs, ('cout',))
        if F.kind != 'linear':
            yield sw('k0', ks, ('k0',))
            yield sw('o2', os_, ('o2',))
        if F.kind == 'conv2d':
            yield sw('k1', ks, ('k1',))
            yield sw('k', ks, ('k0', 'k1'))
            yield sw('o3', os_, ('o3',))
        yield sw('wp', bits, ('wp',))
        yield sw('ip', bits, ('ip',))
        yield sw('bias', [Fraction(0), Fraction(1)], ('bias',))
        if F.spec == 'ne16_latency':
            yield sw('theta', [Fraction(x) for x in (0, Fraction(1, 8), Fraction(1, 4), Fraction(1, 2), Fraction(3, 4), 1)], ('theta',))
        if F.spec == 'diana_latency' and F.kind == 'conv2d':
            yield sw('groups', [Fraction(x) for x in (1, 2, 4, 16)], ('groups',))


def envkey(e):
    return tuple(e[k] for k in ENV_KEYS)


def jenv(e):
    return {k: (int(v) if Fraction(v).denominator == 1 else str(v)) for k, v in e.items()}


def tol_for(F, e):
    if F.spec == 'mpic_energy':
        return TOL20          # float32 mean power constant
    if F.spec == 'mpic_latency':
        return TOL40
    if F.spec == 'diana_latency' and e['wp'] == 2:
        return TOL40
    if F.spec == 'ne16_latency' and e['theta'].numerator != 1:
        return TOL40          # latency / theta is not exact in binary floating point
    return Fraction(0)


# ----------------------------------------------------------------------------- oracle on one sweep
def oracle_sweep(F, var, pts, report):
    """pts: [(env, value|None, exc|None)] ordered by the swept variable"""
    prev = None
    for e, v, exc in pts:
        sup = supported(F, e)
        if exc is not None:
            if sup is True:
                report('raises-on-valid-layer:%s' % F.id, F, {'env': jenv(e), 'exception': exc},
                       '%s raised %s on a valid layer description %s' % (F.id, exc, jenv(e)))
            continue
        if sup is False:
            what = 'precision' if var in ('wp', 'ip') or F.kind == 'linear' or F.spec.startswith('mpic') else 'precision-or-kind'
            report('accepts-unsupported-%s:%s' % (what, F.id), F, {'env': jenv(e), 'value': v},
                   '%s returned %r for the unsupported layer/precision %s instead of rejecting it' % (F.id, v, jenv(e)))
            continue
        if not math.isfinite(v):
            report('not-finite:%s' % F.id, F, {'env': jenv(e), 'value': repr(v)}, '%s returned %r for %s' % (F.id, v, jenv(e)))
            continue
        if v < 0:
            report('negative:%s' % F.id, F, {'env': jenv(e), 'value': v}, '%s returned the negative cost %r for %s' % (F.id, v, jenv(e)))
        nonempty = all(e[k] >= 1 for k in ('cin', 'cout', 'k0', 'k1', 'o2', 'o3')) and e['wp'] >= 2 and e['ip'] >= 2 and e['theta'] > 0
        if nonempty and not v > 0:
            report('not-positive:%s' % F.id, F, {'env': jenv(e), 'value': v}, '%s returned %r for the non-empty layer %s' % (F.id, v, jenv(e)))
        mono = var in SIZE_VARS or (var == 'wp' and F.spec in MONO_WP) or (var == 'ip' and F.spec in MONO_IP)
        if mono and prev is not None and v < prev[1]:
            report('not-monotone:%s:%s' % (F.id, var), F, {'env': jenv(prev[0]), 'env_larger': jenv(e), 'var': var, 'value': prev[1], 'value_larger': v},
                   '%s decreases from %r to %r when %s grows from %s to %s (other arguments %s)' % (F.id, prev[1], v, var, prev[0][_vk(var)], e[_vk(var)], jenv(prev[0])))
        prev = (e, v)


def _vk(var):
    return {'ch': 'cout', 'k': 'k0'}.get(var, var)


# ----------------------------------------------------------------------------- helpers (STE functions)
def helper_stream(ctx, torch, report, notes):
    """exactness on integers + gradient pass-through, and (coq expr, impl value) pairs for the correspondence"""
    import importlib   # `import plinio.cost.x as m` would bind the CostSpec object that shadows the submodule
    g8 = importlib.import_module('plinio.cost.gap8_latency')
    di = importlib.import_module('plinio.cost.diana_latency')
    ne = importlib.import_module('plinio.cost.ne16_latency')
    pairs = []
    ints = list(range(0, 131)) + [255, 256, 257, 511, 512, 513]
    fr = [Fraction(n, 4) for n in range(1, 140, 3) if n % 4] + [Fraction(n, 4) for n in (127, 129, 511, 513, 2047, 2049)]
    Ns = (2, 3, 4, 8, 16, 32, 128, 256, 512)
    exact_on_fractions = {'ne16.FloorDivideSTE': lambda a, n: Fraction(math.floor(a / n)), 'ne16.ModuloSTE': lambda a, n: a - n * math.floor(a / n)}
    cdiv = lambda a, n: -((-a) // n)
    table = [
        ('gap8.FloorSTE', g8, 'FloorSTE', True, 'floor_ste', cdiv, 'ceil(ch/N)'),
        ('gap8._floor', g8, '_floor', False, 'floor_ste', cdiv, 'ceil(ch/N)'),
        ('diana.FloorSTE', di, 'FloorSTE', True, 'floor_ste', cdiv, 'ceil(ch/N)'),
        ('diana._floor', di, '_floor', False, 'floor_ste', cdiv, 'ceil(ch/N)'),
        ('ne16.DivAndCeilSTE', ne, 'DivAndCeilSTE', True, 'div_and_ceil', cdiv, 'ceil(a/b)'),
        ('ne16.FloorDivideSTE', ne, 'FloorDivideSTE', True, 'floor_divide', lambda a, n: a // n, 'floor(a/b)'),
        ('ne16.ModuloSTE', ne, 'ModuloSTE', True, 'modulo', lambda a, n: a % n, 'a mod b'),
    ]
    for name, mod, attr, is_ste, cname, exact, what in table:
        h = getattr(mod, attr, None)
        if h is None:
            notes.append('helper %s not found' % name)
            continue
        f = (lambda x, n, h=h: h.apply(x, n)) if is_ste else (lambda x, n, h=h: h(x, n))
        for n in Ns:
            for c in ints + fr + (NEAR_TILE if n in (16, 32) else []):
                try:
                    v = float(f(T(torch, c), n))
                except Exception as ex:
                    report('helper-raises:%s' % name, None, {'helper': name, 'x': str(c), 'N': n, 'exception': type(ex).__name__}, '%s(%s, %d) raised %s' % (name, c, n, type(ex).__name__))
                    continue
                ctx.case(('helper', name, c, n), nontrivial=True, kind='helper:' + name,
                         sample={'helper': name, 'x': str(c), 'N': n, 'impl': v} if c == 33 and n == 4 else None)
                if not isinstance(c, int) and name in exact_on_fractions and math.isfinite(v) and Fraction(v) != exact_on_fractions[name](Fraction(c), n):
                    report('helper-not-exact:%s' % name, None, {'helper': name, 'x': str(c), 'N': n, 'value': v, 'required': str(exact_on_fractions[name](Fraction(c), n))},
                           '%s(%s, %d) = %r but the exact %s = %s' % (name, c, n, v, what, exact_on_fractions[name](Fraction(c), n)))
                if isinstance(c, int):
                    if v != exact(c, n):
                        report('helper-not-exact:%s' % name, None, {'helper': name, 'x': c, 'N': n, 'value': v, 'required': exact(c, n)},
                               '%s(%d, %d) = %r but %s = %d' % (name, c, n, v, what, exact(c, n)))
                if math.isfinite(v) and (not isinstance(c, int) or c in BOUNDARY_CH or c > 130 or not ctx.quick):
                    pairs.append(('%s %s %s' % (cname, coq(Fraction(c)), coq(Fraction(n))), Fraction(v), (name, str(c), n)))
        if is_ste:   # straight-through: d out / d x = 1
            for c in (0, 1, 3, 4, 5, 31, 32, 33, Fraction(9, 4), Fraction(1, 2)):
                for n in (4, 16):
                    g0 = Fraction(ctx.rng.randint(-64, 64), 8)
                    x = torch.tensor(float(c), dtype=torch.float64, requires_grad=True)
                    y = h.apply(x, n)
                    (y * float(g0)).backward()
                    gx = None if x.grad is None else float(x.grad)
                    ctx.case(('grad', name, c, n, g0), nontrivial=True, kind='helper-grad')
                    if gx is None or Fraction(gx) != g0:
                        report('helper-gradient-not-passed:%s' % name, None, {'helper': name, 'x': str(c), 'N': n, 'upstream': str(g0), 'grad': gx},
                               '%s passes gradient %r instead of the upstream gradient %s at x=%s' % (name, gx, g0, c))
    gate = getattr(di, 'GateSTE', None)
    if gate is not None:
        for c in ints[:6] + fr[:12] + [Fraction(1, 4), Fraction(3, 4)]:
            for th in (1.0, 2.0):
                v = float(gate.apply(T(torch, c), th))
                ctx.case(('helper', 'gate', c, th), kind='helper:diana.GateSTE')
                if v != (1.0 if c >= th else 0.0):
                    report('helper-not-exact:diana.GateSTE', None, {'helper': 'GateSTE', 'x': str(c), 'th': th, 'value': v}, 'GateSTE(%s,%s) = %r' % (c, th, v))
                pairs.append(('gate %s %s' % (coq(Fraction(c)), coq(Fraction(th))), Fraction(v), ('GateSTE', str(c), th)))
                g0 = Fraction(ctx.rng.randint(0, 64), 8)
                x = torch.tensor(float(c), dtype=torch.float64, requires_grad=True)
                (gate.apply(x, th) * float(g0)).backward()
                gx = Fraction(float(x.grad))
                pairs.append(('gate_grad %s %s %s' % (coq(Fraction(c)), coq(Fraction(th)), coq(g0)), gx, ('GateSTE.backward', str(c), th, str(g0), 'float32')))
    return pairs


# ----------------------------------------------------------------------------- generated file
def regenerate(ctx):
    """translate the tree under test, write Gen/CostGen.v if changed.  -> translation result"""
    res = cost2coq.translate_repo(REPO)
    write_if_changed(GEN_V, cost2coq.emit_coq(res))
    return res


def diagnose_generated(ctx, res):
    """the generated file does not compile: find every obligation that does not check (compile a probe copy,
    drop the lemma the error points at, repeat) -> set of lemma names, or None when the file is broken elsewhere"""
    skip = set()
    probe = os.path.join(ctx.bdir, 'CostGenProbe.v')
    for _ in range(120):
        text = cost2coq.emit_coq(res, skip)
        open(probe, 'w').write(text)
        rc, out = coqc_file(probe, 600)
        if rc == 0:
            return skip
        m = re.search(r'line (\d+), characters', out)
        if not m:
            ctx.notes.append('generated file broken: ' + out[-600:])
            return None
        lines = text.split('\n')
        name = None
        for ln in range(min(int(m.group(1)), len(lines)) - 1, -1, -1):
            mm = re.match(r'(Lemma|Corollary|Definition)\s+(\S+)', lines[ln])
            if mm:
                name = mm.group(2) if mm.group(1) == 'Lemma' else None
                break
        if name is None or name in skip:
            ctx.notes.append('generated file broken outside a lemma: ' + out[-600:])
            return None
        skip.add(name)
    return None


def generated_assumptions(ctx, gen_obs, broken):
    """-> {obligation name: [] (closed) | [axiom text]} from ONE coqc run over Gen/CostGen.vo.  The lemma inspected is
    the corollary that USES the reflective obligation (<f>_mono_nonneg for <f>_ok, <f>_positive for <f>_pos), so that
    the Expr soundness theorem it instantiates is covered too; the dw lemmas are inspected themselves."""
    pairs = []
    for name, kind, _ in gen_obs:
        if name in broken:
            continue
        lemma = name[:-3] + '_mono_nonneg' if kind == 'okb' else name[:-4] + '_positive' if kind == 'posb' else name
        pairs.append((name, lemma))
    if not pairs:
        return {}
    p = os.path.join(ctx.bdir, 'assum_generated.v')
    open(p, 'w').write('Require Import Plinio.Gen.CostGen.\n' + ''.join('Print Assumptions %s.\n' % l for _, l in pairs))
    rc, out = coqc_file(p, 600)
    ctx.checker_cmds.append('coqc -Q /verif/coq Plinio build/C16/assum_generated.v   (Print Assumptions of the %d generated corollaries / dw lemmas)' % len(pairs))
    if rc != 0:
        ctx.notes.append('Print Assumptions of the generated lemmas failed: ' + out[-800:])
        return {}
    blocks = [b.strip() for b in re.split(r'(?m)^(?=Closed under the global context|Axioms:|Section Variables:)', out) if b.strip()]
    if len(blocks) != len(pairs):
        ctx.notes.append('Print Assumptions of the generated lemmas: %d blocks for %d lemmas' % (len(blocks), len(pairs)))
        return {}
    return {name: ([] if b.startswith('Closed under') else [re.sub(r'\s+', ' ', b)]) for (name, _), b in zip(pairs, blocks)}


# ----------------------------------------------------------------------------- main
def run(ctx):
    torch = _torch()
    quick = ctx.quick
    # 1. regenerate + build
    res = regenerate(ctx)
    built = ctx.build(targets=['Gen/CostGen.vo', 'Props/C16.vo'])
    broken = {}                                   # obligation name -> reason
    for cn, why in res['errors'].items():
        broken[cn if cn.startswith('pin__') else cn + '_ok'] = why
    gen_obs = cost2coq.obligations(res)
    if not built and 'Gen/CostGen' in getattr(ctx, 'broken_log', ''):
        skip = diagnose_generated(ctx, res)
        if skip is None:
            for name, _, _ in gen_obs:
                broken[name] = 'Gen/CostGen.v does not compile'
        else:
            for name in skip:
                broken[name] = 'reflective obligation computes to false / proof fails'
            write_if_changed(GEN_V, cost2coq.emit_coq(res, skip))
            ctx.obligations = []
            built = ctx.build(targets=['Gen/CostGen.vo', 'Props/C16.vo'])
    gen_ok = os.path.exists(GEN_V[:-2] + '.vo') and (built or 'Gen/CostGen' not in getattr(ctx, 'broken_log', ''))
    # Print Assumptions of the corollary behind every generated obligation (one coqc run); an obligation whose
    # corollary is not closed under the global context does not count as discharged
    gen_ass = generated_assumptions(ctx, gen_obs, broken) if gen_ok else {}
    for name, _, _ in gen_obs:
        ass = gen_ass.get(name)
        if gen_ok and name not in broken and ass is None:
            broken[name] = 'Print Assumptions of its corollary could not be obtained'
        elif ass:
            broken[name] = 'not closed under the global context: ' + '; '.join(ass)
        ctx.obligations.append((name, gen_ok and name not in broken, ass or []))
    ctx.extra['generated_assumptions'] = {'printed': len(gen_ass), 'closed': sum(1 for a in gen_ass.values() if a == []),
                                          'not_closed': {k: v for k, v in gen_ass.items() if v}}
    for name in broken:
        if name not in [o[0] for o in ctx.obligations]:
            ctx.obligations.append((name, False, []))
    ctx.extra['generated_obligations'] = len(gen_obs)
    ctx.extra['translated_functions'] = len(res['functions'])
    ctx.extra['untranslatable'] = res['errors']
    ctx.assumptions += ['translator/cost2coq.py (fail-closed whitelist); its output is compared with the Python functions on the whole grid on every run',
                        'autograd pass-through of the straight-through helpers is observed (x.grad == upstream gradient), not proved',
                        'float64 evaluation of the implementation: integer/dyadic results compared with =, MPIC / DIANA-analog within 2^-40, MPIC energy (float32 constant) within 2^-20']
    ctx.rule = ('every registered function of every spec in plinio.cost x base points (3 quick / 10 thorough) x one-dimensional sweeps: channels 0..130 (quick: through the first base point, multiples of 16 +-1 through the others) + {255..257, 511..513} + quarter-step '
                'fractions (around tile boundaries quick / all thorough), kernel entries {1,3,5,7} (each and jointly), output sizes 1..33, bits {0,1,2,3,4,6,8,16} for weights and activations, '
                'bias on/off, theta, groups; plus every function on integer-sized layers (base points, channel counts around tile sizes, one unsupported precision) described with plain ints, plain floats, float32 tensors and vars() of a real nn module + real forward shapes; non-integer bit-widths (0.5, 2.5, 4.75, 8.875, 8 -+ eps) as tensors and floats; relaxed channel counts k*16 -+ 2^-17..2^-10 next to the tile multiples (tiled models; all models in thorough); per function one in-process call SEQUENCE covering every ordered pair of (name of the activation-precision key, precision in {8,4,3}); every spec looked up (spec[(type, layer)](layer)) on dense / grouped / depthwise / one-to-one / channel-multiplier (groups == in, out = K*in) / single-input / single-output layers x kernels 1, 3, 5, mixed — a layer costed by a depthwise formula must cost groups x generic(one group), params/ops counts must be those of the real torch layer; models that read `groups` are swept through grouped and depthwise-shaped base points too (0 effective channels included); empty layers also as plain numbers; one case = one call of a cost function (or STE helper); non-trivial = returns a cost > 0 or rejects; distinct by (function, arguments)')

    notes = ctx.notes
    fns, live_tables = load_fns(torch, res, notes)
    fails = []

    def report(key, F, info, what):
        if F is not None:
            info = dict(info, fn=F.id, spec=F.spec, pattern=F.pattern, py_name=F.py_name)
        fails.append((key, info, what))

    # 2./3. implementation sweeps + oracle
    cache = {}
    cases = []                      # (F, env, value, exc)
    for F in fns:
        for bi, var, envs in sweeps_for(F, quick):
            pts = []
            for e in envs:
                k = (F.idx, envkey(e))
                if k not in cache:
                    v, exc = call(torch, F, e)
                    cache[k] = (v, exc)
                    cases.append((F, e, v, exc, 'f64'))
                    ctx.case(k, nontrivial=(exc is not None) or (v is not None and v > 0),
                             kind='%s:%s' % (F.spec, 'reject' if exc else 'value'),
                             sample={'fn': F.id, 'env': jenv(e), 'impl': v if exc is None else 'EXC:' + exc} if (var == 'cout' and e['cout'] == 33) else None)
                    ctx.dist['var:' + var] += 1
                v, exc = cache[k]
                pts.append((e, v, exc))
            oracle_sweep(F, var, pts, report)
    # the same functions on the OTHER representations of a valid layer description: plain ints, plain floats,
    # float32 tensors, vars() of a real module + the shapes of a real forward (static layers, full_cost=True)
    for F in fns:
        for e in static_envs(F, quick):
            for rep in reps_for(e):
                v, exc = call(torch, F, e, rep)
                cases.append((F, e, v, exc, rep))
                ctx.case((F.idx, envkey(e), rep), nontrivial=(exc is not None) or (v is not None and v > 0), kind='rep:%s:%s' % (rep, 'reject' if exc else 'value'),
                         sample={'fn': F.id, 'representation': rep, 'env': jenv(e), 'impl': v if exc is None else 'EXC:' + exc} if (rep == 'module' and F.spec == 'gap8_latency') else None)
                sup = supported(F, e)
                info = {'env': jenv(e), 'representation': rep}
                if exc is not None and sup is True:
                    report('raises-on-valid-layer:%s:%s' % (F.id, 'float32-tensors' if rep == 'f32' else 'static-description'), F, dict(info, exception=exc),
                           '%s raised %s on the valid layer %s described with %s' % (F.id, exc, jenv(e), REP_TEXT[rep]))
                elif exc is None and sup is False:
                    report('accepts-unsupported-precision:%s' % F.id, F, dict(info, value=v),
                           '%s returned %r for the unsupported precision %s described with %s' % (F.id, v, jenv(e), REP_TEXT[rep]))
                elif exc is None:
                    if not (math.isfinite(v) and v >= 0 and (v > 0 or e['wp'] < 2 or e['ip'] < 2 or e['cin'] < 1 or e['cout'] < 1)):
                        report('not-finite-nonneg-positive:%s:%s' % (F.id, rep), F, dict(info, value=repr(v)),
                               '%s returned %r (required: finite, >= 0, > 0 when non-empty) for the layer %s described with %s' % (F.id, v, jenv(e), REP_TEXT[rep]))
    # call SEQUENCES in this one process: a cost function is a pure function of ONE layer description — what it returns
    # (or whether it rejects) must not depend on the descriptions it was called with before
    for F in fns:
        first = {}
        hist = []
        for e, keys in sequence_for(F, quick):
            v, exc = call(torch, F, e, 'f64', keys)
            hist.append({'env': jenv(e), 'keys': keys})
            cases.append((F, e, v, exc, 'f64'))
            ctx.case((F.idx, 'seq', len(hist), envkey(e), keys), nontrivial=True, kind='sequence:%s:%s' % (keys, 'reject' if exc else 'value'),
                     sample={'fn': F.id, 'step': len(hist), 'keys': keys, 'env': jenv(e), 'impl': v if exc is None else 'EXC:' + exc} if (F.spec == 'diana_latency' and len(hist) == 5) else None)
            sup = supported(F, e)
            info = {'env': jenv(e), 'keys': keys, 'sequence': list(hist)}
            prev = hist[-2] if len(hist) > 1 else None
            if exc is not None and sup is True:
                report('raises-on-valid-layer-in-sequence:%s' % F.id, F, dict(info, exception=exc),
                       '%s raised %s on the valid layer %s (activation precision given as %s) at step %d of a call sequence; previous call: %s' % (F.id, exc, jenv(e), keys, len(hist), prev))
            elif exc is None and sup is False:
                report('accepts-unsupported-precision-in-sequence:%s' % F.id, F, dict(info, value=v),
                       '%s returned %r for the unsupported precision of %s (given as %s) at step %d of a call sequence; previous call: %s' % (F.id, v, jenv(e), keys, len(hist), prev))
            k = envkey(e)
            if k in first and first[k][0] != (v, exc is None):
                report('outcome-depends-on-call-history:%s' % F.id, F, dict(info, value=v, exception=exc, first_outcome=first[k][0], first_step=first[k][1]),
                       '%s gives %s for %s at step %d but gave %s for the same layer at step %d' % (F.id, v if exc is None else 'EXC:' + exc, jenv(e), len(hist), first[k][0], first[k][1]))
            first.setdefault(k, ((v, exc is None), len(hist)))
    # every spec LOOKED UP (pattern + constraint resolution included) on layers at the intersections of the constraint
    # families: a valid layer of a kind the spec registers must get a finite non-negative cost, not an exception
    import plinio.cost as pc_
    for sname in ALL_SPECS:
        cs = getattr(pc_, sname, None)
        if cs is None:
            continue
        for kind in sorted({t.__name__.lower() for t in cs.data}):
            for tag, e in lookup_layers(kind):
                if tag.endswith('-w2') and sname != 'diana_latency':      # the 2-bit variants only matter where the precision selects the accelerator
                    continue
                P = Fn()
                P.spec, P.kind, P.dw = sname, kind, (kind != 'linear' and e['cin'] == e['cout'] == e['groups'])
                P.id, P.pattern, P.py_name = '%s[%s]' % (sname, kind), 'lookup', 'lookup'
                sup = supported(P, e)
                for rep in ('f64', 'module'):
                    v, exc, fn = call_lookup(torch, sname, kind, e, rep)
                    Ff = [F for F in fns if fn is not None and F.fn is fn and F.spec == sname]
                    if Ff:
                        cases.append((Ff[0], e, v, exc, rep))
                    ctx.case(('lookup', sname, kind, envkey(e), rep), nontrivial=True, kind='lookup:%s:%s' % (kind, 'reject' if exc else 'value'),
                             sample={'spec': sname, 'layer': kind + ':' + tag, 'representation': rep, 'env': jenv(e), 'impl': v if exc is None else 'EXC:' + exc} if (tag == 'depthwise-1x1' and sname == 'gap8_latency') else None)
                    info = {'lookup': True, 'spec_name': sname, 'kind': kind, 'layer': tag, 'env': jenv(e), 'representation': rep}
                    if exc is None and Ff and math.isfinite(v):
                        # dispatch level: a layer costed by the DEPTHWISE formula of a hardware-independent spec must cost
                        # groups x the generic formula of one group, and size / operation counts are those of the real layer
                        if Ff[0].dw and sname in cost2coq.HW_INDEPENDENT:
                            Fg = [F for F in fns if F.spec == sname and F.kind == kind and not F.dw and F.pattern.endswith('Generic')]
                            g = e['groups']
                            if Fg:
                                eg = dict(e, cin=e['cin'] / g, cout=e['cout'] / g, groups=Fraction(1))
                                vg, xg = call(torch, Fg[0], eg)
                                ctx.case(('lookup-dw', sname, kind, envkey(e), rep), kind='lookup:dw-vs-generic')
                                if xg is not None or v != float(g) * vg:
                                    report('dw-dispatch-differs-from-generic-per-group:%s:%s' % (sname, kind), None, dict(info, value=v, groups=int(g), generic_one_group=vg, env_one_group=jenv(eg), dispatched_to=Ff[0].py_name),
                                           '%s[(%s, layer)] costs the %s layer %s with the depthwise formula %s = %r but %d groups x generic(one group %s) = %d x %r' % (sname, kind, tag, jenv(e), Ff[0].py_name, v, g, jenv(eg), g, vg))
                        if rep == 'module' and sname in REAL_COUNT and (e['groups'] == 1 or Ff[0].dw):
                            w_, b_, pos_ = real_counts(torch, kind, e)
                            want = REAL_COUNT[sname](w_, b_, pos_)
                            ctx.case(('lookup-real', sname, kind, envkey(e)), kind='lookup:real-count')
                            if v != want:
                                report('count-differs-from-real-layer:%s:%s' % (sname, kind), None, dict(info, value=v, real_count=want, weight_elements=w_, bias_elements=b_, output_positions=pos_, dispatched_to=Ff[0].py_name),
                                       '%s[(%s, layer)] = %r for the real %s layer %s (via %s) whose weights/bias/output positions %d/%d/%d give %d' % (sname, kind, v, tag, jenv(e), Ff[0].py_name, w_, b_, pos_, want))
                    if exc is not None and sup is True:
                        report('lookup-raises-on-valid-layer:%s:%s:%s' % (sname, kind, tag), None, dict(info, exception=exc),
                               '%s[(%s, layer)](layer) raised %s for the valid %s layer %s (%s)' % (sname, kind, exc, tag, jenv(e), REP_TEXT[rep]))
                    elif exc is None and sup is False:
                        report('lookup-accepts-unsupported:%s:%s:%s' % (sname, kind, tag), None, dict(info, value=v),
                               '%s[(%s, layer)](layer) returned %r for the unsupported %s layer %s' % (sname, kind, v, tag, jenv(e)))
                    elif exc is None and not (math.isfinite(v) and v >= 0 and (v > 0 or fn is getattr(cs, 'default', None))):
                        report('lookup-not-finite-nonneg-positive:%s:%s:%s' % (sname, kind, tag), None, dict(info, value=repr(v)),
                               '%s[(%s, layer)](layer) returned %r for the non-empty %s layer %s' % (sname, kind, v, tag, jenv(e)))
    # depthwise = generic per group (hardware-independent specs)
    byid = {F.id: F for F in fns}
    for sname in cost2coq.HW_INDEPENDENT:
        for d in ('Conv1d', 'Conv2d'):
            G, W = byid.get('%s/%sGeneric' % (sname, d)), byid.get('%s/%sDW' % (sname, d))
            if G is None or W is None:
                continue
            for b in bases_for(W, quick):
                for g in list(range(1, 131)) if not quick or b is bases_for(W, quick)[0] else (1, 2, 7, 64, 130):
                    ew = dict(b, cin=Fraction(g), cout=Fraction(g), groups=Fraction(g))
                    eg = dict(b, cin=Fraction(1), cout=Fraction(1), groups=Fraction(1))
                    vw, xw = call(torch, W, ew)
                    vg, xg = call(torch, G, eg)
                    ctx.case(('dw', W.id, envkey(ew)), kind='dw-vs-generic')
                    if xw or xg or vw != g * vg:
                        report('dw-differs-from-generic-per-group:%s/%s' % (sname, d), W, {'env': jenv(ew), 'env_generic_one_group': jenv(eg), 'dw': vw, 'generic_one_group': vg, 'groups': g},
                               '%s = %r but %d groups x generic(1->1) = %d x %r' % (W.id, vw, g, g, vg))
    # helpers
    hpairs = helper_stream(ctx, torch, report, notes)

    seen = set()
    for key, info, what in fails:
        if key in seen:
            continue
        seen.add(key)
        ctx.violation(key, {'case': info}, what)

    # 4. the models in Coq on the same inputs
    mism = []
    model_ok = built
    ncmp = 0
    if built:
        try:
            lits, metas = [], []
            for F, e, v, exc, rep in cases:
                if F.model is None:
                    continue
                if exc is None and not math.isfinite(v):
                    mism.append(('non-finite implementation value', {'fn': F.id, 'env': jenv(e)}, None))
                    continue
                exp = Raw('(@None Q)') if exc is not None else some(Fraction(v))
                envlit = coq([e[k] for k in ENV_KEYS])
                lits.append('(%s, %s, %s, %s)' % (F.model, envlit, coq(exp), coq(rep_tol(F, e, v, rep))))
                metas.append({'model': F.model, 'envlit': envlit, 'case': {'fn': F.id, 'env': jenv(e), 'representation': rep, 'impl': v, 'exception': exc}})
            for ex, v, meta in hpairs:
                mt = '(fun _ => Some (%s))' % ex
                lits.append('(%s, [], %s, %s)' % (mt, coq(some(v)), coq(TOL20 if meta[-1] == 'float32' else Fraction(0))))
                metas.append({'model': mt, 'envlit': '[]', 'case': {'helper': meta, 'impl': float(v)}})
            SH = 500
            exprs = ['run_cases [%s]' % ';\n '.join(lits[i:i + SH]) for i in range(0, len(lits), SH)]
            outs = ctx.coq_eval_sharded('cases', IMPORTS, '', exprs, shard=1)
            badm = []
            for si, (n, bad) in enumerate(outs):
                ncmp += n
                badm += [metas[si * SH + j] for j in bad]
            ctx.corr += ncmp
            if badm:
                vals = ctx.coq_eval('mismatch_values', IMPORTS, '', ['show (%s (env_of %s))' % (m['model'], m['envlit']) for m in badm[:5]])
                vals += [None] * len(badm)
                for m, val in zip(badm, vals):
                    mism.append(('cost value / rejection', m['case'], ('model: %r' % (val,)) if val is not None or m in badm[:5] else None))
            # registration tables: translator's reading vs the live CostSpec objects
            for sp in res['specs']:
                live = live_tables.get(sp['name'])
                ctx.corr += 1
                if live is None or live[0] != bool(sp['shared']) or sorted(live[1]) != sorted((p, f) for p, f, _ in sp['entries']):
                    mism.append(('registration table', {'spec': sp['name'], 'translator': [sp['shared'], [(p, f) for p, f, _ in sp['entries']]], 'live': live}, None))
        except RuntimeError as ex:
            model_ok = False
            ctx.notes.append('model evaluation failed: ' + str(ex)[-1500:])
    ctx.extra['model_impl_mismatches'] = len(mism)
    ctx.extra['functions_checked'] = len(fns)

    # 5. nothing found by the oracle but something does not check
    if not ctx.violations:   # a printed KNOWN-FINDING must not hide a broken proof / model / correspondence
        if broken or not built:
            names = sorted(broken) or [o[0] for o in ctx.obligations if not o[1]]
            if quick and broken:        # denser search on the implementation before giving up
                found = dense_search(ctx, torch, fns, broken)
                if found:
                    return
            ctx.violation('proof-broken:' + (names[0] if names else 'build'), {'obligations': names, 'reasons': broken, 'log': getattr(ctx, 'broken_log', '')[-3000:]},
                          'obligation(s) no longer check: %s; searched the implementation grid, found no input on which the property fails' % ', '.join('%s (%s)' % (n, broken.get(n, 'build')) for n in names[:6]), no_input=True)
        elif not model_ok:
            ctx.violation('model-eval-broken', {'notes': ctx.notes}, 'the model could not be evaluated', no_input=True)
        elif mism:
            what, c, mv = mism[0]
            ctx.violation('correspondence-broken', {'what': what, 'case': c, 'model_value': mv, 'n_mismatches': len(mism)},
                          'model and implementation disagree on %d observations (first: %s, %s, %s) but the property oracle found no failing input' % (len(mism), what, str(c)[:400], mv), no_input=True)


def dense_search(ctx, torch, fns, broken):
    """thorough-tier sweeps on the functions whose obligations broke (all when unknown)"""
    names = {n.rsplit('_', 1)[0] for n in broken}
    sel = [F for F in fns if F.cn in names] or fns
    fails = []

    def report(key, F, info, what):
        if F is not None:
            info = dict(info, fn=F.id, spec=F.spec, pattern=F.pattern, py_name=F.py_name)
        fails.append((key, info, what))
    t0 = time.time()
    for F in sel:
        for bi, var, envs in sweeps_for(F, False):
            pts = [(e,) + call(torch, F, e) for e in envs]
            oracle_sweep(F, var, pts, report)
            if fails or time.time() - t0 > 120:
                break
        if fails or time.time() - t0 > 120:
            break
    for key, info, what in fails[:1]:
        ctx.violation(key, {'case': info}, what)
    return bool(fails)


# ----------------------------------------------------------------------------- replay
def replay(r):
    import json
    print(json.dumps(r, indent=1)[:3000])
    torch = _torch()
    c = r.get('case', {})
    c = c.get('case', c) if 'fn' not in c and 'helper' not in c else c
    if c.get('lookup'):
        e = {k: Fraction(v) for k, v in c['env'].items()}
        v, exc, fn = call_lookup(torch, c['spec_name'], c['kind'], e, c.get('representation', 'f64'))
        print('replayed %s[(%s, layer)](layer) on the %s layer %s (%s) -> %s' % (c['spec_name'], c['kind'], c['layer'], c['env'], REP_TEXT[c.get('representation', 'f64')], v if exc is None else 'raises ' + exc))
        if r.get('key', '').startswith('dw-dispatch-differs'):
            res0 = {'functions': {}}
            fns0, _ = load_fns(torch, res0, [])
            Fg = [F for F in fns0 if F.spec == c['spec_name'] and F.kind == c['kind'] and not F.dw and F.pattern.endswith('Generic')][0]
            Fl = [F for F in fns0 if F.fn is fn]
            vg, _ = call(torch, Fg, {k: Fraction(v_) for k, v_ in c['env_one_group'].items()})
            print('dispatched to %s; generic on one group %s -> %r; required when the depthwise formula is used: %d x %r' % (fn.__name__ if fn else None, c['env_one_group'], vg, c['groups'], vg))
            return 0 if exc is None and (not (Fl and Fl[0].dw) or v == c['groups'] * vg) else 1
        if r.get('key', '').startswith('count-differs-from-real-layer'):
            w_, b_, pos_ = real_counts(torch, c['kind'], e)
            want = REAL_COUNT[c['spec_name']](w_, b_, pos_)
            fns0, _ = load_fns(torch, {'functions': {}}, [])
            is_dw = any(F.fn is fn and F.dw for F in fns0)
            claimed = e['groups'] == 1 or is_dw
            print('real layer: %d weights, %d bias, %d output positions -> %d; dispatched to %s; the count is required for layers with one group and for layers costed by a depthwise formula: %s'
                  % (w_, b_, pos_, want, fn.__name__ if fn else None, 'applies' if claimed else 'does not apply (grouped layer costed by the generic formula)'))
            return 0 if exc is None and (v == want or not claimed) else 1
        if r.get('key', '').startswith('lookup-accepts-unsupported'):
            print('required: rejected (an exception)')
            return 0 if exc is not None else 1
        print('required: a finite non-negative cost (positive for a registered pattern), no exception')
        return 0 if exc is None and math.isfinite(v) and v >= 0 else 1
    if 'fn' not in c:
        print('no implementation input in this replay file (obligation / correspondence record, or helper case)')
        return 1
    res = {'functions': {}}
    fns, _ = load_fns(torch, res, [])
    F = [f for f in fns if f.id == c['fn']]
    if not F:
        print('function %s is not registered any more' % c['fn'])
        return 1
    F = F[0]
    fe = lambda d: {k: Fraction(v) for k, v in d.items()}
    key = r.get('key', '')
    if 'sequence' in c:
        steps = c['sequence']
        last = steps[-1]
        rd, wr = os.pipe()
        pid = os.fork()                         # the last description ALONE, in a process without history
        if pid == 0:
            os.close(rd)
            os.write(wr, repr(call(torch, F, fe(last['env']), 'f64', last['keys'])).encode())
            os._exit(0)
        os.close(wr)
        alone = eval(os.read(rd, 4096).decode(), {'nan': float('nan'), 'inf': float('inf')})
        os.waitpid(pid, 0)
        out = None
        for i, st in enumerate(steps):
            out = call(torch, F, fe(st['env']), 'f64', st['keys'])
            print('step %2d  %s  keys=%-7s -> %s' % (i + 1, st['env'], st['keys'], out[0] if out[1] is None else 'raises ' + out[1]))
        sup = supported(F, fe(last['env']))
        print('last description alone (fresh process) -> %s;  supported: %s' % (alone[0] if alone[1] is None else 'raises ' + alone[1], sup))
        print('required: the same outcome as alone; a valid layer is costed, an unsupported precision is rejected')
        ok = (out[0], out[1] is None) == (alone[0], alone[1] is None) and not (sup is True and out[1] is not None) and not (sup is False and out[1] is None)
        return 0 if ok else 1
    e = fe(c['env'])
    rep = c.get('representation', 'f64')
    v, exc = call(torch, F, e, rep)
    print('replayed %s on %s (described with %s) -> %s' % (F.id, c['env'], REP_TEXT[rep], v if exc is None else 'raises ' + exc))

    if key.startswith('not-monotone'):
        e2 = fe(c['env_larger'])
        v2, exc2 = call(torch, F, e2)
        print('          and on %s -> %s   (required: not smaller)' % (c['env_larger'], v2 if exc2 is None else 'raises ' + exc2))
        return 0 if exc is None and exc2 is None and v2 >= v else 1
    if key.startswith('accepts-unsupported'):
        print('required: the unsupported precision / layer kind is rejected (an exception)')
        return 0 if exc is not None else 1
    if key.startswith('raises-on-valid'):
        print('required: a finite non-negative value')
        return 0 if exc is None and math.isfinite(v) and v >= 0 else 1
    if key.startswith('dw-differs'):
        G = [f for f in fns if f.id == c['fn'].replace('DW', 'Generic')][0]
        vg, _ = call(torch, G, fe(c['env_generic_one_group']))
        print('generic on one 1->1 group: %r; required: dw == groups x generic = %r' % (vg, c['groups'] * vg))
        return 0 if v == c['groups'] * vg else 1
    print('required: finite, >= 0, > 0 on a non-empty layer')
    nonempty = all(e[k] >= 1 for k in ('cin', 'cout', 'k0', 'k1', 'o2', 'o3')) and e['wp'] >= 2 and e['ip'] >= 2 and e['theta'] > 0
    return 0 if exc is None and math.isfinite(v) and v >= 0 and (v > 0 or not nonempty) else 1
