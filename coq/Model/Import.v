(* Model of importing a network into PIT / SuperNet / MPS (C07).
   Part 1: the algebra of one layer — plain conv/linear, BatchNorm (eval), BatchNorm folding as computed by
           remove_bn_inplace (plinio/methods/pit/graph.py), the forward of a PIT layer (conv1d/conv2d/linear .forward),
           the slicing done by export.
   Part 2: the object graph of a conversion as a state machine — modules with identity, a training flag, a parameter
           version, an attached BatchNorm copy and a fold flag; the steps are those of PIT.__init__/MPS.__init__/
           SuperNet.__init__ + convert(): tracer.trace(model.eval()), fx.GraphModule (children by reference),
           convert_layers (new objects that copy the weights), fuse_consecutive_layers + remove_bn_inplace,
           restoring the flags, the final train()/eval() on wrapper and seed.
   No proofs here. *)
From Coq Require Import QArith ZArith List Bool Arith Lia.
Import ListNotations.
Require Import Plinio.Base.Qx Plinio.Model.Masks.
Local Open Scope Q_scope.

(* ================================================================ Part 1: one output channel of a layer *)
(* weights of one output channel: rows = input channels, columns = kernel taps (a linear layer has one tap) *)
Fixpoint dot (w x : list Q) : Q :=
  match w, x with a :: w', b :: x' => a * b + dot w' x' | _, _ => 0 end.
Fixpoint dot2 (w x : list (list Q)) : Q :=
  match w, x with a :: w', b :: x' => dot a b + dot2 w' x' | _, _ => 0 end.
Definition bias_val (ob : option Q) : Q := match ob with Some b => b | None => 0 end.
Definition plain (w : list (list Q)) (ob : option Q) (x : list (list Q)) : Q := dot2 w x + bias_val ob.

(* BatchNorm in eval mode, one channel: r stands for rsqrt(running_var + eps), any value *)
Record bnp := { bn_g : Q; bn_b : Q; bn_mu : Q; bn_r : Q }.
Definition bn_apply (p : bnp) (y : Q) : Q := (y - bn_mu p) * bn_r p * bn_g p + bn_b p.
Definition obn (p : option bnp) (y : Q) : Q := match p with Some p => bn_apply p y | None => y end.

(* remove_bn_inplace(lin, bn, fold=True):  conv_w * (bn_w * rsqrt) ;  (conv_b - mean) * rsqrt * bn_w + bn_b,
   a missing conv bias counts as 0 and the layer gets a bias *)
Definition fold_w (p : bnp) (w : list (list Q)) : list (list Q) := map (map (fun v => v * (bn_g p * bn_r p))) w.
Definition fold_b (p : bnp) (ob : option Q) : Q := (bias_val ob - bn_mu p) * bn_r p * bn_g p + bn_b p.

(* what the seed's layer holds after the import of (layer, following BatchNorm) *)
Record slayer := { s_w : list (list Q); s_b : option Q; s_bn : option bnp; s_fold : bool }.
Definition import_layer (fold : bool) (w : list (list Q)) (ob : option Q) (bn : option bnp) : slayer :=
  match bn with
  | None => {| s_w := w; s_b := ob; s_bn := None; s_fold := fold |}
  | Some p => if fold then {| s_w := fold_w p w; s_b := Some (fold_b p ob); s_bn := Some p; s_fold := true |}
              else {| s_w := w; s_b := ob; s_bn := Some p; s_fold := false |}
  end.

(* masks are 0/1 factors *)
Definition b2q (b : bool) : Q := if b then 1 else 0.
Fixpoint mask_row (tm : list bool) (row : list Q) : list Q :=
  match tm, row with b :: tm', v :: row' => b2q b * v :: mask_row tm' row' | _, _ => [] end.
(* PIT*.forward for output channel with features-mask bit cm and time mask tm (all ones for conv2d / linear):
   fold_bn : weights * cout mask, * time mask, conv, + bias  (maskb: the bias is masked too — C01's repair; both covered)
   else    : weights * time mask, conv + bias, bn if attached, * cout mask *)
Definition pit_out (maskb : bool) (tm : list bool) (cm : bool) (L : slayer) (x : list (list Q)) : Q :=
  if s_fold L
  then dot2 (map (mask_row tm) (map (map (fun v => v * b2q cm)) (s_w L))) x + (if maskb then b2q cm * bias_val (s_b L) else bias_val (s_b L))
  else b2q cm * obn (s_bn L) (dot2 (map (mask_row tm) (s_w L)) x + bias_val (s_b L)).
(* the layer as the unrepaired code ran it when the flag of the layer and the flag of the fusion differ *)
Definition with_flag (f : bool) (L : slayer) : slayer := {| s_w := s_w L; s_b := s_b L; s_bn := s_bn L; s_fold := f |}.

(* initial NAS parameters: torch.empty(n).fill_(1.0) for alpha, beta, gamma *)
Definition ones (n : nat) : list Q := repeat 1 n.
Definition open_time_mask (K : nat) : list bool := time_mask true K (ones K) (ones (gamma_len K)).
Definition open_features_mask (C : nat) : list bool := features_mask (ones C).

(* export: weight[cout_mask][:, cin_mask][:, :, time_mask] and the sizes given to the new layer *)
Fixpoint keep {A} (m : list bool) (l : list A) : list A :=
  match m, l with b :: m', a :: l' => if b then a :: keep m' l' else keep m' l' | _, _ => [] end.
Definition export_w (cout_mask cin_mask tm : list bool) (W : list (list (list Q))) : list (list (list Q)) :=
  map (fun ch => map (keep tm) (keep cin_mask ch)) (keep cout_mask W).
Definition export_b (cout_mask : list bool) (B : list Q) : list Q := keep cout_mask B.
(* (in_features_opt, out_features_opt, kernel_size_opt, dilation_opt) *)
Definition export_hp (K d0 : nat) (alpha beta gamma : list Q) (cin_mask : list bool) : nat * nat * nat * nat :=
  (count_true cin_mask, out_features_opt alpha, kernel_size_opt true K beta gamma, dilation_opt true K d0 gamma).

(* ================================================================ Part 2: object graph of a conversion *)
Inductive kind := KLayer (* nn.Conv1d/Conv2d/Linear *) | KBn | KPit (* PIT layer *) | KOther | KComb (* SuperNetCombiner *).
Definition kind_eqb (a b : kind) : bool :=
  match a, b with KLayer, KLayer | KBn, KBn | KPit, KPit | KOther, KOther | KComb, KComb => true | _, _ => false end.
(* a module of the user's model, in graph order.  u_prev: position of the module whose output is its first argument
   (when that is a call_module), u_users: number of users of that producer *)
Record umod := { u_kind : kind; u_excl : bool; u_prev : option nat; u_users : nat; u_fold : bool; u_train : bool }.
Record obj := { o_kind : kind; o_train : bool; o_ver : nat (* in-place writes of weight/bias *);
                o_bn : option nat (* id of the BatchNorm copy held in .bn *); o_fold : bool; o_src : option nat (* copied from *) }.
Inductive method := PIT | MPS | SN.
(* c_copyfuse / c_setflag / c_restore / c_keepshared = true: the code as it is now; false: the code at the pinned commit
   (c_keepshared = false with the other three true: the code before the last repair) *)
Record cfg := { c_method : method; c_auto : bool; c_fold : bool; c_copyfuse : bool; c_setflag : bool; c_restore : bool; c_keepshared : bool }.
Record state := { heap : list obj; seed : list (option nat); seed_train : bool; wrap_train : bool }.

Definition set_train (v : bool) (o : obj) : obj :=
  {| o_kind := o_kind o; o_train := v; o_ver := o_ver o; o_bn := o_bn o; o_fold := o_fold o; o_src := o_src o |}.
Definition dobj : obj := {| o_kind := KOther; o_train := false; o_ver := 0; o_bn := None; o_fold := false; o_src := None |}.
Fixpoint upd {A} (i : nat) (f : A -> A) (l : list A) : list A :=
  match l, i with [], _ => [] | a :: t, O => f a :: t | a :: t, S j => a :: upd j f t end.
Fixpoint mapi_from {A B} (k : nat) (f : nat -> A -> B) (l : list A) : list B :=
  match l with [] => [] | a :: t => f k a :: mapi_from (S k) f t end.
Definition mapi {A B} (f : nat -> A -> B) (l : list A) : list B := mapi_from 0 f l.
Definition memb (i : nat) (l : list nat) : bool := existsb (Nat.eqb i) l.

(* the user's model: objects 0..n-1 are its modules, object n is the model itself *)
Definition heap0 (mods : list umod) (rt : bool) : list obj :=
  map (fun m => {| o_kind := u_kind m; o_train := u_train m; o_ver := 0; o_bn := None; o_fold := u_fold m; o_src := None |}) mods
  ++ [{| o_kind := KOther; o_train := rt; o_ver := 0; o_bn := None; o_fold := false; o_src := None |}].

(* tracer.trace(model.eval()) *)
Definition step_eval (h : list obj) : list obj := map (set_train false) h.

(* convert_layers ('autoimport'): a plain layer / BatchNorm that is not excluded is replaced IN THE SEED by a new
   object that copies its parameters (a fresh nn.Module is in training mode) *)
Definition convertible (m : umod) : bool := (kind_eqb (u_kind m) KLayer || kind_eqb (u_kind m) KBn) && negb (u_excl m).
Definition new_obj (c : cfg) (m : umod) (i : nat) : obj :=
  {| o_kind := if kind_eqb (u_kind m) KLayer then KPit else KBn; o_train := true; o_ver := 0; o_bn := None; o_fold := c_fold c; o_src := Some i |}.
Fixpoint step_layers (c : cfg) (mods : list umod) (i : nat) (h : list obj) (s : list (option nat)) : list obj * list (option nat) :=
  match mods with
  | [] => (h, s)
  | m :: t => if convertible m then step_layers c t (S i) (h ++ [new_obj c m i]) (upd i (fun _ => Some (length h)) s)
              else step_layers c t (S i) h s
  end.

(* fuse_consecutive_layers(mod, PIT*, BatchNorm, ...) + remove_bn_inplace: for a BatchNorm node whose argument is a
   PIT layer node: ValueError if the layer has other users; the BatchNorm is deep-copied into the layer (.bn), with
   fold the layer's weight/bias are rewritten in place; the BatchNorm node is erased.  c_copyfuse: all of this happens
   on a copy of the layer that replaces it in the seed (now), else on the object found in the seed (pinned commit).
   c_setflag: the layer's fold flag is set to the flag of the fusion *)
Definition copy_of (id : nat) (o : obj) : obj :=
  {| o_kind := o_kind o; o_train := o_train o; o_ver := o_ver o; o_bn := o_bn o; o_fold := o_fold o; o_src := Some id |}.
Definition fuse_write (c : cfg) (bnid : nat) (o : obj) : obj :=
  {| o_kind := o_kind o; o_train := o_train o; o_ver := if c_fold c then S (o_ver o) else o_ver o; o_bn := Some bnid;
     o_fold := if c_setflag c then c_fold c else o_fold o; o_src := o_src o |}.
Definition fuse_one (c : cfg) (m : umod) (j : nat) (hs : list obj * list (option nat)) : option (list obj * list (option nat)) :=
  let (h, s) := hs in
  match u_kind m, u_prev m with
  | KBn, Some i =>
      match nth i s None, nth j s None with
      | Some L, Some B =>
          if kind_eqb (o_kind (nth L h dobj)) KPit then
            if Nat.ltb 1 (u_users m) then None
            else
              let (h1, L') := if c_copyfuse c then (h ++ [copy_of L (nth L h dobj)], length h) else (h, L) in
              let bnid := length h1 in
              let h2 := h1 ++ [copy_of B (nth B h1 dobj)] in
              Some (upd L' (fuse_write c bnid) h2, upd j (fun _ => None) (upd i (fun _ => Some L') s))
          else Some (h, s)
      | _, _ => Some (h, s)
      end
  | _, _ => Some (h, s)
  end.
Fixpoint step_fuse (c : cfg) (mods : list umod) (j : nat) (hs : list obj * list (option nat)) : option (list obj * list (option nat)) :=
  match mods with
  | [] => Some hs
  | m :: t => match fuse_one c m j hs with None => None | Some hs' => step_fuse c t (S j) hs' end
  end.

(* end of convert(): the flags found on entry are put back on the caller's objects *)
Definition found_flag (mods : list umod) (rt : bool) (i : nat) : bool :=
  if Nat.ltb i (length mods) then u_train (nth i mods {| u_kind := KOther; u_excl := false; u_prev := None; u_users := 0; u_fold := false; u_train := false |}) else rt.
Definition step_restore (mods : list umod) (rt : bool) (h : list obj) : list obj :=
  mapi (fun id o => if Nat.leb id (length mods) then set_train (found_flag mods rt id) o else o) h.

(* objects of the seed: the modules in its slots and the BatchNorm copies they hold *)
Definition seed_ids (s : list (option nat)) : list nat := flat_map (fun x => match x with Some id => [id] | None => [] end) s.
Definition reach (h : list obj) (s : list (option nat)) : list nat :=
  let ids := seed_ids s in ids ++ flat_map (fun id => match o_bn (nth id h dobj) with Some b => [b] | None => [] end) ids.
(* tail of PIT.__init__ / MPS.__init__: self.train()/eval(); self.seed.train()/eval() — both recurse into the modules the
   seed shares with the caller's model; c_keepshared: the caller's objects then get the flags found back (step_restore) *)
Definition step_final (rt : bool) (h : list obj) (s : list (option nat)) : list obj :=
  let r := reach h s in mapi (fun id o => if memb id r then set_train rt o else o) h.

Definition convert (c : cfg) (mods : list umod) (rt : bool) : option state :=
  let n := length mods in
  let h1 := step_eval (heap0 mods rt) in
  let s1 := map Some (seq 0 n) in
  let (h2, s2) := match c_method c with
                  | PIT => if c_auto c then step_layers c mods 0 h1 s1 else (h1, s1)
                  | MPS => step_layers c mods 0 h1 s1         (* only the mode skeleton of MPS is modelled *)
                  | SN => (h1, s1)
                  end in
  match (match c_method c with PIT => step_fuse c mods 0 (h2, s2) | _ => Some (h2, s2) end) with
  | None => None
  | Some (h3, s3) =>
      let h4 := if c_restore c then step_restore mods rt h3 else h3 in
      match c_method c with
      | SN => Some {| heap := h4; seed := s3; seed_train := false; wrap_train := true |}
      | _ => Some {| heap := if c_keepshared c then step_restore mods rt (step_final rt h4 s3) else step_final rt h4 s3;
                     seed := s3; seed_train := rt; wrap_train := rt |}
      end
  end.

(* parameters-and-structure view of an object: everything but the training flag *)
Definition pview (o : obj) : kind * nat * option nat * bool := (o_kind o, o_ver o, o_bn o, o_fold o).

(* ---- correspondence helpers *)
Definition now (m : method) (auto fold : bool) : cfg :=
  {| c_method := m; c_auto := auto; c_fold := fold; c_copyfuse := true; c_setflag := true; c_restore := true; c_keepshared := true |}.
(* the code before the last repair: the constructor tail overwrites the flags of the shared modules *)
Definition before_keepshared (m : method) (auto fold : bool) : cfg :=
  {| c_method := m; c_auto := auto; c_fold := fold; c_copyfuse := true; c_setflag := true; c_restore := true; c_keepshared := false |}.
Definition pinned (m : method) (auto fold : bool) : cfg :=
  {| c_method := m; c_auto := auto; c_fold := fold; c_copyfuse := false; c_setflag := false; c_restore := false; c_keepshared := false |}.
(* per user module: (training afterwards, weights written, has .bn, 0 shared / 1 replaced / 2 absent,
   fold flag of the seed's object in that slot) *)
Definition slot_code (st : state) (i : nat) : nat :=
  match nth i (seed st) None with Some id => if Nat.eqb id i then 0%nat else 1%nat | None => 2%nat end.
Definition run_convert (c : cfg) (mods : list umod) (rt : bool)
  : option (bool * bool * bool * list (bool * bool * bool * nat * bool)) :=
  match convert c mods rt with
  | None => None
  | Some st =>
      let n := length mods in
      Some (wrap_train st, seed_train st, o_train (nth n (heap st) dobj),
            map (fun i => let o := nth i (heap st) dobj in
                          (o_train o, Nat.ltb 0 (o_ver o), match o_bn o with Some _ => true | None => false end, slot_code st i,
                           match nth i (seed st) None with Some id => o_fold (nth id (heap st) dobj) | None => false end))
                (seq 0 n))
  end.
Definition mk (k : kind) (excl : bool) (prev : option nat) (users : nat) (fold train : bool) : umod :=
  {| u_kind := k; u_excl := excl; u_prev := prev; u_users := users; u_fold := fold; u_train := train |}.

(* folding on numbers: (folded weights of the channel, folded bias) as reduced fractions *)
Definition run_fold (g be mu r : Q) (w : list Q) (ob : option Q) : list (Z * Z) * (Z * Z) :=
  let p := {| bn_g := g; bn_b := be; bn_mu := mu; bn_r := r |} in
  (map qpair (concat (fold_w p [w])), qpair (fold_b p ob)).
(* initial masks of a layer with kernel K and C output channels; exported sizes of an untouched layer *)
Definition run_open (K C d0 : nat) : list bool * list bool * (nat * nat * nat * nat) :=
  (open_time_mask K, open_features_mask C, export_hp K d0 (ones C) (ones K) (ones (gamma_len K)) (repeat true C)).
