(* Proofs about the hand model Model/CostFns.v (DESIGN.md §C16):
   - the rounding helpers return the exact integer ceiling / floor / modulo on integers, and what they
     compute on fractional arguments (floor_ste_spec); all are monotone and non-negative on Q>=0;
   - NE16: tiling into full tiles plus one ragged tile is monotone for any monotone non-negative per-tile
     latency (body_rem_mono); Ne16PerfModel.latency is non-negative, monotone in H, W, Ko, Ki and the
     weight bit-width for ALL non-negative rationals, at least 13 cycles on a non-empty layer; the three
     registered wrappers inherit this and reject exactly the unsupported precisions / kernels;
   - DIANA: the unroll factor is antitone; analog and digital cycle counts are non-negative, monotone in
     channels, kernel and output size, positive on non-empty layers; dispatch rejects exactly the
     unsupported precision pairs and grouped analog convolutions. *)
From Coq Require Import QArith Qround ZArith List Bool Lia Lqa.
Require Import Plinio.Base.Qx Plinio.Base.Round Plinio.Base.Expr Plinio.Model.CostFns.
Import ListNotations.
Local Open Scope Q_scope.

Lemma Qfloor_div_Z (a : Z) (n : positive) : Qfloor (inject_Z a / inject_Z (Zpos n)) = (a / Zpos n)%Z.
Proof.
  unfold Qdiv, Qinv, inject_Z, Qmult, Qfloor. cbn [Qnum Qden]. rewrite Z.mul_1_r. rewrite Pos.mul_1_l. reflexivity.
Qed.

Lemma ceil_spec (z : Z) (n : positive) : let c := ((z + Zpos n - 1) / Zpos n)%Z in ((c - 1) * Zpos n < z <= c * Zpos n)%Z.
Proof.
  cbn zeta. pose proof (Z.div_mod (z + Zpos n - 1) (Zpos n) ltac:(lia)) as H.
  pose proof (Z.mod_pos_bound (z + Zpos n - 1) (Zpos n) ltac:(lia)) as B. nia.
Qed.

Lemma inj_sub a b : inject_Z (a - b) == inject_Z a - inject_Z b.
Proof. unfold Z.sub. rewrite inject_Z_plus, inject_Z_opp. reflexivity. Qed.

Lemma floor_ste_int z n : floor_ste (inject_Z z) (inject_Z (Zpos n)) = inject_Z ((z + Zpos n - 1) / Zpos n).
Proof.
  unfold floor_ste. f_equal. rewrite <- Qfloor_div_Z. apply Qfloor_comp.
  rewrite inj_sub, inject_Z_plus. reflexivity.
Qed.

Lemma div_and_ceil_int z n : div_and_ceil (inject_Z z) (inject_Z (Zpos n)) == inject_Z ((z - 1) / Zpos n + 1).
Proof.
  unfold div_and_ceil. rewrite inject_Z_plus. apply Qplus_comp; [|reflexivity].
  rewrite <- Qfloor_div_Z. rewrite (Qfloor_comp ((inject_Z z - 1) / inject_Z (Zpos n)) (inject_Z (z - 1) / inject_Z (Zpos n))); [reflexivity|].
  rewrite inj_sub. reflexivity.
Qed.

(* --- exactness on integers: the three ceiling/floor/modulo helpers *)
Lemma floor_ste_exact z n : exists c : Z,
  floor_ste (inject_Z z) (inject_Z (Zpos n)) = inject_Z c /\ ((c - 1) * Zpos n < z <= c * Zpos n)%Z.
Proof. eexists. split; [apply floor_ste_int|apply ceil_spec]. Qed.

Lemma div_and_ceil_exact z n : exists c : Z,
  div_and_ceil (inject_Z z) (inject_Z (Zpos n)) == inject_Z c /\ ((c - 1) * Zpos n < z <= c * Zpos n)%Z.
Proof.
  exists ((z - 1) / Zpos n + 1)%Z. split; [apply div_and_ceil_int|].
  pose proof (Z.div_mod (z - 1) (Zpos n) ltac:(lia)) as H.
  pose proof (Z.mod_pos_bound (z - 1) (Zpos n) ltac:(lia)) as B. nia.
Qed.

Lemma floor_divide_exact z n : floor_divide (inject_Z z) (inject_Z (Zpos n)) = inject_Z (z / Zpos n).
Proof. unfold floor_divide. rewrite Qfloor_div_Z. reflexivity. Qed.

Lemma modulo_exact z n : modulo (inject_Z z) (inject_Z (Zpos n)) == inject_Z (z mod Zpos n).
Proof.
  unfold modulo. rewrite Qfloor_div_Z. rewrite Z.mod_eq by lia. rewrite inj_sub, inject_Z_mult. reflexivity.
Qed.

Lemma gate_exact ch th : (th <= ch -> gate ch th = 1) /\ (ch < th -> gate ch th = 0).
Proof.
  unfold gate. destruct (Qle_bool th ch) eqn:E; split; intro H; try reflexivity.
  - apply Qle_bool_iff in E. lra.
  - assert (Qle_bool th ch = true) by (apply Qle_bool_iff; exact H). congruence.
Qed.

(* what FloorSTE computes on ANY rational (fractional, relaxed channel counts included):
   the integer c with (c-1)*n + 1 <= ch < c*n + 1 — the ceiling of ch/n only when ch is an integer *)
Lemma floor_ste_spec ch n : 0 < n ->
  (floor_ste ch n - 1) * n + 1 <= ch /\ ch < floor_ste ch n * n + 1.
Proof.
  intro Hn. unfold floor_ste. destruct (floor_bounds ((ch + n - 1) / n)) as [A B].
  set (c := inject_Z (Qfloor ((ch + n - 1) / n))) in *.
  assert (E : (ch + n - 1) / n * n == ch + n - 1) by (field; lra).
  split; nra.
Qed.

(* --- monotonicity / sign of the helpers on all rationals *)
Lemma inj_floor_mono a b : a <= b -> inject_Z (Qfloor a) <= inject_Z (Qfloor b).
Proof. intro H. rewrite <- Zle_Qle. apply Qfloor_resp_le. exact H. Qed.

Lemma inj_floor_ge (z : Z) a : inject_Z z <= a -> inject_Z z <= inject_Z (Qfloor a).
Proof. intro H. rewrite <- Zle_Qle. apply floor_ge_int. exact H. Qed.

Lemma div_le_compat a b n : 0 < n -> a <= b -> a / n <= b / n.
Proof. intros Hn H. unfold Qdiv. pose proof (Qinv_lt_0_compat n Hn). nra. Qed.

Lemma div_nonneg a n : 0 < n -> 0 <= a -> 0 <= a / n.
Proof. intros Hn H. unfold Qdiv. pose proof (Qinv_lt_0_compat n Hn). nra. Qed.

Lemma floor_ste_mono ch ch' n : 0 < n -> ch <= ch' -> floor_ste ch n <= floor_ste ch' n.
Proof. intros Hn H. unfold floor_ste. apply inj_floor_mono, div_le_compat; lra. Qed.

Lemma floor_ste_nonneg ch n : 1 <= n -> 0 <= ch -> 0 <= floor_ste ch n.
Proof. intros Hn H. unfold floor_ste. apply (inj_floor_ge 0). apply div_nonneg; lra. Qed.

Lemma floor_ste_pos ch n : 1 <= n -> 1 <= ch -> 1 <= floor_ste ch n.
Proof.
  intros Hn H. unfold floor_ste. apply (inj_floor_ge 1).
  assert (E : n / n == 1) by (field; lra). change (inject_Z 1) with 1. rewrite <- E. apply div_le_compat; lra.
Qed.

Lemma div_and_ceil_mono a a' b : 0 < b -> a <= a' -> div_and_ceil a b <= div_and_ceil a' b.
Proof. intros Hb H. unfold div_and_ceil. pose proof (inj_floor_mono ((a - 1) / b) ((a' - 1) / b) ltac:(apply div_le_compat; lra)). lra. Qed.

Lemma div_and_ceil_nonneg a b : 1 <= b -> 0 <= a -> 0 <= div_and_ceil a b.
Proof.
  intros Hb H. unfold div_and_ceil.
  assert (A : inject_Z (-1) <= (a - 1) / b).
  { change (inject_Z (-1)) with (-1). assert (E : (- b) / b == -1) by (field; lra). rewrite <- E. apply div_le_compat; lra. }
  pose proof (inj_floor_ge (-1) _ A) as B. change (inject_Z (-1)) with (-1) in B. lra.
Qed.

Lemma div_and_ceil_pos a b : 0 < b -> 1 <= a -> 1 <= div_and_ceil a b.
Proof.
  intros Hb H. unfold div_and_ceil.
  pose proof (inj_floor_ge 0 ((a - 1) / b) ltac:(apply div_nonneg; lra)) as B. change (inject_Z 0) with 0 in B. lra.
Qed.

Lemma floor_divide_mono a a' b : 0 < b -> a <= a' -> floor_divide a b <= floor_divide a' b.
Proof. intros Hb H. unfold floor_divide. apply inj_floor_mono, div_le_compat; assumption. Qed.

Lemma floor_divide_nonneg a b : 0 < b -> 0 <= a -> 0 <= floor_divide a b.
Proof. intros Hb H. unfold floor_divide. apply (inj_floor_ge 0), div_nonneg; assumption. Qed.

Lemma modulo_bounds a b : 0 < b -> 0 <= modulo a b /\ modulo a b < b.
Proof.
  intro Hb. unfold modulo. destruct (floor_bounds (a / b)) as [A B].
  assert (E : a / b * b == a) by (field; lra). split; nra.
Qed.

(* ---------------------------------------------------------------- NE16 *)
(* body/remainder tiling: q full tiles of size B plus one ragged tile.  Monotone in the tiled extent as
   soon as the per-tile latency is non-negative and monotone on [0, B] — the ragged tile can never cost
   more than the full tile that replaces it. *)
Section BodyRem.
  Variables (I I' : Q -> Q) (B : Q).
  Hypothesis HB : 0 < B.
  Hypothesis HI : forall k k', 0 <= k -> k <= k' -> k' <= B -> 0 <= I k /\ I k <= I' k'.

  Lemma body_rem_mono Ko Ko' : 0 <= Ko -> Ko <= Ko' ->
    0 <= body_rem I B Ko /\ body_rem I B Ko <= body_rem I' B Ko'.
  Proof.
    intros H0 Hle. unfold body_rem, floor_divide.
    destruct (modulo_bounds Ko B HB) as [R0 R1]. destruct (modulo_bounds Ko' B HB) as [R0' R1'].
    assert (Hq : (Qfloor (Ko / B) <= Qfloor (Ko' / B))%Z) by (apply Qfloor_resp_le, div_le_compat; assumption).
    assert (Hq0 : 0 <= inject_Z (Qfloor (Ko / B))) by (apply (inj_floor_ge 0), div_nonneg; assumption).
    unfold modulo in *.
    set (q := Qfloor (Ko / B)) in *. set (q' := Qfloor (Ko' / B)) in *.
    set (rm := Ko - B * inject_Z q) in *. set (rm' := Ko' - B * inject_Z q') in *.
    destruct (HI B B ltac:(lra) ltac:(lra) ltac:(lra)) as [IB0 IB1].
    destruct (HI rm rm ltac:(lra) ltac:(lra) ltac:(lra)) as [Ir0 _].
    destruct (HI rm' rm' ltac:(lra) ltac:(lra) ltac:(lra)) as [Ir0' Ir1'].
    assert (T0 : 0 <= (if Qeq_bool rm 0 then 0 else I rm)) by (destruct (Qeq_bool rm 0); lra).
    assert (T0' : 0 <= (if Qeq_bool rm' 0 then 0 else I' rm')) by (destruct (Qeq_bool rm' 0); lra).
    split; [nra|].
    destruct (Z.eq_dec q q') as [E|NE].
    - assert (Hr : rm <= rm') by (subst rm rm'; rewrite <- E; lra).
      assert (Hq0' : inject_Z q' == inject_Z q) by (rewrite E; reflexivity).
      assert (TT : (if Qeq_bool rm 0 then 0 else I rm) <= (if Qeq_bool rm' 0 then 0 else I' rm')).
      { destruct (Qeq_bool rm 0) eqn:E1; [exact T0'|].
        apply Qeq_bool_neq in E1.
        destruct (Qeq_bool rm' 0) eqn:E2.
        - apply Qeq_bool_iff in E2. exfalso. apply E1. lra.
        - destruct (HI rm rm' ltac:(lra) Hr ltac:(lra)). lra. }
      rewrite Hq0'. nra.
    - assert (Hlt : inject_Z q + 1 <= inject_Z q').
      { change 1 with (inject_Z 1). rewrite <- inject_Z_plus, <- Zle_Qle. lia. }
      assert (TT : (if Qeq_bool rm 0 then 0 else I rm) <= I' B).
      { destruct (Qeq_bool rm 0); [lra|]. destruct (HI rm B ltac:(lra) ltac:(lra) ltac:(lra)). lra. }
      nra.
  Qed.
End BodyRem.

Lemma ne16_consts :
  div_and_ceil (16 * 8) 256 == 1 /\ div_and_ceil (32 * 8) 256 == 1 /\ floor_divide 32 8 == 4.
Proof. repeat split; vm_compute; reflexivity. Qed.

Lemma ne16_nq_bounds k k' : 0 <= k -> k <= k' -> 9 <= ne16_nq k /\ ne16_nq k <= ne16_nq k'.
Proof.
  intros H0 H. unfold ne16_nq. destruct ne16_consts as [_ [_ E]]. 
  pose proof (div_and_ceil_nonneg (k * floor_divide 32 8) 4 ltac:(lra) ltac:(rewrite E; lra)).
  pose proof (div_and_ceil_mono (k * floor_divide 32 8) (k' * floor_divide 32 8) 4 ltac:(lra) ltac:(rewrite E; lra)).
  split; lra.
Qed.

Lemma ne16_so_val : ne16_so == 13.
Proof. vm_compute. reflexivity. Qed.

Lemma ne16_load_val kd : ne16_load kd == (if is1x1 kd then 19 else 31).
Proof. unfold ne16_load. destruct (is1x1 kd); vm_compute; reflexivity. Qed.

(* per-tile latency: non-negative (at least the 13 stream-out cycles) and monotone in the tile's output
   channels, the number of input-channel passes and the weight bit-width *)
Lemma ne16_iter_mono kd wb wb' n n' k k' : 0 <= wb -> wb <= wb' -> 0 <= n -> n <= n' -> 0 <= k -> k <= k' ->
  13 <= ne16_iter kd wb n k /\ ne16_iter kd wb n k <= ne16_iter kd wb' n' k'.
Proof.
  intros. unfold ne16_iter, ne16_wo, ne16_mv, ne16_upd.
  pose proof (ne16_load_val kd) as L. pose proof ne16_so_val as S.
  destruct (ne16_nq_bounds k k' ltac:(assumption) ltac:(assumption)) as [N0 N1].
  assert (P : 0 <= k * wb /\ k * wb <= k' * wb') by (split; nra). destruct P as [P0 P1].
  set (p := k * wb) in *. set (p' := k' * wb') in *.
  destruct kd as [[|] [|]]; cbn [is1x1 isdw] in *; rewrite L, S; split; nra.
Qed.

Theorem ne16_lat_mono kd wb wb' H H' W W' Ko Ko' Ki Ki' :
  0 <= wb -> wb <= wb' -> 0 <= H -> H <= H' -> 0 <= W -> W <= W' -> 0 <= Ko -> Ko <= Ko' -> 0 <= Ki -> Ki <= Ki' ->
  0 <= ne16_lat kd wb H W Ko Ki /\ ne16_lat kd wb H W Ko Ki <= ne16_lat kd wb' H' W' Ko' Ki'.
Proof.
  intros. unfold ne16_lat.
  pose proof (div_and_ceil_nonneg H 3 ltac:(lra) ltac:(assumption)).
  pose proof (div_and_ceil_nonneg W 3 ltac:(lra) ltac:(assumption)).
  pose proof (div_and_ceil_mono H H' 3 ltac:(lra) ltac:(assumption)).
  pose proof (div_and_ceil_mono W W' 3 ltac:(lra) ltac:(assumption)).
  pose proof (div_and_ceil_nonneg Ki 16 ltac:(lra) ltac:(assumption)) as N0.
  pose proof (div_and_ceil_mono Ki Ki' 16 ltac:(lra) ltac:(assumption)) as N1.
  set (B := if isdw kd then 16 else 32).
  assert (HB : 0 < B) by (subst B; destruct (isdw kd); lra).
  destruct (body_rem_mono (ne16_iter kd wb (div_and_ceil Ki 16)) (ne16_iter kd wb' (div_and_ceil Ki' 16)) B HB) with (Ko := Ko) (Ko' := Ko') as [X0 X1]; try assumption.
  { intros k k' Hk Hkk _. destruct (ne16_iter_mono kd wb wb' (div_and_ceil Ki 16) (div_and_ceil Ki' 16) k k'); try assumption. split; lra. }
  assert (S : 0 <= div_and_ceil H 3 * div_and_ceil W 3 /\ div_and_ceil H 3 * div_and_ceil W 3 <= div_and_ceil H' 3 * div_and_ceil W' 3) by (split; nra).
  destruct S as [S0 S1].
  set (s := div_and_ceil H 3 * div_and_ceil W 3) in *. set (s' := div_and_ceil H' 3 * div_and_ceil W' 3) in *.
  split; nra.
Qed.

Section BodyRemPos.
  Variables (I : Q -> Q) (B c : Q).
  Hypothesis HB : 0 < B.
  Hypothesis Hc : 0 <= c.
  Hypothesis HI : forall k, 0 <= k -> k <= B -> c <= I k.

  Lemma body_rem_pos Ko : 0 < Ko -> c <= body_rem I B Ko.
  Proof.
    intros H0. unfold body_rem, floor_divide.
    destruct (modulo_bounds Ko B HB) as [R0 R1].
    assert (Hq0 : 0 <= inject_Z (Qfloor (Ko / B))) by (apply (inj_floor_ge 0), div_nonneg; lra).
    unfold modulo in *. set (q := Qfloor (Ko / B)) in *. set (rm := Ko - B * inject_Z q) in *.
    pose proof (HI B ltac:(lra) ltac:(lra)) as IB.
    destruct (Qeq_bool rm 0) eqn:E.
    - apply Qeq_bool_iff in E.
      assert (Hq1 : 1 <= inject_Z q).
      { change 1 with (inject_Z 1). rewrite <- Zle_Qle.
        assert (0 < inject_Z q) by (subst rm; nra).
        assert (0 < q)%Z by (rewrite Zlt_Qlt; exact H). lia. }
      nra.
    - pose proof (HI rm ltac:(lra) ltac:(lra)). nra.
  Qed.
End BodyRemPos.

Theorem ne16_lat_pos kd wb H W Ko Ki : 0 <= wb -> 1 <= H -> 1 <= W -> 0 < Ko -> 0 <= Ki -> 13 <= ne16_lat kd wb H W Ko Ki.
Proof.
  intros. unfold ne16_lat.
  pose proof (div_and_ceil_pos H 3 ltac:(lra) ltac:(assumption)).
  pose proof (div_and_ceil_pos W 3 ltac:(lra) ltac:(assumption)).
  pose proof (div_and_ceil_nonneg Ki 16 ltac:(lra) ltac:(assumption)) as N0.
  set (B := if isdw kd then 16 else 32).
  assert (HB : 0 < B) by (subst B; destruct (isdw kd); lra).
  pose proof (body_rem_pos (ne16_iter kd wb (div_and_ceil Ki 16)) B 13 HB ltac:(lra)) as P.
  assert (X : 13 <= body_rem (ne16_iter kd wb (div_and_ceil Ki 16)) B Ko).
  { apply P; [|assumption]. intros k Hk _.
    destruct (ne16_iter_mono kd wb wb (div_and_ceil Ki 16) (div_and_ceil Ki 16) k k); try assumption; lra. }
  assert (S : 1 <= div_and_ceil H 3 * div_and_ceil W 3) by nra.
  nra.
Qed.

Lemma ne16_generalized_mono dw wb wb' k0 k1 H H' W W' Ko Ko' Ki Ki' :
  0 <= wb -> wb <= wb' -> 0 <= H -> H <= H' -> 0 <= W -> W <= W' -> 0 <= Ko -> Ko <= Ko' -> 0 <= Ki -> Ki <= Ki' ->
  0 <= ne16_generalized dw wb k0 k1 H W Ko Ki /\
  ne16_generalized dw wb k0 k1 H W Ko Ki <= ne16_generalized dw wb' k0 k1 H' W' Ko' Ki'.
Proof.
  intros. unfold ne16_generalized.
  set (n3 := floor_divide k0 3 * floor_divide k1 3).
  set (n1 := modulo k0 3 * k1 + modulo k1 3 * k0 - modulo k0 3 * modulo k1 3).
  destruct (ne16_lat_mono (ne16_kind_of true false dw) wb wb' H H' W W' Ko Ko' Ki Ki') as [A0 A1]; try assumption.
  destruct (ne16_lat_mono (ne16_kind_of false true dw) wb wb' H H' W W' Ko Ko' Ki Ki') as [B0 B1]; try assumption.
  destruct (qlt_bool 0 n3) eqn:E3; [apply qlt_bool_iff in E3|]; (destruct (qlt_bool 0 n1) eqn:E1; [apply qlt_bool_iff in E1|]); split; nra.
Qed.

Lemma qlt_false a : a <= 0 -> qlt_bool 0 a = false.
Proof. intro H. destruct (qlt_bool 0 a) eqn:E; [|reflexivity]. apply qlt_bool_iff in E. lra. Qed.

Lemma ne16_generalized_pos dw wb k0 k1 H W Ko Ki :
  0 <= wb -> 1 <= H -> 1 <= W -> 0 < Ko -> 0 <= Ki ->
  (k0 == 3 /\ k1 == 3) \/ (k0 == 1 /\ k1 == 1) ->
  13 <= ne16_generalized dw wb k0 k1 H W Ko Ki.
Proof.
  intros Hwb HH HW HKo HKi Hk. unfold ne16_generalized.
  pose proof (ne16_lat_pos (ne16_kind_of true false dw) wb H W Ko Ki Hwb HH HW HKo HKi) as A.
  pose proof (ne16_lat_pos (ne16_kind_of false true dw) wb H W Ko Ki Hwb HH HW HKo HKi) as B.
  assert (F : forall a b, a == b -> Qfloor a = Qfloor b) by (intros; apply Qfloor_comp; assumption).
  destruct Hk as [[E0 E1]|[E0 E1]].
  - assert (N3 : floor_divide k0 3 * floor_divide k1 3 == 1).
    { unfold floor_divide. rewrite (F (k0 / 3) (3 / 3)) by (rewrite E0; reflexivity). rewrite (F (k1 / 3) (3 / 3)) by (rewrite E1; reflexivity). vm_compute. reflexivity. }
    assert (N1 : modulo k0 3 * k1 + modulo k1 3 * k0 - modulo k0 3 * modulo k1 3 == 0).
    { unfold modulo. rewrite (F (k0 / 3) (3 / 3)) by (rewrite E0; reflexivity). rewrite (F (k1 / 3) (3 / 3)) by (rewrite E1; reflexivity).
      change (Qfloor (3 / 3)) with 1%Z. rewrite E0, E1. vm_compute. reflexivity. }
    assert (Q3 : qlt_bool 0 (floor_divide k0 3 * floor_divide k1 3) = true) by (apply qlt_bool_iff; lra).
    assert (Q1 : qlt_bool 0 (modulo k0 3 * k1 + modulo k1 3 * k0 - modulo k0 3 * modulo k1 3) = false) by (apply qlt_false; lra).
    rewrite Q3, Q1. nra.
  - assert (N3 : floor_divide k0 3 * floor_divide k1 3 == 0).
    { unfold floor_divide. rewrite (F (k0 / 3) (1 / 3)) by (rewrite E0; reflexivity). rewrite (F (k1 / 3) (1 / 3)) by (rewrite E1; reflexivity). vm_compute. reflexivity. }
    assert (N1 : modulo k0 3 * k1 + modulo k1 3 * k0 - modulo k0 3 * modulo k1 3 == 1).
    { unfold modulo. rewrite (F (k0 / 3) (1 / 3)) by (rewrite E0; reflexivity). rewrite (F (k1 / 3) (1 / 3)) by (rewrite E1; reflexivity).
      change (Qfloor (1 / 3)) with 0%Z. rewrite E0, E1. vm_compute. reflexivity. }
    assert (Q3 : qlt_bool 0 (floor_divide k0 3 * floor_divide k1 3) = false) by (apply qlt_false; lra).
    assert (Q1 : qlt_bool 0 (modulo k0 3 * k1 + modulo k1 3 * k0 - modulo k0 3 * modulo k1 3) = true) by (apply qlt_bool_iff; lra).
    rewrite Q3, Q1. nra.
Qed.

(* the registered NE16 functions: sizes and weight bit-width grow, everything else is the same *)
Definition ne16_le (r r' : nat -> Q) : Prop :=
  0 <= r V_cin /\ r V_cin <= r' V_cin /\ 0 <= r V_cout /\ r V_cout <= r' V_cout /\
  0 <= r V_wp /\ r V_wp <= r' V_wp /\ r' V_ip = r V_ip /\ r' V_theta = r V_theta /\ 0 < r V_theta.

Lemma qeqb_false a : ~ a == 0 -> Qeq_bool a 0 = false.
Proof. intro H. destruct (Qeq_bool a 0) eqn:E; [|reflexivity]. apply Qeq_bool_iff in E. contradiction. Qed.

Theorem ne16_wrapper_mono dw kok k0 k1 H H' W W' r r' c c' :
  ne16_le r r' -> 0 <= H -> H <= H' -> 0 <= W -> W <= W' ->
  ne16_wrapper dw kok k0 k1 H W r = Some c -> ne16_wrapper dw kok k0 k1 H' W' r' = Some c' ->
  0 <= c /\ c <= c'.
Proof.
  intros (C0 & C1 & O0 & O1 & P0 & P1 & EI & ET & T0) HH0 HH HW0 HW. unfold ne16_wrapper. rewrite EI, ET.
  rewrite (qeqb_false (r V_theta)) by lra. rewrite !orb_false_r.
  pose proof (Qinv_lt_0_compat _ T0) as IT.
  assert (NN : forall wb wb' Hh Ww, 0 <= wb -> wb <= wb' -> 0 <= Hh -> Hh <= H' -> 0 <= Ww -> Ww <= W' ->
     0 <= ne16_generalized dw wb k0 k1 Hh Ww (r V_theta * r V_cout) (r V_cin) / r V_theta /\
     ne16_generalized dw wb k0 k1 Hh Ww (r V_theta * r V_cout) (r V_cin) / r V_theta <=
     ne16_generalized dw wb' k0 k1 H' W' (r V_theta * r' V_cout) (r' V_cin) / r V_theta).
  { intros. destruct (ne16_generalized_mono dw wb wb' k0 k1 Hh H' Ww W' (r V_theta * r V_cout) (r V_theta * r' V_cout) (r V_cin) (r' V_cin)); try assumption; try nra.
    unfold Qdiv. split; nra. }
  destruct (Qeq_bool (r V_wp) 0) eqn:E0.
  - intro X; inversion X; subst c. destruct (Qeq_bool (r' V_wp) 0).
    + intro Y; inversion Y; subst c'. split; lra.
    + destruct (negb (Qeq_bool (r V_ip) 8)); [discriminate|]. destruct (negb kok); [discriminate|].
      intro Y; inversion Y; subst c'.
      destruct (ne16_generalized_mono dw (r' V_wp) (r' V_wp) k0 k1 H' H' W' W' (r V_theta * r' V_cout) (r V_theta * r' V_cout) (r' V_cin) (r' V_cin)) as [M0 _];
        [lra|lra|lra|lra|lra|lra|nra|lra|lra|lra|].
      split; [lra|]. unfold Qdiv. nra.
  - apply Qeq_bool_neq in E0. rewrite (qeqb_false (r' V_wp)) by lra.
    destruct (negb (Qeq_bool (r V_ip) 8)); [discriminate|]. destruct (negb kok); [discriminate|].
    intros X Y; inversion X; inversion Y; subst c c'. apply NN; assumption.
Qed.

Theorem ne16_wrapper_pos dw kok k0 k1 H W r c :
  0 < r V_wp -> 0 < r V_theta -> 0 < r V_cout -> 0 <= r V_cin -> 1 <= H -> 1 <= W ->
  (k0 == 3 /\ k1 == 3) \/ (k0 == 1 /\ k1 == 1) ->
  ne16_wrapper dw kok k0 k1 H W r = Some c -> 0 < c.
Proof.
  intros P0 T0 O0 C0 HH HW Hk. unfold ne16_wrapper.
  rewrite (qeqb_false (r V_wp)) by lra. rewrite (qeqb_false (r V_theta)) by lra. cbn [orb].
  destruct (negb (Qeq_bool (r V_ip) 8)); [discriminate|]. destruct (negb kok); [discriminate|].
  intro X; inversion X; subst c.
  pose proof (ne16_generalized_pos dw (r V_wp) k0 k1 H W (r V_theta * r V_cout) (r V_cin) ltac:(lra) HH HW ltac:(nra) C0 Hk).
  pose proof (Qinv_lt_0_compat _ T0). unfold Qdiv. nra.
Qed.

(* rejected exactly when the layer is not pruned and the activation precision is not 8 or the kernel
   shape is not one the accelerator runs *)
Theorem ne16_wrapper_reject dw kok k0 k1 H W r :
  ne16_wrapper dw kok k0 k1 H W r = None <->
  (~ r V_wp == 0 /\ ~ r V_theta == 0 /\ (~ r V_ip == 8 \/ kok = false)).
Proof.
  unfold ne16_wrapper. split.
  - destruct (Qeq_bool (r V_wp) 0) eqn:E0; [discriminate|]. destruct (Qeq_bool (r V_theta) 0) eqn:E1; [discriminate|].
    apply Qeq_bool_neq in E0, E1. cbn [orb].
    destruct (Qeq_bool (r V_ip) 8) eqn:E2; cbn [negb].
    + destruct kok; cbn [negb]; [discriminate|]. intros _. repeat split; try assumption. right; reflexivity.
    + intros _. apply Qeq_bool_neq in E2. repeat split; try assumption. left; assumption.
  - intros (A & B & C). rewrite (qeqb_false _ A), (qeqb_false _ B). cbn [orb].
    destruct C as [C|C].
    + destruct (Qeq_bool (r V_ip) 8) eqn:E2; [apply Qeq_bool_iff in E2; contradiction|]. reflexivity.
    + subst kok. destruct (negb (Qeq_bool (r V_ip) 8)); reflexivity.
Qed.

(* ---------------------------------------------------------------- DIANA *)
Lemma mul3_mono a a' b b' c c' : 0 <= a -> a <= a' -> 0 <= b -> b <= b' -> 0 <= c -> c <= c' ->
  0 <= a * b * c /\ a * b * c <= a' * b' * c'.
Proof.
  intros. assert (P : 0 <= a * b /\ a * b <= a' * b') by (split; nra). destruct P.
  set (p := a * b) in *. set (p' := a' * b') in *. split; nra.
Qed.

Lemma ox_ok_antitone ce ce' ci ci' kx kx' ky ky' u : 1 <= u ->
  0 <= ce -> ce <= ce' -> 0 <= ci -> ci <= ci' -> 0 <= kx -> kx <= kx' -> 0 <= ky -> ky <= ky' ->
  ox_ok ce' ci' kx' ky' u = true -> ox_ok ce ci kx ky u = true.
Proof.
  intros Hu ? ? ? ? ? ? ? ?. unfold ox_ok. rewrite !andb_true_iff, !Qle_bool_iff.
  assert (M : 0 <= qmax 64 ci /\ qmax 64 ci <= qmax 64 ci').
  { destruct (qmax_cases 64 ci) as [[? E]|[? E]]; rewrite E; destruct (qmax_cases 64 ci') as [[? E']|[? E']]; rewrite E'; split; lra. }
  destruct M as [M0 M1].
  destruct (mul3_mono (u + kx - 1) (u + kx' - 1) (qmax 64 ci) (qmax 64 ci') ky ky') as [_ P]; try lra.
  intros [A B]; split; [nra|lra].
Qed.

Lemma ox_unroll_range ce ci kx ky : let u := ox_unroll ce ci kx ky in u == 1 \/ u == 2 \/ u == 4 \/ u == 8.
Proof. cbn zeta. unfold ox_unroll. destruct (ox_ok ce ci kx ky 8); [|destruct (ox_ok ce ci kx ky 4); [|destruct (ox_ok ce ci kx ky 2)]]; intuition reflexivity. Qed.

Lemma ox_unroll_antitone ce ce' ci ci' kx kx' ky ky' :
  0 <= ce -> ce <= ce' -> 0 <= ci -> ci <= ci' -> 0 <= kx -> kx <= kx' -> 0 <= ky -> ky <= ky' ->
  1 <= ox_unroll ce' ci' kx' ky' /\ ox_unroll ce' ci' kx' ky' <= ox_unroll ce ci kx ky.
Proof.
  intros. unfold ox_unroll.
  pose proof (fun u Hu => ox_ok_antitone ce ce' ci ci' kx kx' ky ky' u Hu ltac:(assumption) ltac:(assumption) ltac:(assumption) ltac:(assumption) ltac:(assumption) ltac:(assumption) ltac:(assumption) ltac:(assumption)) as A.
  destruct (ox_ok ce' ci' kx' ky' 8) eqn:E8; [rewrite (A 8 ltac:(lra) E8); split; lra|].
  destruct (ox_ok ce' ci' kx' ky' 4) eqn:E4; [rewrite (A 4 ltac:(lra) E4); destruct (ox_ok ce ci kx ky 8); split; lra|].
  destruct (ox_ok ce' ci' kx' ky' 2) eqn:E2; [rewrite (A 2 ltac:(lra) E2); destruct (ox_ok ce ci kx ky 8); destruct (ox_ok ce ci kx ky 4); split; lra|].
  destruct (ox_ok ce ci kx ky 8); destruct (ox_ok ce ci kx ky 4); destruct (ox_ok ce ci kx ky 2); split; lra.
Qed.

Lemma gate_mono ch ch' th : ch <= ch' -> 0 <= gate ch th /\ gate ch th <= gate ch' th /\ gate ch' th <= 1.
Proof.
  intro H. unfold gate. destruct (Qle_bool th ch) eqn:E.
  - apply Qle_bool_iff in E. assert (E' : Qle_bool th ch' = true) by (apply Qle_bool_iff; lra). rewrite E'. repeat split; lra.
  - destruct (Qle_bool th ch'); repeat split; lra.
Qed.

Theorem diana_analog_mono ci ci' co co' kx kx' ky ky' ox ox' oy oy' :
  0 <= ci -> ci <= ci' -> 0 <= co -> co <= co' -> 0 <= kx -> kx <= kx' -> 0 <= ky -> ky <= ky' ->
  0 <= ox -> ox <= ox' -> 0 <= oy -> oy <= oy' ->
  0 <= diana_analog_cycles ci co kx ky ox oy /\
  diana_analog_cycles ci co kx ky ox oy <= diana_analog_cycles ci' co' kx' ky' ox' oy'.
Proof.
  intros. unfold diana_analog_cycles.
  destruct (ox_unroll_antitone co co' ci ci' kx kx' ky ky') as [U1 U2]; try assumption.
  set (u := ox_unroll co ci kx ky) in *. set (u' := ox_unroll co' ci' kx' ky') in *.
  pose proof (floor_ste_nonneg co 512 ltac:(lra) ltac:(assumption)) as A0.
  pose proof (floor_ste_mono co co' 512 ltac:(lra) ltac:(assumption)) as A1.
  pose proof (floor_ste_nonneg ci 128 ltac:(lra) ltac:(assumption)) as B0.
  pose proof (floor_ste_mono ci ci' 128 ltac:(lra) ltac:(assumption)) as B1.
  destruct (gate_mono co co' 1 ltac:(assumption)) as (G0 & G1 & G2).
  set (a := floor_ste co 512) in *. set (a' := floor_ste co' 512) in *.
  set (b := floor_ste ci 128) in *. set (b' := floor_ste ci' 128) in *.
  set (g := gate co 1) in *. set (g' := gate co' 1) in *.
  assert (AB : 0 <= a * b /\ a * b <= a' * b') by (split; nra).
  assert (OO : 0 <= ox * oy /\ ox * oy <= ox' * oy') by (split; nra).
  assert (N : 0 <= a * b * ox * oy /\ a * b * ox * oy <= a' * b' * ox' * oy').
  { destruct AB, OO. set (p := a * b) in *. set (p' := a' * b') in *.
    setoid_replace (p * ox * oy) with (p * (ox * oy)) by ring. setoid_replace (p' * ox' * oy') with (p' * (ox' * oy')) by ring.
    set (o := ox * oy) in *. set (o' := ox' * oy') in *. split; nra. }
  assert (KK : 0 <= kx * ky /\ kx * ky <= kx' * ky') by (split; nra).
  assert (Wt : 0 <= 4 * 2 * ci * kx * ky /\ 4 * 2 * ci * kx * ky <= 4 * 2 * ci' * kx' * ky').
  { destruct KK. setoid_replace (4 * 2 * ci * kx * ky) with (8 * (ci * (kx * ky))) by ring.
    setoid_replace (4 * 2 * ci' * kx' * ky') with (8 * (ci' * (kx' * ky'))) by ring.
    set (k := kx * ky) in *. set (k' := kx' * ky') in *. split; nra. }
  destruct N as [N0 N1]. destruct Wt as [W0 W1].
  set (n := a * b * ox * oy) in *. set (n' := a' * b' * ox' * oy') in *.
  set (w := 4 * 2 * ci * kx * ky) in *. set (w' := 4 * 2 * ci' * kx' * ky') in *.
  assert (Hu : 0 < u) by lra. assert (Hu' : 0 < u') by lra.
  pose proof (Qinv_lt_0_compat u Hu) as IU. pose proof (Qinv_lt_0_compat u' Hu') as IU'.
  assert (IUU : / u <= / u').
  { assert (E1 : u * / u == 1) by (field; lra). assert (E2 : u' * / u' == 1) by (field; lra). nra. }
  assert (D : 0 <= n / u /\ n / u <= n' / u') by (unfold Qdiv; split; nra).
  destruct D as [D0 D1]. set (d := n / u) in *. set (d' := n' / u') in *.
  assert (C : 0 < / (1000000000 / 260000000)) by (vm_compute; reflexivity).
  unfold Qdiv at 1 3 5. set (cst := / (1000000000 * / 260000000)) in *.
  assert (C' : 0 < cst) by (subst cst; vm_compute; reflexivity).
  split; nra.
Qed.

Theorem diana_analog_pos ci co kx ky ox oy : 1 <= ci -> 1 <= co -> 1 <= kx -> 1 <= ky -> 0 <= ox -> 0 <= oy ->
  0 < diana_analog_cycles ci co kx ky ox oy.
Proof.
  intros. destruct (diana_analog_mono ci ci co co kx kx ky ky 0 ox 0 oy) as [_ M]; try lra.
  assert (Z : 8 <= diana_analog_cycles ci co kx ky 0 0); [|lra].
  unfold diana_analog_cycles. destruct (gate_exact co 1) as [G _]. rewrite (G ltac:(assumption)).
  destruct (mul3_mono 1 ci 1 kx 1 ky) as [_ P]; try lra.
  setoid_replace (floor_ste co 512 * floor_ste ci 128 * 0 * 0 / ox_unroll co ci kx ky * 70 / (1000000000 / 260000000)) with 0.
  - nra.
  - unfold Qdiv. ring.
Qed.

Theorem diana_digital_mono g ci ci' co co' kx kx' ky ky' ox ox' oy oy' : 0 < g ->
  0 <= ci -> ci <= ci' -> 0 <= co -> co <= co' -> 0 <= kx -> kx <= kx' -> 0 <= ky -> ky <= ky' ->
  0 <= ox -> ox <= ox' -> 0 <= oy -> oy <= oy' ->
  0 <= diana_digital_cycles ci co g kx ky ox oy /\
  diana_digital_cycles ci co g kx ky ox oy <= diana_digital_cycles ci' co' g kx' ky' ox' oy'.
Proof.
  intros Hg. intros. unfold diana_digital_cycles.
  pose proof (floor_ste_nonneg (co / g) 16 ltac:(lra) ltac:(apply div_nonneg; assumption)) as A0.
  pose proof (floor_ste_mono (co / g) (co' / g) 16 ltac:(lra) ltac:(apply div_le_compat; assumption)) as A1.
  pose proof (floor_ste_nonneg ox 16 ltac:(lra) ltac:(assumption)) as B0.
  pose proof (floor_ste_mono ox ox' 16 ltac:(lra) ltac:(assumption)) as B1.
  destruct (gate_mono co co' 1 ltac:(assumption)) as (G0 & G1 & G2).
  set (a := floor_ste (co / g) 16) in *. set (a' := floor_ste (co' / g) 16) in *.
  set (b := floor_ste ox 16) in *. set (b' := floor_ste ox' 16) in *.
  set (gt := gate co 1) in *. set (gt' := gate co' 1) in *.
  destruct (mul3_mono a a' ci ci' b b') as [X0 X1]; try assumption.
  destruct (mul3_mono oy oy' kx kx' ky ky') as [Y0 Y1]; try assumption.
  assert (C : 0 <= a * ci * b * oy * kx * ky /\ a * ci * b * oy * kx * ky <= a' * ci' * b' * oy' * kx' * ky').
  { setoid_replace (a * ci * b * oy * kx * ky) with ((a * ci * b) * (oy * kx * ky)) by ring.
    setoid_replace (a' * ci' * b' * oy' * kx' * ky') with ((a' * ci' * b') * (oy' * kx' * ky')) by ring.
    set (x := a * ci * b) in *. set (x' := a' * ci' * b') in *. set (y := oy * kx * ky) in *. set (y' := oy' * kx' * ky') in *.
    split; nra. }
  destruct (mul3_mono ox ox' oy oy' (co + ci) (co' + ci')) as [L0 L1]; try lra.
  destruct C as [C0 C1].
  set (c := a * ci * b * oy * kx * ky) in *. set (c' := a' * ci' * b' * oy' * kx' * ky') in *.
  set (l := ox * oy * (co + ci)) in *. set (l' := ox' * oy' * (co' + ci')) in *.
  pose proof (div_nonneg l 8 ltac:(lra) L0) as HL0. pose proof (div_le_compat l l' 8 ltac:(lra) L1) as HL1.
  set (h := l / 8) in *. set (h' := l' / 8) in *.
  split; nra.
Qed.

Theorem diana_digital_pos g ci co kx ky ox oy : 0 < g -> 1 <= ci -> 1 <= co -> 0 <= kx -> 0 <= ky -> 1 <= ox -> 1 <= oy ->
  0 < diana_digital_cycles ci co g kx ky ox oy.
Proof.
  intros Hg. intros. destruct (diana_digital_mono g ci ci co co 0 kx 0 ky ox ox oy oy Hg) as [_ M]; try lra.
  assert (Z : 1 # 4 <= diana_digital_cycles ci co g 0 0 ox oy); [|lra].
  unfold diana_digital_cycles. destruct (gate_exact co 1) as [G _]. rewrite (G ltac:(assumption)).
  destruct (mul3_mono 1 ox 1 oy 2 (co + ci)) as [_ P]; try lra.
  setoid_replace (floor_ste (co / g) 16 * ci * floor_ste ox 16 * oy * 0 * 0) with 0 by ring.
  pose proof (div_le_compat (1 * 1 * 2) (ox * oy * (co + ci)) 8 ltac:(lra) P) as D.
  assert (E : 1 * 1 * 2 / 8 == 1 # 4) by (vm_compute; reflexivity).
  rewrite E in D. lra.
Qed.

(* dispatch: the two precisions and the group count select the accelerator; sizes grow *)
Theorem diana_dispatch_mono wp ap g ci ci' co co' kx kx' ky ky' ox ox' oy oy' c c' : 0 < g ->
  0 <= ci -> ci <= ci' -> 0 <= co -> co <= co' -> 0 <= kx -> kx <= kx' -> 0 <= ky -> ky <= ky' ->
  0 <= ox -> ox <= ox' -> 0 <= oy -> oy <= oy' ->
  diana_dispatch wp ap ci co g kx ky ox oy = Some c -> diana_dispatch wp ap ci' co' g kx' ky' ox' oy' = Some c' ->
  0 <= c /\ c <= c'.
Proof.
  intros Hg. intros until 12. unfold diana_dispatch.
  destruct (Qeq_bool wp 2 && Qeq_bool ap 8).
  - destruct (Qeq_bool g 1); [|discriminate]. intros X Y; inversion X; inversion Y; subst. apply diana_analog_mono; assumption.
  - destruct (Qeq_bool wp 8 && Qeq_bool ap 8); [|discriminate]. intros X Y; inversion X; inversion Y; subst. apply diana_digital_mono; assumption.
Qed.

Theorem diana_dispatch_pos wp ap g ci co kx ky ox oy c : 0 < g ->
  1 <= ci -> 1 <= co -> 1 <= kx -> 1 <= ky -> 1 <= ox -> 1 <= oy ->
  diana_dispatch wp ap ci co g kx ky ox oy = Some c -> 0 < c.
Proof.
  intros Hg. intros until 6. unfold diana_dispatch.
  destruct (Qeq_bool wp 2 && Qeq_bool ap 8).
  - destruct (Qeq_bool g 1); [|discriminate]. intros X; inversion X; subst. apply diana_analog_pos; lra.
  - destruct (Qeq_bool wp 8 && Qeq_bool ap 8); [|discriminate]. intros X; inversion X; subst. apply diana_digital_pos; lra.
Qed.

(* rejected exactly when the precisions select neither accelerator, or select the analog one for a grouped convolution *)
Theorem diana_dispatch_reject wp ap g ci co kx ky ox oy :
  diana_dispatch wp ap ci co g kx ky ox oy = None <->
  ((wp == 2 /\ ap == 8 /\ ~ g == 1) \/ (~ (wp == 2 /\ ap == 8) /\ ~ (wp == 8 /\ ap == 8))).
Proof.
  unfold diana_dispatch.
  destruct (Qeq_bool wp 2) eqn:W2; destruct (Qeq_bool ap 8) eqn:A8; destruct (Qeq_bool wp 8) eqn:W8; destruct (Qeq_bool g 1) eqn:G1; cbn [andb];
    repeat match goal with
           | H : Qeq_bool _ _ = true |- _ => apply Qeq_bool_iff in H
           | H : Qeq_bool _ _ = false |- _ => apply Qeq_bool_neq in H
           end;
    split; intro X; try discriminate; try reflexivity; try tauto; exfalso; tauto.
Qed.

(* ---------------------------------------------------------------- the registered functions *)
Definition same_kernel (r r' : nat -> Q) : Prop := r' V_k0 = r V_k0 /\ r' V_k1 = r V_k1.
Definition out_le (r r' : nat -> Q) : Prop := 0 <= r V_o2 /\ r V_o2 <= r' V_o2 /\ 0 <= r V_o3 /\ r V_o3 <= r' V_o3.
Definition kernel_3x3_or_1x1 (r : nat -> Q) : Prop := (r V_k0 == 3 /\ r V_k1 == 3) \/ (r V_k0 == 1 /\ r V_k1 == 1).

Theorem ne16_conv2d_generic_mono r r' c c' : ne16_le r r' -> same_kernel r r' -> out_le r r' ->
  ne16_conv2d_generic r = Some c -> ne16_conv2d_generic r' = Some c' -> 0 <= c /\ c <= c'.
Proof.
  intros L [K0 K1] (A & B & C & D). unfold ne16_conv2d_generic, keq. rewrite K0, K1.
  apply ne16_wrapper_mono; assumption.
Qed.

Theorem ne16_conv2d_dw_mono r r' c c' : ne16_le r r' -> same_kernel r r' -> out_le r r' ->
  ne16_conv2d_dw r = Some c -> ne16_conv2d_dw r' = Some c' -> 0 <= c /\ c <= c'.
Proof.
  intros L [K0 K1] (A & B & C & D). unfold ne16_conv2d_dw, keq. rewrite K0, K1.
  apply ne16_wrapper_mono; assumption.
Qed.

Theorem ne16_linear_mono r r' c c' : ne16_le r r' ->
  ne16_linear r = Some c -> ne16_linear r' = Some c' -> 0 <= c /\ c <= c'.
Proof. intros L. unfold ne16_linear. apply ne16_wrapper_mono; try assumption; lra. Qed.

Theorem ne16_conv2d_generic_pos r c : 0 < r V_wp -> 0 < r V_theta -> 0 < r V_cout -> 0 <= r V_cin -> 1 <= r V_o2 -> 1 <= r V_o3 ->
  kernel_3x3_or_1x1 r -> ne16_conv2d_generic r = Some c -> 0 < c.
Proof. intros P T O C H2 H3 K X. unfold ne16_conv2d_generic in X. exact (ne16_wrapper_pos _ _ _ _ _ _ r c P T O C H2 H3 K X). Qed.

Theorem ne16_conv2d_dw_pos r c : 0 < r V_wp -> 0 < r V_theta -> 0 < r V_cout -> 0 <= r V_cin -> 1 <= r V_o2 -> 1 <= r V_o3 ->
  kernel_3x3_or_1x1 r -> ne16_conv2d_dw r = Some c -> 0 < c.
Proof. intros P T O C H2 H3 K X. unfold ne16_conv2d_dw in X. exact (ne16_wrapper_pos _ _ _ _ _ _ r c P T O C H2 H3 K X). Qed.

Theorem ne16_linear_pos r c : 0 < r V_wp -> 0 < r V_theta -> 0 < r V_cout -> 0 <= r V_cin ->
  ne16_linear r = Some c -> 0 < c.
Proof.
  intros P T O C X. unfold ne16_linear in X.
  refine (ne16_wrapper_pos false true 1 1 1 1 r c P T O C _ _ _ X); lra.
Qed.

Definition diana_le (r r' : nat -> Q) : Prop :=
  0 <= r V_cin /\ r V_cin <= r' V_cin /\ 0 <= r V_cout /\ r V_cout <= r' V_cout /\
  0 <= r V_k0 /\ r V_k0 <= r' V_k0 /\ 0 <= r V_k1 /\ r V_k1 <= r' V_k1 /\
  r' V_wp = r V_wp /\ r' V_ip = r V_ip /\ r' V_groups = r V_groups /\ 0 < r V_groups.

Theorem diana_conv2d_generic_mono r r' c c' : diana_le r r' -> out_le r r' ->
  diana_conv2d_generic r = Some c -> diana_conv2d_generic r' = Some c' -> 0 <= c /\ c <= c'.
Proof.
  intros (A1 & A2 & A3 & A4 & A5 & A6 & A7 & A8 & E1 & E2 & E3 & G) (B1 & B2 & B3 & B4).
  unfold diana_conv2d_generic. rewrite E1, E2, E3. apply diana_dispatch_mono; assumption.
Qed.

Theorem diana_linear_mono r r' c c' : diana_le r r' ->
  diana_linear r = Some c -> diana_linear r' = Some c' -> 0 <= c /\ c <= c'.
Proof.
  intros (A1 & A2 & A3 & A4 & A5 & A6 & A7 & A8 & E1 & E2 & E3 & G).
  unfold diana_linear. rewrite E1, E2. apply diana_dispatch_mono; try assumption; lra.
Qed.

Theorem diana_conv2d_generic_pos r c : 0 < r V_groups -> 1 <= r V_cin -> 1 <= r V_cout -> 1 <= r V_k0 -> 1 <= r V_k1 ->
  1 <= r V_o2 -> 1 <= r V_o3 -> diana_conv2d_generic r = Some c -> 0 < c.
Proof. intros G A B C D E F X. unfold diana_conv2d_generic in X. exact (diana_dispatch_pos _ _ _ _ _ _ _ _ _ c G A B C D E F X). Qed.

Theorem diana_linear_pos r c : 1 <= r V_cin -> 1 <= r V_cout -> diana_linear r = Some c -> 0 < c.
Proof.
  intros A B X. unfold diana_linear in X.
  refine (diana_dispatch_pos _ _ 1 _ _ 1 1 1 1 c _ A B _ _ _ _ X); lra.
Qed.

(* on fractional (relaxed) channel counts FloorSTE is NOT the ceiling: 17/4 channels in tiles of 4 *)
Lemma floor_ste_fraction_example : floor_ste (17 # 4) 4 == 1.
Proof. vm_compute. reflexivity. Qed.

(* ---------------------------------------------------------------- NE16: kernel growth 1x1 -> 3x3 *)
(* the only two kernels the dense NE16 wrapper accepts; a 3x3 job is never cheaper than the 1x1 job of the
   same (or a smaller) layer as soon as the weights have at least one bit *)
Lemma ne16_iter_kernel wb wb' n n' k k' : 0 <= wb -> 1 <= wb' -> 0 <= n -> n <= n' -> 0 <= k -> k <= k' ->
  13 <= ne16_iter K1x1 wb n k /\ ne16_iter K1x1 wb n k <= ne16_iter K3x3 wb' n' k'.
Proof.
  intros. destruct (ne16_iter_mono K1x1 wb wb n n k k) as [A _]; try assumption; try lra.
  split; [exact A|].
  unfold ne16_iter, ne16_wo, ne16_mv, ne16_upd. cbn [is1x1 isdw K1x1 K3x3].
  pose proof (ne16_load_val K1x1) as L1. pose proof (ne16_load_val K3x3) as L3. cbn [is1x1 K1x1 K3x3] in L1, L3.
  pose proof ne16_so_val as S.
  destruct (ne16_nq_bounds k k' ltac:(assumption) ltac:(assumption)) as [N0 N1].
  assert (P : k' <= k' * wb') by nra. set (p' := k' * wb') in *.
  rewrite L1, L3, S. nra.
Qed.

Theorem ne16_lat_kernel wb wb' H H' W W' Ko Ko' Ki Ki' :
  0 <= wb -> 1 <= wb' -> 0 <= H -> H <= H' -> 0 <= W -> W <= W' -> 0 <= Ko -> Ko <= Ko' -> 0 <= Ki -> Ki <= Ki' ->
  0 <= ne16_lat K1x1 wb H W Ko Ki /\ ne16_lat K1x1 wb H W Ko Ki <= ne16_lat K3x3 wb' H' W' Ko' Ki'.
Proof.
  intros. unfold ne16_lat. cbn [isdw K1x1 K3x3].
  pose proof (div_and_ceil_nonneg H 3 ltac:(lra) ltac:(assumption)).
  pose proof (div_and_ceil_nonneg W 3 ltac:(lra) ltac:(assumption)).
  pose proof (div_and_ceil_mono H H' 3 ltac:(lra) ltac:(assumption)).
  pose proof (div_and_ceil_mono W W' 3 ltac:(lra) ltac:(assumption)).
  pose proof (div_and_ceil_nonneg Ki 16 ltac:(lra) ltac:(assumption)) as N0.
  pose proof (div_and_ceil_mono Ki Ki' 16 ltac:(lra) ltac:(assumption)) as N1.
  destruct (body_rem_mono (ne16_iter K1x1 wb (div_and_ceil Ki 16)) (ne16_iter K3x3 wb' (div_and_ceil Ki' 16)) 32 ltac:(lra)) with (Ko := Ko) (Ko' := Ko') as [X0 X1]; try assumption.
  { intros k k' Hk Hkk _. destruct (ne16_iter_kernel wb wb' (div_and_ceil Ki 16) (div_and_ceil Ki' 16) k k'); try assumption. split; lra. }
  assert (S : 0 <= div_and_ceil H 3 * div_and_ceil W 3 /\ div_and_ceil H 3 * div_and_ceil W 3 <= div_and_ceil H' 3 * div_and_ceil W' 3) by (split; nra).
  destruct S as [S0 S1].
  set (s := div_and_ceil H 3 * div_and_ceil W 3) in *. set (s' := div_and_ceil H' 3 * div_and_ceil W' 3) in *.
  split; nra.
Qed.

(* Ne16PerfModel_generalized on the two accepted kernels is exactly one job of the respective kind *)
Lemma ne16_generalized_3x3 dw wb k0 k1 H W Ko Ki : k0 == 3 -> k1 == 3 ->
  ne16_generalized dw wb k0 k1 H W Ko Ki == ne16_lat (ne16_kind_of true false dw) wb H W Ko Ki.
Proof.
  intros E0 E1. unfold ne16_generalized.
  assert (F : forall a b, a == b -> Qfloor a = Qfloor b) by (intros; apply Qfloor_comp; assumption).
  assert (N3 : floor_divide k0 3 * floor_divide k1 3 == 1).
  { unfold floor_divide. rewrite (F (k0 / 3) (3 / 3)) by (rewrite E0; reflexivity). rewrite (F (k1 / 3) (3 / 3)) by (rewrite E1; reflexivity). vm_compute. reflexivity. }
  assert (N1 : modulo k0 3 * k1 + modulo k1 3 * k0 - modulo k0 3 * modulo k1 3 == 0).
  { unfold modulo. rewrite (F (k0 / 3) (3 / 3)) by (rewrite E0; reflexivity). rewrite (F (k1 / 3) (3 / 3)) by (rewrite E1; reflexivity).
    change (Qfloor (3 / 3)) with 1%Z. rewrite E0, E1. vm_compute. reflexivity. }
  assert (Q3 : qlt_bool 0 (floor_divide k0 3 * floor_divide k1 3) = true) by (apply qlt_bool_iff; lra).
  assert (Q1 : qlt_bool 0 (modulo k0 3 * k1 + modulo k1 3 * k0 - modulo k0 3 * modulo k1 3) = false) by (apply qlt_false; lra).
  rewrite Q3, Q1, N3. ring.
Qed.

Lemma ne16_generalized_1x1 dw wb k0 k1 H W Ko Ki : k0 == 1 -> k1 == 1 ->
  ne16_generalized dw wb k0 k1 H W Ko Ki == ne16_lat (ne16_kind_of false true dw) wb H W Ko Ki.
Proof.
  intros E0 E1. unfold ne16_generalized.
  assert (F : forall a b, a == b -> Qfloor a = Qfloor b) by (intros; apply Qfloor_comp; assumption).
  assert (N3 : floor_divide k0 3 * floor_divide k1 3 == 0).
  { unfold floor_divide. rewrite (F (k0 / 3) (1 / 3)) by (rewrite E0; reflexivity). rewrite (F (k1 / 3) (1 / 3)) by (rewrite E1; reflexivity). vm_compute. reflexivity. }
  assert (N1 : modulo k0 3 * k1 + modulo k1 3 * k0 - modulo k0 3 * modulo k1 3 == 1).
  { unfold modulo. rewrite (F (k0 / 3) (1 / 3)) by (rewrite E0; reflexivity). rewrite (F (k1 / 3) (1 / 3)) by (rewrite E1; reflexivity).
    change (Qfloor (1 / 3)) with 0%Z. rewrite E0, E1. vm_compute. reflexivity. }
  assert (Q3 : qlt_bool 0 (floor_divide k0 3 * floor_divide k1 3) = false) by (apply qlt_false; lra).
  assert (Q1 : qlt_bool 0 (modulo k0 3 * k1 + modulo k1 3 * k0 - modulo k0 3 * modulo k1 3) = true) by (apply qlt_bool_iff; lra).
  rewrite Q3, Q1, N1. ring.
Qed.

Theorem ne16_wrapper_kernel_mono kok kok' k0 k1 k0' k1' H H' W W' r r' c c' :
  ne16_le r r' -> 1 <= r V_wp -> 0 <= H -> H <= H' -> 0 <= W -> W <= W' ->
  k0 == 1 -> k1 == 1 -> k0' == 3 -> k1' == 3 ->
  ne16_wrapper false kok k0 k1 H W r = Some c -> ne16_wrapper false kok' k0' k1' H' W' r' = Some c' ->
  0 <= c /\ c <= c'.
Proof.
  intros (C0 & C1 & O0 & O1 & P0 & P1 & EI & ET & T0) P HH0 HH HW0 HW E0 E1 E0' E1'. unfold ne16_wrapper. rewrite EI, ET.
  rewrite (qeqb_false (r V_theta)) by lra. rewrite (qeqb_false (r V_wp)) by lra. rewrite (qeqb_false (r' V_wp)) by lra. cbn [orb].
  destruct (negb (Qeq_bool (r V_ip) 8)); [discriminate|]. destruct (negb kok); [discriminate|]. destruct (negb kok'); [discriminate|].
  intros X Y; inversion X; inversion Y; subst c c'.
  rewrite (ne16_generalized_1x1 false (r V_wp) k0 k1 H W _ _ E0 E1).
  rewrite (ne16_generalized_3x3 false (r' V_wp) k0' k1' H' W' _ _ E0' E1').
  change (ne16_kind_of false true false) with K1x1. change (ne16_kind_of true false false) with K3x3.
  destruct (ne16_lat_kernel (r V_wp) (r' V_wp) H H' W W' (r V_theta * r V_cout) (r V_theta * r' V_cout) (r V_cin) (r' V_cin)) as [A B]; try assumption; try lra; try nra.
  pose proof (Qinv_lt_0_compat _ T0). unfold Qdiv. split; nra.
Qed.

(* the dense registered function: the kernel either stays, or grows from 1x1 to 3x3 (its only two values) *)
Definition ne16_kernel_le (r r' : nat -> Q) : Prop :=
  same_kernel r r' \/ (r V_k0 == 1 /\ r V_k1 == 1 /\ r' V_k0 == 3 /\ r' V_k1 == 3 /\ 1 <= r V_wp).

Theorem ne16_conv2d_generic_mono_kernel r r' c c' : ne16_le r r' -> ne16_kernel_le r r' -> out_le r r' ->
  ne16_conv2d_generic r = Some c -> ne16_conv2d_generic r' = Some c' -> 0 <= c /\ c <= c'.
Proof.
  intros L [K|(E0 & E1 & E0' & E1' & P)] O.
  - apply ne16_conv2d_generic_mono; assumption.
  - destruct O as (A & B & C & D). unfold ne16_conv2d_generic.
    apply ne16_wrapper_kernel_mono; assumption.
Qed.

(* the depthwise registered function accepts exactly one kernel: on non-pruned layers "the kernel grows" is vacuous *)
Theorem ne16_conv2d_dw_kernel_is_3x3 r c : ~ r V_wp == 0 -> ~ r V_theta == 0 ->
  ne16_conv2d_dw r = Some c -> r V_k0 == 3 /\ r V_k1 == 3.
Proof.
  intros A B. unfold ne16_conv2d_dw, ne16_wrapper. rewrite (qeqb_false _ A), (qeqb_false _ B). cbn [orb].
  destruct (negb (Qeq_bool (r V_ip) 8)); [discriminate|].
  unfold keq. destruct (Qeq_bool (r V_k0) 3) eqn:E0; destruct (Qeq_bool (r V_k1) 3) eqn:E1; cbn [andb negb]; try discriminate.
  intros _. split; apply Qeq_bool_iff; assumption.
Qed.

(* likewise the dense one accepts exactly 3x3 and 1x1 *)
Theorem ne16_conv2d_generic_kernel_domain r c : ~ r V_wp == 0 -> ~ r V_theta == 0 ->
  ne16_conv2d_generic r = Some c -> kernel_3x3_or_1x1 r.
Proof.
  intros A B. unfold ne16_conv2d_generic, ne16_wrapper. rewrite (qeqb_false _ A), (qeqb_false _ B). cbn [orb].
  destruct (negb (Qeq_bool (r V_ip) 8)); [discriminate|].
  unfold keq, kernel_3x3_or_1x1.
  destruct (Qeq_bool (r V_k0) 3) eqn:E0; destruct (Qeq_bool (r V_k1) 3) eqn:E1;
  destruct (Qeq_bool (r V_k0) 1) eqn:F0; destruct (Qeq_bool (r V_k1) 1) eqn:F1; cbn [andb orb negb]; try discriminate; intros _;
  repeat match goal with H : Qeq_bool _ _ = true |- _ => apply Qeq_bool_iff in H end; tauto.
Qed.
