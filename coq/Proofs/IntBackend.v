(* Proofs about Model/IntBackend.v  (C14): binary_search, _integer_approximation, MATCH requantization error
   against the fake-quantized counterpart, MAUPITI offset form, last layers, dilation-to-padding. *)
From Coq Require Import QArith Qround ZArith List Bool Lia Lqa ZifyBool.
Import ListNotations.
Require Import Plinio.Base.Qx Plinio.Base.Round Plinio.Model.Quant Plinio.Proofs.Quant Plinio.Model.IntBackend.
Local Open Scope Q_scope.


(* ---------------- binary_search *)
Definition bs_post (div : Q) (lo hi : Z) (x : Q) (r : Z) : Prop :=
  (lo <= r <= hi)%Z /\ (x <= inject_Z r * div \/ r = hi) /\
  (forall m, (lo <= m < r)%Z -> inject_Z m * div < x).

Lemma inject_Z_lt_mul (m r : Z) (div : Q) : 0 < div -> (m < r)%Z -> inject_Z m * div < inject_Z r * div.
Proof. intros Hd H. rewrite Zlt_Qlt in H. nra. Qed.
Lemma inject_Z_le_mul (m r : Z) (div : Q) : 0 < div -> (m <= r)%Z -> inject_Z m * div <= inject_Z r * div.
Proof. intros Hd H. rewrite Zle_Qle in H. nra. Qed.

Lemma bsearch_spec fuel : forall div lo hi x, 0 < div -> (lo <= hi)%Z -> (hi - lo < 2 ^ Z.of_nat fuel)%Z ->
  bs_post div lo hi x (bsearch fuel div lo hi x).
Proof.
  induction fuel as [|f IH]; intros div lo hi x Hd Hle Hw.
  - cbn [bsearch]. change (2 ^ Z.of_nat 0)%Z with 1%Z in Hw. assert (hi = lo) by lia. subst.
    repeat split; try lia.
  - cbn [bsearch]. destruct (hi =? lo)%Z eqn:E.
    + assert (hi = lo) by lia. subst. repeat split; try lia.
    + assert (Hlt : (lo < hi)%Z) by lia.
      rewrite Nat2Z.inj_succ, Z.pow_succ_r in Hw by lia.
      set (mid := ((lo + hi) / 2)%Z).
      assert (Hm : (lo <= mid < hi)%Z).
      { unfold mid. split; [apply Z.div_le_lower_bound; lia | apply Z.div_lt_upper_bound; lia]. }
      assert (Hm2 : (2 * mid <= lo + hi < 2 * mid + 2)%Z).
      { unfold mid. pose proof (Z.div_mod (lo + hi) 2 ltac:(lia)). pose proof (Z.mod_pos_bound (lo + hi) 2 ltac:(lia)). lia. }
      destruct (Qeq_bool x (inject_Z mid * div)) eqn:E1.
      * apply Qeq_bool_iff in E1. repeat split; try lia.
        -- left. rewrite E1. apply Qle_refl.
        -- intros m Hmm. rewrite E1. apply inject_Z_lt_mul; [exact Hd|lia].
      * destruct (qlt_bool x (inject_Z mid * div)) eqn:E2.
        -- apply qlt_bool_iff in E2.
           destruct (IH div lo mid x Hd ltac:(lia) ltac:(lia)) as [R1 [R2 R3]].
           repeat split; try lia.
           ++ destruct R2 as [R2|R2]; [left; exact R2|]. left. rewrite R2. apply Qlt_le_weak. exact E2.
           ++ exact R3.
        -- assert (E3 : inject_Z mid * div < x).
           { assert (~ x < inject_Z mid * div) by (intro H; apply qlt_bool_iff in H; congruence).
             assert (~ x == inject_Z mid * div) by (intro H'; apply Qeq_bool_iff in H'; congruence).
             lra. }
           destruct (IH div (mid + 1)%Z hi x Hd ltac:(lia) ltac:(lia)) as [R1 [R2 R3]].
           repeat split; try lia.
           ++ exact R2.
           ++ intros m Hmm. destruct (Z_lt_le_dec m (mid + 1)) as [Hc|Hc].
              ** apply Qle_lt_trans with (inject_Z mid * div); [apply inject_Z_le_mul; [exact Hd|lia]|exact E3].
              ** apply R3. lia.
Qed.

Lemma bs_fuel_ok lo hi : (lo <= hi)%Z -> (hi - lo < 2 ^ Z.of_nat (bs_fuel lo hi))%Z.
Proof.
  intro H. unfold bs_fuel. rewrite Z2Nat.id by apply Z.log2_up_nonneg.
  pose proof (Z.log2_up_spec (hi - lo + 1)) as S.
  destruct (Z.eq_dec hi lo) as [->|Hne].
  - replace (lo - lo + 1)%Z with 1%Z by lia. cbn. lia.
  - specialize (S ltac:(lia)). lia.
Qed.

Lemma binary_search_spec div lo hi x : 0 < div -> (lo <= hi)%Z -> bs_post div lo hi x (binary_search div lo hi x).
Proof. intros Hd H. apply bsearch_spec; [exact Hd|exact H|apply bs_fuel_ok; exact H]. Qed.

(* the value, in closed form: min hi (max lo (ceil (x/div))) *)
Lemma binary_search_unique div lo hi x r r' : 0 < div -> bs_post div lo hi x r -> bs_post div lo hi x r' -> r = r'.
Proof.
  intros Hd [A1 [A2 A3]] [B1 [B2 B3]].
  destruct (Z_lt_le_dec r r') as [H|H].
  - specialize (B3 r ltac:(lia)). destruct A2 as [A2|A2]; [lra|lia].
  - destruct (Z_lt_le_dec r' r) as [H'|H']; [|lia].
    specialize (A3 r' ltac:(lia)). destruct B2 as [B2|B2]; [lra|lia].
Qed.


Lemma qpow2_pos sh : 0 < qpow2 sh.
Proof. pose proof (qpow2_ge1 sh). lra. Qed.
Lemma inv_pow2_pos sh : 0 < inv_pow2 sh.
Proof. unfold inv_pow2. pose proof (qpow2_pos sh). apply Qlt_shift_div_l; lra. Qed.

Lemma scales_at_length ub ts sh : length (scales_at ub ts sh) = length ts.
Proof. unfold scales_at. apply map_length. Qed.

Lemma scales_at_range ub ts sh : (1 <= ub)%Z -> Forall (fun s => (1 <= s <= ub)%Z) (scales_at ub ts sh).
Proof.
  intro H. unfold scales_at. apply Forall_forall. intros s Hs. apply in_map_iff in Hs. destruct Hs as [t [<- _]].
  destruct (binary_search_spec (inv_pow2 sh) 1 ub t (inv_pow2_pos sh) H) as [R _]. exact R.
Qed.

(* each scale is the rounded-up target at that shift, unless the target leaves [.., ub/2^sh] *)
Lemma scale_close ub sh t : (1 <= ub)%Z -> 0 < t -> t * qpow2 sh <= inject_Z ub ->
  let s := binary_search (inv_pow2 sh) 1 ub t in
  0 <= inject_Z s / qpow2 sh - t /\ inject_Z s / qpow2 sh - t < 1 / qpow2 sh.
Proof.
  intros Hub Ht Hsat s. pose proof (qpow2_pos sh) as Hp.
  destruct (binary_search_spec (inv_pow2 sh) 1 ub t (inv_pow2_pos sh) Hub) as [R1 [R2 R3]]. fold s in R1, R2, R3.
  unfold inv_pow2 in *.
  assert (E : forall z, inject_Z z * (1 / qpow2 sh) == inject_Z z / qpow2 sh) by (intro z; field; lra).
  split.
  - destruct R2 as [R2|R2].
    + rewrite E in R2. lra.
    + rewrite R2. assert (t <= inject_Z ub / qpow2 sh) by (apply Qle_shift_div_l; lra). lra.
  - destruct (Z.eq_dec s 1) as [->|Hne].
    + change (inject_Z 1) with 1. lra.
    + specialize (R3 (s - 1)%Z ltac:(lia)). rewrite E in R3.
      unfold Zminus in R3. rewrite inject_Z_plus in R3. change (inject_Z (- (1))) with (-1) in R3.
      assert (X : (inject_Z s + -1) / qpow2 sh == inject_Z s / qpow2 sh - 1 / qpow2 sh) by (field; lra).
      rewrite X in R3. lra.
Qed.

Lemma overflows_false bias scales : overflows bias scales = false ->
  Forall (fun bs => (int32_min <= fst bs * snd bs <= int32_max)%Z) (combine bias scales).
Proof.
  unfold overflows. intro H. apply Forall_forall. intros bs Hin.
  assert (X : negb (in_int32 (fst bs * snd bs)) = false).
  { destruct (negb (in_int32 (fst bs * snd bs))) eqn:E; [|reflexivity].
    assert (existsb (fun bs => negb (in_int32 (fst bs * snd bs))) (combine bias scales) = true)
      by (apply existsb_exists; exists bs; split; assumption). congruence. }
  unfold in_int32 in X. lia.
Qed.

Section Loop.
Variable ub : Z.
Variable ts : list Q.
Variable bias : list Z.
Let sc (sh : nat) := scales_at ub ts sh.
Let me (sh : nat) := mean_err ts sh (sc sh).
Let ovf (sh : nat) := overflows bias (sc sh).

Definition loop_inv (n : nat) (best : option (Q * (list Z * nat))) : Prop :=
  match best with
  | None => forall s, (s < n)%nat -> ovf s = true
  | Some (e, (scs, sh)) =>
      scs = sc sh /\ e = me sh /\ (sh < n)%nat /\ ovf sh = false /\
      forall s, (s < n)%nat -> ovf s = false -> e <= me s /\ ((s < sh)%nat -> e < me s)
  end.

Lemma loop_step k : forall a best, loop_inv a best -> loop_inv (a + k) (approx_loop ub ts bias (seq a k) best).
Proof.
  induction k as [|k IH]; intros a best Hinv.
  - cbn [seq approx_loop]. rewrite Nat.add_0_r. exact Hinv.
  - cbn [seq approx_loop]. replace (a + S k)%nat with (S a + k)%nat by lia. apply IH.
    fold (sc a). fold (me a). fold (ovf a).
    destruct best as [[m [scs sh]]|].
    + destruct Hinv as [I1 [I2 [I3 [I4 I5]]]].
      destruct (qlt_bool (me a) m) eqn:Eb; cbn [andb].
      * apply qlt_bool_iff in Eb. destruct (ovf a) eqn:Eo; cbn [negb].
        -- repeat split; try assumption; try lia.
           ++ destruct (Nat.eq_dec s a) as [->|Hne]; [congruence|]. apply (I5 s); [lia|assumption].
           ++ destruct (Nat.eq_dec s a) as [->|Hne]; [congruence|]. apply (I5 s); [lia|assumption].
        -- repeat split; try reflexivity; try assumption; try lia.
           ++ destruct (Nat.eq_dec s a) as [->|Hne]; [apply Qle_refl|].
              destruct (I5 s ltac:(lia) H0) as [X _]. lra.
           ++ intro Hs. destruct (I5 s ltac:(lia) H0) as [X _]. lra.
      * assert (Hge : m <= me a).
        { apply Qnot_lt_le. intro H. apply qlt_bool_iff in H. congruence. }
        repeat split; try assumption; try lia.
        -- destruct (Nat.eq_dec s a) as [->|Hne]; [exact Hge|]. apply (I5 s); [lia|assumption].
        -- destruct (Nat.eq_dec s a) as [->|Hne]; [lia|]. apply (I5 s); [lia|assumption].
    + cbn [andb]. destruct (ovf a) eqn:Eo; cbn [negb].
      * intros s Hs. destruct (Nat.eq_dec s a) as [->|Hne]; [exact Eo|]. apply Hinv. lia.
      * repeat split; try reflexivity; try assumption; try lia.
        -- destruct (Nat.eq_dec s a) as [->|Hne]; [apply Qle_refl|]. rewrite (Hinv s) in H0 by lia. discriminate.
        -- intro Hs. rewrite (Hinv s) in H0 by lia. discriminate.
Qed.

Lemma loop_result sp : loop_inv sp (approx_loop ub ts bias (seq 0 sp) None).
Proof. apply (loop_step sp 0 None). intros s Hs. lia. Qed.
End Loop.

Lemma approx_spec sb sp ts bias : 
  let ub := pow2 (sb - 1) in
  match integer_approximation sb sp ts bias with
  | None => forall s, (s < sp)%nat -> overflows bias (scales_at ub ts s) = true
  | Some (scs, sh) =>
      scs = scales_at ub ts sh /\ (sh < sp)%nat /\ overflows bias scs = false /\
      forall s, (s < sp)%nat -> overflows bias (scales_at ub ts s) = false ->
         mean_err ts sh scs <= mean_err ts s (scales_at ub ts s) /\
         ((s < sh)%nat -> mean_err ts sh scs < mean_err ts s (scales_at ub ts s))
  end.
Proof.
  intro ub. unfold integer_approximation. fold ub.
  pose proof (loop_result ub ts bias sp) as H. unfold loop_inv in H.
  destruct (approx_loop ub ts bias (seq 0 sp) None) as [[e [scs sh]]|]; cbn [option_map snd].
  - destruct H as [I1 [I2 [I3 [I4 I5]]]]. subst scs. repeat split; try assumption.
    + destruct (I5 s H H0) as [X _]. rewrite <- I2. exact X.
    + intro Hs. destruct (I5 s H H0) as [_ X]. rewrite <- I2. apply X. exact Hs.
  - exact H.
Qed.

Lemma approx_ranges sb sp ts bias scs sh : 
  integer_approximation sb sp ts bias = Some (scs, sh) ->
  length scs = length ts /\ (sh < sp)%nat /\
  Forall (fun s => (1 <= s <= pow2 (sb - 1))%Z) scs /\
  Forall (fun bs => (int32_min <= fst bs * snd bs <= int32_max)%Z) (combine bias scs).
Proof.
  intro H. pose proof (approx_spec sb sp ts bias) as S. cbn zeta in S. rewrite H in S.
  destruct S as [S1 [S2 [S3 _]]]. subst scs. repeat split.
  - apply scales_at_length.
  - exact S2.
  - apply scales_at_range. apply pow2_pos.
  - apply overflows_false. exact S3.
Qed.


Lemma qabs_nonneg a : 0 <= qabs a.
Proof. destruct (qabs_cases a) as [[? ->]|[? ->]]; lra. Qed.
Lemma qabs_mul a b : qabs (a * b) == qabs a * qabs b.
Proof.
  destruct (qabs_cases a) as [[? ->]|[? ->]]; destruct (qabs_cases b) as [[? ->]|[? ->]];
  destruct (qabs_cases (a * b)) as [[? ->]|[? ->]]; nra.
Qed.
Lemma qabs_bound a : - qabs a <= a <= qabs a.
Proof. destruct (qabs_cases a) as [[? ->]|[? ->]]; lra. Qed.

(* floor commutes with an integer clip *)
Lemma zclip_floor u (lo hi : Z) : (lo <= hi)%Z ->
  zclip (Qfloor u) lo hi = Qfloor (qclamp u (inject_Z lo) (inject_Z hi)).
Proof.
  intro H. unfold zclip, qclamp. rewrite Zle_Qle in H.
  destruct (floor_bounds u) as [F1 F2].
  destruct (qmax_cases u (inject_Z lo)) as [[M1 ->]|[M1 ->]].
  - (* u <= lo *)
    assert (Qfloor u <= lo)%Z by (apply floor_le_int; exact M1).
    rewrite Z.max_r by lia.
    destruct (qmin_cases (inject_Z lo) (inject_Z hi)) as [[N1 ->]|[N1 ->]].
    + rewrite floor_int. rewrite <- Zle_Qle in N1. lia.
    + lra.
  - assert (lo <= Qfloor u)%Z by (apply floor_ge_int; lra).
    rewrite Z.max_l by lia.
    destruct (qmin_cases u (inject_Z hi)) as [[N1 ->]|[N1 ->]].
    + assert (Qfloor u <= hi)%Z by (apply floor_le_int; exact N1). lia.
    + assert (hi <= Qfloor u)%Z by (apply floor_ge_int; lra). rewrite floor_int. lia.
Qed.

Ltac qcases :=
  repeat match goal with
  | |- context [qmax ?a ?b] => let H := fresh in let E := fresh in destruct (qmax_cases a b) as [[H E]|[H E]]; rewrite E in *; clear E
  | |- context [qmin ?a ?b] => let H := fresh in let E := fresh in destruct (qmin_cases a b) as [[H E]|[H E]]; rewrite E in *; clear E
  | |- context [qabs ?a] => let H := fresh in let E := fresh in destruct (qabs_cases a) as [[H E]|[H E]]; rewrite E in *; clear E
  end.

Lemma qclamp_lip u w lo hi : lo <= hi -> qabs (qclamp u lo hi - qclamp w lo hi) <= qabs (u - w).
Proof. intro H. unfold qclamp. qcases; lra. Qed.

Lemma qclamp_hi_shift w C N : 0 <= C <= N -> 0 <= qclamp w 0 N - qclamp w 0 C <= N - C.
Proof. intro H. unfold qclamp. qcases; lra. Qed.

Lemma floor_diff x y d : qabs (x - y) <= d -> 
  - (1 + d) < inject_Z (Qfloor x) - inject_Z (Qfloor y) < 1 + d.
Proof.
  intro H. destruct (floor_bounds x), (floor_bounds y). pose proof (qabs_bound (x - y)). lra.
Qed.

(* core: integer clip of floor(u) against the floor of w clipped to [0, C], C <= N *)
Lemma clamp_floor_close u w (N : Z) C e : 0 <= C <= inject_Z N -> qabs (u - w) <= e ->
  - (1 + e + (inject_Z N - C)) < inject_Z (zclip (Qfloor u) 0 N) - inject_Z (Qfloor (qclamp w 0 C)) < 1 + e + (inject_Z N - C).
Proof.
  intros HC He.
  assert (HN : (0 <= N)%Z) by (rewrite Zle_Qle; change (inject_Z 0) with 0; lra).
  rewrite (zclip_floor u 0 N HN). change (inject_Z 0) with 0.
  pose proof (qclamp_lip u w 0 (inject_Z N) ltac:(lra)) as L.
  pose proof (qclamp_hi_shift w C (inject_Z N) HC) as S.
  set (a := qclamp u 0 (inject_Z N)) in *. set (b := qclamp w 0 (inject_Z N)) in *. set (c := qclamp w 0 C) in *.
  assert (D : qabs (a - c) <= e + (inject_Z N - C)).
  { pose proof (qabs_bound (a - b)). destruct (qabs_cases (a - c)) as [[? ->]|[? ->]]; lra. }
  pose proof (floor_diff a c _ D). lra.
Qed.

(* without the saturation term when the integer pre-activation stays below the fake-quantized clip level *)
Lemma clamp_floor_close_unsat u w (N : Z) C e : 0 <= C <= inject_Z N -> qabs (u - w) <= e -> u <= C ->
  - (1 + e) < inject_Z (zclip (Qfloor u) 0 N) - inject_Z (Qfloor (qclamp w 0 C)) < 1 + e.
Proof.
  intros HC He Hu.
  assert (HN : (0 <= N)%Z) by (rewrite Zle_Qle; change (inject_Z 0) with 0; lra).
  rewrite (zclip_floor u 0 N HN). change (inject_Z 0) with 0.
  assert (E : qclamp u 0 (inject_Z N) == qclamp u 0 C).
  { unfold qclamp. qcases; lra. }
  pose proof (qclamp_lip u w 0 C ltac:(lra)) as L.
  assert (F : Qfloor (qclamp u 0 (inject_Z N)) = Qfloor (qclamp u 0 C)) by (apply Qfloor_comp; exact E).
  rewrite F. apply floor_diff. lra.
Qed.

Section Requant.
Variable p' : nat.
Variable clip sx sw : Q.
Hypothesis Hclip : 0 < clip.
Let p := S p'.
Let N := qpow2 p - 1.

Lemma sat_gap_eq : sat_gap p clip == N - aq_sf p clip * clip.
Proof. unfold sat_gap, aq_sf. fold N. field. lra. Qed.

Lemma target_eq : target p clip sx sw == aq_sf p clip * (sx * sw).
Proof. unfold target, aq_scale, aq_sf. pose proof (N_pos p'). fold p in H. fold N. fold N in H. field. split; lra. Qed.

Lemma requant_pre_eq scale B sh acc :
  requant_pre scale (B * scale) sh acc == (inject_Z scale / qpow2 sh) * (acc + inject_Z B).
Proof. unfold requant_pre. rewrite inject_Z_mult. pose proof (qpow2_pos sh). field. lra. Qed.

Lemma fq_code_eq B acc : fq_code p clip sx sw B acc = Qfloor (qclamp (target p clip sx sw * (acc + inject_Z B)) 0 (aq_sf p clip * clip)).
Proof.
  unfold fq_code, aq_int, fq_real. apply Qfloor_comp.
  pose proof (aq_sf_pos p' clip Hclip) as Hs. fold p in Hs.
  pose proof target_eq as T. set (t := target p clip sx sw) in *.
  set (sf := aq_sf p clip) in *. set (y := sx * sw * (acc + inject_Z B)).
  assert (E : t * (acc + inject_Z B) == sf * y) by (unfold y; rewrite T; ring).
  set (tv := t * (acc + inject_Z B)) in *.
  unfold qclamp. qcases; nra.
Qed.

Lemma sfclip_bounds : 0 <= aq_sf p clip * clip <= inject_Z (pow2 p - 1).
Proof.
  pose proof (aq_sf_pos p' clip Hclip) as Hs. pose proof (sf_clip_lt_N p' clip Hclip) as H. fold p in Hs, H.
  unfold Zminus. rewrite inject_Z_plus. change (inject_Z (-(1))) with (-1). fold (qpow2 p). split; [nra|lra].
Qed.

Lemma requant_error B scale sh acc :
  let d := inject_Z (match_requant p scale (B * scale) sh acc) - inject_Z (fq_code p clip sx sw B acc) in
  - err_bound p clip sx sw B scale sh acc < d < err_bound p clip sx sw B scale sh acc.
Proof.
  cbn zeta. unfold match_requant, err_bound. rewrite fq_code_eq. rewrite sat_gap_eq.
  set (v := acc + inject_Z B). set (a := inject_Z scale / qpow2 sh). set (t := target p clip sx sw).
  pose proof (requant_pre_eq scale B sh acc) as E. fold v a in E.
  assert (F : Qfloor (requant_pre scale (B * scale) sh acc) = Qfloor (a * v)) by (apply Qfloor_comp; exact E).
  rewrite F.
  pose proof (clamp_floor_close (a * v) (t * v) (pow2 p - 1) (aq_sf p clip * clip) (qabs v * qabs (a - t)) sfclip_bounds) as K.
  assert (X : qabs (a * v - t * v) <= qabs v * qabs (a - t)).
  { assert (Y : a * v - t * v == v * (a - t)) by ring. 
    destruct (qabs_cases (a * v - t * v)) as [[? ->]|[? ->]]; pose proof (qabs_mul v (a - t)); pose proof (qabs_bound (v * (a - t))); lra. }
  specialize (K X).
  assert (Z1 : inject_Z (pow2 p - 1) == N).
  { unfold Zminus. rewrite inject_Z_plus. reflexivity. }
  lra.
Qed.

Lemma requant_error_unsat B scale sh acc :
  (inject_Z scale / qpow2 sh) * (acc + inject_Z B) <= aq_sf p clip * clip ->
  let d := inject_Z (match_requant p scale (B * scale) sh acc) - inject_Z (fq_code p clip sx sw B acc) in
  let e := 1 + qabs (acc + inject_Z B) * qabs (inject_Z scale / qpow2 sh - target p clip sx sw) in
  - e < d < e.
Proof.
  intro Hu. cbn zeta. unfold match_requant. rewrite fq_code_eq.
  set (v := acc + inject_Z B) in *. set (a := inject_Z scale / qpow2 sh) in *. set (t := target p clip sx sw).
  pose proof (requant_pre_eq scale B sh acc) as E. fold v a in E.
  assert (F : Qfloor (requant_pre scale (B * scale) sh acc) = Qfloor (a * v)) by (apply Qfloor_comp; exact E).
  rewrite F.
  assert (X : qabs (a * v - t * v) <= qabs v * qabs (a - t)).
  { assert (Y : a * v - t * v == v * (a - t)) by ring. 
    destruct (qabs_cases (a * v - t * v)) as [[? ->]|[? ->]]; pose proof (qabs_mul v (a - t)); pose proof (qabs_bound (v * (a - t))); lra. }
  exact (clamp_floor_close_unsat (a * v) (t * v) (pow2 p - 1) (aq_sf p clip * clip) (qabs v * qabs (a - t)) sfclip_bounds X Hu).
Qed.

(* ranges of the stored activations *)
Lemma match_requant_range scale addb sh acc : (0 <= match_requant p scale addb sh acc <= pow2 p - 1)%Z.
Proof. unfold match_requant, zclip. pose proof (pow2_pos p). lia. Qed.

(* the fake-quantized top level never reaches 2^p - 1 *)
Lemma fq_code_top B acc : (0 <= fq_code p clip sx sw B acc <= pow2 p - 2)%Z.
Proof.
  unfold fq_code. pose proof (aq_range p' clip Hclip (fq_real sx sw B acc)) as R. fold p in R. split; [lia|].
  unfold aq_int in *. 
  pose proof (aq_sf_pos p' clip Hclip) as Hs. pose proof (sf_clip_lt_N p' clip Hclip) as H. fold p in Hs, H.
  pose proof (qclamp_bounds clip Hclip (fq_real sx sw B acc)) as [Q1 Q2].
  set (c := qclamp (fq_real sx sw B acc) 0 clip) in *.
  assert (L : aq_sf p clip * c < inject_Z (pow2 p - 1)).
  { unfold Zminus. rewrite inject_Z_plus. change (inject_Z (-(1))) with (-1). fold (qpow2 p). nra. }
  destruct (floor_bounds (aq_sf p clip * c)) as [F1 F2].
  assert (inject_Z (Qfloor (aq_sf p clip * c)) < inject_Z (pow2 p - 1)) by lra.
  rewrite <- Zlt_Qlt in H0. lia.
Qed.
End Requant.


Ltac push_inj := unfold Zminus; repeat (first [rewrite inject_Z_plus | rewrite inject_Z_mult | rewrite inject_Z_opp]).

Lemma floor_sub_int q (z : Z) : Qfloor (q - inject_Z z) = (Qfloor q - z)%Z.
Proof.
  apply floor_unique; destruct (floor_bounds q) as [F1 F2];
  unfold Zminus; rewrite inject_Z_plus, inject_Z_opp; lra.
Qed.

Lemma zclip_shift x z N : zclip (x - z) (- z) (N - z) = (zclip x 0 N - z)%Z.
Proof. unfold zclip. lia. Qed.

Lemma inject_pow2 n : inject_Z (pow2 n) = qpow2 n.
Proof. reflexivity. Qed.

(* MAUPITI (not last) on offset inputs X' = X - z_in, accumulators acc' = acc - z_in * sum(W):
   general relation with the unsigned MATCH form; z_out = 2^(p-1) *)
Lemma maupiti_offset_general p' scale addb sumw sh (z_in : Z) (acc : Q) :
  let p := S p' in let z := pow2 p' in
  maupiti_requant p scale addb sumw sh (acc - inject_Z z_in * inject_Z sumw)
  = (match_requant p scale addb sh (acc + inject_Z (z - z_in) * inject_Z sumw) - z)%Z.
Proof.
  cbn zeta. unfold maupiti_requant, match_requant. replace (S p' - 1)%nat with p' by lia.
  set (z := pow2 p').
  assert (E : requant_pre scale (zero_point z scale addb sumw sh) sh (acc - inject_Z z_in * inject_Z sumw)
              == requant_pre scale addb sh (acc + inject_Z (z - z_in) * inject_Z sumw) - inject_Z z).
  { unfold requant_pre, zero_point. pose proof (qpow2_pos sh) as Hp.
    unfold Zminus. rewrite !inject_Z_plus, !inject_Z_mult, !inject_Z_opp, !inject_Z_mult, !inject_Z_opp.
    rewrite inject_pow2. field. lra. }
  rewrite (Qfloor_comp _ _ E), floor_sub_int.
  rewrite pow2_S. fold z. replace (2 * z - 1)%Z with ((2 * z - 1 + z) - z)%Z at 1 by lia.
  replace (z - 1)%Z with ((2 * z - 1) - z)%Z by lia.
  rewrite zclip_shift. replace (2 * z - 1 + z - z)%Z with (2 * z - 1)%Z by lia. reflexivity.
Qed.

Lemma maupiti_offset_equiv p' scale addb sumw sh (acc : Q) :
  let p := S p' in let z := pow2 p' in
  maupiti_requant p scale addb sumw sh (acc - inject_Z z * inject_Z sumw)
  = (match_requant p scale addb sh acc - z)%Z.
Proof.
  cbn zeta. rewrite (maupiti_offset_general p' scale addb sumw sh (pow2 p') acc). cbn zeta.
  replace (pow2 p' - pow2 p')%Z with 0%Z by lia.
  assert (E : acc + inject_Z 0 * inject_Z sumw == acc) by (change (inject_Z 0) with 0; ring).
  unfold match_requant. f_equal. f_equal. apply Qfloor_comp. unfold requant_pre. rewrite E. reflexivity.
Qed.

Lemma maupiti_requant_range p' scale addb sumw sh acc :
  (- pow2 p' <= maupiti_requant (S p') scale addb sumw sh acc <= pow2 p' - 1)%Z.
Proof. unfold maupiti_requant, zclip. replace (S p' - 1)%nat with p' by lia. pose proof (pow2_pos p'). lia. Qed.

(* offset inputs: sum W (X - z) = sum W X - z sum W; a position padded with -z is an unsigned 0 *)
Lemma zdot_offset z : forall ws xs, length ws = length xs ->
  zdot ws (map (fun x => x - z)%Z xs) = (zdot ws xs - z * zsum ws)%Z.
Proof.
  induction ws as [|w ws IH]; intros [|x xs] H; cbn [zdot map zsum fold_right length] in *; try lia.
  rewrite IH by lia. fold (zsum ws). lia.
Qed.
Lemma pad_value_is_zero p' : (maupiti_pad_value (S p') + pow2 p' = 0)%Z.
Proof. unfold maupiti_pad_value. replace (S p' - 1)%nat with p' by lia. lia. Qed.

(* ---------------- last layers *)
(* MATCH: (acc + B) * (s_x*s_w) is the fake-quantized logit  s_x*s_w*acc + bq_fq *)
Lemma last_layer_match sx sw b acc :
  match_last (bq_int (sx * sw) b) acc * (sx * sw) == sx * sw * acc + bq_fq (sx * sw) b.
Proof. unfold match_last, bq_fq. ring. Qed.

Lemma last_layer_match_fq sx sw B acc : match_last B acc * (sx * sw) == fq_real sx sw B acc.
Proof. unfold match_last, fq_real. ring. Qed.

(* MAUPITI Linear: output = scale/2^shift * (acc + B) with acc the unsigned accumulator *)
Lemma last_layer_maupiti z_in scale B sumw sh (acc : Q) :
  maupiti_last z_in scale (B * scale) sumw sh (acc - inject_Z z_in * inject_Z sumw)
  == (inject_Z scale / qpow2 sh) * (acc + inject_Z B).
Proof.
  unfold maupiti_last, requant_pre, zero_point_last. pose proof (qpow2_pos sh).
  push_inj. field. lra.
Qed.

Lemma last_layer_maupiti_err z_in scale B sumw sh sx sw (acc : Q) :
  qabs (maupiti_last z_in scale (B * scale) sumw sh (acc - inject_Z z_in * inject_Z sumw) - fq_real sx sw B acc)
  == qabs (acc + inject_Z B) * qabs (inject_Z scale / qpow2 sh - sw * sx).
Proof.
  rewrite <- qabs_mul. 
  assert (E : maupiti_last z_in scale (B * scale) sumw sh (acc - inject_Z z_in * inject_Z sumw) - fq_real sx sw B acc
          == (acc + inject_Z B) * (inject_Z scale / qpow2 sh - sw * sx)).
  { rewrite last_layer_maupiti. unfold fq_real. ring. }
  destruct (qabs_cases (maupiti_last z_in scale (B * scale) sumw sh (acc - inject_Z z_in * inject_Z sumw) - fq_real sx sw B acc)) as [[? ->]|[? ->]];
  destruct (qabs_cases ((acc + inject_Z B) * (inject_Z scale / qpow2 sh - sw * sx))) as [[? ->]|[? ->]]; lra.
Qed.

(* ---------------- dilation-to-padding *)
Lemma sdot_repeat0 n x : forall off, sdot 1 (repeat 0%Z n) x off = 0%Z.
Proof. induction n as [|n IH]; intro off; cbn [repeat sdot]; [reflexivity|]. rewrite IH. lia. Qed.
Lemma sdot_app step ws1 ws2 x : forall off, sdot step (ws1 ++ ws2) x off = (sdot step ws1 x off + sdot step ws2 x (off + step * length ws1))%Z.
Proof.
  induction ws1 as [|w ws1 IH]; intro off; cbn [app sdot length].
  - rewrite Nat.mul_0_r, Nat.add_0_r. lia.
  - rewrite IH. replace (off + step + step * length ws1)%nat with (off + step * S (length ws1))%nat by lia. lia.
Qed.

Lemma dilated_kernel_equiv d ws x : (1 <= d)%nat -> forall off, sdot 1 (dilate d ws) x off = sdot d ws x off.
Proof.
  intro Hd. induction ws as [|w r IH]; intro off; [reflexivity|].
  cbn [dilate]. destruct r as [|w2 r2]; [reflexivity|].
  cbn [sdot]. f_equal. rewrite sdot_app, sdot_repeat0, repeat_length. rewrite IH.
  replace (off + 1 + 1 * (d - 1))%nat with (off + d)%nat by lia. cbn [sdot]. lia.
Qed.

Lemma dilate_length d ws : (1 <= d)%nat -> ws <> [] -> length (dilate d ws) = (length ws * d - (d - 1))%nat.
Proof.
  intros Hd. induction ws as [|w r IH]; intro Hne; [congruence|].
  cbn [dilate]. destruct r as [|w2 r2]; [cbn [length]; lia|].
  cbn [length]. rewrite app_length, repeat_length, IH by congruence. cbn [length]. nia.
Qed.

(* the upstream choice (dilation[0], kernel_size[0] whatever the axis) loses taps on axis 1 *)
Lemma dilate_v0_refuted : exists d ws x, (1 <= d)%nat /\ sdot 1 (dilate_v0 1 d ws) x 0 <> sdot d ws x 0.
Proof. exists 2%nat, [1; 1; 1]%Z, (fun _ => 1%Z). split; [lia|]. vm_compute. discriminate. Qed.
Lemma dilate_v0_axis0 d ws : dilate_v0 0 d ws = dilate d ws.
Proof. reflexivity. Qed.

(* the strict reading "scale < 2^(scale_bit-1)" does not hold: the search interval is closed *)
Lemma approx_scale_strict_refuted : exists sb sp ts bias scs sh,
  integer_approximation sb sp ts bias = Some (scs, sh) /\ In (pow2 (sb - 1)) scs.
Proof. exists 4%nat, 8%nat, [15 # 16; 1 # 3], [0; 0]%Z. eexists. eexists. split; [vm_compute; reflexivity|]. vm_compute. tauto. Qed.

Lemma last_layer_maupiti_both z_in scale B sumw sh sx sw (acc : Q) :
  maupiti_last z_in scale (B * scale) sumw sh (acc - inject_Z z_in * inject_Z sumw)
    == (inject_Z scale / qpow2 sh) * (acc + inject_Z B) /\
  qabs (maupiti_last z_in scale (B * scale) sumw sh (acc - inject_Z z_in * inject_Z sumw) - fq_real sx sw B acc)
    == qabs (acc + inject_Z B) * qabs (inject_Z scale / qpow2 sh - sw * sx).
Proof. split; [apply last_layer_maupiti | apply last_layer_maupiti_err]. Qed.

(* ---------------- repaired MAUPITI offsets (input precision / output precision), output-layer window form *)

(* repaired MAUPITI form: input offset 2^(p_in-1), output offset 2^(p_out-1), any pair of precisions *)
Lemma maupiti2_offset_equiv pi' po' scale addb sumw sh (acc : Q) :
  maupiti_requant2 (S pi') (S po') scale addb sumw sh (acc - inject_Z (pow2 pi') * inject_Z sumw)
  = (match_requant (S po') scale addb sh acc - pow2 po')%Z.
Proof.
  unfold maupiti_requant2, match_requant. replace (S pi' - 1)%nat with pi' by lia. replace (S po' - 1)%nat with po' by lia.
  set (zi := pow2 pi'). set (z := pow2 po').
  assert (E : requant_pre scale (zero_point2 zi z scale addb sumw sh) sh (acc - inject_Z zi * inject_Z sumw)
              == requant_pre scale addb sh acc - inject_Z z).
  { unfold requant_pre, zero_point2. pose proof (qpow2_pos sh) as Hp.
    push_inj. rewrite inject_pow2. field. lra. }
  rewrite (Qfloor_comp _ _ E), floor_sub_int.
  rewrite pow2_S. fold z. replace (2 * z - 1)%Z with ((2 * z - 1 + z) - z)%Z at 1 by lia.
  replace (z - 1)%Z with ((2 * z - 1) - z)%Z by lia.
  rewrite zclip_shift. replace (2 * z - 1 + z - z)%Z with (2 * z - 1)%Z by lia. reflexivity.
Qed.

Lemma maupiti2_same_precision p scale addb sumw sh acc :
  maupiti_requant2 p p scale addb sumw sh acc = maupiti_requant p scale addb sumw sh acc.
Proof. reflexivity. Qed.

Lemma maupiti_requant2_range pi po' scale addb sumw sh acc :
  (- pow2 po' <= maupiti_requant2 pi (S po') scale addb sumw sh acc <= pow2 po' - 1)%Z.
Proof. unfold maupiti_requant2, zclip. replace (S po' - 1)%nat with po' by lia. pose proof (pow2_pos po'). lia. Qed.

(* the pinned upstream form (both offsets from the output precision) is wrong for mixed precisions *)
Lemma upstream_maupiti_mixed_refuted : exists pi' po' scale addb sumw sh (acc : Q),
  maupiti_requant (S po') scale addb sumw sh (acc - inject_Z (pow2 pi') * inject_Z sumw)
  <> (match_requant (S po') scale addb sh acc - pow2 po')%Z.
Proof. exists 1%nat, 3%nat, 8988%Z, 0%Z, 40%Z, 21%nat, 500. vm_compute. discriminate. Qed.

(* output layer (Linear, or Conv2d at one output position): window of unsigned codes xs (0 at padded positions,
   stored as x - z_in, the padding value being -z_in), kernel ws *)
Lemma last_layer_maupiti_window z_in scale B sh ws xs : length ws = length xs ->
  maupiti_last z_in scale (B * scale) (zsum ws) sh (inject_Z (zdot ws (map (fun x => x - z_in)%Z xs)))
  == (inject_Z scale / qpow2 sh) * (inject_Z (zdot ws xs) + inject_Z B).
Proof.
  intro H. rewrite (zdot_offset z_in ws xs H).
  rewrite <- (last_layer_maupiti z_in scale B (zsum ws) sh (inject_Z (zdot ws xs))).
  unfold maupiti_last, requant_pre. push_inj. reflexivity.
Qed.
