(* Proofs about the PIT cost model (Model/PitCost.v)                                                (C04) *)
From Coq Require Import QArith Qround ZArith List Bool Arith Lia Lqa Setoid Morphisms.
Import ListNotations.
Require Import Plinio.Base.Qx Plinio.Base.Round Plinio.Model.Masks Plinio.Proofs.Masks Plinio.Model.PitCost.
Local Open Scope nat_scope.

(* ------------------------------------------------------------------ induction on calculators *)
Section CalcInd.
  Variable P : calc -> Prop.
  Hypothesis Hc : forall n, P (CConst n).
  Hypothesis Hm : forall i, P (CMod i).
  Hypothesis Hf : forall p m, P p -> P (CFlat p m).
  Hypothesis Hk : forall l, Forall P l -> P (CCat l).
  Fixpoint calc_ind2 (c : calc) : P c :=
    match c with
    | CConst n => Hc n
    | CMod i => Hm i
    | CFlat p m => Hf p m (calc_ind2 p)
    | CCat l => Hk l ((fix go (l : list calc) : Forall P l :=
                         match l with [] => Forall_nil P | c :: t => Forall_cons c (calc_ind2 c) (go t) end) l)
    end.
End CalcInd.

(* ------------------------------------------------------------------ counting *)
Lemma count_true_app a b : count_true (a ++ b) = count_true a + count_true b.
Proof. unfold count_true. rewrite filter_app, app_length. reflexivity. Qed.
Lemma count_true_repeat_true n : count_true (repeat true n) = n.
Proof. induction n; [reflexivity|]. unfold count_true in *. cbn. rewrite IHn. reflexivity. Qed.
Lemma count_true_repeat_false n : count_true (repeat false n) = 0.
Proof. induction n; [reflexivity|]. unfold count_true in *. cbn. exact IHn. Qed.
Lemma count_true_flat l m : count_true (flat_map (fun b => repeat b m) l) = m * count_true l.
Proof.
  induction l as [|b t IH]; cbn [flat_map].
  - unfold count_true. cbn. lia.
  - rewrite count_true_app, IH. destruct b.
    + rewrite count_true_repeat_true. unfold count_true. cbn. lia.
    + rewrite count_true_repeat_false. unfold count_true. cbn. lia.
Qed.

(* the number of features the calculator reports (all layers discrete) is the number of alive bits of its mask:
   in_channels handed to the cost function = in_features_opt = in_channels of the exported layer *)
Lemma calc_count_mask ms c : calc_count ms c = count_true (calc_mask ms c).
Proof.
  induction c as [n|i|p m IH|l IH] using calc_ind2; cbn [calc_count calc_mask].
  - symmetry. apply count_true_repeat_true.
  - reflexivity.
  - rewrite count_true_flat, IH. reflexivity.
  - induction IH as [|c t Hc Ht IHt]; [reflexivity|].
    rewrite count_true_app, <- Hc, <- IHt. reflexivity.
Qed.

(* ------------------------------------------------------------------ discrete cost = cost of the exported layers *)
Definition groups_blind (spec : cspec) : Prop :=
  forall k dw a b c g g' d e, s_fn spec k dw (mkHp a b c g d e) = s_fn spec k dw (mkHp a b c g' d e).
Definition dw_consistent (net : list layer) (ms : list lmask) : Prop :=
  Forall (fun lm => dw_consistent_b ms (fst lm) (snd lm) = true) (combine net ms).
Definition no_degenerate (net : list layer) (ms : list lmask) : Prop :=
  Forall (fun lm => degenerate_b ms (fst lm) (snd lm) = false) (combine net ms).

Lemma export_fixed ms l m : l_search l = false -> export_layer ms l m = l.
Proof. unfold export_layer. intros ->. reflexivity. Qed.

Lemma export_kind ms l m : l_kind (export_layer ms l m) = l_kind l.
Proof. unfold export_layer. destruct (l_search l); reflexivity. Qed.
Lemma export_search ms l m : l_search (export_layer ms l m) = l_search l.
Proof. unfold export_layer. destruct (l_search l) eqn:E; [reflexivity|exact E]. Qed.
Lemma export_sites ms l m : l_sites (export_layer ms l m) = l_sites l.
Proof. unfold export_layer. destruct (l_search l); reflexivity. Qed.
Lemma export_counted full ms l m : counted full (export_layer ms l m) = counted full l.
Proof. unfold counted. rewrite export_search. reflexivity. Qed.
Lemma export_sites_of spec ms l m : sites_of spec (export_layer ms l m) = sites_of spec l.
Proof. unfold sites_of. rewrite export_sites. reflexivity. Qed.

(* every hyper-parameter handed to the cost function, except `groups`, is the exported layer's *)
Lemma pit_hp_export ms l m site : l_search l = true ->
  pit_hp ms true l m site =
  let e := export_layer ms l m in mkHp (nq (l_cin e)) (nq (l_cout e)) (map nq (l_ks e)) (l_groups l) (l_bias e) site.
Proof.
  intros Hs. unfold pit_hp, export_layer. rewrite Hs. cbn [l_cin l_cout l_ks l_bias].
  rewrite calc_count_mask. destruct (l_kind l); reflexivity.
Qed.

Lemma dwc_refl n : dwc n n n = true.
Proof. unfold dwc. rewrite Nat.eqb_refl. reflexivity. Qed.

(* the constraint evaluated on the exported layer's own attributes *)
Lemma export_static_dw ms l m : l_search l = true ->
  dw_consistent_b ms l m = true -> degenerate_b ms l m = false ->
  static_dw (export_layer ms l m) = static_dw l.
Proof.
  intros Hs Hc Hd. unfold dw_consistent_b, degenerate_b in *. rewrite Hs in *. cbn [andb negb orb] in *.
  unfold export_layer. rewrite Hs. unfold static_dw at 1. cbn [l_kind l_cin l_cout l_groups].
  destruct (l_kind l) eqn:Ek; cbn [is_conv andb] in *.
  - destruct (static_dw l) eqn:Es; cbn [negb orb andb] in *.
    + apply Nat.eqb_eq in Hc. rewrite Hc. apply dwc_refl.
    + exact Hd.
  - destruct (static_dw l) eqn:Es; cbn [negb orb andb] in *.
    + apply Nat.eqb_eq in Hc. rewrite Hc. apply dwc_refl.
    + exact Hd.
  - unfold static_dw. rewrite Ek. reflexivity.
Qed.

Lemma layer_cost_export spec ms l m : groups_blind spec ->
  dw_consistent_b ms l m = true -> degenerate_b ms l m = false ->
  pit_layer_cost spec ms true l m = plain_layer_cost spec (export_layer ms l m).
Proof.
  intros Hg Hc Hd. unfold pit_layer_cost, plain_layer_cost. rewrite export_sites_of, export_kind.
  destruct (l_search l) eqn:Hs.
  - rewrite (export_static_dw ms l m Hs Hc Hd). f_equal. apply map_ext. intro site.
    rewrite (pit_hp_export ms l m site Hs). cbn zeta. unfold static_hp. apply Hg.
  - rewrite (export_fixed ms l m Hs). reflexivity.
Qed.

Theorem cost_discrete_eq_export spec net ms full :
  groups_blind spec -> dw_consistent net ms -> no_degenerate net ms ->
  pit_cost spec net ms true full = plain_cost spec full (export_net net ms).
Proof.
  intros Hg Hc Hd. unfold pit_cost, plain_cost, export_net. rewrite map_map. f_equal.
  apply map_ext_in. intros [l m] Hin. cbn [fst snd]. rewrite export_counted.
  destruct (counted full l); [|reflexivity].
  unfold dw_consistent, no_degenerate in *. rewrite Forall_forall in Hc, Hd.
  apply layer_cost_export; [exact Hg|exact (Hc _ Hin)|exact (Hd _ Hin)].
Qed.
