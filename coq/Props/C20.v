(* C20 — Precision refinement only promotes channels and never raises the cost.
   Statements only (proofs: Proofs/Reassign.v; model: Model/Reassign.v). *)
From Coq Require Import QArith ZArith List Bool Arith.
Import ListNotations.
From Coq Require Import Permutation.
Require Import Plinio.Base.Qx Plinio.Model.Reassign Plinio.Proofs.Reassign Plinio.Proofs.ReassignGen.
Local Open Scope nat_scope.

(* The two searches of optimize_prec_assignment, for EVERY cost function of the per-precision channel
   counts, every number of precisions, every initial count vector and every set of skipped (0-bit)
   precisions: the configuration they keep never costs more than the initial one ... *)
Theorem C20_refine_cost_le : forall (cost : vec -> Q) (skip : nat -> bool) (init : vec),
  (cost (refine cost skip init) <= cost init)%Q.
Proof. exact refine_cost_le. Qed.

(* ... and is reached from it by moving channels to higher precisions only, *)
Theorem C20_refine_up : forall (cost : vec -> Q) (skip : nat -> bool) (init : vec),
  up init (refine cost skip init).
Proof. exact refine_up. Qed.

(* which preserves the number of channels and never lowers, for any threshold k, the number of
   channels whose precision index is at least k. *)
Theorem C20_up_total : forall v w, up v w -> total_of w = total_of v.
Proof. exact up_total. Qed.
Theorem C20_up_upper : forall v w, up v w -> forall k, upper k v <= upper k w.
Proof. exact up_upper. Qed.

(* The reassignment step assigns every channel exactly one precision and meets every count, for EVERY
   number of precisions P and channels C, every current assignment in range, every tuple of rankings
   (each a permutation of the channels) and every target vector that sums to the number of channels. *)
Theorem C20_reassign_total : forall (P C : nat) (cur : list nat) (orders : list (list nat)) (best : list nat),
  length cur = C -> Forall (fun p => p < P) cur ->
  length orders = P -> Forall (fun o => Permutation o (seq 0 C)) orders ->
  length best = P -> fold_right Nat.add 0 best = C ->
  reassign_ok (reassign_abs cur orders best) best = true.
Proof. exact reassign_total. Qed.

(* the same for the concrete entry point: any P x C score matrix (arg-max per channel, arg-sort per precision) *)
Theorem C20_reassign_matrix_total : forall (P C : nat) (scores : list (list Q)) (best : list nat),
  length scores = P -> 1 <= P -> Forall (fun row => length row = C) scores ->
  length best = P -> fold_right Nat.add 0 best = C ->
  reassign_ok (reassign scores best) best = true.
Proof. exact reassign_matrix_total. Qed.

(* the algorithm of the pinned upstream commit (reassign_v0) misses counts *)
Theorem C20_upstream_reassign_refuted : exists scores best,
  fold_right Nat.add 0 best = ncols scores /\ reassign_ok (reassign_v0 scores best) best = false.
Proof. exact reassign_v0_refuted. Qed.

Example C20_example :
  run_reassign [[5; 1; 9; 4]; [2; 8; 3; 7]; [0; 6; 10; 11]]%Q [2; 1; 1] = [0; 1; 0; 2]%Z /\
  existsb (fun l => if list_eq_dec Nat.eq_dec l [2; 1; 1] then true else false) (compositions 3 4) = true /\
  run_refine [([2;1], 10%Q); ([1;2], 7%Q); ([0;3], 9%Q)] [] [2;1] = [1;2].
Proof. vm_compute. repeat split. Qed.

Print Assumptions C20_refine_cost_le.
Print Assumptions C20_refine_up.
Print Assumptions C20_up_total.
Print Assumptions C20_up_upper.
Print Assumptions C20_reassign_total.
Print Assumptions C20_reassign_matrix_total.
Print Assumptions C20_upstream_reassign_refuted.
