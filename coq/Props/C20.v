(* C20 — Precision refinement only promotes channels and never raises the cost.
   Statements only (proofs: Proofs/Reassign.v; model: Model/Reassign.v). *)
From Coq Require Import QArith ZArith List Bool Arith.
Import ListNotations.
From Coq Require Import Permutation.
Require Import Plinio.Base.Qx Plinio.Model.Reassign Plinio.Proofs.Reassign Plinio.Proofs.ReassignGen Plinio.Proofs.ReassignPromote.
Require Import Plinio.Gen.RefineGen Plinio.Proofs.RefineGen.
Local Open Scope nat_scope.

(* The two searches of optimize_prec_assignment, for EVERY cost function of the per-precision channel
   counts, every number of precisions, every initial count vector and every set of skipped (0-bit)
   precisions: the configuration they keep never costs more than the initial one ... *)
Theorem C20_refine_cost_le : forall (cost : vec -> Q) (skip : nat -> bool) (init : vec),
  (cost (refine cost skip init) <= cost init)%Q.
Proof. exact refine_cost_le. Qed.

(* ... and is reached from it by moving channels to higher precisions only, *)
Theorem C20_refine_up : forall (cost : vec -> Q) (skip : nat -> bool) (init : vec),
  up init (refine cost skip init).
Proof. exact refine_up. Qed.

(* which preserves the number of channels and never lowers, for any threshold k, the number of
   channels whose precision index is at least k. *)
Theorem C20_up_total : forall v w, up v w -> total_of w = total_of v.
Proof. exact up_total. Qed.
Theorem C20_up_upper : forall v w, up v w -> forall k, upper k v <= upper k w.
Proof. exact up_upper. Qed.

(* The reassignment step assigns every channel exactly one precision and meets every count, for EVERY
   number of precisions P and channels C, every current assignment in range, every tuple of rankings
   (each a permutation of the channels) and every target vector that sums to the number of channels. *)
Theorem C20_reassign_total : forall (P C : nat) (cur : list nat) (orders : list (list nat)) (best : list nat),
  length cur = C -> Forall (fun p => p < P) cur ->
  length orders = P -> Forall (fun o => Permutation o (seq 0 C)) orders ->
  length best = P -> fold_right Nat.add 0 best = C ->
  reassign_ok (reassign_abs cur orders best) best = true.
Proof. exact reassign_total. Qed.

(* the same for the concrete entry point: any P x C score matrix (arg-max per channel, arg-sort per precision) *)
Theorem C20_reassign_matrix_total : forall (P C : nat) (scores : list (list Q)) (best : list nat),
  length scores = P -> 1 <= P -> Forall (fun row => length row = C) scores ->
  length best = P -> fold_right Nat.add 0 best = C ->
  reassign_ok (reassign scores best) best = true.
Proof. exact reassign_matrix_total. Qed.

(* ---- channel level: search, then reassignment ---- *)
(* The count vector the searches keep has every precision that gains channels ABOVE every precision
   that loses channels (the 0-bit precision, the lowest, is the only one never drained). *)
Theorem C20_refine_separates : forall (cost : vec -> Q) (init : vec) (skip : nat -> bool),
  (forall i, skip i = true -> i = 0) -> sep init (refine cost skip init).
Proof. exact refine_sep. Qed.

(* Given targets with that shape (rank = bit-width of a precision index, any order of the precisions),
   the two passes leave a channel where it was or move it to a precision of strictly higher rank. *)
Theorem C20_reassign_promotes : forall (P C : nat) (cur : list nat) (orders : list (list nat)) (best : list nat) (rank : nat -> nat),
  length cur = C -> Forall (fun p => p < P) cur ->
  length orders = P -> Forall (fun o => Permutation o (seq 0 C)) orders -> length best = P ->
  (forall p q, p < P -> q < P -> cc cur p < nth p best 0 -> nth q best 0 < cc cur q -> rank q < rank p) ->
  forall c x, c < C -> get (reassign_abs cur orders best) c = Some x ->
  x = nth c cur 0 \/ rank (nth c cur 0) < rank x.
Proof. exact reassign_promotes. Qed.

(* Composition, the quantizer listing its precisions in ANY order (own_of = sorted_indexes,
   pos_of = inverse_indexes): no channel of the refined layer ends at a lower precision. *)
Theorem C20_no_channel_demoted_any_order : forall (cost : vec -> Q) (skip : nat -> bool),
  (forall i, skip i = true -> i = 0) ->
  forall (P C : nat) (cur : list nat) (orders : list (list nat)),
  length cur = C -> Forall (fun p => p < P) cur ->
  length orders = P -> Forall (fun o => Permutation o (seq 0 C)) orders ->
  forall own_of pos_of : nat -> nat, (forall p, p < P -> pos_of p < P /\ own_of (pos_of p) = p) ->
  forall c x, c < C ->
  get (reassign_abs cur orders (best_own cost skip P cur own_of pos_of)) c = Some x ->
  x = nth c cur 0 \/ pos_of (nth c cur 0) < pos_of x.
Proof. exact refine_reassign_promotes. Qed.

(* The documented use (precisions in increasing order): for every cost function, every ranking of the
   channels, every number of precisions and channels, the refined layer has no channel below its
   previous precision, every channel has exactly one precision, and every count the search chose is met. *)
Theorem C20_no_channel_demoted : forall (cost : vec -> Q) (skip : nat -> bool),
  (forall i, skip i = true -> i = 0) ->
  forall (P C : nat) (cur : list nat) (orders : list (list nat)),
  length cur = C -> Forall (fun p => p < P) cur ->
  length orders = P -> Forall (fun o => Permutation o (seq 0 C)) orders ->
  forall c x, c < C -> get (reassign_abs cur orders (refined cost skip P cur)) c = Some x -> nth c cur 0 <= x.
Proof. exact refined_no_channel_demoted. Qed.

Theorem C20_refined_counts_met : forall (cost : vec -> Q) (skip : nat -> bool) (P C : nat) (cur : list nat) (orders : list (list nat)),
  length cur = C -> Forall (fun p => p < P) cur ->
  length orders = P -> Forall (fun o => Permutation o (seq 0 C)) orders ->
  reassign_ok (reassign_abs cur orders (refined cost skip P cur)) (refined cost skip P cur) = true.
Proof. exact refined_counts_met. Qed.

(* the shape of the targets matters: with a deficit BELOW a surplus the same two passes demote a channel
   (channel 3 goes from precision 2 to precision 1), so C20_refine_separates is what the claim rests on *)
Example C20_reassign_demotes_without_separation :
  map (get (reassign_abs [0; 0; 2; 2] [[0;1;2;3]; [3;2;1;0]; [2;3;0;1]; [0;1;2;3]] [1; 1; 1; 1])) [0; 1; 2; 3]
  = [Some 0; Some 3; Some 2; Some 1].
Proof. vm_compute. reflexivity. Qed.

(* the algorithm of the pinned upstream commit (reassign_v0) misses counts *)
Theorem C20_upstream_reassign_refuted : exists scores best,
  fold_right Nat.add 0 best = ncols scores /\ reassign_ok (reassign_v0 scores best) best = false.
Proof. exact reassign_v0_refuted. Qed.

Example C20_example :
  run_reassign [[5; 1; 9; 4]; [2; 8; 3; 7]; [0; 6; 10; 11]]%Q [2; 1; 1] = [0; 1; 0; 2]%Z /\
  existsb (fun l => if list_eq_dec Nat.eq_dec l [2; 1; 1] then true else false) (compositions 3 4) = true /\
  run_refine [([2;1], 10%Q); ([1;2], 7%Q); ([0;3], 9%Q)] [] [2;1] = [1;2].
Proof. vm_compute. repeat split. Qed.

(* ================================================================================================================
   Second tie, by translation.  Gen/RefineGen.v is written by translator/refine2coq.py from the SOURCE of
   plinio/methods/mps/utils.py of the tree under test on every run (the per-layer block of optimize_prec_assignment and
   _reassign_precisions, statement by statement); Proofs/RefineGen.v proves the generated functions equal to the model
   above, so the sentences of the property hold for what the code says now.  Reading conventions: translator docstring. *)

(* ---- _reassign_precisions: the two loop bodies, new_assignment after the two loops, the matrix returned *)
Theorem C20_generated_pass1_step : forall (cur : list nat) (orders : list (list nat)) (best : list nat) (a : assignment) (p : nat),
  Permutation (nth p orders []) (seq 0 (length cur)) ->
  pass1_step_gen cur orders best a p = pass1_step cur a p (nth p orders []) (nth p best 0).
Proof. exact pass1_step_gen_eq. Qed.

Theorem C20_generated_pass2_step : forall (cur : list nat) (orders : list (list nat)) (best : list nat) (a : assignment) (p : nat),
  Forall (fun c => c < length a) (nth p orders []) ->
  pass2_step_gen cur orders best a p = pass2_step a p (nth p orders []) (nth p best 0).
Proof. exact pass2_step_gen_eq. Qed.

Theorem C20_generated_reassign_abs : forall (cur : list nat) (orders : list (list nat)) (best : list nat),
  length best = length orders -> Forall (fun o => Permutation o (seq 0 (length cur))) orders ->
  reassign_abs_gen cur orders best = reassign_abs cur orders best.
Proof. exact reassign_abs_gen_eq. Qed.

(* row p, column c of the returned matrix is 1 exactly when channel c was given precision p *)
Theorem C20_generated_matrix : forall (cur : list nat) (orders : list (list nat)) (best : list nat) (p c : nat),
  p < length orders -> c < length cur ->
  nth c (nth p (reassign_matrix_gen cur orders best) []) false = is_prec p (get (reassign_abs_gen cur orders best) c).
Proof. exact reassign_matrix_gen_spec. Qed.

(* ---- the two searches, for EVERY cost function `cost_own` of the count vector in the quantizer's own order, every
   precision tuple and every start vector.  The loop state of the code is (best_cost, best configuration, configuration
   being drained); `sinv`: best_cost is the cost of the best configuration.  gcost = cost_own o _unsorted,
   gskip i = (sorted_precisions[i] == 0), ginit = the comprehension over sorted_indexes *)
Theorem C20_generated_search1 : forall (cost_own : list nat -> Q) (prec w : list nat) (base : Q) (s : st),
  sinv cost_own prec s ->
  sinv cost_own prec (search1_gen cost_own prec w base s) /\
  best_of (search1_gen cost_own prec w base s) = search1 (gcost cost_own prec) (gskip prec) (ginit prec w) (best_of s).
Proof. exact search1_gen_eq. Qed.

Theorem C20_generated_search2 : forall (cost_own : list nat -> Q) (prec w : list nat) (base : Q) (s : st),
  sinv cost_own prec s -> tmp_of s = ginit prec w ->
  sinv cost_own prec (search2_gen cost_own prec w base s) /\
  best_of (search2_gen cost_own prec w base s) = search2 (gcost cost_own prec) (gskip prec) (ginit prec w) (best_of s).
Proof. exact search2_gen_eq. Qed.

(* the block up to the end of the second search (None = the assert on the cost of the unchanged layer fails) *)
Theorem C20_generated_refine : forall (cost_own : list nat -> Q) (prec w : list nat) (base : Q),
  length w = length prec ->
  refine_gen cost_own prec w base =
  if Qeq_bool (cost_own w) base then Some (refine (gcost cost_own prec) (gskip prec) (ginit prec w)) else None.
Proof. exact refine_gen_is_refine. Qed.

(* the `while` loops are read as recursion with fuel = the count being drained: the fuel suffices, the loop condition
   is false when the recursion stops *)
Theorem C20_generated_while1_exits : forall (cost_own : list nat -> Q) (prec w : list nat) (base : Q) (i j : nat) (s : st),
  i <> j -> j < length (ginit prec w) -> sinv cost_own prec s ->
  search1_while_cond_gen cost_own prec w base i j
    (while_fuel (search1_while_cond_gen cost_own prec w base i j) (search1_while_gen cost_own prec w base i j)
       (nth i (ginit prec w) 0) (fst s, ginit prec w)) = false.
Proof. exact search1_while_exits. Qed.

Theorem C20_generated_while2_exits : forall (cost_own : list nat -> Q) (prec w : list nat) (base : Q) (i j : nat) (s : st),
  i <> j -> j < length (tmp_of s) -> sinv cost_own prec s ->
  search2_while_cond_gen cost_own prec w base i j
    (while_fuel (search2_while_cond_gen cost_own prec w base i j) (search2_while_gen cost_own prec w base i j)
       (nth i (tmp_of s) 0) s) = false.
Proof. exact search2_while_exits. Qed.

(* ---- the permutation bookkeeping: inverse_indexes is the inverse of sorted_indexes, _unsorted is `unsort`, the
   comprehension over sorted_indexes is `init_sorted` *)
Theorem C20_generated_inverse_indexes : forall (prec : list nat) (p : nat), p < length prec ->
  pos_of_gen prec p < length prec /\ own_of_gen prec (pos_of_gen prec p) = p.
Proof. exact inverse_indexes_inverse. Qed.

Theorem C20_generated_unsorted : forall (prec : list nat) (v : vec), unsorted_gen prec v = unsort (pos_of_gen prec) (length prec) v.
Proof. exact unsorted_gen_eq. Qed.

Theorem C20_generated_sorted_init : forall prec cur : list nat,
  ginit prec (own_counts (length prec) cur) = init_sorted cur (length prec) (own_of_gen prec).
Proof. exact ginit_eq. Qed.

(* ---- the whole per-layer block is the composition the theorems above are about *)
Theorem C20_generated_layer : forall (cost_own : list nat -> Q) (prec : list nat) (base : Q) (cur : list nat) (orders : list (list nat)),
  length orders = length prec -> Forall (fun o => Permutation o (seq 0 (length cur))) orders ->
  layer_run_gen cost_own prec base cur orders =
  if Qeq_bool (cost_own (own_counts (length prec) cur)) base
  then Some (reassign_abs cur orders (best_own (gcost cost_own prec) (gskip prec) (length prec) cur (own_of_gen prec) (pos_of_gen prec)))
  else None.
Proof. exact layer_run_gen_eq. Qed.

(* ---- the sentences of the property, about the generated functions *)
(* cost not higher: what _compute_cost gives for the configuration the block keeps is at most base_cost *)
Theorem C20_generated_cost_not_higher : forall (cost_own : list nat -> Q) (prec w : list nat) (base : Q),
  length w = length prec -> forall r : vec, refine_gen cost_own prec w base = Some r ->
  (cost_own (unsorted_gen prec r) <= base)%Q.
Proof. exact gen_cost_not_higher. Qed.

(* only upward moves (hence, C20_up_total / C20_up_upper: same number of channels, no upper tail shrinks) *)
Theorem C20_generated_only_upward : forall (cost_own : list nat -> Q) (prec w : list nat) (base : Q),
  length w = length prec -> forall r : vec, refine_gen cost_own prec w base = Some r -> up (ginit prec w) r.
Proof. exact gen_only_upward. Qed.

(* separation: every precision that gains channels lies above every precision that loses channels *)
Theorem C20_generated_separates : forall (cost_own : list nat -> Q) (prec w : list nat) (base : Q),
  length w = length prec -> forall r : vec, NoDup prec -> refine_gen cost_own prec w base = Some r -> sep (ginit prec w) r.
Proof. exact gen_separates. Qed.

(* counts met: every channel has exactly one precision and every precision the number of channels the search kept *)
Theorem C20_generated_counts_met : forall (cost_own : list nat -> Q) (prec : list nat) (base : Q) (cur : list nat) (orders : list (list nat)),
  length orders = length prec -> Forall (fun o => Permutation o (seq 0 (length cur))) orders ->
  Forall (fun p => p < length prec) cur ->
  forall (a : assignment) (r : vec),
  layer_run_gen cost_own prec base cur orders = Some a ->
  refine_gen cost_own prec (own_counts (length prec) cur) base = Some r ->
  reassign_ok a (unsorted_gen prec r) = true.
Proof. exact gen_counts_met. Qed.

(* no channel demoted: a channel keeps its precision or gets one of strictly higher BIT-WIDTH, in whatever order the
   quantizer lists its (pairwise different) precisions *)
Theorem C20_generated_no_channel_demoted : forall (cost_own : list nat -> Q) (prec : list nat) (base : Q) (cur : list nat) (orders : list (list nat)),
  length orders = length prec -> Forall (fun o => Permutation o (seq 0 (length cur))) orders ->
  Forall (fun p => p < length prec) cur ->
  forall a : assignment, NoDup prec ->
  layer_run_gen cost_own prec base cur orders = Some a ->
  forall c x, c < length cur -> get a c = Some x -> x = nth c cur 0 \/ nth (nth c cur 0) prec 0 < nth x prec 0.
Proof. exact gen_no_channel_demoted. Qed.


Print Assumptions C20_refine_cost_le.
Print Assumptions C20_refine_up.
Print Assumptions C20_up_total.
Print Assumptions C20_up_upper.
Print Assumptions C20_reassign_total.
Print Assumptions C20_reassign_matrix_total.
Print Assumptions C20_upstream_reassign_refuted.
Print Assumptions C20_refine_separates.
Print Assumptions C20_reassign_promotes.
Print Assumptions C20_no_channel_demoted_any_order.
Print Assumptions C20_no_channel_demoted.
Print Assumptions C20_refined_counts_met.
Print Assumptions C20_generated_pass1_step.
Print Assumptions C20_generated_pass2_step.
Print Assumptions C20_generated_reassign_abs.
Print Assumptions C20_generated_matrix.
Print Assumptions C20_generated_search1.
Print Assumptions C20_generated_search2.
Print Assumptions C20_generated_refine.
Print Assumptions C20_generated_while1_exits.
Print Assumptions C20_generated_while2_exits.
Print Assumptions C20_generated_inverse_indexes.
Print Assumptions C20_generated_unsorted.
Print Assumptions C20_generated_sorted_init.
Print Assumptions C20_generated_layer.
Print Assumptions C20_generated_cost_not_higher.
Print Assumptions C20_generated_only_upward.
Print Assumptions C20_generated_separates.
Print Assumptions C20_generated_counts_met.
Print Assumptions C20_generated_no_channel_demoted.
