(* C20: channel-level promotion.  The count vector kept by the two searches of
   optimize_prec_assignment has every deficit (a precision that must gain channels) ABOVE every
   surplus (a precision that must lose channels); given such targets the two-pass reassignment
   moves a channel only to a precision of higher rank.  Composition: no channel of the refined
   layer has a lower precision than before, for every cost function, every score matrix ranking,
   every number of precisions and channels. *)
From Coq Require Import QArith ZArith List Bool Arith Lia Permutation.
Import ListNotations.
Require Import Plinio.Base.Qx Plinio.Model.Reassign Plinio.Proofs.Reassign Plinio.Proofs.ReassignGen.
Local Open Scope nat_scope.

(* ------------------------------------------------------------------ part B: the searches *)
(* every precision that gains channels lies above every precision that loses channels *)
Definition sep (init best : vec) : Prop :=
  forall p q, nth p init 0 < nth p best 0 -> nth q best 0 < nth q init 0 -> q < p.

Lemma sep_refl init : sep init init.
Proof. intros p q H. lia. Qed.

Lemma nth_move_i i j v : i <> j -> i < length v -> j < length v -> nth i (move i j v) 0 = pred (nth i v 0).
Proof.
  intros Hij Hi Hj. unfold move. rewrite nth_set_nth_other by (intro; subst; lia).
  apply nth_set_nth_same. exact Hi.
Qed.
Lemma nth_move_j i j v : i <> j -> i < length v -> j < length v -> nth j (move i j v) 0 = S (nth j v 0).
Proof.
  intros Hij Hi Hj. unfold move. rewrite nth_set_nth_same by (rewrite length_set_nth; exact Hj).
  reflexivity.
Qed.
Lemma nth_move_other i j k v : k <> i -> k <> j -> nth k (move i j v) 0 = nth k v 0.
Proof.
  intros Hi Hj. unfold move. rewrite nth_set_nth_other by (intro; subst; lia).
  apply nth_set_nth_other. intro; subst; lia.
Qed.

Section SearchSep.
Variable cost : vec -> Q.
Variable init : vec.

(* the shape of every configuration visited while precision i is being drained *)
Definition mid (i : nat) (v : vec) : Prop :=
  (forall p, p < i -> nth p v 0 <= nth p init 0) /\ (forall q, i < q -> nth q init 0 <= nth q v 0).

Lemma mid_sep i v : mid i v -> sep init v.
Proof.
  intros [Hlo Hhi] p q Hp Hq.
  destruct (Nat.lt_ge_cases p i) as [K|K]; [specialize (Hlo p K); lia|].
  destruct (Nat.lt_ge_cases i q) as [L|L]; [specialize (Hhi q L); lia|].
  destruct (Nat.eq_dec p q) as [E|E]; [subst; lia|lia].
Qed.

Lemma mid_move i j v : i < j -> j < length v -> mid i v -> mid i (move i j v).
Proof.
  intros Hij Hj [Hlo Hhi]. split.
  - intros p Hp. rewrite nth_move_other by lia. apply Hlo. exact Hp.
  - intros q Hq. destruct (Nat.eq_dec q j) as [E|E].
    + subst q. rewrite nth_move_j by lia. specialize (Hhi j Hq). lia.
    + rewrite nth_move_other by lia. apply Hhi. exact Hq.
Qed.

Lemma drain_sep : forall fuel i j tmp best, i < j -> j < length tmp -> mid i tmp -> sep init best ->
  let r := drain cost fuel i j tmp best in
  length (fst r) = length tmp /\ mid i (fst r) /\ sep init (snd r) /\
  nth i (fst r) 0 <= nth i tmp 0 /\ (nth i tmp 0 <= fuel -> nth i (fst r) 0 = 0).
Proof.
  induction fuel as [|f IH]; intros i j tmp best Hij Hj Hm Hb; cbn [drain]; cbn zeta.
  - cbn [fst snd]. repeat split; try assumption; try apply Hm; lia.
  - destruct (Nat.ltb 0 (nth i tmp 0)) eqn:E.
    + apply Nat.ltb_lt in E.
      assert (Hm' : mid i (move i j tmp)) by (apply mid_move; assumption).
      assert (Hl' : length (move i j tmp) = length tmp) by apply move_length.
      assert (Hb' : sep init (if qlt_bool (cost (move i j tmp)) (cost best) then move i j tmp else best)).
      { destruct (qlt_bool _ _); [apply (mid_sep i); exact Hm'|exact Hb]. }
      pose proof (IH i j (move i j tmp) _ Hij ltac:(rewrite Hl'; exact Hj) Hm' Hb') as H.
      cbn zeta in H. destruct H as (H1 & H2 & H3 & H4 & H5).
      rewrite nth_move_i in H4, H5 by lia.
      split; [rewrite H1; exact Hl'|]. split; [exact H2|]. split; [exact H3|]. split; [lia|].
      intro Hf. apply H5. lia.
    + apply Nat.ltb_ge in E. cbn [fst snd]. repeat split; try assumption; try apply Hm; lia.
Qed.

(* Case 1 *)
Lemma search1_sep : forall skip best, sep init best -> sep init (search1 cost skip init best).
Proof.
  intros skip. unfold search1.
  assert (Hall : forall ij, In ij (pairs (length init) skip) -> fst ij < snd ij /\ snd ij < length init)
    by (intros; eapply pairs_lt; eassumption).
  revert Hall. generalize (pairs (length init) skip) as ps.
  induction ps as [|ij ps IH]; intros Hall best Hb; cbn [fold_left]; [exact Hb|].
  apply IH; [intros; apply Hall; right; assumption|].
  destruct (Hall ij (or_introl eq_refl)) as [H1 H2].
  assert (Hmid : mid (fst ij) init) by (split; intros; apply Nat.le_refl).
  apply (drain_sep (nth (fst ij) init 0) (fst ij) (snd ij) init best H1 H2 Hmid Hb).
Qed.

(* Case 2: one row of pairs (i, j), j in js *)
Definition row (i : nat) (js : list nat) (tb : vec * vec) : vec * vec :=
  fold_left (step2 cost) (map (fun j => (i, j)) js) tb.

Lemma row_sep : forall js i tmp best, (forall j, In j js -> i < j /\ j < length tmp) -> mid i tmp -> sep init best ->
  let r := row i js (tmp, best) in
  length (fst r) = length tmp /\ mid i (fst r) /\ sep init (snd r) /\
  (js <> [] -> nth i (fst r) 0 = 0) /\ (js = [] -> fst r = tmp).
Proof.
  induction js as [|j js IH]; intros i tmp best Hall Hm Hb; unfold row; cbn [map fold_left]; cbn zeta.
  - cbn [fst snd]. repeat split; try assumption; try apply Hm; congruence.
  - destruct (Hall j (or_introl eq_refl)) as [Hij Hj].
    pose proof (drain_sep (nth i tmp 0) i j tmp best Hij Hj Hm Hb) as H. cbn zeta in H.
    change (step2 cost (tmp, best) (i, j)) with (drain cost (nth i tmp 0) i j tmp best).
    destruct (drain cost (nth i tmp 0) i j tmp best) as [tmp' best'] eqn:E. cbn [fst snd] in H.
    destruct H as (H1 & H2 & H3 & H4 & H5).
    assert (Hall' : forall j0, In j0 js -> i < j0 /\ j0 < length tmp').
    { intros j0 Hj0. rewrite H1. apply Hall. right. exact Hj0. }
    pose proof (IH i tmp' best' Hall' H2 H3) as K. cbn zeta in K. unfold row in K.
    destruct K as (K1 & K2 & K3 & K4 & K5).
    split; [exact (eq_trans K1 H1)|]. split; [exact K2|]. split; [exact K3|]. split; [|discriminate].
    intros _. destruct js as [|j' js'].
    + pose proof (K5 eq_refl) as K6. cbn [map fold_left fst] in *. apply H5. apply Nat.le_refl.
    + apply K4. discriminate.
Qed.

Lemma fold_flat_map {A B S} (f : S -> B -> S) (g : A -> list B) (l : list A) (s : S) :
  fold_left f (flat_map g l) s = fold_left (fun s x => fold_left f (g x) s) l s.
Proof.
  revert s. induction l as [|x l IH]; intro s; [reflexivity|].
  cbn [flat_map fold_left]. rewrite fold_left_app. apply IH.
Qed.

Variable skip : nat -> bool.
Hypothesis Hskip : forall i, skip i = true -> i = 0.

Definition rowof (n : nat) (tb : vec * vec) (i : nat) : vec * vec :=
  fold_left (step2 cost) (if skip i then [] else map (fun j => (i, j)) (seq (S i) (n - S i))) tb.

Lemma rows_sep : forall len s tmp best, s + len = length init -> length tmp = length init ->
  mid s tmp -> (s = 0 -> tmp = init) -> sep init best ->
  sep init (snd (fold_left (rowof (length init)) (seq s len) (tmp, best))).
Proof.
  induction len as [|len IH]; intros s tmp best Hs Hl Hm H0 Hb; cbn [seq fold_left]; [exact Hb|].
  unfold rowof at 2. destruct (skip s) eqn:Esk.
  - cbn [fold_left]. apply Hskip in Esk. subst s. specialize (H0 eq_refl). subst tmp.
    destruct len as [|len']; [exact Hb|].
    apply IH; [lia|reflexivity| |intro; discriminate|exact Hb].
    split; intros; apply Nat.le_refl.
  - assert (Hall : forall j, In j (seq (S s) (length init - S s)) -> s < j /\ j < length tmp).
    { intros j Hj. apply in_seq in Hj. lia. }
    pose proof (row_sep (seq (S s) (length init - S s)) s tmp best Hall Hm Hb) as H. cbn zeta in H.
    unfold row in H.
    destruct (fold_left (step2 cost) (map (fun j => (s, j)) (seq (S s) (length init - S s))) (tmp, best)) as [tmp' best'].
    cbn [fst snd] in H. destruct H as (H1 & H2 & H3 & H4 & _).
    destruct len as [|len']; [exact H3|].
    apply IH; [lia|lia| |intro; lia|exact H3].
    assert (Hz : nth s tmp' 0 = 0).
    { apply H4. replace (length init - S s) with (S len') by lia. discriminate. }
    destruct H2 as [Hlo Hhi]. split.
    + intros p Hp. destruct (Nat.eq_dec p s) as [E|E]; [subst p; lia|apply Hlo; lia].
    + intros q Hq. apply Hhi. lia.
Qed.

Lemma search2_sep : forall best, sep init best -> sep init (search2 cost skip init best).
Proof.
  intros best Hb. unfold search2, pairs.
  change (fun tb ij => drain cost (nth (fst ij) (fst tb) 0) (fst ij) (snd ij) (fst tb) (snd tb)) with (step2 cost).
  rewrite fold_flat_map.
  apply (rows_sep (length init) 0 init best); [reflexivity|reflexivity| |reflexivity|exact Hb].
  split; intros; apply Nat.le_refl.
Qed.

Theorem refine_sep : sep init (refine cost skip init).
Proof. unfold refine. apply search2_sep, search1_sep, sep_refl. Qed.
End SearchSep.

(* ------------------------------------------------------------------ part A: the reassignment *)
Lemma NoDup_app_disjoint {A} (l1 l2 : list A) x : NoDup (l1 ++ l2) -> In x l1 -> ~ In x l2.
Proof.
  induction l1 as [|y l1 IH]; intros Hnd H1 H2; [destruct H1|].
  cbn [app] in Hnd. inversion Hnd as [|y' l' Hnin Hnd']; subst.
  destruct H1 as [E|H1].
  - subst y. apply Hnin. apply in_or_app. right. exact H2.
  - exact (IH Hnd' H1 H2).
Qed.

Lemma skipn_In {A} k (l : list A) x : In x (skipn k l) -> In x l.
Proof. intro H. rewrite <- (firstn_skipn k l). apply in_or_app. right. exact H. Qed.

Section Promote.
Variables (P C : nat) (cur : list nat) (orders : list (list nat)) (best : list nat).
Variable rank : nat -> nat.
Hypothesis Hcur : length cur = C.
Hypothesis Hcur_lt : Forall (fun p => p < P) cur.
Hypothesis Hord : length orders = P.
Hypothesis Hperm : Forall (fun o => Permutation o (seq 0 C)) orders.
Hypothesis Hbest : length best = P.

(* number of channels currently at precision p *)
Local Notation cc := (Reassign.cc cur).
(* every precision that must gain channels has a higher rank than every one that must lose channels *)
Hypothesis Hsep : forall p q, p < P -> q < P -> cc p < nth p best 0 -> nth q best 0 < cc q -> rank q < rank p.

Definition Mp (p : nat) : list nat := filter (fun c => Nat.eqb (nth c cur 0) p) (nth p orders []).

Lemma ord_perm p : p < P -> Permutation (nth p orders []) (seq 0 C).
Proof. intro Hp. rewrite Forall_forall in Hperm. apply Hperm. apply nth_In. lia. Qed.

Lemma get_cur c : c < C -> get (map Some cur) c = Some (nth c cur 0).
Proof.
  intro Hc. unfold get. rewrite (nth_indep _ None (Some 0)) by (rewrite map_length; lia).
  apply (map_nth Some cur 0 c).
Qed.

Lemma Mp_len p : p < P -> length (Mp p) = cc p.
Proof.
  intro Hp. unfold cc, Mp. rewrite count_cnt.
  rewrite (cnt_perm (is_prec p) (map Some cur) (nth p orders [])) by (rewrite map_length, Hcur; apply ord_perm; exact Hp).
  f_equal. apply filter_ext_in. intros c Hc.
  assert (Hcc : c < C). { apply (Permutation_in _ (ord_perm p Hp)) in Hc. apply in_seq in Hc. lia. }
  rewrite get_cur by exact Hcc. cbn [is_prec]. apply Nat.eqb_sym.
Qed.

Lemma Mp_nodup p : p < P -> NoDup (Mp p).
Proof.
  intro Hp. apply NoDup_filter. apply (Permutation_NoDup (Permutation_sym (ord_perm p Hp))). apply seq_NoDup.
Qed.

Lemma Mp_in p c : p < P -> In c (Mp p) -> c < C /\ nth c cur 0 = p.
Proof.
  intros Hp H. apply filter_In in H as [H1 H2]. apply Nat.eqb_eq in H2. split; [|exact H2].
  apply (Permutation_in _ (ord_perm p Hp)) in H1. apply in_seq in H1. lia.
Qed.

(* excess channels of the precision of channel c *)
Definition excess (c : nat) : Prop := In c (skipn (nth (nth c cur 0) best 0) (Mp (nth c cur 0))).

(* ---- pass 1: pointwise *)
Definition pinv1 (p : nat) (a : assignment) : Prop :=
  length a = C /\
  forall c, c < C ->
    (get a c = Some (nth c cur 0) /\ (nth c cur 0 < p -> ~ excess c)) \/
    (get a c = None /\ nth c cur 0 < p /\ excess c).

Lemma pinv1_init : pinv1 0 (map Some cur).
Proof.
  split; [rewrite map_length; exact Hcur|]. intros c Hc. left. split; [apply get_cur; exact Hc|lia].
Qed.

Lemma pinv1_step p a : p < P -> pinv1 p a -> pinv1 (S p) (pass1_step cur a p (nth p orders []) (nth p best 0)).
Proof.
  intros Hp [Hl Hg]. unfold pass1_step. fold (Mp p). set (t := nth p best 0).
  split; [rewrite length_set_all; exact Hl|].
  intros c Hc. destruct (in_dec Nat.eq_dec c (skipn t (Mp p))) as [Hin|Hnin].
  - right. destruct (Mp_in p c Hp (skipn_In _ _ _ Hin)) as [_ Ecur].
    split; [apply get_set_all_in; [left; exact Hin|lia]|]. split; [lia|].
    unfold excess. rewrite Ecur. exact Hin.
  - rewrite (get_set_all_notin _ None a c Hnin). destruct (Hg c Hc) as [[H1 H2]|[H1 [H2 H3]]].
    + left. split; [exact H1|]. intro Hlt. destruct (Nat.eq_dec (nth c cur 0) p) as [E|E].
      * unfold excess. rewrite E. exact Hnin.
      * apply H2. lia.
    + right. split; [exact H1|]. split; [lia|exact H3].
Qed.

Definition a1 : assignment := fold_prec (pass1_step cur) (map Some cur) 0 orders best.

Lemma pinv1_final : pinv1 P a1.
Proof.
  pose proof (fold_prec_inv (pass1_step cur) pinv1 orders best 0 (map Some cur)) as H.
  rewrite Hord in H. cbn [plus] in H. apply H; [lia| |exact pinv1_init].
  intros i a Hi Ha. apply pinv1_step; assumption.
Qed.

Lemma cur_lt c : c < C -> nth c cur 0 < P.
Proof. intro Hc. rewrite Forall_forall in Hcur_lt. apply Hcur_lt. apply nth_In. lia. Qed.

(* after pass 1 a precision keeps min(target, current) channels at least *)
Lemma count_a1_ge p : p < P -> Nat.min (nth p best 0) (cc p) <= count p a1.
Proof.
  intro Hp. destruct pinv1_final as [Hl Hg].
  rewrite count_cnt. rewrite (cnt_perm _ a1 (nth p orders [])) by (rewrite Hl; apply ord_perm; exact Hp).
  rewrite <- (Mp_len p Hp). rewrite <- firstn_length.
  apply NoDup_incl_length; [apply NoDup_firstn, Mp_nodup; exact Hp|].
  intros c Hc. pose proof (Mp_nodup p Hp) as Hnd. rewrite <- (firstn_skipn (nth p best 0) (Mp p)) in Hnd.
  pose proof (NoDup_app_disjoint _ _ c Hnd Hc) as Hnex.
  pose proof (firstn_In _ _ _ Hc) as HcM. destruct (Mp_in p c Hp HcM) as [Hcc Ecur].
  apply filter_In. split; [apply filter_In in HcM; apply HcM|].
  destruct (Hg c Hcc) as [[H1 _]|[_ [_ H3]]].
  - rewrite H1, Ecur. cbn [is_prec]. apply Nat.eqb_refl.
  - exfalso. apply Hnex. unfold excess in H3. rewrite Ecur in H3. exact H3.
Qed.

(* ---- pass 2: pointwise *)
Definition deficit (q : nat) : Prop := cc q < nth q best 0.
Definition pinv2 (p : nat) (a : assignment) : Prop :=
  length a = C /\
  (forall c, c < C -> get a c = get a1 c \/ (get a1 c = None /\ exists q, q < p /\ get a c = Some q /\ deficit q)) /\
  (forall q, p <= q -> count q a = count q a1).

Lemma pinv2_init : pinv2 0 a1.
Proof.
  destruct pinv1_final as [Hl _]. split; [exact Hl|]. split; [intros; left; reflexivity|reflexivity].
Qed.

Lemma pinv2_step p a : p < P -> pinv2 p a -> pinv2 (S p) (pass2_step a p (nth p orders []) (nth p best 0)).
Proof.
  intros Hp (Hl & Hg & Hc). unfold pass2_step.
  set (ord := nth p orders []). set (t := nth p best 0).
  assert (Hpo : Permutation ord (seq 0 C)) by (apply ord_perm; exact Hp).
  destruct (Nat.ltb (count p a) t) eqn:Elt.
  - apply Nat.ltb_lt in Elt.
    set (cs := firstn (t - count p a) (filter (fun c => is_none (get a c)) ord)).
    assert (Hdef : deficit p).
    { unfold deficit. fold t. rewrite (Hc p (Nat.le_refl p)) in Elt. pose proof (count_a1_ge p Hp) as H. fold t in H. lia. }
    assert (Hnd : NoDup cs).
    { unfold cs. apply NoDup_firstn, NoDup_filter. apply (Permutation_NoDup (Permutation_sym Hpo)). apply seq_NoDup. }
    assert (Hcs : forall c, In c cs -> c < length a /\ get a c = None).
    { intros c Hin. unfold cs in Hin. apply firstn_In in Hin. apply filter_In in Hin as [Hin Hn].
      split.
      - apply (Permutation_in _ Hpo) in Hin. apply in_seq in Hin. lia.
      - destruct (get a c); [discriminate|reflexivity]. }
    split; [rewrite length_set_all; exact Hl|]. split.
    + intros c Hcc. destruct (in_dec Nat.eq_dec c cs) as [Hin|Hnin].
      * right. destruct (Hcs c Hin) as [Hca Hnone].
        destruct (Hg c Hcc) as [K|[_ [q [_ [K _]]]]]; [|congruence].
        split; [congruence|]. exists p. split; [lia|]. split; [|exact Hdef].
        apply get_set_all_in; [left; exact Hin|exact Hca].
      * rewrite (get_set_all_notin _ (Some p) a c Hnin).
        destruct (Hg c Hcc) as [K|[K1 [q [K2 [K3 K4]]]]]; [left; exact K|].
        right. split; [exact K1|]. exists q. split; [lia|]. split; assumption.
    + intros q Hq. rewrite <- (Hc q) by lia. rewrite !count_cnt.
      rewrite (cnt_set_all_some (is_prec q) p cs a eq_refl Hnd Hcs). cbn [is_prec].
      replace (Nat.eqb q p) with false by (symmetry; apply Nat.eqb_neq; lia). lia.
  - split; [exact Hl|]. split.
    + intros c Hcc. destruct (Hg c Hcc) as [K|[K1 [q [K2 [K3 K4]]]]]; [left; exact K|].
      right. split; [exact K1|]. exists q. split; [lia|]. split; assumption.
    + intros q Hq. apply Hc. lia.
Qed.

Lemma pinv2_final : pinv2 P (reassign_abs cur orders best).
Proof.
  unfold reassign_abs. fold a1.
  pose proof (fold_prec_inv pass2_step pinv2 orders best 0 a1) as H.
  rewrite Hord in H. cbn [plus] in H. apply H; [lia| |exact pinv2_init].
  intros i a Hi Ha. apply pinv2_step; assumption.
Qed.

(* a channel is either left where it was or moved to a precision of strictly higher rank *)
Theorem reassign_promotes : forall c x, c < C -> get (reassign_abs cur orders best) c = Some x ->
  x = nth c cur 0 \/ rank (nth c cur 0) < rank x.
Proof.
  intros c x Hc Hx. destruct pinv2_final as (_ & Hg & _). destruct pinv1_final as [_ Hg1].
  destruct (Hg c Hc) as [K|[K1 [q [K2 [K3 K4]]]]].
  - left. rewrite K in Hx. destruct (Hg1 c Hc) as [[H1 _]|[H1 _]]; congruence.
  - right. rewrite K3 in Hx. inversion Hx; subst x.
    destruct (Hg1 c Hc) as [[H1 _]|[_ [_ H3]]]; [congruence|].
    pose proof (cur_lt c Hc) as Hlt.
    apply Hsep; [exact K2|exact Hlt|exact K4|].
    unfold excess in H3. rewrite <- (Mp_len _ Hlt).
    assert (Hlen : length (skipn (nth (nth c cur 0) best 0) (Mp (nth c cur 0))) <> 0).
    { intro E. apply length_zero_iff_nil in E. rewrite E in H3. destruct H3. }
    rewrite skipn_length in Hlen. lia.
Qed.
End Promote.

(* ------------------------------------------------------------------ composition: search, then reassignment *)
Lemma nth_map_seq {A} (f : nat -> A) n p d : p < n -> nth p (map f (seq 0 n)) d = f p.
Proof.
  intro Hp. rewrite (nth_indep _ d (f 0)) by (rewrite map_length, seq_length; exact Hp).
  rewrite (map_nth f (seq 0 n) 0 p). rewrite seq_nth by exact Hp. reflexivity.
Qed.

Lemma map_nth_seq (l : list nat) : map (fun p => nth p l 0) (seq 0 (length l)) = l.
Proof.
  induction l as [|x l IH] using rev_ind; [reflexivity|].
  rewrite app_length. cbn [length]. rewrite Nat.add_1_r, seq_S, map_app. cbn [plus map].
  rewrite app_nth2 by lia. rewrite Nat.sub_diag. cbn [nth]. f_equal.
  rewrite <- IH at 2. apply map_ext_in. intros p Hp. apply in_seq in Hp. apply app_nth1. lia.
Qed.

Section Compose.
Variable cost : vec -> Q.
Variable skip : nat -> bool.
Hypothesis Hskip : forall i, skip i = true -> i = 0.      (* only the lowest (0-bit) precision is never left *)
Variables (P C : nat) (cur : list nat) (orders : list (list nat)).
Hypothesis Hcur : length cur = C.
Hypothesis Hcur_lt : Forall (fun p => p < P) cur.
Hypothesis Hord : length orders = P.
Hypothesis Hperm : Forall (fun o => Permutation o (seq 0 C)) orders.
(* the quantizer may list its precisions in any order: own_of k is the own index of the k-th smallest
   precision (sorted_indexes), pos_of p the sorted position of own index p (inverse_indexes) *)
Variables own_of pos_of : nat -> nat.
Hypothesis Hpos : forall p, p < P -> pos_of p < P /\ own_of (pos_of p) = p.

Local Notation init_sorted := (Reassign.init_sorted cur P own_of).
Local Notation best_sorted := (refine cost skip init_sorted).
Local Notation best_own := (Reassign.best_own cost skip P cur own_of pos_of).

Theorem refine_reassign_promotes : forall c x, c < C ->
  get (reassign_abs cur orders best_own) c = Some x ->
  x = nth c cur 0 \/ pos_of (nth c cur 0) < pos_of x.
Proof.
  apply (reassign_promotes P C cur orders best_own pos_of Hcur Hcur_lt Hord Hperm).
  - unfold Reassign.best_own, unsort. rewrite map_length, seq_length. reflexivity.
  - intros p q Hp Hq Hd Hs. unfold Reassign.best_own, unsort in Hd, Hs. rewrite nth_map_seq in Hd, Hs by assumption.
    destruct (Hpos p Hp) as [Hpp Epp]. destruct (Hpos q Hq) as [Hqq Eqq].
    apply (refine_sep cost init_sorted skip Hskip (pos_of p) (pos_of q)).
    + unfold Reassign.init_sorted. rewrite nth_map_seq by exact Hpp. rewrite Epp. exact Hd.
    + unfold Reassign.init_sorted at 2. rewrite nth_map_seq by exact Hqq. rewrite Eqq. exact Hs.
Qed.
End Compose.

(* the documented use: precisions listed in increasing order *)
Section Ascending.
Variable cost : vec -> Q.
Variable skip : nat -> bool.
Hypothesis Hskip : forall i, skip i = true -> i = 0.
Variables (P C : nat) (cur : list nat) (orders : list (list nat)).
Hypothesis Hcur : length cur = C.
Hypothesis Hcur_lt : Forall (fun p => p < P) cur.
Hypothesis Hord : length orders = P.
Hypothesis Hperm : Forall (fun o => Permutation o (seq 0 C)) orders.

Definition counts : vec := map (cc cur) (seq 0 P).
Definition refined : vec := refine cost skip counts.

Lemma refined_length : length refined = P.
Proof. unfold refined. rewrite (up_length _ _ (refine_up cost skip counts)). unfold counts. rewrite map_length, seq_length. reflexivity. Qed.

Lemma best_own_id : best_own cost skip P cur (fun k => k) (fun p => p) = refined.
Proof.
  unfold best_own, unsort, init_sorted. fold counts. fold refined.
  rewrite <- refined_length at 1. apply map_nth_seq.
Qed.

Theorem refined_no_channel_demoted : forall c x, c < C ->
  get (reassign_abs cur orders refined) c = Some x -> nth c cur 0 <= x.
Proof.
  intros c x Hc Hx. rewrite <- best_own_id in Hx.
  destruct (refine_reassign_promotes cost skip Hskip P C cur orders Hcur Hcur_lt Hord Hperm (fun k => k) (fun p => p)
              (fun p Hp => conj Hp eq_refl) c x Hc Hx) as [E|E]; lia.
Qed.

Lemma cnt_none_map_some (l : list nat) : cnt is_none (map Some l) = 0.
Proof. induction l as [|x l IH]; [reflexivity|]. cbn [map]. rewrite cnt_cons. cbn [is_none b2n]. exact IH. Qed.

Lemma counts_total : total_of counts = C.
Proof.
  unfold total_of. rewrite sum_list_sumf. unfold counts at 2. rewrite map_length, seq_length.
  assert (Hr : in_range P (map Some cur)).
  { intros c x Hx. destruct (Nat.lt_ge_cases c C) as [Hc|Hc].
    - unfold get in Hx. rewrite (nth_indep _ None (Some 0)) in Hx by (rewrite map_length; lia).
      rewrite (map_nth Some cur 0 c) in Hx. inversion Hx; subst.
      rewrite Forall_forall in Hcur_lt. apply Hcur_lt. apply nth_In. lia.
    - unfold get in Hx. rewrite nth_overflow in Hx by (rewrite map_length; lia). discriminate. }
  pose proof (count_partition P (map Some cur) Hr) as H. rewrite map_length, cnt_none_map_some, Hcur in H.
  cbn [plus] in H. rewrite H. apply sumf_ext. intros i Hi. unfold counts. rewrite nth_map_seq by exact Hi. reflexivity.
Qed.

(* ... every channel gets exactly one precision and every layer exactly the counts the search chose *)
Theorem refined_counts_met : reassign_ok (reassign_abs cur orders refined) refined = true.
Proof.
  apply (reassign_total P C cur orders refined Hcur Hcur_lt Hord Hperm refined_length).
  change (total_of refined = C). unfold refined. rewrite (up_total _ _ (refine_up cost skip counts)). exact counts_total.
Qed.
End Ascending.
