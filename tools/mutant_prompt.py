#!/venv/bin/python
"""mutant_prompt.py Cxx  -> creates /tmp/mut/Cxx (scratch worktree of /repo HEAD) and prints the prompt for a fresh
sub-agent that is given ONLY the property text and that worktree (nothing from /verif)."""
import sys, json, subprocess, os
pid = sys.argv[1]
wt = '/tmp/mut/' + pid
subprocess.run(['git', '-C', '/repo', 'worktree', 'remove', '--force', wt], capture_output=True)
os.makedirs('/tmp/mut/out/' + pid, exist_ok=True)
subprocess.run(['git', '-C', '/repo', 'worktree', 'add', '-q', '--detach', wt, 'HEAD'], check=True)
p = [json.loads(l) for l in open('/verif/properties.jsonl') if json.loads(l)['id'] == pid][0]
print(f"""You are helping to evaluate a verification tool by playing the adversary. You get a semantic property of the Python library eml-eda/plinio (a PyTorch library for gradient-based NAS / mixed-precision search) and your own scratch git worktree of it at {wt} (work ONLY there; never touch /repo or /verif; do not read anything under /verif).

PROPERTY {p['id']}: {p['title']}
Statement: {p['statement']}
Quantified over: {p['quantifier']['text']}
Source files the property is anchored in: {', '.join(p['anchors']['files'])}

Task: produce TWO different, independent changes (A and B) to the library source under {wt}/plinio, each of which
 (1) BREAKS the property above (for some input / configuration / call sequence the statement becomes false),
 (2) still imports fine and keeps the existing unit tests passing exactly as on the unchanged tree (run the relevant subset: `cd {wt} && PYTHONPATH={wt} OMP_NUM_THREADS=1 MKL_NUM_THREADS=1 timeout 3000 /venv/bin/python -m pytest -q -p no:cacheprovider -n 4 <test dirs>`; on the UNCHANGED tree these already fail and do not count: unit_test/test_cost/test_mpic_latency.py (collection error), test_backend_match*, test_backend_maupiti*, test_mps_convert.py::TestMPSConvert::test_qinfo_layer),
 (3) is REALISTIC — it looks like a plausible refactoring, optimisation, clean-up or small bug-fix gone wrong that could pass code review, not sabotage — and
 (4) needs something SPECIFIC to manifest: an unusual but legal input or size, a boundary value, a particular option combination, a multi-step sequence of calls, or two cooperating code sites that each look fine alone. A change that ordinary use (the README examples, the default arguments on a typical model) exposes at once is NOT what we want. A and B must use different mechanisms in different functions.
For each change write a small demonstration program demo.py (plain Python, run as `PYTHONPATH=<tree> /venv/bin/python demo.py`, no arguments, < 2 minutes) that exits 0 on the UNCHANGED tree and exits non-zero (assert / sys.exit(1)) with the change applied, demonstrating the property violation directly through the library's public behaviour (not by inspecting the changed line).
Deliver, for X in A, B: /tmp/mut/out/{pid}/X/patch.diff (output of `git -C {wt} diff` for that change alone, relative to HEAD; must apply with `git apply` on a clean checkout of HEAD), /tmp/mut/out/{pid}/X/demo.py, /tmp/mut/out/{pid}/X/meta.json with keys: summary (what was changed and why it breaks the property), needs (what exactly is needed for it to manifest), tests_run (the pytest command and its result with the change applied). Verify yourself: demo exits 0 on a clean tree (save your change with `git -C {wt} diff > /tmp/mut/out/{pid}/X/patch.diff`, then `git -C {wt} checkout -- .`, later `git -C {wt} apply` it again; NEVER use `git stash`: the stash is shared by all worktrees of the repository and other agents work in parallel), non-zero with the patch; tests as above. Leave the worktree clean (git -C {wt} checkout -- .) when done. Python is /venv/bin/python (torch installed); no network. Your final message: a 10-line summary of A and B.""")
