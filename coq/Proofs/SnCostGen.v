(* C06: the model GENERATED from the source of the SuperNet cost composition (Gen/SnCostGen.v, rewritten by
   translator/sncost2coq.py on every run: SuperNetCombiner.get_cost / best_layer_index, SuperNet._get_single_cost /
   _single_cost_fn_map / __init__ / cost_specification.setter, DNAS.get_cost / cost / _create_cost_fn_map / __init__)
   computes the hand-written model of Model/SuperNet.v:
       for every network, every cost specification (single or dictionary), every sequence of later re-assignments of
       `full_cost` and `cost_specification`, every value of the coefficients at the time of the call,
       get_cost(name) = sn_cost (the functions of the specification named `name`) (its `shared` flag) (full_cost NOW) theta.
   These equalities are the obligations that tie the theorems of Props/C06.v to the code as it is now; the open finding
   (a block invoked at two resolutions is charged the cost of its first call site) is REPRODUCED by the generated model.
   The proof scripts use the generated text only through: unfolding, `fold_left f l a == a + qsum (map g l)` for a loop body
   `f acc x == acc + g x` (proved by case analysis + ring, so operand order / local names do not matter), computation. *)
From Coq Require Import QArith ZArith List Bool Arith Lia Lqa.
Import ListNotations.
Require Import Plinio.Base.Qx Plinio.Model.SuperNet Plinio.Proofs.SuperNet Plinio.Gen.SnCostGen.
Local Open Scope Q_scope.

(* ------------------------------------------------------------------ generic: an accumulating loop is a sum *)
Lemma fold_add_qsum {A} (f : Q -> A -> Q) (g : A -> Q) :
  (forall acc x, f acc x == acc + g x) -> forall l a, fold_left f l a == a + qsum (map g l).
Proof.
  intros H l. induction l as [|x l IH]; intro a; cbn [fold_left map qsum]; [ring|].
  rewrite IH, H. ring.
Qed.

Lemma fold_left_ext {A B} (f g : A -> B -> A) : (forall a x, f a x = g a x) -> forall l a, fold_left f l a = fold_left g l a.
Proof. intros H l. induction l as [|x l IH]; intro a; cbn; [reflexivity|]. rewrite H. apply IH. Qed.

Lemma gname_eqb_iff a b : gname_eqb a b = true <-> a = b.
Proof.
  destruct a as [a1 a2], b as [b1 b2]. unfold gname_eqb. cbn [fst snd]. rewrite andb_true_iff, !Z.eqb_eq.
  split; [intros [-> ->]; reflexivity|intro H; injection H; auto].
Qed.
Lemma gname_eqb_refl a : gname_eqb a a = true.
Proof. apply gname_eqb_iff. reflexivity. Qed.
Lemma gname_eqb_false a b : a <> b -> gname_eqb a b = false.
Proof. intro H. destruct (gname_eqb a b) eqn:E; [|reflexivity]. apply gname_eqb_iff in E. contradiction. Qed.

Lemma fm_get_set m k v k' : fm_get (fm_set m k v) k' = if gname_eqb k k' then v else fm_get m k'.
Proof.
  induction m as [|[k0 v0] m IH]; cbn [fm_set fm_get].
  - reflexivity.
  - destruct (gname_eqb k0 k) eqn:E; cbn [fm_get].
    + apply gname_eqb_iff in E. subst k0. destruct (gname_eqb k k'); reflexivity.
    + destruct (gname_eqb k0 k') eqn:E'; [|exact IH].
      apply gname_eqb_iff in E'. subst k0. rewrite gname_eqb_false; [reflexivity|].
      intro; subst. rewrite gname_eqb_refl in E. discriminate.
Qed.

Lemma zd_find_set {V} (m : list (Z * V)) k v k' : zd_find (zd_set m k v) k' = if Z.eqb k k' then Some v else zd_find m k'.
Proof.
  induction m as [|[k0 v0] m IH]; cbn [zd_set zd_find].
  - reflexivity.
  - destruct (Z.eqb_spec k0 k) as [->|Hne]; cbn [zd_find].
    + destruct (Z.eqb k k'); reflexivity.
    + destruct (Z.eqb_spec k0 k') as [->|Hne']; [|exact IH].
      destruct (Z.eqb_spec k k'); [congruence|reflexivity].
Qed.

Lemma zd_find_not_in {V} (d : list (Z * V)) k : ~ In k (map fst d) -> zd_find d k = None.
Proof.
  induction d as [|[k0 v0] d IH]; cbn; [reflexivity|]. intro H.
  destruct (Z.eqb_spec k0 k); [exfalso; apply H; left; assumption|]. apply IH. intro; apply H; right; assumption.
Qed.

Lemma zd_find_build {V W} (f : V -> W) : forall (d : list (Z * V)) m0 n, NoDup (map fst d) ->
  zd_find (fold_left (fun m it => zd_set m (fst it) (f (snd it))) d m0) n =
  match zd_find d n with Some c => Some (f c) | None => zd_find m0 n end.
Proof.
  induction d as [|[k c] d IH]; intros m0 n Hnd; cbn [fold_left zd_find fst snd map]; [reflexivity|].
  cbn [map fst] in Hnd. inversion Hnd as [|? ? Hni Hnd']; subst.
  rewrite IH by exact Hnd'. rewrite zd_find_set.
  destruct (Z.eqb_spec k n) as [->|Hne]; [|reflexivity].
  rewrite (zd_find_not_in d n Hni). reflexivity.
Qed.

Lemma qsum_zero {A} (g : A -> Q) l : (forall x, In x l -> g x == 0) -> qsum (map g l) == 0.
Proof. induction l as [|x l IH]; intro H; cbn; [reflexivity|]. rewrite (H x) by (left; reflexivity). rewrite IH; [ring|]. intros; apply H; right; assumption. Qed.

Lemma nth_nil_q (i : nat) : nth i (@nil Q) 0 = 0.
Proof. destruct i; reflexivity. Qed.

(* sum over range(len(L)) of F(L[i]) * th[i]  =  dot th (map F L)   (missing coefficients count as 0 on both sides) *)
Lemma qsum_seq_dot {A} (F : A -> Q) (d : A) : forall (L : list A) th,
  qsum (map (fun i => F (nth i L d) * nth i th 0) (seq 0 (length L))) == dot th (map F L).
Proof.
  induction L as [|x L IH]; intro th; cbn [length seq map qsum].
  - destruct th; reflexivity.
  - rewrite <- seq_shift, map_map. cbn [nth]. destruct th as [|t th].
    + cbn [dot nth]. rewrite qsum_zero; [ring|]. intros i _. cbn [nth]. ring.
    + cbn [dot nth map]. rewrite <- (IH th). ring.
Qed.

Lemma dot_ext : forall th cs cs', Forall2 Qeq cs cs' -> dot th cs == dot th cs'.
Proof.
  induction th as [|t th IH]; intros cs cs' H; [destruct cs, cs'; reflexivity|].
  destruct H as [|c c' cs cs' Hc H]; cbn [dot]; [reflexivity|]. rewrite Hc, (IH _ _ H). reflexivity.
Qed.

Lemma zuniq_acc_in : forall l s x, In x (zuniq_acc s l) -> In x l.
Proof.
  induction l as [|y l IH]; intros s x H; cbn in *; [exact H|].
  destruct (zmem y s); [right; eapply IH; exact H|]. destruct H as [->|H]; [left; reflexivity|right; eapply IH; exact H].
Qed.

(* ================================================================== the generated loops as sums *)
Section Eq.
Variable costv : Z -> Z -> Z -> Z -> nat -> Q.
Variable theta : Z -> list Q.

(* what one leaf tuple contributes *)
Definition bleaf_c (m : fnmap) (it : bleaf) : Q :=
  call_fn costv (fm_get m (fst (fst it))) (mkV (snd it) (Some (n_site (snd (fst it))))).
Definition branch_c (m : fnmap) (l : list bleaf) : Q := qsum (map (bleaf_c m) l).
Definition comb_c (m : fnmap) (c : gcomb) : Q :=
  qsum (map (fun i => branch_c m (nth i (c_ulm c) []) * nth i (theta (c_bid c)) 0) (seq 0 (c_nbr c))).
Definition leaf_c (full : bool) (m : fnmap) (it : gleaf) : Q :=
  match snd it with
  | LComb c => comb_c m c
  | LPlain p => if negb (name_in_branches (n_target (snd (fst it)))) && full
                then call_fn costv (fm_get m (fst (fst it))) (mkV p (Some (n_site (snd (fst it))))) else 0
  end.

Ltac gen_leaf := cbv beta iota zeta delta [vars_of_plain v_update shapes_dict type_of_plain v_layer v_shape fst snd].

(* SuperNetCombiner.get_cost *)
Lemma comb_get_cost_gen_sum : forall c cs m, comb_get_cost_gen costv theta c cs m == comb_c m c.
Proof.
  intros c cs m. unfold comb_get_cost_gen, comb_c. cbv zeta.
  rewrite (fold_add_qsum _ (fun i => branch_c m (nth i (c_ulm c) []) * nth i (theta (c_bid c)) 0)); [ring|].
  intros acc i. unfold branch_c.
  rewrite (fold_add_qsum _ (bleaf_c m)); [ring|].
  intros acc' [[lname node] layer]. unfold bleaf_c. gen_leaf. ring.
Qed.

(* SuperNet._get_single_cost *)
Lemma sn_get_single_cost_gen_sum : forall self cs m,
  sn_get_single_cost_gen costv theta self cs m ==
  qsum (map (leaf_c (sn_full self) m) (if sp_shared cs then sn_ulm self else sn_lm self)).
Proof.
  intros self cs m. unfold sn_get_single_cost_gen.
  destruct (sp_shared cs); cbv beta iota zeta;
    (rewrite (fold_add_qsum _ (leaf_c (sn_full self) m)); [ring|];
     intros acc [[lname node] layer]; unfold leaf_c; cbn [fst snd]; destruct layer as [p|c];
     [destruct (name_in_branches (n_target node)), (sn_full self); cbn [negb andb]; gen_leaf; ring
     |rewrite comb_get_cost_gen_sum; ring]).
Qed.
End Eq.

(* ================================================================== the leaf lists of a network (fixed glue) *)
Definition fn_of (c : gspec) (k : gname) : gfn := FSpec (sp_id c) (fst k) (fst k).
Definition leaf_name (it : gleaf) : gname := fst (fst it).
(* a plain module named (i, tag) is the module i, tag 0 / 2; a combiner has tag 1 *)
Definition coherent (l : list gleaf) : Prop :=
  forall it, In it l -> match snd it with
                        | LPlain p => fst (leaf_name it) = p /\ snd (leaf_name it) <> 1%Z
                        | LComb _ => snd (leaf_name it) = 1%Z
                        end.

Lemma coherent_tail e l : coherent (e :: l) -> coherent l.
Proof. intros H it Hin. apply H. right. exact Hin. Qed.

Lemma inner_leaves_coherent brs : coherent (inner_leaves brs).
Proof.
  intros it Hin. unfold inner_leaves in Hin. apply in_flat_map in Hin. destruct Hin as [br [_ Hin]].
  apply in_map_iff in Hin. destruct Hin as [i [<- _]]. cbn. split; [reflexivity|discriminate].
Qed.

Lemma gleaves_from_coherent : forall nt seen, coherent (gleaves_from seen nt).
Proof.
  induction nt as [|n nt IH]; intro seen; [intros it []|]. destruct n as [[i|c]|b brs]; cbn [gleaves_from].
  - intros it [<-|Hin]; [cbn; split; [reflexivity|discriminate]|apply (IH _ it Hin)].
  - apply IH.
  - intros it Hin. apply in_app_or in Hin. destruct Hin as [Hin|[<-|Hin]].
    + apply (inner_leaves_coherent brs it Hin).
    + reflexivity.
    + apply (IH _ it Hin).
Qed.

Lemma gmem_iff k l : gmem k l = true <-> In k l.
Proof.
  induction l as [|y l IH]; cbn; [split; [discriminate|intros []]|].
  rewrite orb_true_iff, gname_eqb_iff, IH. split; intros [H|H]; auto.
Qed.

(* SuperNet._single_cost_fn_map: statement by statement it is this step ... *)
Definition map_step (c : gspec) (m : fnmap) (it : gleaf) : fnmap :=
  match snd it with LComb _ => m | LPlain p => fm_set m (leaf_name it) (FSpec (sp_id c) p p) end.

Lemma single_map_gen_fold : forall self c, sn_single_cost_fn_map_gen self c = fold_left (map_step c) (sn_ulm self) [].
Proof.
  intros self c. unfold sn_single_cost_fn_map_gen. cbv zeta. apply fold_left_ext.
  intros m [[lname node] [p|cc]]; reflexivity.
Qed.

(* ... so every plain module of the unique leaf list gets the function the specification selects for IT *)
Lemma built_good c : forall l s m0, coherent l ->
  (forall k, gmem k s = true -> snd k <> 1%Z -> fm_get m0 k = fn_of c k) ->
  forall k, snd k <> 1%Z -> (gmem k s = true \/ In k (map leaf_name l)) ->
  fm_get (fold_left (map_step c) (guniq_acc s l) m0) k = fn_of c k.
Proof.
  induction l as [|e l IH]; intros s m0 Hc Hs k Hk Hin; cbn [guniq_acc fold_left].
  - destruct Hin as [Hin|[]]. apply Hs; assumption.
  - change (fst (fst e)) with (leaf_name e). destruct (gmem (leaf_name e) s) eqn:Em.
    + apply IH; [eapply coherent_tail; exact Hc|exact Hs|exact Hk|].
      destruct Hin as [Hin|[<-|Hin]]; [left; exact Hin|left; exact Em|right; exact Hin].
    + cbn [fold_left]. apply IH; [eapply coherent_tail; exact Hc| |exact Hk|].
      * intros k' Hm Hk'. cbn [gmem] in Hm. apply orb_true_iff in Hm.
        pose proof (Hc e (or_introl eq_refl)) as He. unfold map_step. destruct (snd e) as [p|cc].
        -- destruct He as [Hp _]. rewrite fm_get_set. destruct (gname_eqb (leaf_name e) k') eqn:E.
           ++ apply gname_eqb_iff in E. subst k'. unfold fn_of. rewrite Hp. reflexivity.
           ++ destruct Hm as [Hm|Hm]; [apply gname_eqb_iff in Hm; subst k'; rewrite gname_eqb_refl in E; discriminate|].
              apply Hs; assumption.
        -- destruct Hm as [Hm|Hm]; [apply gname_eqb_iff in Hm; subst k'; congruence|]. apply Hs; assumption.
      * destruct Hin as [Hin|[<-|Hin]].
        -- left. cbn [gmem]. rewrite Hin. apply orb_true_r.
        -- left. cbn [gmem]. rewrite gname_eqb_refl. reflexivity.
        -- right. exact Hin.
Qed.

Definition mgood (c : gspec) (m : fnmap) (nt : net) : Prop :=
  forall k, snd k <> 1%Z -> In k (map leaf_name (gleaves nt)) -> fm_get m k = fn_of c k.

Lemma single_map_gen_good : forall self c nt, sn_ulm self = guniq (gleaves nt) -> mgood c (sn_single_cost_fn_map_gen self c) nt.
Proof.
  intros self c nt Hu k Hk Hin. rewrite single_map_gen_fold, Hu. unfold guniq.
  apply built_good; [apply gleaves_from_coherent|intros k' H; discriminate H|exact Hk|right; exact Hin].
Qed.

(* ================================================================== the sums against Model/SuperNet.v *)
Section Sem.
Variable costv : Z -> Z -> Z -> Z -> nat -> Q.
Variable theta : Z -> list Q.
Variable c : gspec.
Variable full : bool.
Variable m : fnmap.

(* the hand model's per-layer cost: the function the specification selects for module i, applied to module i at call site s *)
Definition cost_of : Z -> nat -> Q := fun i s => costv (sp_id c) i i i s.

Lemma inner_zero : forall brs it, In it (inner_leaves brs) -> leaf_c costv theta full m it == 0.
Proof.
  intros brs it Hin. unfold inner_leaves in Hin. apply in_flat_map in Hin. destruct Hin as [br [_ Hin]].
  apply in_map_iff in Hin. destruct Hin as [i [<- _]]. reflexivity.
Qed.

Lemma in_inner_name : forall brs br i, In br brs -> In i (branch_mods br) -> In (i, 2%Z) (map leaf_name (inner_leaves brs)).
Proof.
  intros brs br i Hb Hi. apply in_map_iff. exists ((i, 2%Z), mkNode (i, 2%Z) 0, LPlain i). split; [reflexivity|].
  unfold inner_leaves. apply in_flat_map. exists br. split; [exact Hb|]. apply in_map_iff. exists i. split; [reflexivity|exact Hi].
Qed.

Lemma branch_c_eq : forall br, (forall i, In i (branch_mods br) -> fm_get m (i, 2%Z) = fn_of c (i, 2%Z)) ->
  branch_c costv m (branch_leaves br) == branch_cost cost_of br.
Proof.
  intros br Hg. unfold branch_c, branch_leaves, branch_cost. rewrite map_map. apply qsum_eq.
  intros i Hi. unfold bleaf_c. cbn [fst snd n_site]. rewrite Hg by (eapply zuniq_acc_in; exact Hi). reflexivity.
Qed.

Lemma comb_c_eq : forall b brs, (forall br i, In br brs -> In i (branch_mods br) -> fm_get m (i, 2%Z) = fn_of c (i, 2%Z)) ->
  comb_c costv theta m (comb_of b brs) == block_cost cost_of (theta b) brs.
Proof.
  intros b brs Hg. unfold comb_c, comb_of, block_cost. cbn [c_ulm c_nbr c_bid].
  rewrite <- (map_length branch_leaves brs). rewrite (qsum_seq_dot (branch_c costv m) [] (map branch_leaves brs) (theta b)).
  rewrite map_map. apply dot_ext. induction brs as [|br brs IH]; cbn [map]; constructor.
  - apply branch_c_eq. intros i Hi. apply (Hg br i); [left; reflexivity|exact Hi].
  - apply IH. intros br' i Hb Hi. apply (Hg br' i); [right; exact Hb|exact Hi].
Qed.

(* goodness of the map on a suffix of the network *)
Definition sgood (seen : list Z) (nt : net) : Prop :=
  forall k, snd k <> 1%Z -> In k (map leaf_name (gleaves_from seen nt)) -> fm_get m k = fn_of c k.

Lemma sgood_fixed_mod i seen r : sgood seen (NFixed (Mod i) :: r) -> fm_get m (i, 0%Z) = fn_of c (i, 0%Z) /\ sgood (i :: seen) r.
Proof. intro H. split; [apply H; [discriminate|left; reflexivity]|]. intros k Hk Hin. apply H; [exact Hk|right; exact Hin]. Qed.
Lemma sgood_fixed_fn f seen r : sgood seen (NFixed (Fn f) :: r) -> sgood seen r.
Proof. intro H. exact H. Qed.
Lemma sgood_choice b brs seen r : sgood seen (NChoice b brs :: r) ->
  (forall br i, In br brs -> In i (branch_mods br) -> fm_get m (i, 2%Z) = fn_of c (i, 2%Z)) /\ sgood seen r.
Proof.
  intro H. split.
  - intros br i Hb Hi. apply H; [discriminate|]. cbn [gleaves_from]. rewrite map_app. apply in_or_app. left. eapply in_inner_name; eassumption.
  - intros k Hk Hin. apply H; [exact Hk|]. cbn [gleaves_from]. rewrite map_app. apply in_or_app. right. right. exact Hin.
Qed.

Lemma fixed_leaf_c i s : fm_get m (i, 0%Z) = fn_of c (i, 0%Z) ->
  leaf_c costv theta full m ((i, 0%Z), mkNode (i, 0%Z) s, LPlain i) == entry_cost cost_of full theta (ELayer i s).
Proof. intro Hg. unfold leaf_c. cbn [fst snd n_target n_site name_in_branches Z.eqb negb andb entry_cost]. rewrite Hg. destruct full; reflexivity. Qed.

(* per-invocation metrics: self._leaf_modules *)
Lemma leaves_sum : forall nt seen, sgood seen nt ->
  qsum (map (leaf_c costv theta full m) (gleaves_from seen nt)) == qsum (map (entry_cost cost_of full theta) (entries_from seen nt)).
Proof.
  induction nt as [|n nt IH]; intros seen Hg; [reflexivity|]. destruct n as [[i|f]|b brs]; cbn [gleaves_from entries_from map qsum].
  - destruct (sgood_fixed_mod _ _ _ Hg) as [Hi Hr]. rewrite (IH _ Hr), (fixed_leaf_c i _ Hi). reflexivity.
  - apply IH. exact Hg.
  - destruct (sgood_choice _ _ _ _ Hg) as [Hb Hr]. rewrite map_app, qsum_app. cbn [map qsum].
    rewrite (qsum_zero _ _ (inner_zero brs)), (IH _ Hr).
    change (leaf_c costv theta full m ((b, 1%Z), mkNode (b, 1%Z) 0, LComb (comb_of b brs))) with (comb_c costv theta m (comb_of b brs)).
    rewrite (comb_c_eq b brs Hb). cbn [entry_cost]. ring.
Qed.

(* shared metrics: self._unique_leaf_modules.  The names already met, on both sides *)
Definition seen_rel (gs : list gname) (ks : list (Z * bool)) : Prop :=
  (forall i, gmem (i, 0%Z) gs = kmem (i, false) ks) /\ (forall b, gmem (b, 1%Z) gs = kmem (b, true) ks).

Lemma seen_rel_layer gs ks i : seen_rel gs ks -> seen_rel ((i, 0%Z) :: gs) ((i, false) :: ks).
Proof.
  intros [H0 H1]. split; intro j; cbn [gmem kmem]; unfold gname_eqb, key_eqb; cbn [fst snd]; [rewrite H0|rewrite H1].
  - destruct (Z.eqb j i); reflexivity.
  - destruct (Z.eqb j i); reflexivity.
Qed.
Lemma seen_rel_comb gs ks b : seen_rel gs ks -> seen_rel ((b, 1%Z) :: gs) ((b, true) :: ks).
Proof.
  intros [H0 H1]. split; intro j; cbn [gmem kmem]; unfold gname_eqb, key_eqb; cbn [fst snd]; [rewrite H0|rewrite H1].
  - destruct (Z.eqb j b); reflexivity.
  - destruct (Z.eqb j b); reflexivity.
Qed.

(* the layers inside the branches: whatever uniquify keeps of them contributes nothing at this level and does not
   change which layers / combiners count as already met *)
Lemma inner_shape : forall brs it, In it (inner_leaves brs) -> exists i, it = ((i, 2%Z), mkNode (i, 2%Z) 0, LPlain i).
Proof.
  intros brs it Hin. unfold inner_leaves in Hin. apply in_flat_map in Hin. destruct Hin as [br [_ Hin]].
  apply in_map_iff in Hin. destruct Hin as [i [<- _]]. exists i. reflexivity.
Qed.

Lemma seen_rel_inner gs ks i : seen_rel gs ks -> seen_rel ((i, 2%Z) :: gs) ks.
Proof.
  intros [H0 H1]. split; intro j; cbn [gmem]; unfold gname_eqb; cbn [fst snd]; rewrite andb_false_r; cbn [orb]; [apply H0|apply H1].
Qed.

Lemma guniq_inner : forall l : list gleaf, (forall it, In it l -> exists i, it = ((i, 2%Z), mkNode (i, 2%Z) 0, LPlain i)) ->
  forall (tl : list gleaf) gs ks, seen_rel gs ks ->
  exists kept gs', guniq_acc gs (l ++ tl) = kept ++ guniq_acc gs' tl /\
                   (forall it, In it kept -> leaf_c costv theta full m it == 0) /\ seen_rel gs' ks.
Proof.
  induction l as [|e l IH]; intros Hs tl gs ks Hr.
  - exists [], gs. split; [reflexivity|]. split; [intros it []|exact Hr].
  - destruct (Hs e (or_introl eq_refl)) as [i ->]. cbn [app guniq_acc fst].
    assert (Hs' : forall it, In it l -> exists i, it = ((i, 2%Z), mkNode (i, 2%Z) 0, LPlain i)) by (intros; apply Hs; right; assumption).
    destruct (gmem (i, 2%Z) gs).
    + apply IH; assumption.
    + destruct (IH Hs' tl ((i, 2%Z) :: gs) ks (seen_rel_inner _ _ i Hr)) as [kept [gs' [E [Hz Hr']]]].
      exists (((i, 2%Z), mkNode (i, 2%Z) 0, LPlain i) :: kept), gs'. split; [cbn [app]; f_equal; exact E|]. split; [|exact Hr'].
      intros it [<-|Hin]; [reflexivity|apply Hz; exact Hin].
Qed.

Lemma uleaves_sum : forall nt seen gs ks, sgood seen nt -> seen_rel gs ks ->
  qsum (map (leaf_c costv theta full m) (guniq_acc gs (gleaves_from seen nt))) ==
  qsum (map (entry_cost cost_of full theta) (euniq_acc ks (entries_from seen nt))).
Proof.
  induction nt as [|n nt IH]; intros seen gs ks Hg Hr; [reflexivity|]. destruct n as [[i|f]|b brs]; cbn [gleaves_from entries_from].
  - destruct (sgood_fixed_mod _ _ _ Hg) as [Hi Hrest]. cbn [guniq_acc euniq_acc fst entry_key].
    rewrite (proj1 Hr i). destruct (kmem (i, false) ks).
    + apply IH; assumption.
    + cbn [map qsum]. rewrite (IH _ _ _ Hrest (seen_rel_layer _ _ i Hr)), (fixed_leaf_c i _ Hi). reflexivity.
  - apply IH; assumption.
  - destruct (sgood_choice _ _ _ _ Hg) as [Hb Hrest].
    destruct (guniq_inner (inner_leaves brs) (inner_shape brs) (((b, 1%Z), mkNode (b, 1%Z) 0, LComb (comb_of b brs)) :: gleaves_from seen nt) gs ks Hr)
      as [kept [gs' [E [Hz Hr']]]].
    rewrite E, map_app, qsum_app, (qsum_zero _ _ Hz). cbn [guniq_acc euniq_acc fst entry_key].
    rewrite (proj2 Hr' b). destruct (kmem (b, true) ks).
    + rewrite (IH _ _ _ Hrest Hr'). ring.
    + cbn [map qsum]. rewrite (IH _ _ _ Hrest (seen_rel_comb _ _ b Hr')).
      change (leaf_c costv theta full m ((b, 1%Z), mkNode (b, 1%Z) 0, LComb (comb_of b brs))) with (comb_c costv theta m (comb_of b brs)).
      rewrite (comb_c_eq b brs Hb). cbn [entry_cost]. ring.
Qed.

Lemma seen_rel_nil : seen_rel [] [].
Proof. split; reflexivity. Qed.
End Sem.

(* ================================================================== the equalities *)
Section Main.
Variable costv : Z -> Z -> Z -> Z -> nat -> Q.
Variable theta : Z -> list Q.

(* SuperNetCombiner.best_layer_index *)
Theorem comb_best_layer_index_gen_eq : forall alpha, comb_best_layer_index_gen alpha = best_layer_index alpha.
Proof. intro alpha. reflexivity. Qed.

(* SuperNetCombiner.get_cost on the branches link_combiners_to_branches hands to the combiner *)
Theorem comb_get_cost_gen_eq : forall b brs c self,
  sn_ulm self = guniq (gleaves [NChoice b brs]) ->
  comb_get_cost_gen costv theta (comb_of b brs) c (sn_single_cost_fn_map_gen self c) == block_cost (cost_of costv c) (theta b) brs.
Proof.
  intros b brs c self Hu. rewrite comb_get_cost_gen_sum. apply comb_c_eq.
  pose proof (single_map_gen_good self c _ Hu) as Hg.
  destruct (sgood_choice c _ b brs [] [] Hg) as [Hb _]. exact Hb.
Qed.

(* SuperNet._get_single_cost with the map SuperNet._single_cost_fn_map builds for the same specification *)
Theorem sn_get_single_cost_gen_eq : forall self nt c,
  sn_lm self = gleaves nt -> sn_ulm self = guniq (gleaves nt) ->
  sn_get_single_cost_gen costv theta self c (sn_single_cost_fn_map_gen self c) ==
  sn_cost (cost_of costv c) (sp_shared c) (sn_full self) theta nt.
Proof.
  intros self nt c Hl Hu. rewrite sn_get_single_cost_gen_sum. unfold sn_cost, target_list.
  pose proof (single_map_gen_good self c nt Hu) as Hg. destruct (sp_shared c).
  - rewrite Hu. unfold guniq, euniq, entries, gleaves. apply uleaves_sum; [exact Hg|apply seen_rel_nil].
  - rewrite Hl. unfold entries, gleaves. apply leaves_sum. exact Hg.
Qed.

(* ---- the object: which specification, which maps, which full_cost *)
Definition cs_wf (cs : gcs) : Prop := match cs with CSingle _ => True | CDict d => NoDup (map fst d) end.   (* a dict has one entry per key *)
Definition resolve (cs : gcs) (name : option Z) : option gspec :=
  match cs, name with CSingle c, None => Some c | CDict d, Some n => zd_find d n | _, _ => None end.

Lemma create_single : forall self c, sn_spec self = CSingle c ->
  dnas_create_cost_fn_map_gen self = MSingle (sn_single_cost_fn_map_gen self c).
Proof. intros self c E. unfold dnas_create_cost_fn_map_gen. rewrite E. reflexivity. Qed.

Lemma create_dict : forall self d, sn_spec self = CDict d ->
  exists fm, dnas_create_cost_fn_map_gen self = MDict fm /\
             (NoDup (map fst d) -> forall n, zd_find fm n = option_map (sn_single_cost_fn_map_gen self) (zd_find d n)).
Proof.
  intros self d E. unfold dnas_create_cost_fn_map_gen. rewrite E. cbv zeta. eexists. split; [reflexivity|].
  intros Hnd n.
  rewrite (fold_left_ext _ (fun m it => zd_set m (fst it) (sn_single_cost_fn_map_gen self (snd it)))) by (intros a [k c]; reflexivity).
  rewrite zd_find_build by exact Hnd. destruct (zd_find d n); reflexivity.
Qed.

(* _create_cost_fn_map reads the specification and the unique leaf list, nothing else (in particular not full_cost) *)
Lemma create_reads : forall a b, sn_spec a = sn_spec b -> sn_ulm a = sn_ulm b ->
  dnas_create_cost_fn_map_gen a = dnas_create_cost_fn_map_gen b.
Proof.
  intros a b Es Eu.
  assert (Hs : forall c, sn_single_cost_fn_map_gen a c = sn_single_cost_fn_map_gen b c) by (intro c; rewrite !single_map_gen_fold, Eu; reflexivity).
  unfold dnas_create_cost_fn_map_gen. rewrite Es. destruct (sn_spec b) as [c|d]; cbv zeta.
  - rewrite Hs. reflexivity.
  - f_equal. apply fold_left_ext. intros m [k c]. rewrite Hs. reflexivity.
Qed.

Definition sn_inv (nt : net) (self : gsn) : Prop :=
  sn_lm self = gleaves nt /\ sn_ulm self = guniq (gleaves nt) /\ sn_maps self = dnas_create_cost_fn_map_gen self.

(* SuperNet.__init__ (after DNAS.__init__): leaf lists from convert, THEN the maps, full_cost as given *)
Lemma init_facts : forall self0 nt cs full, let self := sn_init_gen self0 (convert_import nt) cs full in
  sn_spec self = cs /\ sn_full self = full /\ sn_inv nt self.
Proof.
  intros self0 nt cs full self. split; [reflexivity|]. split; [reflexivity|].
  split; [reflexivity|]. split; [reflexivity|]. apply create_reads; reflexivity.
Qed.

(* the cost_specification setter: the new specification, THEN the maps rebuilt from it *)
Lemma set_spec_facts : forall nt self cs, sn_inv nt self -> let self' := sn_set_cost_specification_gen self cs in
  sn_spec self' = cs /\ sn_full self' = sn_full self /\ sn_inv nt self'.
Proof.
  intros nt self cs [Hl [Hu Hm]] self'. split; [reflexivity|]. split; [reflexivity|].
  split; [exact Hl|]. split; [exact Hu|]. apply create_reads; reflexivity.
Qed.

(* `sn.full_cost = b` on the live object *)
Lemma set_full_facts : forall nt self b, sn_inv nt self -> let self' := with_full self b in
  sn_spec self' = sn_spec self /\ sn_full self' = b /\ sn_inv nt self'.
Proof.
  intros nt self b [Hl [Hu Hm]] self'. split; [reflexivity|]. split; [reflexivity|].
  split; [exact Hl|]. split; [exact Hu|]. cbn [self' with_full sn_maps]. rewrite Hm. apply create_reads; reflexivity.
Qed.

Definition op_wf (op : snop) : Prop := match op with OSetFull _ => True | OSetSpec cs => cs_wf cs end.
Fixpoint last_spec (cs : gcs) (ops : list snop) : gcs :=
  match ops with [] => cs | OSetSpec cs' :: r => last_spec cs' r | OSetFull _ :: r => last_spec cs r end.
Fixpoint last_full (b : bool) (ops : list snop) : bool :=
  match ops with [] => b | OSetFull b' :: r => last_full b' r | OSetSpec _ :: r => last_full b r end.

Lemma run_facts : forall nt ops self, sn_inv nt self -> cs_wf (sn_spec self) -> Forall op_wf ops ->
  let self' := sn_run self ops in
  sn_spec self' = last_spec (sn_spec self) ops /\ sn_full self' = last_full (sn_full self) ops /\ sn_inv nt self' /\ cs_wf (sn_spec self').
Proof.
  intros nt. induction ops as [|op ops IH]; intros self Hi Hw Ho; cbn [sn_run fold_left last_spec last_full]; [auto|].
  inversion Ho as [|? ? Hop Hops]; subst. destruct op as [b|cs]; cbn [sn_step].
  - destruct (set_full_facts nt self b Hi) as [Es [Ef Hi']]. specialize (IH _ Hi'). rewrite Es, Ef in IH. apply IH; assumption.
  - destruct (set_spec_facts nt self cs Hi) as [Es [Ef Hi']]. specialize (IH _ Hi'). rewrite Es, Ef in IH. apply IH; assumption.
Qed.

(* DNAS.get_cost on an object whose maps are the ones built for its specification *)
Theorem dnas_get_cost_gen_inv : forall nt self name c, sn_inv nt self -> cs_wf (sn_spec self) ->
  resolve (sn_spec self) name = Some c ->
  exists v, dnas_get_cost_gen costv theta self name = Some v /\
            v == sn_cost (cost_of costv c) (sp_shared c) (sn_full self) theta nt.
Proof.
  intros nt self name c [Hl [Hu Hm]] Hwf Hr. unfold dnas_get_cost_gen.
  destruct name as [n|]; destruct (sn_spec self) as [c0|d] eqn:Es; cbn [resolve] in Hr; try discriminate.
  - destruct (create_dict self d Es) as [fm [Ec Hf]]. cbn [cs_wf] in Hwf.
    rewrite ?Hr, ?Hm, ?Ec. cbn beta iota. rewrite ?(Hf Hwf n), ?Hr. cbn [option_map].
    eexists. split; [reflexivity|]. apply sn_get_single_cost_gen_eq; assumption.
  - injection Hr as ->. rewrite ?Hm, ?(create_single self c Es). cbn beta iota.
    eexists. split; [reflexivity|]. apply sn_get_single_cost_gen_eq; assumption.
Qed.

Theorem dnas_get_cost_gen_none : forall nt self name, sn_inv nt self -> cs_wf (sn_spec self) ->
  resolve (sn_spec self) name = None -> dnas_get_cost_gen costv theta self name = None.
Proof.
  intros nt self name [Hl [Hu Hm]] Hwf Hr. unfold dnas_get_cost_gen.
  destruct name as [n|]; destruct (sn_spec self) as [c0|d] eqn:Es; cbn [resolve] in Hr; try discriminate;
    cbn beta iota; rewrite ?Hr;
    repeat match goal with |- context [match ?x with _ => _ end] => destruct x end; reflexivity.
Qed.
End Main.

(* ================================================================== the sentences of C06, about the generated code *)
(* the object as the generated constructor builds it from what convert() returns for the network, after any sequence of
   later assignments to full_cost / cost_specification *)
Definition live (nt : net) (cs0 : gcs) (full0 : bool) (ops : list snop) : gsn :=
  sn_run (sn_init_gen sn_blank (convert_import nt) cs0 full0) ops.

Section Sentences.
Variable costv : Z -> Z -> Z -> Z -> nat -> Q.

(* get_cost(name) = the hand model's cost, for the functions and the `shared` flag of the specification in force under
   that name and the value full_cost has NOW, whatever the coefficients are at the time of the call *)
Theorem gen_get_cost_eq : forall theta nt cs0 full0 ops name c, cs_wf cs0 -> Forall op_wf ops ->
  resolve (last_spec cs0 ops) name = Some c ->
  exists v, dnas_get_cost_gen costv theta (live nt cs0 full0 ops) name = Some v /\
            v == sn_cost (cost_of costv c) (sp_shared c) (last_full full0 ops) theta nt.
Proof.
  intros theta nt cs0 full0 ops name c Hw Ho Hr. unfold live.
  destruct (init_facts sn_blank nt cs0 full0) as [Es [Ef Hi]].
  destruct (run_facts nt ops _ Hi (eq_ind_r cs_wf Hw Es) Ho) as [Es' [Ef' [Hi' Hw']]].
  rewrite Es in Es'. rewrite Ef in Ef'. rewrite <- Es' in Hr. rewrite <- Ef'.
  apply dnas_get_cost_gen_inv; assumption.
Qed.

(* a name that does not designate a specification (get_cost() with a dictionary, get_cost('x') with a single
   specification or an unknown key): the assertion / the lookup fails *)
Theorem gen_get_cost_raises : forall theta nt cs0 full0 ops name, cs_wf cs0 -> Forall op_wf ops ->
  resolve (last_spec cs0 ops) name = None -> dnas_get_cost_gen costv theta (live nt cs0 full0 ops) name = None.
Proof.
  intros theta nt cs0 full0 ops name Hw Ho Hr. unfold live.
  destruct (init_facts sn_blank nt cs0 full0) as [Es [Ef Hi]].
  destruct (run_facts nt ops _ Hi (eq_ind_r cs_wf Hw Es) Ho) as [Es' [Ef' [Hi' Hw']]].
  rewrite Es in Es'. rewrite <- Es' in Hr. eapply dnas_get_cost_gen_none; eassumption.
Qed.

(* the `cost` property *)
Theorem gen_cost_property : forall theta self, dnas_cost_gen costv theta self = dnas_get_cost_gen costv theta self None.
Proof. reflexivity. Qed.

(* sentence 1: the coefficient-weighted mix of the branch costs, plus the fixed layers with full_cost *)
Theorem gen_cost_is_weighted_mix : forall theta nt cs0 full0 ops name c, cs_wf cs0 -> Forall op_wf ops ->
  resolve (last_spec cs0 ops) name = Some c ->
  let cost := cost_of costv c in
  exists v, dnas_get_cost_gen costv theta (live nt cs0 full0 ops) name = Some v /\
    v == qsum (map (fun e => match e with ECombiner b brs => dot (theta b) (map (branch_cost cost) brs) | ELayer _ _ => 0 end)
                   (target_list (sp_shared c) nt))
         + (if last_full full0 ops then fixed_cost cost (sp_shared c) nt else 0).
Proof.
  intros theta nt cs0 full0 ops name c Hw Ho Hr cost.
  destruct (gen_get_cost_eq theta nt cs0 full0 ops name c Hw Ho Hr) as [v [E Hv]]. exists v. split; [exact E|].
  rewrite Hv. fold cost. destruct (last_full full0 ops).
  - rewrite sn_cost_full_adds_fixed, sn_cost_is_weighted_mix. reflexivity.
  - rewrite sn_cost_is_weighted_mix. ring.
Qed.

(* sentence 2: between the cheapest and the most expensive selection (same object, other coefficients) *)
Theorem gen_cost_convex : forall theta nt cs0 full0 ops name c, cs_wf cs0 -> Forall op_wf ops ->
  resolve (last_spec cs0 ops) name = Some c -> blocks_consistent nt -> coeffs_ok theta nt ->
  let cost := cost_of costv c in let self := live nt cs0 full0 ops in
  exists lo v hi,
    dnas_get_cost_gen costv (hard_sel nt (cheapest cost nt)) self name = Some lo /\
    dnas_get_cost_gen costv theta self name = Some v /\
    dnas_get_cost_gen costv (hard_sel nt (dearest cost nt)) self name = Some hi /\ lo <= v /\ v <= hi.
Proof.
  intros theta nt cs0 full0 ops name c Hw Ho Hr Hc Hth cost self.
  destruct (gen_get_cost_eq (hard_sel nt (cheapest cost nt)) nt cs0 full0 ops name c Hw Ho Hr) as [lo [El Hl]].
  destruct (gen_get_cost_eq theta nt cs0 full0 ops name c Hw Ho Hr) as [v [Ev Hv]].
  destruct (gen_get_cost_eq (hard_sel nt (dearest cost nt)) nt cs0 full0 ops name c Hw Ho Hr) as [hi [Eh Hh]].
  exists lo, v, hi. repeat (split; [assumption|]). rewrite Hl, Hv, Hh.
  apply sn_cost_convex; assumption.
Qed.

Theorem gen_cost_selection_bounds : forall win nt cs0 full0 ops name c, cs_wf cs0 -> Forall op_wf ops ->
  resolve (last_spec cs0 ops) name = Some c -> blocks_consistent nt -> winners_ok win nt ->
  let cost := cost_of costv c in let self := live nt cs0 full0 ops in
  exists lo v hi,
    dnas_get_cost_gen costv (hard_sel nt (cheapest cost nt)) self name = Some lo /\
    dnas_get_cost_gen costv (hard_sel nt win) self name = Some v /\
    dnas_get_cost_gen costv (hard_sel nt (dearest cost nt)) self name = Some hi /\ lo <= v /\ v <= hi.
Proof.
  intros win nt cs0 full0 ops name c Hw Ho Hr Hc Hwin cost self.
  destruct (gen_get_cost_eq (hard_sel nt (cheapest cost nt)) nt cs0 full0 ops name c Hw Ho Hr) as [lo [El Hl]].
  destruct (gen_get_cost_eq (hard_sel nt win) nt cs0 full0 ops name c Hw Ho Hr) as [v [Ev Hv]].
  destruct (gen_get_cost_eq (hard_sel nt (dearest cost nt)) nt cs0 full0 ops name c Hw Ho Hr) as [hi [Eh Hh]].
  exists lo, v, hi. repeat (split; [assumption|]). rewrite Hl, Hv, Hh.
  apply sn_cost_selection_bounds; assumption.
Qed.

(* sentence 3: under hard selection of the branches export() keeps (best_layer_index of every combiner), the cost is the
   same metric computed from scratch on the exported network *)
Theorem gen_cost_hard_eq_export : forall alpha inb nt e cs0 full0 ops name c, cs_wf cs0 -> Forall op_wf ops ->
  resolve (last_spec cs0 ops) name = Some c ->
  let cost := cost_of costv c in let win := fun b => comb_best_layer_index_gen (alpha b) in
  site_independent cost -> blocks_consistent nt -> names_ok inb nt ->
  (if sp_shared c then blocks_disjoint nt else winners_nodup win nt) ->
  sn_export win nt = Some e ->
  exists v, dnas_get_cost_gen costv (hard_sel nt win) (live nt cs0 full0 ops) name = Some v /\
            v == plain_cost cost (sp_shared c) (last_full full0 ops) inb (fixed_layers e).
Proof.
  intros alpha inb nt e cs0 full0 ops name c Hw Ho Hr cost win Hs Hc Hn Hd He.
  destruct (gen_get_cost_eq (hard_sel nt win) nt cs0 full0 ops name c Hw Ho Hr) as [v [Ev Hv]].
  exists v. split; [exact Ev|]. rewrite Hv. fold cost. destruct (sp_shared c).
  - apply sn_cost_hard_eq_export_cost_shared; assumption.
  - apply sn_cost_hard_eq_export_cost_per_call; assumption.
Qed.
End Sentences.

(* the open finding is a behaviour of the generated code too: without call-site independence a block invoked at two
   resolutions is charged twice the cost of its first call site *)
Theorem gen_cost_site_dependent_refuted : exists costv inb win nt e c v,
  blocks_consistent nt /\ names_ok inb nt /\ winners_nodup win nt /\ sn_export win nt = Some e /\ sp_shared c = false /\
  dnas_get_cost_gen costv (hard_sel nt win) (live nt (CSingle c) false []) None = Some v /\
  ~ v == plain_cost (cost_of costv c) false false inb (fixed_layers e).
Proof.
  destruct sn_cost_site_dependent_refuted as [cost [inb [win [nt [e [Hc [Hn [Hd [He Hne]]]]]]]]].
  set (costv := fun (_ _ _ i : Z) (s : nat) => cost i s). set (c := mkSpec 0 false).
  destruct (gen_get_cost_eq costv (hard_sel nt win) nt (CSingle c) false [] None c I (Forall_nil _) eq_refl) as [v [Ev Hv]].
  exists costv, inb, win, nt, e, c, v. repeat (split; [assumption || reflexivity|]).
  intro H. apply Hne. apply (Qeq_trans _ v); [apply Qeq_sym; exact Hv|exact H].
Qed.
