"""C04 — implementation side: one grammar network under PIT, its costs before / after pruning, the exported
network, its cost computed from scratch, PIT(exported) at initialisation, numel of the exported parameters.
Everything returned is JSON-able; exceptions are observations."""
import random, traceback, math, os
from . import c04_net as cn
from . import pitmask as pm

SPEC_NAMES_1D = ['params', 'params_no_bias', 'ops', 'ops_no_bias']
SPEC_NAMES_2D = ['params', 'params_no_bias', 'ops', 'ops_no_bias', 'gap8_latency']


def get_specs(names):
    import plinio.cost as pc
    return {n: getattr(pc, n) for n in names}


# ----------------------------------------------------------------------------- from-scratch cost of a plain network
def plain_sites(torch, nn, model, xs):
    """forward the model with hooks: {module name: [output shape per invocation, in call order]} for conv/linear"""
    sites = {}
    hooks = []
    for nm, mod in model.named_modules():
        if type(mod) in (nn.Conv1d, nn.Conv2d, nn.Linear):
            sites[nm] = []
            hooks.append(mod.register_forward_hook(lambda m, i, o, nm=nm: sites[nm].append(list(o.shape))))
    with torch.no_grad():
        y = model(*xs)
    for h in hooks:
        h.remove()
    return sites, list(y.shape)


def plain_cost(torch, nn, model, sites, spec, names, generic_for=()):
    """the metric computed from scratch on a plain nn.Module: the spec's own lookup on the layer's own (static)
    attributes, applied to those attributes (sizes as 0-d tensors, like PIT hands them over) + output shape;
    shared specs count a layer once (first invocation), the others once per invocation; `names` = layers counted"""
    tot = 0.0
    for nm, mod in model.named_modules():
        if nm not in sites or nm not in names or not sites[nm]:
            continue
        lv = vars(mod)
        if nm in generic_for:          # look the function up as if the layer did not satisfy conv_dw_constraint
            lv = dict(lv, groups=-1)
        fn = spec[(type(mod), lv)]
        for shp in (sites[nm][:1] if spec.shared else sites[nm]):
            v = dict(vars(mod))
            for k in ('in_channels', 'out_channels', 'in_features', 'out_features'):
                if k in v:
                    v[k] = torch.tensor(float(v[k]))
            v['output_shape'] = tuple(shp)
            tot += float(fn(v))
    return tot


# ----------------------------------------------------------------------------- independent reference of the five metrics
REF_SHARED = {'params': True, 'params_no_bias': True, 'ops': False, 'ops_no_bias': False, 'gap8_latency': True}


def _cdiv(a, n):
    return (a + n - 1) // n


def ref_layer_cost(name, L, shp):
    """integer reference of one metric on one plain layer (attributes `L`, full output shape `shp`), written from the
    documented meaning of the cost models and kept in step with Model/PitCost.v: output_shape[2] is the first
    spatial axis (rows); GAP8 iterates ceil(rows/2) * ceil(columns/8) times over a regular convolution"""
    kind, cin, cout, ks, b = L['kind'], L['cin'], L['cout'], L['ks'], (1 if L['bias'] else 0)
    dw = kind != 'linear' and L['groups'] == cin and L['groups'] == cout
    sp = list(shp[2:])
    kprod = 1
    for k in ks:
        kprod *= k
    spatial = 1
    for d in sp:
        spatial *= d
    if name in ('params', 'ops'):
        c = cout * (cin + b) if kind == 'linear' else (cin * (kprod + b) if dw else cout * (cin * kprod + b))
        return c * (spatial if (name == 'ops' and kind != 'linear') else 1)
    if name in ('params_no_bias', 'ops_no_bias'):
        c = cin * cout if kind == 'linear' else (cin * kprod if dw else cin * cout * kprod)
        return c * (spatial if (name == 'ops_no_bias' and kind != 'linear') else 1)
    if name == 'gap8_latency':
        if kind == 'linear':
            return _cdiv(cin, 2) * _cdiv(cout, 4)
        if kind == 'conv1d':
            return 0
        if dw:
            return 4 * _cdiv(cout, 4) * sp[0] * sp[1] * kprod
        return _cdiv(sp[0], 2) * _cdiv(sp[1], 8) * (kprod * cin * 2 + _cdiv(cout, 4) * (5 + _cdiv(kprod * cin, 4) * 14 + 10))
    raise KeyError(name)


def ref_cost(name, layers, counted):
    """layers: {module name: attrs + 'sites'}"""
    tot = 0
    for nm, L in layers.items():
        if nm in counted and L['sites']:
            for shp in (L['sites'][:1] if REF_SHARED[name] else L['sites']):
                tot += ref_layer_cost(name, L, shp)
    return tot


def layer_attrs(nn, mod):
    if isinstance(mod, nn.Linear):
        return {'kind': 'linear', 'cin': mod.in_features, 'cout': mod.out_features, 'ks': [], 'groups': 1, 'bias': mod.bias is not None}
    return {'kind': 'conv1d' if isinstance(mod, nn.Conv1d) else 'conv2d', 'cin': mod.in_channels, 'cout': mod.out_channels,
            'ks': list(mod.kernel_size), 'groups': mod.groups, 'bias': mod.bias is not None}


def numel_of(nn, mod):
    return mod.weight.numel() + (mod.bias.numel() if mod.bias is not None else 0)


def degenerate_layers(o):
    """FULL convolutions (not groups == in == out before the search) whose exported version has
    groups == in_channels == out_channels (1 -> 1 channels)"""
    out = []
    for L in o.get('layers', []):
        e = o.get('exported', {}).get(L['name'])
        if L['search'] and e and L['kind'] != 'linear' and not (L['groups'] == L['cin'] == L['cout']) and e['cin'] == e['cout'] == e['groups']:
            out.append(L['name'])
    return out


# ----------------------------------------------------------------------------- calculators as terms
def calc_term(c, mod_index):
    from plinio.graph.features_calculation import ConstFeaturesCalculator, ModAttrFeaturesCalculator, FlattenFeaturesCalculator, ConcatFeaturesCalculator
    if isinstance(c, ConstFeaturesCalculator):
        return ['const', int(c.const)]
    if isinstance(c, ModAttrFeaturesCalculator):
        return ['mod', mod_index[id(c.mod)]]
    if isinstance(c, FlattenFeaturesCalculator):
        return ['flat', calc_term(c.prev, mod_index), int(c.multiplier)]
    if isinstance(c, ConcatFeaturesCalculator):
        return ['cat', [calc_term(i, mod_index) for i in c.inputs]]
    raise TypeError('unknown calculator %r' % (c,))


# ----------------------------------------------------------------------------- mask assignment
def set_masks(torch, rng, p, style, tpat):
    """random channel masks on every trainable alpha (shared maskers are one Parameter: set once), a binarized
    (receptive field, dilation) pattern on every trainable beta/gamma pair"""
    from plinio.methods.pit.nn import PITConv1d
    seen = set()
    with torch.no_grad():
        for nm, layer in p.seed.named_modules():
            fm = getattr(layer, 'out_features_masker', None)
            if fm is not None and fm.alpha.requires_grad and id(fm.alpha) not in seen:
                seen.add(id(fm.alpha))
                C = fm.alpha.numel()
                if style == 'min':
                    a = [0.0] * C
                elif style == 'one-dead':
                    a = [1.0] * C
                    a[rng.randrange(C)] = 0.25
                elif style == 'dyadic':
                    a = [rng.choice([0.0, 0.25, 0.75, 1.0, -1.0, rng.randint(-64, 64) / 64.0]) for _ in range(C)]
                else:
                    a = [rng.choice(pm.ADV) for _ in range(C)]
                fm.alpha.copy_(torch.tensor(a))
            if isinstance(layer, PITConv1d) and layer.timestep_masker.beta.requires_grad:
                K = layer.kernel_size[0]
                L = pm.glen(K)
                if tpat == 'random':
                    r, v = rng.randint(1, K), rng.randrange(L)
                elif tpat == 'min':
                    r, v = 1, L - 1
                else:
                    r, v = tpat(K, L)
                st = 'adv' if style in ('adv', 'dyadic') else 'plain'
                layer.timestep_masker.beta.copy_(torch.tensor(pm.beta_for(rng, K, r, st)))
                layer.dilation_masker.gamma.copy_(torch.tensor(pm.gamma_for(rng, K, v, st)))


def read_costs(p, names, single):
    out = {}
    for d in (False, True):
        p.discrete_cost = d
        if single:
            out['disc' if d else 'cont'] = {names[0]: float(p.cost), names[0] + '/get_cost': float(p.get_cost())}
        else:
            out['disc' if d else 'cont'] = {n: float(p.get_cost(n)) for n in names}
    return out


SWITCHES = ['nothing', 'train_net_only', 'train_nas_only', 'train_net_and_nas', 'train_features=False', 'train_rf=False',
            'train_dilation=False', 'train_rf=train_dilation=False', 'all-trainable-again']


def switch(p, rng, log, where):
    """one random trainability switch (the property's equalities must hold however these stand: a mask that is
    not being trained is still binarized and applied by export)"""
    a = rng.choice(SWITCHES)
    if a in ('train_net_only', 'train_nas_only', 'train_net_and_nas'):
        getattr(p, a)()
    elif a == 'train_features=False':
        p.train_features = False
    elif a == 'train_rf=False':
        p.train_rf = False
    elif a == 'train_dilation=False':
        p.train_dilation = False
    elif a == 'train_rf=train_dilation=False':
        p.train_rf = False
        p.train_dilation = False
    elif a == 'all-trainable-again':
        p.train_features = True
        p.train_rf = True
        p.train_dilation = True
    log.append('%s:%s' % (where, a))


def inplace_updates(p, specs_all, rng, log):
    """the user's own metrics dictionary updated IN PLACE (a name rebound to another specification, a name added,
    a name deleted) and the very same object assigned again; every get_cost(name) is observed with both
    discrete_cost settings.  -> list of {'step', 'metric', 'spec', 'cont', 'disc'} / {'step', 'exc'}"""
    all_names = list(specs_all)
    pick = lambda: rng.choice(all_names)
    out = []

    def observe(step, d, binding):
        try:
            p.cost_specification = d
            switch(p, rng, log, 'inplace-' + step)
            for metric in sorted(binding):
                rec = {'step': step, 'metric': metric, 'spec': binding[metric]}
                for dflag in (False, True):
                    p.discrete_cost = dflag
                    rec['disc' if dflag else 'cont'] = float(p.get_cost(metric))
                out.append(rec)
        except Exception as ex:
            out.append({'step': step, 'binding': dict(binding), 'exc': '%s: %s' % (type(ex).__name__, str(ex)[:200])})

    binding = {'size': pick(), 'latency': pick()}
    d = {m: specs_all[sn] for m, sn in binding.items()}
    observe('assigned', d, binding)
    # rebind both names (prefer a specification with another shared flag / other functions)
    for m in ('size', 'latency'):
        binding[m] = rng.choice([n for n in all_names if n != binding[m]])
        d[m] = specs_all[binding[m]]
    observe('rebound-same-object', d, binding)
    binding['extra'] = pick()
    d['extra'] = specs_all[binding['extra']]
    observe('name-added-same-object', d, binding)
    del binding['latency']
    del d['latency']
    observe('name-deleted-same-object', d, binding)
    return out


def flip_flags(p, rng, out, phase, names, single, swlog):
    """full_cost / discrete_cost changed AFTER construction (they are public, writable attributes read at every cost
    evaluation): three steps, the first toggles full_cost, the others toggle one of the flags or both; after every step
    (and, once the masks are set, a random trainability switch) every cost is observed.  The expected value is the
    cost for the CURRENT flags."""
    f, d = bool(p.full_cost), bool(p.discrete_cost)
    for step in range(3):
        which = 'full' if step == 0 else rng.choice(['full', 'disc', 'both'])
        if which in ('full', 'both'):
            f = not f
            p.full_cost = f
        if which in ('disc', 'both'):
            d = not d
            p.discrete_cost = d
        if swlog is not None:
            switch(p, rng, swlog, phase + '-flip')
        rec = {'phase': phase, 'full': f, 'disc': d, 'flag_full_read_back': bool(p.full_cost), 'flag_disc_read_back': bool(p.discrete_cost)}
        try:
            rec['costs'] = {names[0]: float(p.cost)} if single else {n: float(p.get_cost(n)) for n in names}
        except Exception as ex:
            rec['exc'] = '%s: %s' % (type(ex).__name__, str(ex)[:200])
        out.append(rec)


def respecify(p, specs_all, names, single, rng, log=None):
    """after the masks are set: re-assign the cost specification (the documented on-the-fly switch rebuilds the
    layer -> cost function map from the CURRENT layers) and re-observe every cost:
      same      the very same specification again
      switched  dict -> each single spec in turn (.cost) / single -> the dictionary of all specs (get_cost(name))
      back      the original specification again"""
    all_names = list(specs_all)
    orig = specs_all[names[0]] if single else {n: specs_all[n] for n in names}
    out = {}
    log = [] if log is None else log
    p.cost_specification = orig
    switch(p, rng, log, 'respec-same')
    out['same'] = read_costs(p, names, single)
    sw = {'cont': {}, 'disc': {}}
    switch(p, rng, log, 'respec-switched')
    if single:
        p.cost_specification = dict(specs_all)
        r = read_costs(p, all_names, False)
        sw = r
    else:
        for n in names:
            p.cost_specification = specs_all[n]
            r = read_costs(p, [n], True)
            for d in ('cont', 'disc'):
                sw[d][n] = r[d][n]
    out['switched'] = sw
    out['inplace'] = inplace_updates(p, specs_all, rng, log)
    p.cost_specification = orig
    switch(p, rng, log, 'respec-back')
    out['back'] = read_costs(p, names, single)
    return out


def stem_excludable(spec, s):
    """excluding a layer is only well-defined (C09) when nothing ties its output width to a prunable tensor:
    here the stem (fed by the network input) when its features reach no residual add and no depthwise conv"""
    p = cn._plain(spec)
    nodes = p['nodes']

    def origin(j):
        j = cn.ga.feeds_through_propagating(p, j)
        while nodes[j]['k'] in ('conv1d', 'conv2d') and nodes[j]['groups'] > 1:
            j = cn.ga.feeds_through_propagating(p, nodes[j]['src'])
        return j
    for nd in nodes:
        if nd['k'] == 'add' and any(origin(x) == s for x in nd['src']):
            return False
        if nd['k'] in ('conv1d', 'conv2d') and nd['groups'] > 1 and origin(nd['src']) == s:
            return False
    return True


def net_case(torch, seed, opts=None):
    """opts may force: spec (a grammar spec), style, single, full_cost, exclude, names, tpat"""
    import torch.nn as nn
    from plinio.methods import PIT
    from plinio.methods.pit.nn import PITConv1d, PITConv2d, PITLinear
    from plinio.methods.pit.nn.module import PITModule
    from plinio.methods.pit.nn.features_masker import PITFrozenFeaturesMasker
    opts = dict(opts or {})
    rng = random.Random(seed)
    spec = opts.get('spec') or cn.gen(rng, dim=rng.choice([1, 2]), conv_head=True, cmax=rng.choice([3, 6, 6]), p_twice=0.4, p_pflat=0.3, p_scat=0.35,
                                   weights=({'dw': 0.3, 'dwchain': 0.15} if rng.random() < 0.7 else {}))
    o = {'seed': seed, 'arch': cn.describe(spec), 'spec': spec, 'skip': (cn.skip_reason(spec) if os.environ.get('C04_SKIP_C09_TOPOLOGIES', '0') == '1' else None), 'fails': [], 'opts': {k: v for k, v in opts.items() if k != 'spec'}}
    if o['skip']:
        return o
    dim = spec['dim']
    all_names = SPEC_NAMES_1D if dim == 1 else SPEC_NAMES_2D
    single = opts.get('single', rng.random() < 0.3)
    names = opts.get('names') or ([rng.choice(all_names)] if single else list(all_names))
    full = opts.get('full_cost', rng.random() < 0.5)
    style = opts.get('style') or rng.choice(['adv', 'dyadic', 'min', 'one-dead', 'adv'])
    tpat = opts.get('tpat', 'random' if style != 'min' else 'min')
    dc0 = rng.random() < 0.5
    cl = [i for i, nd in enumerate(spec['nodes']) if nd['k'] in ('conv1d', 'conv2d', 'linear')]
    if 'exclude' in opts:
        excl = list(opts['exclude'])
    else:
        excl = [cn.ga.name(cl[0])] if (rng.random() < 0.35 and stem_excludable(spec, cl[0])) else []
    o.update(single=single, names=names, full_cost=full, style=style, exclude=excl, dim=dim, discrete_at_init=dc0)
    try:
        specs_all = get_specs(all_names)
        specs = {n: specs_all[n] for n in names}
        cost_arg = specs[names[0]] if single else specs
        m = cn.build(spec, seed=seed).eval()
        xs = cn.ga.example_input(spec, torch, seed)
        sites0, yshape0 = plain_sites(torch, nn, m, xs)
        orig_layers = {nm: dict(layer_attrs(nn, mod), sites=sites0[nm]) for nm, mod in m.named_modules() if nm in sites0}
        p = PIT(m, cost=cost_arg, input_shape=tuple(spec['input_shape']), discrete_cost=dc0, full_cost=full, exclude_names=excl)
        p.eval()
        o['discrete_flag_after_init'] = p.discrete_cost
        # --- the layers as PIT sees them
        # (read from the converted graph, NOT from PIT's own leaf-module lists: those are what is being checked)
        calls = [(str(nd.target), nd) for nd in p.seed.graph.nodes if nd.op == 'call_module']
        uniq, seen_l = [], set()
        for ln, nd in calls:
            layer = p.seed.get_submodule(ln)
            if isinstance(layer, (nn.Conv1d, nn.Conv2d, nn.Linear)) and ln not in seen_l:
                seen_l.add(ln)
                uniq.append((ln, layer))
        mod_index = {id(layer): i for i, (ln, layer) in enumerate(uniq)}
        counted_by = {True: [ln for ln, layer in uniq], False: [ln for ln, layer in uniq if isinstance(layer, PITModule)]}
        counted = counted_by[full]
        o['counted'] = counted
        fkey = lambda f: 'full' if f else 'nas'
        o['orig_plain_by'] = {fkey(f): {n: plain_cost(torch, nn, m, sites0, specs_all[n], counted_by[f]) for n in all_names} for f in (True, False)}
        o['orig_plain'] = o['orig_plain_by'][fkey(full)]
        o['orig_ref'] = {n: ref_cost(n, orig_layers, counted) for n in all_names}
        o['open'] = read_costs(p, names, single)
        o['flips'] = []
        flip_flags(p, rng, o['flips'], 'open', names, single, None)
        p.full_cost, p.discrete_cost = full, dc0
        # no layer converted at all (autoconvert off): every conv / linear is a static layer, full_cost decides everything
        try:
            import copy
            pn = PIT(copy.deepcopy(m), cost=cost_arg, input_shape=tuple(spec['input_shape']), autoconvert_layers=False, discrete_cost=dc0, full_cost=full)
            pn.eval()
            o['noauto'] = []
            for f in ((full, not full, full) if rng.random() < 0.5 else (not full, full)):
                pn.full_cost = f
                pn.discrete_cost = rng.random() < 0.5
                r = read_costs(pn, names, single)
                o['noauto'].append({'full': f, 'costs': r['disc'], 'costs_cont': r['cont']})
        except Exception as ex:
            o['noauto_exc'] = '%s: %s' % (type(ex).__name__, str(ex)[:200])
        set_masks(torch, rng, p, style, tpat)
        o['switches'] = []
        switch(p, rng, o['switches'], 'pruned')
        o['pruned'] = read_costs(p, names, single)
        o['respec'] = respecify(p, specs_all, names, single, rng, o['switches'])
        # a PIT wrapper constructed when the masks are ALREADY pruned: the converted seed wrapped again without
        # auto-conversion (its layer -> cost function map is created after the pruning)
        try:
            import copy
            p2 = PIT(copy.deepcopy(p.seed), cost=cost_arg, input_shape=tuple(spec['input_shape']), autoconvert_layers=False, discrete_cost=True, full_cost=full, exclude_names=excl)
            p2.eval()
            switch(p2, rng, o['switches'], 'rewrap')
            o['rewrap'] = read_costs(p2, names, single)
        except Exception as ex:
            o['rewrap_exc'] = '%s: %s' % (type(ex).__name__, str(ex)[:200])
        flip_flags(p, rng, o['flips'], 'pruned', names, single, o['switches'])
        p.full_cost, p.discrete_cost = full, dc0
        summ = p.summary()
        layers = []
        for ln, layer in uniq:
            L = dict(layer_attrs(nn, layer), name=ln, search=isinstance(layer, PITModule),
                     sites=[list(nd.meta['tensor_meta'].shape) for l2, nd in calls if l2 == ln])
            if L['search']:
                fm = layer.out_features_masker
                L['afrozen'] = isinstance(fm, PITFrozenFeaturesMasker)
                L['alpha'] = [float(v) for v in fm.alpha.detach()]
                L['calc'] = calc_term(layer.input_features_calculator, mod_index)
                L['summary'] = {k: (list(v) if isinstance(v, tuple) else v) for k, v in summ[ln].items() if k != 'type'}
                if isinstance(layer, PITConv1d):
                    L['beta'] = [float(v) for v in layer.timestep_masker.beta.detach()]
                    L['gamma'] = [float(v) for v in layer.dilation_masker.gamma.detach()]
            layers.append(L)
        o['layers'] = layers
        # --- export, cost from scratch, re-import
        switch(p, rng, o['switches'], 'export')
        e = p.export()
        e.eval()
        sites1, yshape1 = plain_sites(torch, nn, e, xs)
        o['out_shapes'] = [yshape0, yshape1]
        exp_layers = {}
        for nm, mod in e.named_modules():
            if nm in sites1:
                exp_layers[nm] = dict(layer_attrs(nn, mod), sites=sites1[nm], numel=numel_of(nn, mod))
        o['exported'] = exp_layers
        o['exp_plain_by'] = {fkey(f): {n: plain_cost(torch, nn, e, sites1, specs_all[n], counted_by[f]) for n in all_names} for f in (True, False)}
        o['exp_plain_generic_by'] = {fkey(f): {n: plain_cost(torch, nn, e, sites1, specs_all[n], counted_by[f], generic_for=degenerate_layers(o)) for n in all_names} for f in (True, False)}
        o['exp_plain'] = o['exp_plain_by'][fkey(full)]
        o['exp_ref'] = {n: ref_cost(n, exp_layers, counted) for n in all_names}
        o['degenerate'] = degenerate_layers(o)
        o['exp_plain_generic'] = {n: plain_cost(torch, nn, e, sites1, specs_all[n], counted, generic_for=o['degenerate']) for n in all_names}
        o['dw_pruned'] = [L['name'] for L in layers if L['search'] and L['kind'] != 'linear' and L['groups'] > 1 and L['groups'] == L['cin'] == L['cout'] and L['summary']['out_features'] < L['cout']]
        o['exp_numel'] = sum(v['numel'] for nm, v in exp_layers.items() if nm in counted)
        pe = PIT(e, cost=cost_arg, input_shape=tuple(spec['input_shape']), discrete_cost=dc0, full_cost=full, exclude_names=excl)
        pe.eval()
        o['reimport'] = read_costs(pe, names, single)
    except Exception as ex:
        o['fails'].append(('exception', '%s: %s' % (type(ex).__name__, str(ex)[:300])))
        o['trace'] = traceback.format_exc()[-1800:]
    return o
