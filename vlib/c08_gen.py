"""C08 — second tie, by translation (DESIGN.md §13, "Second tie, by translation").

translator/masks2coq.py reads the source of the PIT maskers (features / timestep / dilation and their Frozen variants),
of PITBinarizer.forward and of the mask-derived quantities of PITConv1d / PITConv2d / PITLinear of the tree under test and
writes coq/Gen/MasksGen.v; coq/Proofs/MasksGen.v proves the generated functions equal to Model/Masks.v for every kernel
size and every parameter vector of the right length, Props/C08.v states the C08_generated_* theorems.
This module is what vlib/c08.py needs:

    rej = c08_gen.regenerate(ctx)                 # BEFORE ctx.build(); None, or why the translator refused the source
    ...
    gvals = ctx.coq_eval_sharded('gmasks', c08_gen.IMPORTS, '', c08_gen.gen_exprs(exprs), shard=400)
    mism += c08_gen.differences(exprs, vals, gvals)   # the generated model next to the hand model, same cases
    ...
    c08_gen.report(ctx, rej, built)               # 'translator-rejected ... no-failing-input-found'
"""
import os
import re
from .common import COQ, REPO, write_if_changed
from translator import masks2coq

GEN_V = os.path.join(COQ, 'Gen', 'MasksGen.v')
IMPORTS = ['Plinio.Model.Masks', 'Plinio.Gen.MasksGen']
TRANSLATOR = 'translator/masks2coq.py'
SOURCE = 'plinio/methods/pit/nn/{binarizer,features_masker,timestep_masker,dilation_masker,conv1d,conv2d,linear}.py'


def regenerate(ctx=None, repo=None):
    """translate the maskers of the tree under test into Gen/MasksGen.v (written only when it changed).
    -> None, or the reason why the translator refused the source (the file then fails on purpose)"""
    try:
        text, rej = masks2coq.translate_repo(repo or REPO), None
    except (masks2coq.Reject, SyntaxError, OSError, RecursionError) as e:
        rej = '%s: %s' % (type(e).__name__, e)
        text = ('(* %s REFUSED %s of the tree under test:\n   %s\n   no model of the current code exists; this file fails on purpose. *)\n'
                'Definition translator_rejected : True := 0.\n' % (TRANSLATOR, SOURCE, rej.replace('*)', '* )').replace('(*', '( *')))
    write_if_changed(GEN_V, text)
    if ctx is not None and rej:
        ctx.notes.append('generated model: the translator refused the source: ' + rej)
    return rej


def status(rej, built):
    """the `generated_model` entry of the evidence file"""
    return {'file': 'coq/Gen/MasksGen.v', 'translator': TRANSLATOR, 'source': SOURCE,
            'status': 'refused: ' + rej if rej else 'regenerated; equal to the hand model for every K and every parameter vector, every tensor operation defined (C08_generated_*)' if built
            else 'regenerated; obligations do not check'}


_MASKS = re.compile(r'\brun_masks true ')
_ALPHA = re.compile(r'\brun_alpha ')


def gen_expr(e):
    """the expression of the hand model -> the same case run with the generated functions
    (run_masks true K d0 beta gamma -> run_masks_gen K d0 beta gamma ; run_alpha a -> run_alpha_gen a); None if it has no counterpart.
    Domain of the equality theorems (C08_generated_masks_are_model / _alpha_is_model): K >= 1, len(beta) = K,
    len(gamma) = gamma_len K, alpha non-empty -- every case of vlib/c08.py and vlib/pitmask.py is of that kind."""
    if 'run_masks false' in e or not (_MASKS.search(e) or _ALPHA.search(e)):
        return None
    return _ALPHA.sub('run_alpha_gen ', _MASKS.sub('run_masks_gen ', e))


def gen_exprs(exprs):
    return [g for g in map(gen_expr, exprs) if g is not None]


def alpha2_exprs(exprs):
    """PITConv2d / PITLinear: (features_mask, out_features_opt) of both classes for the same alpha"""
    return [_ALPHA.sub('run_alpha2_gen ', e) for e in exprs if e.startswith('run_alpha ')]


def differences(exprs, vals, gvals, limit=3):
    """[(case description, {'hand': .., 'generated': ..})] for every case on which the generated and the hand-written model differ"""
    idx = [k for k, e in enumerate(exprs) if gen_expr(e) is not None]
    if len(idx) != len(gvals):
        return [({'generated model': '%d values for %d cases' % (len(gvals), len(idx))}, {})]
    bad = [(k, gv) for k, gv in zip(idx, gvals) if vals[k] != gv]
    return [({'expr': gen_expr(exprs[k])[:600], 'n_cases_differing': len(bad)}, {'model': str(vals[k])[:300], 'generated_model': str(gv)[:300]}) for k, gv in bad[:limit]]


def differences2(exprs, vals, g2vals, limit=3):
    """run_alpha2_gen (conv2d, linear) against run_alpha of the hand model"""
    idx = [k for k, e in enumerate(exprs) if e.startswith('run_alpha ')]
    if len(idx) != len(g2vals):
        return [({'generated model (2d / linear)': '%d values for %d cases' % (len(g2vals), len(idx))}, {})]
    # Coq prints the left-nested pair ((m, n), (m', n')) as (m, n, (m', n'))
    bad = [(k, gv) for k, gv in zip(idx, g2vals) if tuple(gv) != (vals[k][0], vals[k][1], vals[k])]
    return [({'expr': exprs[k][:600].replace('run_alpha ', 'run_alpha2_gen '), 'n_cases_differing': len(bad)}, {'model': str(vals[k])[:300], 'generated_model': str(gv)[:300]}) for k, gv in bad[:limit]]


def report(ctx, rej, built):
    """translator-rejected wording for the final verdict; True if a violation was filed"""
    if built or ctx.violations or not rej:
        return False
    ctx.violation('translator-rejected', {'translator': TRANSLATOR, 'source': SOURCE, 'reason': rej, 'theorems': [o[0] for o in ctx.obligations if not o[1]]},
                  'the source of the PIT maskers / mask-derived layer quantities is outside the subset the translator accepts (%s): no generated model, the C08_generated_* theorems are not established' % rej[:300],
                  no_input=True)
    return True
