"""C19 — regularizers (DESIGN.md §C19).  Theorems: coq/Props/C19.v over coq/Model/Duccio.v.

Correspondence: DUCCIO / BaseRegularizer of /repo on stub models (chosen costs) and real PIT models,
for ALL (epoch, n_epochs) with 0 <= epoch <= n_epochs <= 50, strengths given or derived from the
task loss, costs above / at / below target; value, derived strengths and d(value)/d(cost) are
compared with the exact rational model evaluated in Coq.  Oracle: the sentences of the property
evaluated directly on the implementation.
"""
import math
from .common import *
from translator import duccio2coq

GEN_V = os.path.join(COQ, 'Gen', 'DuccioGen.v')


def regenerate(ctx):
    """translate DUCCIO.__call__ / BaseRegularizer.__call__ of the tree under test into Gen/DuccioGen.v (written only when it
    changed).  -> None, or the reason why the translator refused the source (the file then fails on purpose)"""
    try:
        text, rej = duccio2coq.translate_repo(REPO), None
    except (duccio2coq.Reject, SyntaxError, OSError) as e:
        rej = '%s: %s' % (type(e).__name__, e)
        text = ('(* translator/duccio2coq.py REFUSED plinio/regularizers of the tree under test:\n   %s\n   no model of the current code exists; this file fails on purpose. *)\n'
                'Definition translator_rejected : True := 0.\n' % rej.replace('*)', '* )').replace('(*', '( *'))
    write_if_changed(GEN_V, text)
    return rej


def _env():
    torch = setup_torch()
    from plinio.regularizers import DUCCIO, BaseRegularizer
    return torch, DUCCIO, BaseRegularizer


class Stub:
    def __init__(self, torch, costs):
        self.c = {k: torch.tensor(float(v), requires_grad=True) for k, v in costs.items()}

    def get_cost(self, n):
        return self.c[n]


def apply_reg(reg, model):
    """value of a regularizer on a model; an exception is an outcome (nan), not a crash of the check"""
    try:
        return float(reg(model))
    except Exception as ex:
        apply_reg.last = '%s: %s' % (type(ex).__name__, str(ex)[:160])
        return float('nan')


apply_reg.last = None


def dy(rng, lo, hi, bits=6):
    """dyadic rational in [lo,hi] with `bits` fractional bits"""
    return Fraction(rng.randint(int(lo * 2 ** bits), int(hi * 2 ** bits)), 2 ** bits)


def gen_metrics(rng, k):
    ms = []
    for _ in range(k):
        t = dy(rng, 1, 200)
        where = rng.choice(['above', 'above', 'at', 'below'])
        c = t + dy(rng, 0.02, 50) if where == 'above' else t if where == 'at' else max(Fraction(0), t - dy(rng, 0.02, 50))
        s = dy(rng, 0.02, 8, bits=8)
        ms.append((s, c, t))
    return ms


def run(ctx):
    torch, DUCCIO, BaseRegularizer = _env()
    gen_rejected = regenerate(ctx)
    if gen_rejected:
        ctx.notes.append('generated model: the translator refused the source: ' + gen_rejected)
    built = ctx.build()
    ctx.extra['generated_model'] = {'file': 'coq/Gen/DuccioGen.v', 'translator': 'translator/duccio2coq.py', 'source': 'plinio/regularizers/duccio.py, base_regularizer.py',
                                    'status': 'refused: ' + gen_rejected if gen_rejected else 'regenerated; equal to the hand model and every division defined (C19_generated_*)' if built else 'regenerated; obligations do not check'}
    ctx.rule = ('every (epoch, n_epochs) with 0<=epoch<=n_epochs<=50 x seeded sets of 1..3 metrics (dyadic strengths/costs/targets, cost above/at/below target), '
                'given and task-loss-derived strengths, default arguments, BaseRegularizer, two real PIT models; non-trivial = at least one cost above target; '
                'distinct = distinct (metrics, epoch, n_epochs, mode)')
    reps = 1 if ctx.quick else 6
    cases = []   # dict(kind, ms, e, n, impl value, grads)
    fails = []

    def oracle(kind, cond, key, info):
        if not cond:
            fails.append((key, kind, info))

    # ---- (a) given strengths, all schedule positions
    for n in range(1, 51):
        for e in range(0, n + 1):
            for _ in range(reps):
                k = ctx.rng.randint(1, 3)
                ms = gen_metrics(ctx.rng, k)
                names = ['m%d' % i for i in range(k)]
                st = Stub(torch, {nm: m[1] for nm, m in zip(names, ms)})
                d = DUCCIO({nm: torch.tensor(float(m[2])) for nm, m in zip(names, ms)}, final_strengths=tuple(torch.tensor(float(m[0])) for m in ms))
                v = d(st, epoch=e, n_epochs=n)
                grads = [0.0] * k
                if v.requires_grad:
                    gs = torch.autograd.grad(v, [st.c[nm] for nm in names], allow_unused=True)
                    grads = [0.0 if g is None else float(g) for g in gs]
                cases.append({'kind': 'given', 'ms': ms, 'e': e, 'n': n, 'impl': float(v), 'grads': grads})
                info = {'metrics(strength,cost,target)': ms, 'epoch': e, 'n_epochs': n, 'impl': float(v)}
                oracle('given', math.isfinite(float(v)), 'duccio-not-finite', info)
                oracle('given', float(v) >= 0, 'duccio-negative', info)
                oracle('given', (float(v) == 0.0) == all(m[1] <= m[2] for m in ms), 'duccio-zero-iff', info)
    # ---- (b) the effective strength, observed through a single metric with excess exactly 1
    for n in range(1, 51):
        for s in ([Fraction(3, 2)] if ctx.quick else [Fraction(3, 2), Fraction(1, 64), Fraction(40)]):
            prev = None
            for e in range(0, n + 1):
                st = Stub(torch, {'a': 11})
                d = DUCCIO({'a': torch.tensor(10.0)}, final_strengths=(torch.tensor(float(s)),))
                v = float(d(st, epoch=e, n_epochs=n))
                cases.append({'kind': 'eff', 'ms': [(s, Fraction(11), Fraction(10))], 'e': e, 'n': n, 'impl': v, 'grads': None})
                info = {'strength': s, 'epoch': e, 'n_epochs': n, 'effective_strength': v}
                oracle('eff', v <= float(s) * (1 + 1e-6), 'ramp-exceeds-final', info)
                if e == 0:
                    oracle('eff', abs(v - float(s) / 100) <= 1e-6 * float(s), 'ramp-start-not-1pct', info)
                if 2 * e >= n:
                    oracle('eff', abs(v - float(s)) <= 1e-6 * float(s), 'ramp-not-final-at-half', info)
                if prev is not None:
                    oracle('eff', v >= prev * (1 - 1e-6), 'ramp-not-monotone', info)
                prev = v
    # ---- (c) derived strengths (lazy initialisation) incl. cost exactly at target
    derived = []
    for i in range(60 if ctx.quick else 600):
        k = ctx.rng.randint(1, 3)
        ms = gen_metrics(ctx.rng, k)
        task = dy(ctx.rng, 0.05, 4)
        names = ['m%d' % j for j in range(k)]
        st = Stub(torch, {nm: m[1] for nm, m in zip(names, ms)})
        d = DUCCIO({nm: torch.tensor(float(m[2])) for nm, m in zip(names, ms)}, task_loss=torch.tensor(float(task)))
        n = ctx.rng.randint(1, 50)
        e = ctx.rng.randint(0, n)
        v = float(d(st, epoch=e, n_epochs=n))
        fs = [float(x) for x in d.final_strengths]
        # second call with grown costs: the strengths must stay, penalty must not shrink
        st2 = Stub(torch, {nm: m[1] + 3 for nm, m in zip(names, ms)})
        v2 = float(d(st2, epoch=e, n_epochs=n))
        derived.append({'task': task, 'ms': ms, 'e': e, 'n': n, 'impl': v, 'impl_grown': v2, 'strengths': fs})
        info = {'task_loss': task, 'metrics(_,cost,target)': [(m[1], m[2]) for m in ms], 'epoch': e, 'n_epochs': n, 'impl': v, 'derived_strengths': fs}
        at = any(m[1] == m[2] for m in ms)
        oracle('derived', math.isfinite(v) and all(math.isfinite(x) for x in fs), 'derived-strength-not-finite-at-target' if at else 'derived-not-finite', info)
        if math.isfinite(v):
            oracle('derived', v >= 0, 'duccio-negative', info)
            above = any(m[1] > m[2] for m in ms)
            oracle('derived', math.isfinite(v2) and (v2 > v * (1 + 1e-6) if above else v2 >= v), 'duccio-not-growing-with-excess', dict(info, impl_grown=v2, note='second call on the same regularizer with every cost raised by 3'))
            oracle('derived', [float(x) for x in d.final_strengths] == fs, 'final-strengths-change-between-calls', dict(info, strengths_after_second_call=[float(x) for x in d.final_strengths]))
    # ---- (a2) costs BARELY above (or below) large targets: a relative excess of 2^-18 .. 2^-12, exactly representable in
    #           float32 (20000.125 parameters against a budget of 20000): still a violated constraint, still a positive penalty
    for i in range(60 if ctx.quick else 600):
        k = ctx.rng.randint(1, 3)
        ms = []
        for _ in range(k):
            t = Fraction(ctx.rng.randint(1, 15) * 2 ** ctx.rng.randint(10, 18))
            rel = Fraction(1, 2 ** ctx.rng.randint(12, 18))
            where = ctx.rng.choice(['barely-above', 'barely-above', 'barely-below', 'at'])
            c = t * (1 + rel) if where == 'barely-above' else t * (1 - rel) if where == 'barely-below' else t
            ms.append((dy(ctx.rng, 0.02, 8, bits=8), c, t))
        n = ctx.rng.randint(1, 20)
        e = ctx.rng.randint(0, n)
        names = ['m%d' % j for j in range(k)]
        st = Stub(torch, {nm: m[1] for nm, m in zip(names, ms)})
        assert all(Fraction(float(st.c[nm])) == m[1] for nm, m in zip(names, ms))
        d = DUCCIO({nm: torch.tensor(float(m[2])) for nm, m in zip(names, ms)}, final_strengths=tuple(torch.tensor(float(m[0])) for m in ms))
        v = d(st, epoch=e, n_epochs=n)
        cases.append({'kind': 'given', 'ms': ms, 'e': e, 'n': n, 'impl': float(v), 'grads': []})
        info = {'metrics(strength,cost,target)': ms, 'epoch': e, 'n_epochs': n, 'impl': float(v), 'note': 'costs within a relative 2^-12 of their targets'}
        oracle('given', math.isfinite(float(v)) and float(v) >= 0, 'duccio-negative', info)
        oracle('given', (float(v) == 0.0) == all(m[1] <= m[2] for m in ms), 'duccio-zero-iff', info)
    # ---- (d0) models that hand out a STORED cost tensor (the same object at every call; plain, or computed from a parameter):
    #           applying a regularizer twice gives the same value twice and leaves the model's own cost as it was
    class Stored:
        def __init__(self, values, graph):
            self.p = torch.nn.Parameter(torch.ones(()))
            self.c = {k_: (self.p * float(v_)) if graph else torch.tensor(float(v_)) for k_, v_ in values.items()}

        def get_cost(self, nm):
            return self.c[nm]
    for i in range(24):
        s_, c_ = dy(ctx.rng, 0.001, 4, bits=10), dy(ctx.rng, 1, 5000, bits=3)
        graph = i % 2 == 0
        for what in ('base', 'duccio'):
            st = Stored({'params': c_}, graph)
            reg = BaseRegularizer('params', float(s_)) if what == 'base' else DUCCIO({'params': torch.tensor(float(c_) / 2)}, final_strengths=(torch.tensor(float(s_)),))
            want = float(s_ * c_) if what == 'base' else float(s_ * c_ / 2)
            try:
                vs = [float(reg(st)) for _ in range(3)]
                after = float(st.get_cost('params'))
                out = None
            except Exception as ex:
                vs, after, out = [], None, '%s: %s' % (type(ex).__name__, str(ex)[:120])
            ctx.case(('stored-cost', what, graph, str(s_), str(c_)), nontrivial=True, kind='stored-cost-tensor:' + what)
            oracle('stored', out is None and all(abs(v - want) <= 1e-5 * max(1.0, want) for v in vs) and after is not None and abs(after - float(c_)) <= 1e-6 * float(c_),
                   'regularizer-changes-the-cost-it-was-handed', {'regularizer': what, 'strength': s_, 'cost': c_, 'cost_is_computed_from_a_parameter': graph,
                                                                   'three_successive_values': vs, 'expected_each': want, 'model_cost_afterwards': after, 'exception': out})
    # ---- (d) default arguments and BaseRegularizer
    basecases = []
    for i in range(40):
        s, c = dy(ctx.rng, 0.001, 4, bits=10), dy(ctx.rng, 0, 5000, bits=3)
        st = Stub(torch, {'params': c})
        v = apply_reg(BaseRegularizer('params', float(s)), st)
        basecases.append((s, c, v))
        oracle('base', abs(v - float(s * c)) <= 1e-6 * max(1.0, float(s * c)), 'base-not-strength-times-cost', {'strength': s, 'cost': c, 'impl': v, 'exception': apply_reg.last if v != v else None})
        ms = gen_metrics(ctx.rng, 2)
        st = Stub(torch, {'a': ms[0][1], 'b': ms[1][1]})
        d = DUCCIO({'a': torch.tensor(float(ms[0][2])), 'b': torch.tensor(float(ms[1][2]))}, final_strengths=(torch.tensor(float(ms[0][0])), torch.tensor(float(ms[1][0]))))
        cases.append({'kind': 'default-args', 'ms': ms, 'e': 1, 'n': 1, 'impl': float(d(st)), 'grads': None})
    # ---- (d2) infinite targets (a metric that can never be penalised) in any position: the other metrics keep THEIR
    #      strengths; integer-dtype cost tensors with non-integer strengths
    for i in range(40 if ctx.quick else 400):
        k = ctx.rng.randint(2, 3)
        ms = gen_metrics(ctx.rng, k)
        pos = ctx.rng.randrange(k)                      # which metric has the infinite target
        names = ['m%d' % j for j in range(k)]
        st = Stub(torch, {nm: m[1] for nm, m in zip(names, ms)})
        tg = {nm: torch.tensor(float('inf') if j == pos else float(m[2])) for j, (nm, m) in enumerate(zip(names, ms))}
        d = DUCCIO(tg, final_strengths=tuple(torch.tensor(float(m[0])) for m in ms))
        n = ctx.rng.randint(1, 50)
        e = ctx.rng.randint(0, n)
        v = float(d(st, epoch=e, n_epochs=n))
        rest = [m for j, m in enumerate(ms) if j != pos]
        cases.append({'kind': 'inf-target', 'ms': rest, 'e': e, 'n': n, 'impl': v, 'grads': None,
                      'opt': [(m[0], m[1], None if j == pos else some(m[2])) for j, m in enumerate(ms)]})
        info = {'metrics(strength,cost,target)': ms, 'infinite_target_at': pos, 'epoch': e, 'n_epochs': n, 'impl': v}
        oracle('inf-target', math.isfinite(v) and v >= 0 and ((v == 0.0) == all(m[1] <= m[2] for m in rest)), 'duccio-zero-iff', info)
        # the penalty is the one of the regularizer that simply does not have that metric (each remaining metric with ITS strength)
        rn = [nm for j, nm in enumerate(names) if j != pos]
        d2 = DUCCIO({nm: torch.tensor(float(m[2])) for nm, m in zip(rn, rest)}, final_strengths=tuple(torch.tensor(float(m[0])) for m in rest))
        v2 = float(d2(Stub(torch, {nm: m[1] for nm, m in zip(rn, rest)}), epoch=e, n_epochs=n))
        oracle('inf-target', abs(v - v2) <= 1e-5 * max(1.0, abs(v2)), 'duccio-infinite-target-changes-other-metrics', dict(info, value_without_that_metric=v2))
    for i in range(30):
        s_, c_ = dy(ctx.rng, 0.001, 4, bits=10), ctx.rng.randint(0, 5000)
        for dt in (torch.int64, torch.int32, torch.float64):
            class IStub:
                def get_cost(self, n, c_=c_, dt=dt):
                    return torch.tensor(c_, dtype=dt)
            v = apply_reg(BaseRegularizer('params', float(s_)), IStub())
            basecases.append((s_, Fraction(c_), v))
            oracle('base', abs(v - float(s_ * c_)) <= 1e-6 * max(1.0, float(s_ * c_)), 'base-not-strength-times-cost', {'strength': s_, 'cost': c_, 'cost_dtype': str(dt), 'impl': v})
    # ---- (d3) strength exactly zero (first point of a strength sweep): the result is 0 x cost
    for c_ in (1500, 1, 0):
        for z in (0, 0.0):
            v = apply_reg(BaseRegularizer('params', z), Stub(torch, {'params': c_}))
            basecases.append((Fraction(0), Fraction(c_), v))
            oracle('base', v == 0.0, 'base-not-strength-times-cost', {'strength': z, 'cost': c_, 'impl': v})
    # ---- (d4) ONE DUCCIO object called again and again with arbitrary (epoch, n_epochs): every call is the formula of its own
    #      arguments (a repeated epoch with another n_epochs, default arguments in between)
    for i in range(25 if ctx.quick else 250):
        k = ctx.rng.randint(1, 3)
        ms = gen_metrics(ctx.rng, k)
        names = ['m%d' % j for j in range(k)]
        d = DUCCIO({nm: torch.tensor(float(m[2])) for nm, m in zip(names, ms)}, final_strengths=tuple(torch.tensor(float(m[0])) for m in ms))
        seq = []
        e_fix = ctx.rng.randint(1, 10)
        for _ in range(ctx.rng.randint(3, 6)):
            r = ctx.rng.random()
            if r < 0.2:
                seq.append(None)                                   # default arguments
            elif r < 0.7:
                n = ctx.rng.randint(max(e_fix, 2), 50)
                seq.append((e_fix, n))                             # same epoch, another schedule length
            else:
                n = ctx.rng.randint(1, 50)
                seq.append((ctx.rng.randint(0, n), n))
        for j, a in enumerate(seq):
            st = Stub(torch, {nm: m[1] for nm, m in zip(names, ms)})
            v = float(d(st) if a is None else d(st, epoch=a[0], n_epochs=a[1]))
            e, n = (1, 1) if a is None else a
            cases.append({'kind': 'reused-object', 'ms': ms, 'e': e, 'n': n, 'impl': v, 'grads': None})
            fresh = DUCCIO({nm: torch.tensor(float(m[2])) for nm, m in zip(names, ms)}, final_strengths=tuple(torch.tensor(float(m[0])) for m in ms))
            vf = float(fresh(Stub(torch, {nm: m[1] for nm, m in zip(names, ms)}), epoch=e, n_epochs=n))
            oracle('reused-object', abs(v - vf) <= 1e-6 * max(1.0, abs(vf)), 'duccio-value-depends-on-earlier-calls',
                   {'metrics(strength,cost,target)': ms, 'calls_so_far(epoch,n_epochs; None=defaults)': seq[:j + 1], 'impl': v, 'fresh_object_value': vf})
    # ---- (d5) ONE regularizer object applied to SEVERAL models (a sweep over seed networks), and a caller that accumulates
    #      the task loss IN PLACE on the value it got back (`loss = reg(model); loss += task`): every call is the formula of the
    #      costs of the model it is given, whatever the object was applied to before and whatever was done to earlier results
    for i in range(30 if ctx.quick else 300):
        k = ctx.rng.randint(1, 3)
        names = ['m%d' % j for j in range(k)]
        tg_s = [(dy(ctx.rng, 0.02, 8, bits=8), dy(ctx.rng, 1, 200)) for _ in range(k)]         # (strength, target)
        what = ctx.rng.choice(['duccio', 'duccio', 'base'])
        if what == 'base':
            names, tg_s = names[:1], tg_s[:1]
            reg = BaseRegularizer(names[0], float(tg_s[0][0]))
        else:
            reg = DUCCIO({nm: torch.tensor(float(t)) for nm, (s, t) in zip(names, tg_s)}, final_strengths=tuple(torch.tensor(float(s)) for s, t in tg_s))
        e, n = (lambda n_: (ctx.rng.randint(0, n_), n_))(ctx.rng.randint(1, 50))
        hist = []
        for j in range(ctx.rng.randint(2, 5)):
            mode = ctx.rng.choice(['all-met', 'some-above', 'some-above'])
            costs = [max(Fraction(0), t - dy(ctx.rng, 0, 40)) if mode == 'all-met' or ctx.rng.random() < 0.4 else t + dy(ctx.rng, 0.02, 50) for s, t in tg_s]
            st = Stub(torch, dict(zip(names, costs)))
            inplace = ctx.rng.random() < 0.6
            task = dy(ctx.rng, 0.05, 4)
            try:
                r = reg(st) if what == 'base' else reg(st, epoch=e, n_epochs=n)
                v = float(r)
                if inplace:
                    try:
                        r += float(task)
                    except RuntimeError:
                        inplace = False
                out = None
            except Exception as ex:
                v, out = float('nan'), '%s: %s' % (type(ex).__name__, str(ex)[:120])
            hist.append({'costs': costs, 'caller_adds_in_place': float(task) if inplace else None, 'impl': v})
            ms = [(s, c, t) for (s, t), c in zip(tg_s, costs)]
            want = float(tg_s[0][0] * costs[0]) if what == 'base' else None
            if what == 'duccio':
                cases.append({'kind': 'shared-object', 'ms': ms, 'e': e, 'n': n, 'impl': v, 'grads': None})
                fresh = DUCCIO({nm: torch.tensor(float(t)) for nm, (s, t) in zip(names, tg_s)}, final_strengths=tuple(torch.tensor(float(s)) for s, t in tg_s))
                want = float(fresh(Stub(torch, dict(zip(names, costs))), epoch=e, n_epochs=n))
            else:
                basecases.append((tg_s[0][0], costs[0], v))
            info = {'regularizer': what, 'metrics(strength,target)': tg_s, 'epoch': e, 'n_epochs': n, 'models_so_far(costs, what the caller did with the result, value)': list(hist),
                    'impl': v, 'value_of_a_fresh_regularizer_on_this_model': want, 'exception': out}
            oracle('shared-object', out is None and abs(v - want) <= 1e-6 * max(1.0, abs(want)), 'regularizer-value-depends-on-earlier-models-or-callers', info)
            if what == 'duccio':
                oracle('shared-object', (v == 0.0) == all(m[1] <= m[2] for m in ms), 'duccio-zero-iff', dict(info, **{'metrics(strength,cost,target)': ms}))
    # ---- (d6) the attributes of a BaseRegularizer re-assigned between calls (a two-phase schedule: first the size, then the
    #      operations; a strength sweep on one object): every call is the CURRENT strength x the cost it names NOW
    for i in range(20 if ctx.quick else 200):
        cvals = {'params': dy(ctx.rng, 1, 5000, bits=3), 'ops': dy(ctx.rng, 1, 90000, bits=2), 'lat': dy(ctx.rng, 1, 300, bits=4)}
        s0, n0 = dy(ctx.rng, 0.001, 4, bits=10), ctx.rng.choice(list(cvals))
        reg = BaseRegularizer(n0, float(s0))
        hist = []
        for j in range(ctx.rng.randint(2, 5)):
            ch = ctx.rng.choice(['name', 'strength', 'both', 'nothing'])
            if ch in ('name', 'both'):
                n0 = ctx.rng.choice(list(cvals))
                reg.cost_name = n0
            if ch in ('strength', 'both'):
                s0 = dy(ctx.rng, 0.001, 4, bits=10)
                reg.strength = float(s0)
            v = apply_reg(reg, Stub(torch, cvals))
            hist.append({'reassigned': ch, 'cost_name': n0, 'strength': s0, 'impl': v})
            basecases.append((s0, cvals[n0], v))
            oracle('base-reassigned', abs(v - float(s0 * cvals[n0])) <= 1e-6 * max(1.0, float(s0 * cvals[n0])), 'base-not-strength-times-the-cost-it-names-now',
                   {'costs_of_the_model': cvals, 'calls_so_far(attribute re-assigned before the call, cost_name, strength, value)': list(hist), 'impl': v, 'required': float(s0 * cvals[n0])})
    # ---- (e) real PIT models
    import torch.nn as nn
    from plinio.methods import PIT
    from plinio.cost import params, ops
    for seed in range(2 if ctx.quick else 6):
        torch.manual_seed(seed)
        net = nn.Sequential(nn.Conv2d(3, 4 + seed, 3, padding=1), nn.ReLU(), nn.Conv2d(4 + seed, 5, 3, padding=1), nn.ReLU(), nn.AdaptiveAvgPool2d(1), nn.Flatten(), nn.Linear(5, 3))
        p = PIT(net, input_shape=(3, 8, 8), cost={'size': params, 'macs': ops})
        with torch.no_grad():
            for _, q in p.named_nas_parameters():
                q.copy_(torch.rand(q.shape))
        cs = {k: Fraction(float(p.get_cost(k))) for k in ('size', 'macs')}
        for mode in ('above', 'at', 'below'):
            tg = {k: (v - 16 if mode == 'above' else v if mode == 'at' else v + 16) for k, v in cs.items()}
            ss = (Fraction(1, 8), Fraction(1, 1024))
            d = DUCCIO({k: torch.tensor(float(v)) for k, v in tg.items()}, final_strengths=tuple(torch.tensor(float(s)) for s in ss))
            e, n = ctx.rng.randint(0, 20), 20
            v = float(d(p, epoch=e, n_epochs=n))
            ms = [(ss[0], cs['size'], Fraction(float(torch.tensor(float(tg['size']))))), (ss[1], cs['macs'], Fraction(float(torch.tensor(float(tg['macs'])))))]
            cases.append({'kind': 'real-pit', 'ms': ms, 'e': e, 'n': n, 'impl': v, 'grads': None})
            oracle('real-pit', math.isfinite(v) and v >= 0 and ((v == 0.0) == all(m[1] <= m[2] for m in ms)), 'duccio-zero-iff', {'mode': mode, 'impl': v, 'metrics': ms})

    for c in cases:
        ctx.case((c['kind'], c['ms'], c['e'], c['n']), nontrivial=any(m[1] > m[2] for m in c['ms']), kind=c['kind'],
                 sample={'kind': c['kind'], 'metrics(strength,cost,target)': c['ms'], 'epoch': c['e'], 'n_epochs': c['n'], 'impl_value': c['impl']})
    for dcase in derived:
        ctx.case(('derived', dcase['ms'], dcase['task'], dcase['e'], dcase['n']), nontrivial=True, kind='derived' + (':at-target' if any(m[1] == m[2] for m in dcase['ms']) else ''))
    ctx.exhaustive = True
    ctx.extra['exhaustive_part'] = 'all 1325 (epoch, n_epochs) pairs with 0<=epoch<=n_epochs<=50; metric values are sampled'

    for key, kind, info in fails:
        ctx.violation(key, {'kind': kind, 'case': info}, '%s on the implementation: %s' % (key, info))

    # ---- model evaluation in Coq
    mism = []
    model_ok = built
    if built:
        try:
            exprs = [('run_duccio_opt %s %s %s' % (coq(c['opt']), coq(c['e']), coq(c['n']))) if 'opt' in c else
                     ('run_duccio %s %s %s' % (coq(c['ms']), coq(c['e']), coq(c['n']))) for c in cases]
            vals = ctx.coq_eval_sharded('cases', ['Plinio.Model.Duccio'], '', exprs, shard=500)
            for c, (num, den) in zip(cases, vals):
                mv = Fraction(num, den)
                ctx.corr += 1
                if not close(c['impl'], mv):
                    mism.append(('value', c, float(mv)))
            # the GENERATED model (DUCCIO.__call__ translated on this run) on the finite-target cases
            gc = [c for c in cases if 'opt' not in c]
            gv = ctx.coq_eval_sharded('gcases', ['Plinio.Model.Duccio', 'Plinio.Gen.DuccioGen'], '', ['run_duccio_gen %s %s %s' % (coq(c['ms']), coq(c['e']), coq(c['n'])) for c in gc], shard=500)
            for c, (num, den) in zip(gc, gv):
                ctx.corr += 1
                if not close(c['impl'], Fraction(num, den)):
                    mism.append(('value (generated model)', c, float(Fraction(num, den))))
            # gradients: eff if cost > target else 0 (ties skipped: torch.maximum splits the gradient there)
            gcases = [(c, i) for c in cases if c['grads'] for i, m in enumerate(c['ms']) if m[1] != m[2]]
            gcases = gcases[:1500]
            gvals = ctx.coq_eval_sharded('grads', ['Plinio.Model.Duccio'], '', ['run_eff %s %s %s' % (coq(c['ms'][i][0]), coq(c['e']), coq(c['n'])) for c, i in gcases], shard=500)
            for (c, i), (num, den) in zip(gcases, gvals):
                exp = Fraction(num, den) if c['ms'][i][1] > c['ms'][i][2] else Fraction(0)
                ctx.corr += 1
                if not close(c['grads'][i], exp):
                    mism.append(('grad', c, float(exp)))
            # derived strengths
            dex = []
            for dcase in derived:
                for m in dcase['ms']:
                    dex.append('run_derive %s %s %s' % (coq(dcase['task']), coq(m[1]), coq(m[2])))
            dvals = ctx.coq_eval_sharded('derive', ['Plinio.Model.Duccio'], '', dex, shard=500)
            gdvals = ctx.coq_eval_sharded('gderive', ['Plinio.Model.Duccio', 'Plinio.Gen.DuccioGen'], '', [x.replace('run_derive ', 'run_derive_gen ', 1) for x in dex], shard=500)
            if gdvals != dvals:
                k0 = next(i for i, (a, b) in enumerate(zip(dvals, gdvals)) if a != b)
                mism.append(('derived-strength (generated model differs from the hand model)', {'expr': dex[k0]}, float(Fraction(*gdvals[k0]))))
            k = 0
            for dcase in derived:
                for j, m in enumerate(dcase['ms']):
                    mv = Fraction(*dvals[k])
                    k += 1
                    ctx.corr += 1
                    iv = dcase['strengths'][j]
                    if not (math.isfinite(iv) and close(iv, mv)):
                        mism.append(('derived-strength', dcase, float(mv)))
            # second call (grown costs) with the strengths the model derives for the first call
            k = 0
            ex2 = []
            for dcase in derived:
                st_m = []
                for m in dcase['ms']:
                    st_m.append((Fraction(*dvals[k]), m[1] + 3, m[2]))
                    k += 1
                ex2.append('run_duccio %s %s %s' % (coq(st_m), coq(dcase['e']), coq(dcase['n'])))
            v2s = ctx.coq_eval_sharded('derive2', ['Plinio.Model.Duccio'], '', ex2, shard=500)
            for dcase, (num, den) in zip(derived, v2s):
                ctx.corr += 1
                if not close(dcase['impl_grown'], Fraction(num, den), rel=2.0 ** -17):
                    mism.append(('second-call-value', dcase, float(Fraction(num, den))))
        except RuntimeError as ex:
            model_ok = False
            ctx.notes.append('model evaluation failed: ' + str(ex)[-800:])

    # ---- report
    if not ctx.violations:   # a printed KNOWN-FINDING must not hide a broken proof / model / correspondence
        if not built and gen_rejected:
            ctx.violation('translator-rejected', {'translator': 'translator/duccio2coq.py', 'source': 'plinio/regularizers', 'reason': gen_rejected, 'theorems': [o[0] for o in ctx.obligations if not o[1]]},
                          'the source of the regularizers is outside the subset the translator accepts (%s): no generated model, the C19_generated_* theorems are not established' % gen_rejected[:300], no_input=True)
        elif not built:
            ctx.violation('proof-broken', {'theorems': [o[0] for o in ctx.obligations if not o[1]], 'log': getattr(ctx, 'broken_log', '')[-3000:]},
                          'Props/C19.v no longer checks (the model generated from the current source may no longer equal the hand-written one, or divides by a possibly zero quantity: Proofs/DuccioGen.v)', no_input=True)
        elif not model_ok:
            ctx.violation('model-eval-broken', {'notes': ctx.notes}, 'the model could not be evaluated', no_input=True)
        elif mism:
            what, c, mv = mism[0]
            ctx.violation('correspondence-broken', {'what': what, 'case': c, 'model_value': mv, 'n_mismatches': len(mism), 'correspondence': 'Model/Duccio.v vs plinio.regularizers'},
                          'model and implementation disagree on %d observations (first: %s, model %r, case %r) but the property oracle found no failing input' % (len(mism), what, mv, c), no_input=True)
    ctx.extra['model_impl_mismatches'] = len(mism)


def replay(r):
    """re-executes the failing case of a replay file on the implementation and prints what the property requires"""
    import json
    torch, DUCCIO, BaseRegularizer = _env()
    c = r.get('case', {})
    info = c.get('case', c)
    print(json.dumps(r, indent=1)[:3000])
    fr = lambda s: Fraction(s) if isinstance(s, str) else Fraction(s)
    bk = 'calls_so_far(attribute re-assigned before the call, cost_name, strength, value)'
    if bk in info:
        cvals = {k: fr(v) for k, v in info['costs_of_the_model'].items()}
        h0 = info[bk][0]
        reg, bad = BaseRegularizer(h0['cost_name'], float(fr(h0['strength']))), 0      # (the first call's values stand in for the constructor's)
        for h in info[bk]:
            reg.cost_name, reg.strength = h['cost_name'], float(fr(h['strength']))
            v, w = float(reg(Stub(torch, cvals))), float(fr(h['strength']) * cvals[h['cost_name']])
            print(h['cost_name'], h['strength'], '->', v, 'required', w)
            bad += not abs(v - w) <= 1e-6 * max(1.0, abs(w))
        return 1 if bad else 0
    hk = 'models_so_far(costs, what the caller did with the result, value)'
    if hk in info:
        tg_s = [(fr(s), fr(t)) for s, t in info['metrics(strength,target)']]
        names = ['m%d' % j for j in range(len(tg_s))]
        mk = lambda: (BaseRegularizer(names[0], float(tg_s[0][0])) if info['regularizer'] == 'base' else
                      DUCCIO({nm: torch.tensor(float(t)) for nm, (s, t) in zip(names, tg_s)}, final_strengths=tuple(torch.tensor(float(s)) for s, t in tg_s)))
        call = lambda rg, st: rg(st) if info['regularizer'] == 'base' else rg(st, epoch=info['epoch'], n_epochs=info['n_epochs'])
        reg, bad = mk(), 0
        for h in info[hk]:
            costs = [fr(c) for c in h['costs']]
            r = call(reg, Stub(torch, dict(zip(names, costs))))
            v = float(r)
            if h['caller_adds_in_place'] is not None:
                r += h['caller_adds_in_place']
            w = float(call(mk(), Stub(torch, dict(zip(names, costs)))))
            print('costs', [float(c) for c in costs], 'shared object:', v, 'fresh object:', w, '(required: equal)')
            bad += not abs(v - w) <= 1e-6 * max(1.0, abs(w))
        return 1 if bad else 0
    if 'task_loss' in info:
        pairs = [(fr(a), fr(b)) for a, b in info['metrics(_,cost,target)']]
        st = Stub(torch, {'m%d' % i: p[0] for i, p in enumerate(pairs)})
        d = DUCCIO({'m%d' % i: torch.tensor(float(p[1])) for i, p in enumerate(pairs)}, task_loss=torch.tensor(float(fr(info['task_loss']))))
        v = float(d(st, epoch=info['epoch'], n_epochs=info['n_epochs']))
        print('replayed on the implementation: value', v, 'derived strengths', [float(x) for x in d.final_strengths], '(required: finite, >= 0)')
        return 0 if math.isfinite(v) and v >= 0 else 1
    if 'metrics(strength,cost,target)' in info:
        ms = [tuple(fr(x) for x in m) for m in info['metrics(strength,cost,target)']]
        st = Stub(torch, {'m%d' % i: m[1] for i, m in enumerate(ms)})
        d = DUCCIO({'m%d' % i: torch.tensor(float(m[2])) for i, m in enumerate(ms)}, final_strengths=tuple(torch.tensor(float(m[0])) for m in ms))
        v = float(d(st, epoch=info['epoch'], n_epochs=info['n_epochs']))
        ok = math.isfinite(v) and v >= 0 and ((v == 0.0) == all(m[1] <= m[2] for m in ms))
        print('replayed on the implementation: value', v, '(required: finite, >=0, zero iff every cost <= target)')
        return 0 if ok else 1
    return 1
