"""C20 — second tie, by translation (DESIGN.md §13, "Second tie, by translation").

translator/refine2coq.py reads the source of plinio/methods/mps/utils.py of the tree under test (the per-layer block of
optimize_prec_assignment: the permutation bookkeeping, the two searches, the call of _reassign_precisions; and
_reassign_precisions itself) and writes coq/Gen/RefineGen.v; coq/Proofs/RefineGen.v proves the generated functions equal
to Model/Reassign.v (search1 / search2 / refine for every cost function, pass1_step / pass2_step / reassign_abs, own_of /
pos_of / unsort), and Props/C20.v states the C20_generated_* theorems.  This module is what vlib/c20.py needs:

    rej = c20_gen.regenerate(ctx)                 # BEFORE ctx.build(); None, or why the translator refused the source
    ...
    gvals = ctx.coq_eval_sharded('greassign', c20_gen.IMPORTS, '', c20_gen.gen_exprs(ex), shard=600)
    mism += c20_gen.differences(ex, vals, gvals)  # the generated model next to the hand model, same cases
    ...
    gex.append(c20_gen.pipeline_gexpr(coq(tbl), d['precisions_sorted'], order, coq(sc)))      # next to ex.append('run_pipeline ...')
    gvals = ctx.coq_eval_sharded('grefine', c20_gen.IMPORTS, '', gex, shard=4)
    mism += c20_gen.differences(ex, vals, gvals, gex)
"""
import os
import re
from .common import COQ, REPO, write_if_changed, coq, Nat
from translator import refine2coq

GEN_V = os.path.join(COQ, 'Gen', 'RefineGen.v')
IMPORTS = ['Plinio.Model.Reassign', 'Plinio.Gen.RefineGen']
TRANSLATOR = 'translator/refine2coq.py'
SOURCE = 'plinio/methods/mps/utils.py (optimize_prec_assignment per-layer block, _reassign_precisions; _compute_cost and the rest of optimize_prec_assignment pinned by digest)'


def regenerate(ctx=None, repo=None):
    """translate utils.py of the tree under test into Gen/RefineGen.v (written only when it changed).
    -> None, or the reason why the translator refused the source (the file then fails on purpose)"""
    try:
        text, rej = refine2coq.translate_repo(repo or REPO), None
    except (refine2coq.Reject, SyntaxError, OSError, RecursionError) as e:
        rej = '%s: %s' % (type(e).__name__, e)
        text = ('(* translator/refine2coq.py REFUSED plinio/methods/mps/utils.py of the tree under test:\n   %s\n   no model of the current code exists; this file fails on purpose. *)\n'
                'Definition translator_rejected : True := 0.\n' % rej.replace('*)', '* )').replace('(*', '( *'))
    write_if_changed(GEN_V, text)
    if ctx is not None and rej:
        ctx.notes.append('generated model: the translator refused the source: ' + rej)
    return rej


def status(rej, built):
    """the `generated_model` entry of the evidence file"""
    return {'file': 'coq/Gen/RefineGen.v', 'translator': TRANSLATOR, 'source': SOURCE,
            'status': 'refused: ' + rej if rej else 'regenerated; equal to the hand model (C20_generated_*)' if built else 'regenerated; obligations do not check'}


_REASSIGN = re.compile(r'^run_reassign ')


def gen_expr(e):
    """the expression of the hand model -> the same case run with the generated functions; None if it has no counterpart
    (run_pipeline needs the precision tuple: pipeline_gexpr)"""
    if _REASSIGN.match(e):
        return _REASSIGN.sub('run_reassign_gen ', e, 1)
    return None


def gen_exprs(exprs):
    return [g for g in map(gen_expr, exprs) if g is not None]


def pipeline_gexpr(tbl_coq, precisions_sorted, order, scores_coq):
    """counterpart of `run_pipeline tbl skip own pos scores`: the generated per-layer block computes the skipped precisions
    and the two permutations itself from the LAYER's precision tuple in the quantizer's own order (rebuilt here from the
    sorted tuple and the sorting permutation the check recorded: own[order[k]] = precisions_sorted[k])"""
    own = [None] * len(order)
    for k, o in enumerate(order):
        own[int(o)] = int(precisions_sorted[k])
    return 'run_pipeline_gen %s %s %s' % (tbl_coq, coq([Nat(p) for p in own]), scores_coq)


def _norm(v):
    return [_norm(x) for x in v] if isinstance(v, (list, tuple)) else v


def differences(exprs, vals, gvals, gexprs=None, limit=3):
    """[(what, info, value)] for every case on which the generated and the hand-written model differ"""
    if gexprs is None:
        idx = [k for k, e in enumerate(exprs) if gen_expr(e) is not None]
        gexprs = [gen_expr(exprs[k]) for k in idx]
    else:
        idx = list(range(len(exprs)))
    if len(idx) != len(gvals) or len(gexprs) != len(gvals):
        return [('generated model: %d values for %d cases' % (len(gvals), len(idx)), {}, None)]
    bad = [(k, g, gv) for k, g, gv in zip(idx, gexprs, gvals) if _norm(vals[k]) != _norm(gv)]
    return [('generated model (Gen/RefineGen.v) differs from the hand-written model', {'expr': g[:600], 'hand': str(vals[k])[:300], 'n': len(bad)}, str(gv)[:300])
            for k, g, gv in bad[:limit]]


def report(ctx, rej, built):
    """translator-rejected wording for the final verdict; True if a violation was filed"""
    if built or ctx.violations:
        return False
    if rej:
        ctx.violation('translator-rejected', {'translator': TRANSLATOR, 'source': SOURCE, 'reason': rej, 'theorems': [o[0] for o in ctx.obligations if not o[1]]},
                      'plinio/methods/mps/utils.py is outside the subset the translator accepts (%s): no generated model, the C20_generated_* theorems are not established' % rej[:300], no_input=True)
        return True
    return False
