(* C13 — Quantizers emit values that fit their declared bit-width and scale.
   Statements only (proofs: Proofs/Quant.v, model: Model/Quant.v).  Every statement quantifies over
   ALL rational inputs, all precisions p = p'+1 >= 1 (and p = 0 for weights), all clip values > 0,
   all channel lists.  Float rounding of the implementation is outside the model (DESIGN.md §4). *)
From Coq Require Import QArith Qround ZArith List.
Import ListNotations.
Require Import Plinio.Base.Qx Plinio.Base.Round Plinio.Model.Quant Plinio.Proofs.Quant.
Open Scope Q_scope.

(* --- weights (symmetric min-max, per channel) *)
Theorem C13_wq_channel_range : forall p' xs,
  Forall (fun z => (- pow2 p' <= z <= pow2 p' - 1)%Z) (wq_channel (S p') xs).
Proof. exact wq_channel_range. Qed.

Theorem C13_wq_zero_bits : forall m x, wq_int 0 m x = 0%Z /\ wq_fq 0 m x == 0 /\ wq_scale 0 m = 0.
Proof. exact wq_zero_bits. Qed.

Theorem C13_wq_mono : forall p' m, 0 <= m -> forall x x', x <= x' -> (wq_int (S p') m x <= wq_int (S p') m x')%Z.
Proof. exact wq_mono. Qed.

(* inside the channel range the error is at most half a step (also at the clipped top level) *)
Theorem C13_wq_err : forall p' m, 0 <= m -> forall x, - m <= x <= m ->
  - (wq_scale (S p') m / 2) <= x - wq_fq (S p') m x <= wq_scale (S p') m / 2.
Proof. exact wq_err. Qed.

Theorem C13_wq_scale_pos : forall p' m, 0 <= m -> 0 < wq_scale (S p') m.
Proof. exact wq_scale_pos. Qed.

(* --- activations (PACT) *)
Theorem C13_aq_range : forall p' clip, 0 < clip -> forall x, (0 <= aq_int (S p') clip x <= pow2 (S p') - 1)%Z.
Proof. exact aq_range. Qed.

Theorem C13_aq_nonpos_zero : forall p' clip, 0 < clip -> forall x, x <= 0 -> aq_int (S p') clip x = 0%Z.
Proof. exact aq_nonpos_zero. Qed.

Theorem C13_aq_top_common : forall p' clip, 0 < clip -> forall x, clip <= x -> aq_int (S p') clip x = aq_int (S p') clip clip.
Proof. exact aq_top_common. Qed.

Theorem C13_aq_mono : forall p' clip, 0 < clip -> forall x x', x <= x' -> (aq_int (S p') clip x <= aq_int (S p') clip x')%Z.
Proof. exact aq_mono. Qed.

Theorem C13_aq_trunc : forall p' clip, 0 < clip -> forall x, 0 <= x <= clip ->
  0 <= x - aq_fq (S p') clip x /\ x - aq_fq (S p') clip x < 1 / aq_sf (S p') clip.
Proof. exact aq_trunc. Qed.

Theorem C13_aq_fq_is_int_times_scale : forall p' clip, 0 < clip -> forall x,
  aq_fq (S p') clip x == inject_Z (aq_int (S p') clip x) * aq_scale (S p') clip.
Proof. exact aq_fq_scale. Qed.

(* the scale reported by the pinned upstream commit (clip / (2^p - 1)) does not satisfy it *)
Theorem C13_upstream_scale_refuted : exists p clip x, 0 < clip /\
  ~ aq_fq p clip x == inject_Z (aq_int p clip x) * aq_scale_v0 p clip.
Proof. exact aq_scale_v0_refuted. Qed.

(* --- bias *)
Theorem C13_bq_zero_scale : forall sb b, qabs sb <= 1 # 100000000 -> bq_int sb b = 0%Z /\ bq_fq sb b == 0.
Proof. exact bq_zero_scale. Qed.

Theorem C13_bq_multiple : forall sb b, bq_fq sb b = sb * inject_Z (bq_int sb b).
Proof. reflexivity. Qed.

Theorem C13_bq_mono : forall sb b b', (1 # 100000000) < sb -> b <= b' -> (bq_int sb b <= bq_int sb b')%Z.
Proof. exact bq_mono. Qed.

Theorem C13_bq_err : forall sb b, (1 # 100000000) < qabs sb -> - (qabs sb / 2) <= b - bq_fq sb b <= qabs sb / 2.
Proof. exact bq_err. Qed.

(* non-vacuity: a 3-channel example with a constant channel, an all-zero channel, a half-way rounding *)
Example C13_example :
  wq_channel 3 [1; 1; 1] = [3; 3; 3]%Z /\ wq_channel 3 [0; 0] = [0; 0]%Z /\
  wq_channel 2 [3 # 2; - (3 # 2); 1 # 2; - (1 # 2); 0] = [1; -2; 0; 0; 0]%Z /\
  map (aq_int 2 6) [-1; 0; 2; 6; 7] = [0; 0; 0; 2; 2]%Z /\ bq_int 0 5 = 0%Z /\ bq_int (1#2) (5#4) = 2%Z.
Proof. vm_compute. repeat split. Qed.

Print Assumptions C13_wq_channel_range.
Print Assumptions C13_wq_zero_bits.
Print Assumptions C13_wq_mono.
Print Assumptions C13_wq_err.
Print Assumptions C13_wq_scale_pos.
Print Assumptions C13_aq_range.
Print Assumptions C13_aq_nonpos_zero.
Print Assumptions C13_aq_top_common.
Print Assumptions C13_aq_mono.
Print Assumptions C13_aq_trunc.
Print Assumptions C13_aq_fq_is_int_times_scale.
Print Assumptions C13_upstream_scale_refuted.
Print Assumptions C13_bq_zero_scale.
Print Assumptions C13_bq_multiple.
Print Assumptions C13_bq_mono.
Print Assumptions C13_bq_err.
