#!/bin/bash
# usage: tools/regress_mutants.sh [lanes] [ids...]   re-runs every kept seeded change (seeded/<id>/patch.diff) against the
# CURRENT checks on a scratch worktree of /repo HEAD; one line per change in build/regress/summary.txt
lanes=${1:-3}; shift
cd /verif; mkdir -p build/regress
ids="$@"; [ -z "$ids" ] && ids=$(ls seeded)
run_one() {
  id=$1; p=${id%%-*}
  r=$(/verif/tools/mutant_run.sh /verif/seeded/$id $p quick 2>&1)
  echo "$r" > /verif/build/regress/$id.log
  echo "$id clean=$(echo "$r" | grep -o 'demo exit on clean: [0-9]*' | grep -o '[0-9]*$') mut=$(echo "$r" | grep -o 'demo exit on mutant: [0-9]*' | grep -o '[0-9]*$') check=$(echo "$r" | grep -o 'check exit: [0-9]*' | grep -o '[0-9]*$') viol=$(echo "$r" | grep -c '^VIOLATION') noinput=$(echo "$r" | grep -c 'no-failing-input-found') $(echo "$r" | grep -m1 -o 'patch does not apply')"
}
export -f run_one
# one lane per property so that two runs never share a generated Gen/*.v file of the same property at the same time
for p in $(echo "$ids" | tr ' ' '\n' | sed 's/-.*//' | sort -u); do echo "$p"; done > build/regress/props.txt
cat build/regress/props.txt | xargs -P $lanes -I{} bash -c 'for id in $(ls /verif/seeded | grep "^{}-"); do case " '"$ids"' " in *" $id "*|*) run_one $id;; esac; done' >> build/regress/summary.txt
