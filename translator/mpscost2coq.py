"""Translator: the MPS cost composition  ->  coq/Gen/MpsCostGen.v   (C05)

Reads, with `ast`, the SOURCE of the tree under test:
  plinio/methods/mps/nn/qtz.py       MPSPerChannelQtz.out_features_eff                    -> pcq_out_features_eff_gen (+ _ok)
  plinio/methods/mps/nn/conv1d.py    MPSConv1d.out_features_eff / get_modified_vars / get_cost  -> conv1d_*_gen (+ _ok)
  plinio/methods/mps/nn/conv2d.py    MPSConv2d.   "                                        -> conv2d_*_gen
  plinio/methods/mps/nn/linear.py    MPSLinear.   "                                        -> linear_*_gen
  plinio/methods/mps/nn/identity.py  MPSIdentity.out_features_eff / get_cost               -> identity_*_gen
  plinio/methods/mps/nn/add.py       MPSAdd.get_cost (nested function + torch.vmap)        -> add_get_cost_gen
  plinio/methods/mps/graph.py        the literal mps_layer_map                             -> mps_layer_map_gen
  plinio/methods/mps/mps.py          MPS._single_cost_fn_map, MPS._get_single_cost, the cost_specification setter
                                                                                           -> mps_single_cost_fn_map_gen, mps_get_single_cost_gen (+ _ok), mps_set_cost_specification_gen
  plinio/methods/dnas_base/dnas.py   DNAS._create_cost_fn_map, DNAS.get_cost, DNAS.cost    -> dnas_create_cost_fn_map_gen, dnas_get_cost_gen (+ _ok), dnas_cost_gen
and emits Gallina definitions that follow the code statement by statement over the vocabulary of Model/MpsCost.v
(spec = association list, upd = dict assignment, getk / lookup, qsum).  Proofs/MpsCostGen.v proves them equal to the
hand-written model (layer_cost, modified_vars true, eff_out, row_means, mps_net_cost_sh ... false) and Props/C05.v
transports the sentences of C05 (C05_generated_*).  The three open findings of C05 are behaviours of the generated
model too (nothing is repaired here).

How the code is read (TRUSTED conventions)
  * a layer object `self` is a `glayer`: gl_vars = vars(self) restricted to numeric entries (hyper-parameters; tuples such
    as kernel_size / output_shape are flattened to the keys kh kw / oh ow exactly as in Model/MpsCost.v static_vars),
    gl_ein = value of self.input_features_calculator.features (the calculators are C09's), gl_in = the input quantizer
    (precision, theta_alpha: 1-D), gl_w = the weight quantizer: WPerLayer precision theta (1-D) | WPerChannel precision
    theta (2-D) zero_index.  isinstance(self.w_mps_quantizer, MPSPerLayerQtz / MPSPerChannelQtz) is the match on gl_w; an
    `else: raise` behind both classes is dead code (the constructor's annotation Union[MPSPerLayerQtz, MPSPerChannelQtz]
    is checked); a branch that raises for one of the two classes is refused.
  * a 2-D tensor is a `mat` = (rows, number of columns): .size(dim=1) is the number of columns, .mean(dim=1) divides the
    row sums by it, t[z, :] is row z, torch.sum of a row is qsum.  That every row has that many entries is the shape
    invariant of tensors; that the number of columns of a layer's theta_alpha is its out_channels / out_features is how
    mps/graph.py builds the quantizers (cout = n.meta['tensor_meta'].shape[1]); both are assumptions of the footer.
  * float arithmetic is rational arithmetic; torch.tensor(x[, dtype=..]), cast(T, x), .detach() are the identity; the
    type object `int` stored under in_format / w_format is the tag fmt_int.
  * `dict(vars(self))` is a copy; `v = vars(self)` in MPSAdd.get_cost / MPS._get_single_cost (no copy: the writes stay in
    the module's __dict__) is read as a copy too: every key written is written again before it is read, and none of the
    keys written shadows a property.  v.update(d) puts d's entries in front (dict_update); v[k] = e is upd.
  * cost[i][j] = e on the zero tensor torch.zeros(size=(n, m)) is a cell store (set2); `for i, (a, b) in enumerate(zip(x, y))`
    is a fold_left over enumerate (combine x y) with the variables assigned in the body and defined before as the state.
  * the leaf-module lists are lists of (name, node, module); a node is read as the dictionary shapes_dict returns for it
    (shapes_dict / named_leaf_modules / uniquify_leaf_modules of plinio/graph/inspection.py are pinned by their text:
    _unique_leaf_modules = first occurrence of every name, which is what the footer builds); a module is
    (class, glayer); isinstance(layer, MPSModule) is read from the class headers; layer.get_cost dispatches on the class
    with Python's method resolution (MPSAdd overrides MPSIdentity); type(layer) of a non-MPS module is an opaque POther n.
  * a CostSpec is (shared, the function c[(type, vars)] : ptype -> spec -> cost function); what CostSpec.__getitem__ does
    is C15's; Union[CostSpec, Dict[str, CostSpec]] is gspecs (CSingle | CDict), _cost_fn_map is gfnmaps; a dict is an
    association list (first match), d[k] = e puts (k, e) in front, .items() lists the entries.
  * definedness (`*_ok`): the divisor of .mean(dim=1) is not 0, the row index of t[z, :] is in range, every dict
    subscript finds its key, every assert holds.  An ok term may only mention parameters, loop variables and the names
    bound by the enclosing matches; it is wrapped in the enclosing matches / ifs / loops (forallb).
Fail closed: everything else raises Reject.  Wiring checked structurally:
  * layer classes: bases (nn.X, MPSModule) / MPSAdd(MPSIdentity); MPSModule's get_cost / get_modified_vars / out_features_eff /
    input_features_calculator are abstract stubs; the constructor stores w_mps_quantizer (annotated Union[MPSPerLayerQtz,
    MPSPerChannelQtz]), creates in_mps_quantizer and the input features calculator; input_features_calculator is the plain
    property over _input_features_calculator; update_softmax_options takes (temperature, hard, gumbel, disable_sampling) and
    hands them over positionally in this order (also MPS.update_softmax_options); no other method stores into these
    attributes, uses vars(self) or touches __dict__; no __getattr__ / __setattr__;
  * the set of MPS classes: mps_layer_map / mps_func_map only name the five known classes, the nn package exports no other
    MPS class, no other class is defined in the layer files;
  * MPSPerChannelQtz: zero_index = position of the 0-bit precision (None if absent), theta_alpha a (len(precision), cout) buffer,
    MPSPerLayerQtz.theta_alpha a (len(precision),) buffer, neither stored elsewhere;
  * MPS / DNAS: MPS.__init__ takes the leaf lists from convert() before `self._cost_fn_map = self._create_cost_fn_map()`, stores
    cost_reduction_fn (default torch.sum) and full_cost (default False); DNAS.__init__ stores the cost specification; no other
    method stores into these fields; MPS does not override get_cost / cost / _create_cost_fn_map; the getter returns
    _cost_specification; shapes_dict / mps_layer_map / MPSModule are imported once and not re-bound in mps.py;
  * plinio/graph/inspection.py: shapes_dict, named_leaf_modules, uniquify_leaf_modules pinned by their text; convert returns
    (mod, named_leaf_modules(mod), uniquify_leaf_modules(..)).
NOT covered here: the samplers that produce theta_alpha (translator/sampler2coq.py, C10), the features calculators behind gl_ein
(translator/calc2coq.py, C09), CostSpec.__getitem__ (translator/costspec2coq.py, C15), the cost functions (translator/cost2coq.py, C16).
"""
import ast
import os
import re


class Reject(Exception):
    pass


def _u(n):
    try:
        return ast.unparse(n)[:170]
    except Exception:
        return ast.dump(n)[:170]


def _strip(stmts):
    return [s for s in stmts if not (isinstance(s, ast.Expr) and isinstance(s.value, ast.Constant) and isinstance(s.value.value, str))]


def _self(n, attr=None):
    return isinstance(n, ast.Attribute) and isinstance(n.value, ast.Name) and n.value.id == 'self' and (attr is None or n.attr == attr)


def _name(n, ident=None):
    return isinstance(n, ast.Name) and (ident is None or n.id == ident)


def _torch(n, fn):
    return isinstance(n, ast.Call) and isinstance(n.func, ast.Attribute) and _name(n.func.value, 'torch') and n.func.attr == fn


COQTY = {'Q': 'Q', 'NAT': 'nat', 'LQ': 'list Q', 'MAT': 'mat', 'M2': 'list (list Q)', 'SPEC': 'spec', 'FN': 'spec -> Q', 'BOOL': 'bool',
         'STR': 'string', 'OSTR': 'option string', 'ONAT': 'option nat', 'LAYER': 'glayer', 'CS': 'gcostspec', 'SPECS': 'gspecs', 'SPECDICT': 'list (string * gcostspec)',
         'FNMAP': 'fnmap', 'FNMAPDICT': 'list (string * fnmap)', 'FNMAPS': 'gfnmaps', 'LEAVES': 'list gleaf', 'MOD': 'gmod', 'NODE': 'gnode', 'MPS': 'gmps',
         'TENSOR': 'gtensor', 'PTYPE': 'ptype'}
KEYWORDS = {'fun', 'let', 'in', 'match', 'with', 'end', 'if', 'then', 'else', 'forall', 'exists', 'fix', 'as', 'return', 'Type', 'Prop', 'Set', 'at', 'using', 'where'}
RESERVED = {'self', 'it', 'spec', 'upd', 'getk', 'lookup', 'qsum', 'fst', 'snd', 'map', 'combine', 'length', 'app', 'nth', 'true', 'false', 'Some', 'None'}


def ident(x):
    """a Python local as a Coq binder"""
    if not re.match(r'^[A-Za-z_][A-Za-z0-9_]*$', x):
        raise Reject('identifier %r' % x)
    if x in KEYWORDS or x in RESERVED or x.endswith('_gen') or x.endswith('_ok') or x.startswith(('gl_', 'mp_', 'cs_', 'wq_', 'iq_', 'm_', 'mat_', 'fnmap', 'dict_', 'specs_', 'fnmaps_', 'with_', 'it')) or x[0].isupper():
        return 'v_' + x
    return x


# --------------------------------------------------------------------------------------------- context
class Cx:
    """one function being translated"""
    def __init__(self, tr, where, selfty, short=None):
        self.tr, self.where, self.selfty, self.short = tr, where, selfty, short
        self.oks = []              # definedness terms, already wrapped
        self.wrap = []             # stack of functions text -> text (enclosing matches / ifs / loops)
        self.locals = set()        # let-bound names (an ok term must not mention them)
        self.nit = 0
        self.refine = {}           # 'wq' -> 'layer' | 'chan';  'specs' -> ('dict' | 'single', var);  optional name -> var_v
        self.cname = None
        self.in_dict_copy = False
        self.params = set()
        self.stateful = False
        self.defs = {}             # local -> the expression it was last bound to
        self.prefix = ''           # the top-level lets of the function so far (an ok term about locals is put behind them)

    def rej(self, msg):
        raise Reject('%s: %s' % (self.where, msg))

    def ok(self, term):
        """record a definedness condition.  self.wrap holds (wrapper, bound names, kind): a loop / nested function whose
        variables the term does not mention is skipped (the condition is then required even if the body never runs)"""
        if term == 'true':
            return
        term = self.inline_locals(term, set())
        toks = set(re.findall(r"[A-Za-z_][A-Za-z0-9_']*", term))
        loc = sorted(toks & self.locals)
        if loc and self.wrap:
            self.rej('the definedness condition `%s` depends on the local variable %s inside a branch / loop' % (term, loc[0]))
        if loc:
            term = '(' + ' '.join(l.strip() for l in self.prefix.split('\n') if l.strip()) + ' ' + term + ')'
        for w, bound, kind in reversed(self.wrap):
            if kind in ('loop', 'def') and not (toks & set(bound)):
                continue
            if kind == 'def':
                self.rej('the definedness condition `%s` depends on a parameter of a nested function' % term)
            term = w(term)
            # a wrapper may mention locals of its own (the sequence of a loop): replace them by what they were bound to
            term = self.inline_locals(term, toks, must=True)
        if term not in self.oks:
            self.oks.append(term)

    def inline_locals(self, term, keep, must=False):
        """replace the locals of `term` (except those in `keep`) by the expressions they were last bound to, when these are
        self-contained (their own lets aside, they mention no local); must: refuse what cannot be replaced"""
        for _ in range(4):
            todo = sorted(set(re.findall(r"[A-Za-z_][A-Za-z0-9_']*", term)) & self.locals - set(keep))
            if not todo:
                break
            done = False
            for tok in todo:
                d = self.defs.get(tok)
                inner = set(re.findall(r"let ([A-Za-z_][A-Za-z0-9_']*) :=", d or '')) | {x.strip() for g_ in re.findall(r"let '\(([^()]*)\) :=", d or '') for x in g_.split(',')}
                if d is None or (set(re.findall(r"[A-Za-z_][A-Za-z0-9_']*", d)) & self.locals) - inner or inner & self.params or tok in inner:
                    if must:
                        self.rej('the definedness condition `%s` depends on the local variable %s' % (term, tok))
                    continue
                term = re.sub(r"(?<![A-Za-z0-9_'])%s(?![A-Za-z0-9_'])" % re.escape(tok), lambda m_, d=d: par(d), term)
                done = True
            if not done:
                break
        return term

    def fresh_it(self):
        self.nit += 1
        return 'it' if self.nit == 1 else 'it%d' % (self.nit - 2)


def par(t):
    return t if re.match(r'^[A-Za-z_0-9."%]+$', t) or (t.startswith('(') and _balanced(t)) else '(%s)' % t


def _balanced(t):
    d = 0
    for k, ch in enumerate(t):
        d += ch == '('
        d -= ch == ')'
        if d == 0 and k < len(t) - 1:
            return False
    return t.endswith(')')


def strlit(s):
    if not isinstance(s, str) or not re.match(r'^[A-Za-z_][A-Za-z0-9_]*$', s):
        raise Reject('dictionary key %r' % (s,))
    return '"%s"' % s


# --------------------------------------------------------------------------------------------- expressions
STATIC_ATTRS = ('out_channels', 'out_features', 'in_channels', 'in_features')


def ex(n, env, cx):
    """-> (Coq text, type)"""
    tr = cx.tr
    if isinstance(n, ast.Constant):
        if isinstance(n.value, bool) or n.value is None:
            cx.rej('constant %r' % (n.value,))
        if isinstance(n.value, int):
            return ('%d' % n.value if n.value >= 0 else '(%d)' % n.value), 'Q'
        if isinstance(n.value, float) and n.value == int(n.value):
            return '%d' % int(n.value), 'Q'
        cx.rej('constant %r' % (n.value,))
    if isinstance(n, ast.Name):
        if n.id in env:
            return env[n.id]
        if n.id == 'int':
            return 'fmt_int', 'Q'
        if n.id == 'float':
            return 'fmt_float', 'Q'
        cx.rej('unknown name %s' % n.id)
    # cast(T, e) / torch.tensor(e[, dtype=..]) / e.detach()
    if isinstance(n, ast.Call) and _name(n.func, 'cast') and len(n.args) == 2 and not n.keywords:
        return ex(n.args[1], env, cx)
    if _torch(n, 'tensor') and len(n.args) == 1 and all(k.arg == 'dtype' and _u(k.value) in ('torch.float32', 'torch.float') for k in n.keywords):
        t, ty = ex(n.args[0], env, cx)
        if ty != 'Q':
            cx.rej('torch.tensor of %s' % ty)
        return t, 'Q'
    if isinstance(n, ast.Call) and isinstance(n.func, ast.Attribute) and n.func.attr == 'detach' and not n.args and not n.keywords:
        t, ty = ex(n.func.value, env, cx)
        if ty not in ('Q', 'LQ', 'MAT'):
            cx.rej('.detach() of %s' % ty)
        return t, ty
    if isinstance(n, ast.Attribute):
        return attr(n, env, cx)
    if isinstance(n, ast.BinOp) and isinstance(n.op, (ast.Add, ast.Sub, ast.Mult)):
        (a, ta), (b, tb) = ex(n.left, env, cx), ex(n.right, env, cx)
        if ta != 'Q' or tb != 'Q':
            cx.rej('%s between %s and %s: %s' % (type(n.op).__name__, ta, tb, _u(n)))
        return '(%s %s %s)' % (a, {ast.Add: '+', ast.Sub: '-', ast.Mult: '*'}[type(n.op)], b), 'Q'
    if isinstance(n, ast.IfExp):
        c = test(n.test, env, cx)
        (a, ta), (b, tb) = ex(n.body, env, cx), ex(n.orelse, env, cx)
        if ta != tb:
            cx.rej('conditional expression of types %s / %s' % (ta, tb))
        return '(if %s then %s else %s)' % (c, a, b), ta
    if isinstance(n, ast.Subscript):
        return subscript(n, env, cx)
    if isinstance(n, ast.Call):
        return call(n, env, cx)
    cx.rej('expression not in the subset: %s' % _u(n))


def attr(n, env, cx):
    a = n.attr
    if _self(n):
        ty = cx.selfty
        if ty == 'LAYER':
            if a in STATIC_ATTRS:
                return '(getk %s (gl_vars self))' % strlit(a), 'Q'
            if a == 'out_features_eff':
                return cx.tr.call_method(cx, 'out_features_eff', [], env)
            if a in ('in_mps_quantizer', 'w_mps_quantizer', 'input_features_calculator'):
                cx.rej('self.%s used as a value' % a)
        if ty == 'PCQ':
            if a == 'theta_alpha':
                return 'q_theta_alpha', 'MAT'
            if a == 'zero_index':
                v = cx.refine.get('q_zero_index')
                if v is None:
                    cx.rej('self.zero_index read where it may be None')
                return v, 'NAT'
        if ty == 'MPS':
            tab = {'_unique_leaf_modules': ('(mp_unique self)', 'LEAVES'), '_leaf_modules': ('(mp_leaf self)', 'LEAVES'), 'full_cost': ('(mp_full_cost self)', 'BOOL'),
                   '_cost_fn_map': ('(mp_cost_fn_map self)', 'FNMAPS')}
            if a in tab:
                return tab[a]
            if a == '_cost_specification':
                r = cx.refine.get('specs')
                if r is None:
                    return '(mp_cost_specification self)', 'SPECS'
                return r[1], ('SPECDICT' if r[0] == 'dict' else 'CS')
            if a == 'cost_specification' and cx.tr.spec_getter_ok:
                return '(mp_cost_specification self)', 'SPECS'
        cx.rej('self.%s is not an attribute the translator knows here' % a)
    # self.<quantizer>.<field>
    if isinstance(n.value, ast.Attribute) and _self(n.value) and cx.selfty == 'LAYER':
        q = n.value.attr
        if q == 'in_mps_quantizer' and a in ('precision', 'theta_alpha'):
            return '(iq_%s (gl_in self))' % a, 'LQ'
        if q == 'w_mps_quantizer':
            if a == 'precision':
                return '(wq_precision (gl_w self))', 'LQ'
            r = cx.refine.get('wq')
            if a == 'theta_alpha' and r is not None:
                return 'wq_th', ('LQ' if r == 'layer' else 'MAT')
            if a == 'out_features_eff' and r == 'chan':
                cx.ok(cx.tr.ok_name('pcq_out_features_eff', ['wq_th', 'wq_z']))
                return '(pcq_out_features_eff_gen wq_th wq_z)', 'Q'
            if a == 'zero_index' and r == 'chan':
                cx.rej('the zero index is only read inside MPSPerChannelQtz')
            cx.rej('self.w_mps_quantizer.%s outside an isinstance branch that fixes the class of the quantizer' % a)
        if q == 'input_features_calculator' and a == 'features':
            return '(gl_ein self)', 'Q'
    if isinstance(n.value, ast.Name) and n.value.id in env:
        t, ty = env[n.value.id]
        if ty == 'CS' and a == 'shared':
            return '(cs_shared %s)' % t, 'BOOL'
    if _u(n) == 'nn.Module':
        return 'PModule', 'PTYPE'
    cx.rej('attribute not in the subset: %s' % _u(n))


def subscript(n, env, cx):
    v, s = n.value, n.slice
    # t[z, :]
    if isinstance(s, ast.Tuple) and len(s.elts) == 2 and isinstance(s.elts[1], ast.Slice) and s.elts[1].lower is None and s.elts[1].upper is None and s.elts[1].step is None:
        t, ty = ex(v, env, cx)
        z, tz = ex(s.elts[0], env, cx)
        if ty != 'MAT' or tz != 'NAT':
            cx.rej('row selection %s on %s with index %s' % (_u(n), ty, tz))
        cx.ok('mat_row_ok %s %s' % (t, z))
        return '(mat_row %s %s)' % (t, z), 'LQ'
    t, ty = ex(v, env, cx)
    if ty == 'FNMAP':
        k, tk = ex(s, env, cx)
        if tk != 'NAT':
            cx.rej('key of a cost function map: %s' % tk)
        cx.ok('fnmap_has %s %s' % (t, k))
        return '(fnmap_get %s %s)' % (t, k), 'FN'
    if ty in ('SPECDICT', 'SPECS', 'FNMAPS', 'FNMAPDICT'):
        k, tk = ex(s, env, cx)
        if tk != 'STR':
            cx.rej('key of a dictionary of cost specifications: %s' % tk)
        fn = {'SPECDICT': 'dict', 'FNMAPDICT': 'dict', 'SPECS': 'specs', 'FNMAPS': 'fnmaps'}[ty]
        cx.ok('%s_has %s %s' % (fn, t, k))
        if ty == 'SPECDICT':
            return '(dict_get default_cs %s %s)' % (t, k), 'CS'
        if ty == 'FNMAPDICT':
            return '(dict_get [] %s %s)' % (t, k), 'FNMAP'
        return '(%s_get %s %s)' % (fn, t, k), ('CS' if ty == 'SPECS' else 'FNMAP')
    if ty == 'CS':
        # c[(t, vars(layer))]
        if isinstance(s, ast.Tuple) and len(s.elts) == 2:
            (a, ta), (b, tb) = ex(s.elts[0], env, cx), ex(s.elts[1], env, cx)
            if ta == 'PTYPE' and tb == 'SPEC':
                return '(cs_get %s %s %s)' % (t, a, b), 'FN'
        cx.rej('subscript of a CostSpec: %s' % _u(n))
    cx.rej('subscript not in the subset: %s' % _u(n))


def kwargs(n, allowed):
    kw = {k.arg: k.value for k in n.keywords}
    if None in kw or set(kw) - set(allowed):
        raise Reject('keyword arguments of %s' % _u(n))
    return kw


def call(n, env, cx):
    f = n.func
    if isinstance(f, ast.Name):
        if f.id == 'len' and len(n.args) == 1 and not n.keywords:
            t, ty = ex(n.args[0], env, cx)
            if ty != 'LQ':
                cx.rej('len of %s' % ty)
            return '(length %s)' % t, 'NAT'
        if f.id == 'vars' and len(n.args) == 1 and not n.keywords:
            a = n.args[0]
            if _name(a, 'self') and cx.selfty == 'LAYER':
                if not cx.in_dict_copy and cx.cname != 'MPSAdd':
                    cx.rej('vars(self) without a copy (the writes would change the attributes of the layer): only dict(vars(self)) is in the subset here')
                return '(gl_vars self)', 'SPEC'
            if isinstance(a, ast.Name) and env.get(a.id, (None, None))[1] == 'MOD':
                return '(gl_vars (snd %s))' % env[a.id][0], 'SPEC'
            cx.rej('vars of %s' % _u(a))
        if f.id == 'dict' and len(n.args) == 1 and not n.keywords and isinstance(n.args[0], ast.Call) and _name(n.args[0].func, 'vars'):
            cx.in_dict_copy = True
            try:
                return ex(n.args[0], env, cx)
            finally:
                cx.in_dict_copy = False
        if f.id == 'shapes_dict' and len(n.args) == 1 and not n.keywords:
            t, ty = ex(n.args[0], env, cx)
            if ty != 'NODE':
                cx.rej('shapes_dict of %s' % ty)
            return '(shapes_dict %s)' % t, 'SPEC'
        if f.id == 'type' and len(n.args) == 1 and not n.keywords:
            t, ty = ex(n.args[0], env, cx)
            if ty != 'MOD' or cx.refine.get('mod:' + t) != 'other':
                cx.rej('type(%s) outside the branch of a module that is not an MPSModule' % _u(n.args[0]))
            return '(nn_type_of %s)' % t, 'PTYPE'
        if f.id in env:
            t, ty = env[f.id]
            if ty == 'FN' and len(n.args) == 1 and not n.keywords:
                a, ta = ex(n.args[0], env, cx)
                if ta != 'SPEC':
                    cx.rej('cost function applied to %s' % ta)
                return '(%s %s)' % (t, a), 'Q'
            if ty == 'VFN2' and len(n.args) == 2 and not n.keywords:
                (a, ta), (b, tb) = ex(n.args[0], env, cx), ex(n.args[1], env, cx)
                if ta != 'LQ' or tb != 'LQ':
                    cx.rej('vectorised function applied to %s, %s' % (ta, tb))
                return '(%s %s %s)' % (t, a, b), 'LQ'
        cx.rej('call not in the subset: %s' % _u(n))
    if not isinstance(f, ast.Attribute):
        cx.rej('call not in the subset: %s' % _u(n))
    # torch.*
    if _torch(n, 'zeros'):
        kw = kwargs(n, ('size', 'device'))
        sz = kw.get('size') if not n.args else (n.args[0] if len(n.args) == 1 else None)
        if not (isinstance(sz, ast.Tuple) and len(sz.elts) == 2):
            cx.rej('torch.zeros: %s' % _u(n))
        (a, ta), (b, tb) = ex(sz.elts[0], env, cx), ex(sz.elts[1], env, cx)
        if ta != 'NAT' or tb != 'NAT':
            cx.rej('torch.zeros of sizes %s, %s' % (ta, tb))
        return '(zeros2 %s %s)' % (a, b), 'M2'
    if _torch(n, 'sum') and len(n.args) == 1 and not n.keywords:
        t, ty = ex(n.args[0], env, cx)
        if ty != 'LQ':
            cx.rej('torch.sum of %s' % ty)
        return '(qsum %s)' % t, 'Q'
    if _torch(n, 'vmap') and len(n.args) == 1 and not n.keywords:
        t, ty = ex(n.args[0], env, cx)
        if ty != 'FN2':
            cx.rej('torch.vmap of %s' % ty)
        return '(vmap2 %s)' % t, 'VFN2'
    # tensor methods
    if f.attr in ('mean', 'size') and not n.args:
        kw = kwargs(n, ('dim',))
        d = kw.get('dim')
        if not (isinstance(d, ast.Constant) and d.value == 1 and not isinstance(d.value, bool)):
            cx.rej('%s: only dim=1 of a 2-D tensor is in the subset' % _u(n))
        t, ty = ex(f.value, env, cx)
        if ty != 'MAT':
            cx.rej('.%s(dim=1) of %s' % (f.attr, ty))
        if f.attr == 'mean':
            cx.ok('mat_mean_ok %s' % t)
            return '(mat_mean_dim1 %s)' % t, 'LQ'
        return '(mat_size_dim1 %s)' % t, 'Q'
    if f.attr == 'items' and not n.args and not n.keywords:
        t, ty = ex(f.value, env, cx)
        if ty != 'SPECDICT':
            cx.rej('.items() of %s' % ty)
        return '(dict_items %s)' % t, 'ITEMS'
    # cost_fn_map[lname](v)
    if isinstance(f, ast.Subscript):
        pass
    # methods of self
    if _self(f):
        return cx.tr.call_method(cx, f.attr, n.args, env, n.keywords)
    # layer.get_cost(fn, shapes)
    if isinstance(f.value, ast.Name) and env.get(f.value.id, (None, None))[1] == 'MOD' and f.attr == 'get_cost' and len(n.args) == 2 and not n.keywords:
        m = env[f.value.id][0]
        if cx.refine.get('mod:' + m) != 'mps':
            cx.rej('layer.get_cost outside the isinstance(layer, MPSModule) branch')
        (a, ta), (b, tb) = ex(n.args[0], env, cx), ex(n.args[1], env, cx)
        if ta != 'FN' or tb != 'SPEC':
            cx.rej('get_cost called with %s, %s' % (ta, tb))
        cx.ok('layer_get_cost_ok %s %s %s' % (m, par(a), par(b)))
        return '(layer_get_cost_gen %s %s %s)' % (m, a, b), 'TENSOR'
    cx.rej('call not in the subset: %s' % _u(n))


def call_any(n, env, cx):
    """calls whose function is itself an expression: cost_fn_map[lname](v)"""
    if isinstance(n, ast.Call) and isinstance(n.func, ast.Subscript) and len(n.args) == 1 and not n.keywords:
        f, tf = ex(n.func, env, cx)
        a, ta = ex(n.args[0], env, cx)
        if tf == 'FN' and ta == 'SPEC':
            return '(%s %s)' % (f, a), 'Q'
    return None


_ex0 = ex


def ex(n, env, cx):   # noqa: F811  (wrapper: function-valued subscripts first)
    r = call_any(n, env, cx)
    return r if r is not None else _ex0(n, env, cx)


def test(n, env, cx):
    """boolean test of an if / conditional expression -> bool term"""
    if isinstance(n, ast.Attribute) or isinstance(n, ast.Name):
        t, ty = ex(n, env, cx)
        if ty == 'BOOL':
            return t
    cx.rej('test not in the subset: %s' % _u(n))


# --------------------------------------------------------------------------------------------- statements
def assigned(stmts):
    """names bound by a statement list (plain assignments, stores through a subscript / .update on a local, nested defs)"""
    out = []
    for s in stmts:
        if isinstance(s, ast.Assign) and len(s.targets) == 1:
            t = s.targets[0]
            while isinstance(t, ast.Subscript):
                t = t.value
            if isinstance(t, ast.Name):
                out.append(t.id)
        elif isinstance(s, ast.Expr) and isinstance(s.value, ast.Call) and isinstance(s.value.func, ast.Attribute) and s.value.func.attr == 'update' and _name(s.value.func.value):
            out.append(s.value.func.value.id)
        elif isinstance(s, ast.FunctionDef):
            out.append(s.name)
        elif isinstance(s, (ast.For, ast.If)):
            out += assigned(s.body) + assigned(s.orelse)
        elif isinstance(s, ast.Try):
            out += assigned(s.body) + [x for h in s.handlers for x in assigned(h.body)]
    return out


def used_names(stmts):
    return {x.id for s in stmts for x in ast.walk(s) if isinstance(x, ast.Name) and isinstance(x.ctx, ast.Load)}


def ends_with_return(stmts):
    stmts = _strip(stmts)
    if not stmts:
        return False
    s = stmts[-1]
    if isinstance(s, ast.Return):
        return True
    if isinstance(s, ast.If):
        return ends_with_return(s.body) and ends_with_return(s.orelse)
    return False


def is_raise(stmts):
    stmts = _strip(stmts)
    return bool(stmts) and isinstance(stmts[-1], ast.Raise) and all(isinstance(s, (ast.Assign, ast.Raise)) for s in stmts)


def _isinst(t, cx):
    """isinstance(<x>, <Cls>) -> (unparsed x, class name) or None"""
    if isinstance(t, ast.Call) and _name(t.func, 'isinstance') and len(t.args) == 2 and not t.keywords and isinstance(t.args[1], ast.Name):
        return _u(t.args[0]), t.args[1].id
    return None


def arms(s, env, cx):
    """an if statement as a case analysis -> (format(list of arm texts) -> text, [(refine updates, stmts, okwrap)])"""
    t = s.test
    ii = _isinst(t, cx)
    # 1. class of the weight quantizer
    if ii and ii[0] == 'self.w_mps_quantizer' and cx.selfty == 'LAYER' and ii[1] in ('MPSPerLayerQtz', 'MPSPerChannelQtz'):
        if cx.refine.get('wq') is not None:
            cx.rej('nested isinstance tests on the weight quantizer')
        out = []
        for K, cls in (('layer', 'MPSPerLayerQtz'), ('chan', 'MPSPerChannelQtz')):
            cur = s
            while True:
                i2 = _isinst(cur.test, cx)
                if not (i2 and i2[0] == 'self.w_mps_quantizer' and i2[1] in ('MPSPerLayerQtz', 'MPSPerChannelQtz')):
                    cx.rej('mixed tests in an isinstance chain: %s' % _u(cur.test))
                if i2[1] == cls:
                    body = cur.body
                    break
                rest = _strip(cur.orelse)
                if len(rest) == 1 and isinstance(rest[0], ast.If) and _isinst(rest[0].test, cx) and _isinst(rest[0].test, cx)[0] == 'self.w_mps_quantizer':
                    cur = rest[0]
                    continue
                body = cur.orelse
                break
            if is_raise(body) or not _strip(body):
                cx.rej('the branch taken for a %s weight quantizer raises / is empty: the model has no such behaviour' % cls)
            out.append(body)
        pats = ['| WPerLayer wq_p wq_th =>', '| WPerChannel wq_p wq_th wq_z =>']

        def fmt(texts, pad):
            return '(match gl_w self with\n' + ''.join('%s%s\n%s' % (pad, p, x) for p, x in zip(pats, texts)) + pad + 'end)'
        wr = [lambda x: '(match gl_w self with WPerLayer wq_p wq_th => %s | WPerChannel _ _ _ => true end)' % x,
              lambda x: '(match gl_w self with WPerChannel wq_p wq_th wq_z => %s | WPerLayer _ _ => true end)' % x]
        return fmt, [({'wq': 'layer'}, out[0], wr[0]), ({'wq': 'chan'}, out[1], wr[1])]
    # 2. optional values: `x is None` / `x is not None`
    if isinstance(t, ast.Compare) and len(t.ops) == 1 and isinstance(t.ops[0], (ast.Is, ast.IsNot)) and isinstance(t.comparators[0], ast.Constant) and t.comparators[0].value is None:
        if _self(t.left, 'zero_index') and cx.selfty == 'PCQ':
            var, vv = 'q_zero_index', 'q_zero_index_v'
            envupd = {'q_zero_index': vv}
        elif isinstance(t.left, ast.Name) and env.get(t.left.id, (None, None))[1] == 'OSTR':
            var = env[t.left.id][0]
            vv = var + '_v'
            envupd = {'env:' + t.left.id: (vv, 'STR')}
        else:
            cx.rej('test not in the subset: %s' % _u(t))
        some, none = (s.orelse, s.body) if isinstance(t.ops[0], ast.Is) else (s.body, s.orelse)

        def fmt(texts, pad):
            return '(match %s with\n%s| Some %s =>\n%s%s| None =>\n%s%send)' % (var, pad, vv, texts[0], pad, texts[1], pad)
        return fmt, [(envupd, some, lambda x: '(match %s with Some %s => %s | None => true end)' % (var, vv, x)),
                     ({}, none, lambda x: '(match %s with None => %s | Some _ => true end)' % (var, x))]
    # 3. single CostSpec vs dictionary of CostSpecs
    if ii and ii[0] == 'self._cost_specification' and cx.selfty == 'MPS' and ii[1] in ('dict', 'CostSpec'):
        d, c = (s.body, s.orelse) if ii[1] == 'dict' else (s.orelse, s.body)

        def fmt(texts, pad):
            return '(match mp_cost_specification self with\n%s| CDict specs_d =>\n%s%s| CSingle specs_c =>\n%s%send)' % (pad, texts[0], pad, texts[1], pad)
        return fmt, [({'specs': ('dict', 'specs_d')}, d, lambda x: '(match mp_cost_specification self with CDict specs_d => %s | CSingle _ => true end)' % x),
                     ({'specs': ('single', 'specs_c')}, c, lambda x: '(match mp_cost_specification self with CSingle specs_c => %s | CDict _ => true end)' % x)]
    # 4. isinstance(layer, MPSModule)
    if ii and ii[1] == 'MPSModule' and isinstance(t.args[0], ast.Name) and env.get(t.args[0].id, (None, None))[1] == 'MOD':
        m = env[t.args[0].id][0]
        c = '(is_mps_module %s)' % m

        def fmt(texts, pad):
            return '(if %s then\n%s%selse\n%s%s)' % (c, texts[0], pad, texts[1], pad)
        return fmt, [({'mod:' + m: 'mps'}, s.body, lambda x: '(if %s then %s else true)' % (c, x)),
                     ({'mod:' + m: 'other'}, s.orelse, lambda x: '(if %s then true else %s)' % (c, x))]
    # 5. a boolean
    c = test(t, env, cx)

    def fmt(texts, pad):
        return '(if %s then\n%s%selse\n%s%s)' % (c, texts[0], pad, texts[1], pad)
    return fmt, [({}, s.body, lambda x: '(if %s then %s else true)' % (c, x)), ({}, s.orelse, lambda x: '(if %s then true else %s)' % (c, x))]


JOIN = {('FNMAPDICT', 'FNMAP'): ('FNMAPS', 'FDict %s', 'FSingle %s'), ('FNMAP', 'FNMAPDICT'): ('FNMAPS', 'FSingle %s', 'FDict %s'),
        ('EMPTYDICT', 'FNMAP'): ('FNMAP', '%s', '%s'), ('FNMAP', 'EMPTYDICT'): ('FNMAP', '%s', '%s'),
        # a value of the union type handed on where a single map is expected (cast(Dict[str, CostFn], ..)): defined iff it is one
        ('FNMAPS', 'FNMAP'): ('FNMAP', 'fnmaps_as_single %s', '%s'), ('FNMAP', 'FNMAPS'): ('FNMAP', '%s', 'fnmaps_as_single %s')}


def tup(names):
    return names[0] if len(names) == 1 else '(%s)' % ', '.join(names)


def pat(names):
    return names[0] if len(names) == 1 else "'(%s)" % ', '.join(names)


def block(stmts, env, cx, ind, mode):
    """mode 'fn': ends with a return -> (text, None, (type)); mode 'br': a branch / loop body -> (lets text, env, None)"""
    pad = '  ' * ind
    out = ''
    env = dict(env)
    stmts = _strip(stmts)
    k = -1
    for k, s in enumerate(stmts):
        rest = stmts[k + 1:]
        if ind == 1 and mode == 'fn' and not cx.wrap:
            cx.prefix = out
        if isinstance(s, ast.Pass):
            continue
        if isinstance(s, ast.Return):
            if mode != 'fn' or rest or s.value is None:
                cx.rej('return that is not the last statement of the function: %s' % _u(s))
            t, ty = ex(s.value, env, cx)
            return out + pad + t + '\n', env, ty
        if isinstance(s, ast.Assert):
            ii = _isinst(s.test, cx)
            if ii and ii[0] == 'self._cost_specification' and cx.selfty == 'MPS' and ii[1] in ('dict', 'CostSpec') and cx.refine.get('specs') is None:
                if ii[1] == 'dict':
                    cx.ok('specs_is_dict (mp_cost_specification self)')
                    cx.refine['specs'] = ('dict', '(specs_as_dict (mp_cost_specification self))')
                else:
                    cx.ok('specs_is_single (mp_cost_specification self)')
                    cx.refine['specs'] = ('single', '(specs_as_single (mp_cost_specification self))')
                continue
            cx.rej('assert not in the subset: %s' % _u(s.test))
        if isinstance(s, ast.FunctionDef):
            a = s.args
            if s.decorator_list or a.vararg or a.kwarg or a.kwonlyargs or a.defaults or a.posonlyargs or len(a.args) != 2 or cx.selfty != 'LAYER':
                cx.rej('nested function %s: only a two-argument function (for torch.vmap) is in the subset' % s.name)
            ps = [ident(x.arg) for x in a.args]
            env2 = dict(env)
            for x, p in zip(a.args, ps):
                env2[x.arg] = (p, 'Q')
                cx.locals.add(p)
            depth = len(cx.wrap)
            cx.wrap.append((None, list(ps), 'def'))
            body, _, ty = block(s.body, env2, cx, ind + 1, 'fn')
            del cx.wrap[depth:]
            if ty != 'Q':
                cx.rej('nested function %s returns %s' % (s.name, ty))
            nm = ident(s.name)
            out += pad + 'let %s := (fun %s =>\n%s%s) in\n' % (nm, ' '.join(ps), body, pad)
            env[s.name] = (nm, 'FN2')
            cx.locals.add(nm)
            continue
        if isinstance(s, ast.Assign) and len(s.targets) == 1:
            tg = s.targets[0]
            if isinstance(tg, ast.Name):
                x = ident(tg.id)
                if tg.id in ('self',) or env.get(tg.id, (None, None))[1] in ('FN', 'MPS', 'LAYER') and tg.id in cx.params:
                    cx.rej('assignment to the parameter %s' % tg.id)
                if isinstance(s.value, ast.Dict) and not s.value.keys:
                    t, ty = '[]', 'EMPTYDICT'
                elif isinstance(s.value, ast.Name) and env.get(s.value.id, (None, None))[1] in ('SPEC', 'M2', 'FNMAP', 'FNMAPDICT', 'EMPTYDICT'):
                    cx.rej('`%s` makes two names for one mutable object' % _u(s))
                else:
                    t, ty = ex(s.value, env, cx)
                out += pad + 'let %s := %s in\n' % (x, t)
                env[tg.id] = (x, ty)
                cx.locals.add(x)
                cx.defs[x] = t
                continue
            if isinstance(tg, ast.Subscript):
                base = tg.value
                # cost[i][j] = e
                if isinstance(base, ast.Subscript) and isinstance(base.value, ast.Name) and env.get(base.value.id, (None, None))[1] == 'M2':
                    m = env[base.value.id][0]
                    (i, ti), (j, tj), (e, te) = ex(base.slice, env, cx), ex(tg.slice, env, cx), ex(s.value, env, cx)
                    if (ti, tj, te) != ('NAT', 'NAT', 'Q'):
                        cx.rej('cell store %s with types %s' % (_u(s), (ti, tj, te)))
                    out += pad + 'let %s := set2 %s %s %s %s in\n' % (m, m, i, j, e)
                    continue
                if isinstance(base, ast.Name) and base.id in env:
                    d, td = env[base.id]
                    if td == 'SPEC' and isinstance(tg.slice, ast.Constant):
                        e, te = ex(s.value, env, cx)
                        if te != 'Q':
                            cx.rej('dictionary entry of type %s: %s' % (te, _u(s)))
                        if d.startswith('('):
                            cx.rej('store into a dictionary that is not a local: %s' % _u(s))
                        out += pad + 'let %s := upd %s %s %s in\n' % (d, strlit(tg.slice.value), par(e), d)
                        continue
                    if td in ('EMPTYDICT', 'FNMAP', 'FNMAPDICT'):
                        (kx, tk), (e, te) = ex(tg.slice, env, cx), ex(s.value, env, cx)
                        if (tk, te) == ('NAT', 'FN') and td in ('EMPTYDICT', 'FNMAP'):
                            out += pad + 'let %s := fnmap_set %s %s %s in\n' % (d, d, kx, par(e))
                            env[base.id] = (d, 'FNMAP')
                            continue
                        if (tk, te) == ('STR', 'FNMAP') and td in ('EMPTYDICT', 'FNMAPDICT'):
                            out += pad + 'let %s := dict_set %s %s %s in\n' % (d, d, kx, par(e))
                            env[base.id] = (d, 'FNMAPDICT')
                            continue
                cx.rej('store not in the subset: %s' % _u(s))
            if _self(tg) and cx.stateful:
                fld = {'_cost_specification': ('with_cost_specification', 'SPECS'), '_cost_fn_map': ('with_cost_fn_map', 'FNMAPS')}.get(tg.attr)
                if fld is None:
                    cx.rej('store into self.%s' % tg.attr)
                e, te = ex(s.value, env, cx)
                if te != fld[1]:
                    cx.rej('self.%s gets a value of type %s' % (tg.attr, te))
                out += pad + 'let self := %s self %s in\n' % (fld[0], par(e))
                continue
            cx.rej('assignment not in the subset: %s' % _u(s))
        if isinstance(s, ast.Expr) and isinstance(s.value, ast.Call) and isinstance(s.value.func, ast.Attribute) and s.value.func.attr == 'update' \
                and _name(s.value.func.value) and len(s.value.args) == 1 and not s.value.keywords:
            v = s.value.func.value.id
            if env.get(v, (None, None))[1] != 'SPEC' or env[v][0].startswith('('):
                cx.rej('.update on something that is not a local dictionary: %s' % _u(s))
            e, te = ex(s.value.args[0], env, cx)
            if te != 'SPEC':
                cx.rej('.update with %s' % te)
            out += pad + 'let %s := dict_update %s %s in\n' % (env[v][0], env[v][0], e)
            continue
        if isinstance(s, ast.Try):
            out += try_idiom(s, env, cx, pad)
            continue
        if isinstance(s, ast.For):
            out += loop(s, env, cx, ind, rest)
            continue
        if isinstance(s, ast.If):
            fmt, cases = arms(s, env, cx)
            if all(ends_with_return(c[1]) for c in cases):
                if mode != 'fn' or rest:
                    cx.rej('an if statement whose branches return is not the last statement')
                texts, tys = [], []
                for upd_, body, w in cases:
                    t, ty = arm(body, env, cx, ind + 1, 'fn', upd_, w)
                    texts.append(t)
                    tys.append(ty)
                if len(set(tys)) != 1:
                    cx.rej('the branches return values of types %s' % tys)
                return out + pad + fmt(texts, pad) + '\n', env, tys[0]
            if any(ends_with_return(c[1]) for c in cases) or any(isinstance(x, ast.Return) for c in cases for y in c[1] for x in ast.walk(y)):
                cx.rej('return in only some branches of an if statement')
            per = [set(assigned(c[1])) for c in cases]
            after = used_names(rest) | ({'__ret__'} if False else set())
            vs = []
            for v in sorted(set().union(*per)):
                if v in env:
                    vs.append(v)
                elif all(v in p for p in per) and v in after:
                    vs.append(v)
                elif v in after:
                    cx.rej('variable %s is assigned in some branches only, undefined before and read afterwards' % v)
            if not vs:
                cx.rej('an if statement that binds nothing that is used afterwards: %s' % _u(s.test))
            texts, envs, armdefs = [], [], []
            for upd_, body, w in cases:
                saved_defs = dict(cx.defs)
                t, e2 = arm(body, env, cx, ind + 1, 'br', upd_, w)
                texts.append(t)
                envs.append(e2)
                armdefs.append(dict(cx.defs))
                cx.defs = saved_defs
            finals = {}
            for v in vs:
                tys = [e2[v][1] for e2 in envs]
                if len(set(tys)) == 1:
                    finals[v] = (tys[0], ['%s'] * len(tys))
                elif len(tys) == 2 and tuple(tys) in JOIN:
                    j = JOIN[tuple(tys)]
                    finals[v] = (j[0], [j[1], j[2]])
                    for i_, f_ in enumerate((j[1], j[2])):
                        if f_.startswith('fnmaps_as_single'):
                            cx.wrap.append((cases[i_][2], [], 'case'))
                            cx.ok('fnmaps_is_single %s' % armdefs[i_].get(envs[i_][v][0], envs[i_][v][0]))
                            cx.wrap.pop()
                else:
                    cx.rej('variable %s has types %s in the branches' % (v, tys))
            names = [ident(v) for v in vs]
            texts = [t + '  ' * (ind + 1) + tup([par(finals[v][1][i] % e2[v][0]) if finals[v][1][i] != '%s' else e2[v][0] for v in vs]) + '\n' for i, (t, e2) in enumerate(zip(texts, envs))]
            joined = fmt(texts, pad)
            out += pad + 'let %s := %s in\n' % (pat(names), joined)
            for v, nm in zip(vs, names):
                env[v] = (nm, finals[v][0])
                cx.locals.add(nm)
                cx.defs.pop(nm, None)
            if len(names) == 1:
                # what the joined variable is, without the lets of the branches: the case analysis over what each branch bound it to
                ds = [armdefs[i_].get(envs[i_][vs[0]][0]) if envs[i_][vs[0]][0] != env.get(vs[0], (None,))[0] or vs[0] in assigned(cases[i_][1]) else envs[i_][vs[0]][0]
                      for i_ in range(len(cases))]
                if all(d_ is not None for d_ in ds) and all(finals[vs[0]][1][i_] == '%s' for i_ in range(len(cases))):
                    cx.defs[names[0]] = ' '.join(l.strip() for l in fmt(['  ' + par(d_) + '\n' for d_ in ds], '').split('\n') if l.strip())
            continue
        cx.rej('statement not in the subset: %s' % _u(s).split('\n')[0])
    if mode == 'fn':
        cx.rej('the function does not end with a return')
    return out, env, None


def arm(body, env, cx, ind, mode, upd_, w):
    saved = dict(cx.refine)
    env = dict(env)
    for key, val in upd_.items():
        if key.startswith('env:'):
            env[key[4:]] = val
        else:
            cx.refine[key] = val
    depth = len(cx.wrap)
    cx.wrap.append((w, [], 'case'))
    if not _strip(body):
        t, e2, ty = '', dict(env), None
        if mode == 'fn':
            cx.rej('empty branch where a value is returned')
    else:
        t, e2, ty = block(body, env, cx, ind, mode)
    del cx.wrap[depth:]
    cx.refine = saved
    return (t, ty) if mode == 'fn' else (t, e2)


def try_idiom(s, env, cx, pad):
    """try: t = list(M.keys())[list(M.values()).index(type(layer))]  except ValueError: t = nn.Module"""
    b, hs = _strip(s.body), s.handlers
    if s.orelse or s.finalbody or len(b) != 1 or len(hs) != 1 or not (isinstance(hs[0].type, ast.Name) and hs[0].type.id == 'ValueError') or hs[0].name:
        cx.rej('try statement not in the subset')
    hb = _strip(hs[0].body)
    a = b[0]
    if not (isinstance(a, ast.Assign) and len(a.targets) == 1 and isinstance(a.targets[0], ast.Name) and len(hb) == 1 and isinstance(hb[0], ast.Assign)
            and len(hb[0].targets) == 1 and _name(hb[0].targets[0], a.targets[0].id)):
        cx.rej('try statement not in the subset')
    m = re.match(r'^list\((\w+)\.keys\(\)\)\[list\((\w+)\.values\(\)\)\.index\(type\((\w+)\)\)\]$', _u(a.value))
    if not m or m.group(1) != m.group(2) or m.group(1) != 'mps_layer_map' or env.get(m.group(3), (None, None))[1] != 'MOD':
        cx.rej('try body is not the reverse look-up in mps_layer_map: %s' % _u(a.value))
    lay = env[m.group(3)][0]
    if cx.refine.get('mod:' + lay) != 'mps':
        cx.rej('reverse look-up of a layer that may not be an MPSModule')
    d, td = ex(hb[0].value, env, cx)
    if td != 'PTYPE':
        cx.rej('except branch assigns %s' % td)
    x = ident(a.targets[0].id)
    env[a.targets[0].id] = (x, 'PTYPE')
    cx.locals.add(x)
    cx.tr.uses_layer_map = True
    return pad + 'let %s := (match rev_lookup mps_layer_map_gen (fst %s) with Some v_found => v_found | None => %s end) in\n' % (x, lay, d)


def loop(s, env, cx, ind, rest):
    pad = '  ' * ind
    if s.orelse:
        cx.rej('for/else')
    for x in ast.walk(s):
        if isinstance(x, (ast.Break, ast.Continue, ast.Return)):
            cx.rej('%s inside a loop' % type(x).__name__)
    it = cx.fresh_it()
    env2 = dict(env)
    binds = []            # (python name, projection, type)
    tg, src = s.target, s.iter

    def elts(t):
        return list(t.elts) if isinstance(t, ast.Tuple) else None
    if isinstance(src, ast.Call) and _name(src.func, 'enumerate') and len(src.args) == 1 and not src.keywords:
        e = elts(tg)
        if not e or len(e) != 2 or not isinstance(e[0], ast.Name):
            cx.rej('loop header: %s' % _u(tg))
        binds.append((e[0].id, 'fst %s' % it, 'NAT'))
        inner_t, inner_p, src2, enum = e[1], 'snd %s' % it, src.args[0], True
    else:
        inner_t, inner_p, src2, enum = tg, it, src, False
    if isinstance(src2, ast.Call) and _name(src2.func, 'zip') and len(src2.args) == 2 and not src2.keywords:
        (a, ta), (b, tb) = ex(src2.args[0], env, cx), ex(src2.args[1], env, cx)
        if ta != 'LQ' or tb != 'LQ':
            cx.rej('zip of %s and %s' % (ta, tb))
        e = elts(inner_t)
        if not e or len(e) != 2 or not all(isinstance(x, ast.Name) for x in e):
            cx.rej('loop header: %s' % _u(tg))
        binds += [(e[0].id, 'fst (%s)' % inner_p if ' ' in inner_p else 'fst %s' % inner_p, 'Q'), (e[1].id, 'snd (%s)' % inner_p if ' ' in inner_p else 'snd %s' % inner_p, 'Q')]
        seq = '(combine %s %s)' % (a, b)
    else:
        t, ty = ex(src2, env, cx)
        e = elts(inner_t)
        if ty == 'LEAVES' and e and len(e) == 3 and all(isinstance(x, ast.Name) for x in e):
            p = inner_p if ' ' not in inner_p else '(%s)' % inner_p
            binds += [(e[0].id, 'fst (fst %s)' % p, 'NAT'), (e[1].id, 'snd (fst %s)' % p, 'NODE'), (e[2].id, 'snd %s' % p, 'MOD')]
        elif ty == 'ITEMS' and e and len(e) == 2 and all(isinstance(x, ast.Name) for x in e):
            p = inner_p if ' ' not in inner_p else '(%s)' % inner_p
            binds += [(e[0].id, 'fst %s' % p, 'STR'), (e[1].id, 'snd %s' % p, 'CS')]
        else:
            cx.rej('loop over %s with target %s' % (ty, _u(tg)))
        seq = t
    if enum:
        seq = '(enumerate %s)' % seq
    heads = ''
    loopvars = []
    for py, proj, ty in binds:
        if py == '_':
            continue
        if py in loopvars or py in env:
            cx.rej('the loop variable %s shadows another variable' % py)
        nm = ident(py)
        heads += '  ' * (ind + 1) + 'let %s := %s in\n' % (nm, proj)
        env2[py] = (nm, ty)
        loopvars.append(py)
    carried = []
    for x in assigned(s.body):
        if x in loopvars:
            cx.rej('the loop assigns its own variable %s' % x)
        if x in env and x not in carried:
            carried.append(x)
        elif x not in env and x in used_names(rest):
            cx.rej('variable %s is first assigned inside a loop and read after it' % x)
    if not carried:
        cx.rej('a loop that changes nothing that is defined before it')
    names = [env[x][0] for x in carried]
    depth = len(cx.wrap)
    lv = [env2[p][0] for p in loopvars]
    cx.wrap.append((lambda x, it=it, heads=heads, seq=seq: '(forallb (fun %s => %s%s) %s)' % (it, ''.join(h.strip() + ' ' for h in heads.split('\n') if h.strip()), x, seq), list(lv), 'loop'))
    hidden = {n_ for n_ in names}
    saved_locals = set(cx.locals)
    cx.locals |= hidden
    cx.locals -= set(lv)
    body, env3, _ = block(s.body, env2, cx, ind + 1, 'br')
    cx.locals = saved_locals | (cx.locals - set(lv))
    del cx.wrap[depth:]
    for x in carried:
        if env3[x][1] != env[x][1]:
            if env[x][1] == 'EMPTYDICT':
                env[x] = (env[x][0], env3[x][1])
            else:
                cx.rej('%s changes type in a loop (%s -> %s)' % (x, env[x][1], env3[x][1]))
    return pad + 'let %s := fold_left (fun %s %s =>\n%s%s%s  %s) %s %s in\n' % (pat(names), pat(names) if len(names) > 1 else names[0], it, heads, body, pad, tup(names), seq, tup(names))


# --------------------------------------------------------------------------------------------- classes, method resolution
LAYER_CLASSES = {'MPSConv1d': ('conv1d', 'plinio/methods/mps/nn/conv1d.py', ['nn.Conv1d', 'MPSModule']),
                 'MPSConv2d': ('conv2d', 'plinio/methods/mps/nn/conv2d.py', ['nn.Conv2d', 'MPSModule']),
                 'MPSLinear': ('linear', 'plinio/methods/mps/nn/linear.py', ['nn.Linear', 'MPSModule']),
                 'MPSIdentity': ('identity', 'plinio/methods/mps/nn/identity.py', ['nn.Identity', 'MPSModule']),
                 'MPSAdd': ('add', 'plinio/methods/mps/nn/add.py', ['MPSIdentity'])}
GCLASS = {'MPSConv1d': 'KConv1d', 'MPSConv2d': 'KConv2d', 'MPSLinear': 'KLinear', 'MPSIdentity': 'KIdentity', 'MPSAdd': 'KAdd'}
PTYPE = {'nn.Conv1d': 'PConv1d', 'nn.Conv2d': 'PConv2d', 'nn.Linear': 'PLinear'}
OPTS = ['temperature', 'hard', 'gumbel', 'disable_sampling']
TRACKED = ('w_mps_quantizer', 'in_mps_quantizer', '_input_features_calculator', 'input_features_calculator', 'out_channels', 'out_features', 'in_channels', 'in_features',
           'out_features_eff', 'get_cost', 'get_modified_vars', '__dict__', '__class__')
MPS_TRACKED = ('_cost_specification', '_cost_fn_map', '_leaf_modules', '_unique_leaf_modules', '_cost_reduction_fn', 'full_cost', 'cost_specification',
               'get_cost', '_get_single_cost', '_single_cost_fn_map', '_create_cost_fn_map', 'cost', '__dict__', '__class__')


def find_class(tree, name, where):
    cs = [n for n in tree.body if isinstance(n, ast.ClassDef) and n.name == name]
    if len(cs) != 1:
        raise Reject('%s: class %s defined %d times' % (where, name, len(cs)))
    return cs[0]


def methods(cls, where):
    out = {}
    for m in cls.body:
        if isinstance(m, ast.FunctionDef):
            decs = [_u(d) for d in m.decorator_list]
            key = m.name + ('.setter' if any(d.endswith('.setter') for d in decs) else '')
            if key in out:
                raise Reject('%s: %s.%s defined twice' % (where, cls.name, key))
            out[key] = m
        elif isinstance(m, ast.Expr) and isinstance(m.value, ast.Constant):
            continue
        elif isinstance(m, ast.Pass):
            continue
        else:
            raise Reject('%s: class-level statement in %s: %s' % (where, cls.name, _u(m).split('\n')[0]))
    return out


def stores_into_self(fn, names):
    """attributes of self (among names) that fn writes: assignments, augmented assignments, setattr, del, __dict__ updates"""
    bad = []
    for x in ast.walk(fn):
        tg = []
        if isinstance(x, ast.Assign):
            tg = x.targets
        elif isinstance(x, (ast.AugAssign, ast.AnnAssign)):
            tg = [x.target]
        elif isinstance(x, ast.Delete):
            tg = x.targets
        for t in tg:
            for y in ast.walk(t):
                if _self(y) and y.attr in names:
                    bad.append(y.attr)
        if isinstance(x, ast.Call) and _u(x.func) in ('setattr', 'delattr', 'object.__setattr__', 'vars', 'self.__setattr__', 'self.__dict__.update', 'self.register_buffer', 'self.register_parameter') \
                and x.args and (_name(x.args[0], 'self') or _u(x.func).startswith('self.')):
            if _u(x.func) == 'vars':
                continue          # reads; writes through vars(self) are only accepted where the translator reads them
            bad.append(_u(x))
    return bad


class Translator:
    def __init__(self, repo):
        self.repo = repo
        self.trees, self.cls, self.meth = {}, {}, {}
        self.okdefs = {}
        self.uses_layer_map = False
        self.spec_getter_ok = False
        self.out = []

    def tree(self, rel):
        if rel not in self.trees:
            try:
                self.trees[rel] = ast.parse(open(os.path.join(self.repo, rel)).read())
            except SyntaxError as e:
                raise Reject('%s does not parse: %s' % (rel, e))
        return self.trees[rel]

    # ---- method resolution over the layer classes
    def mro(self, cname):
        out = [cname]
        while True:
            bases = LAYER_CLASSES[out[-1]][2]
            nxt = [b for b in bases if b in LAYER_CLASSES]
            if not nxt:
                return out
            out.append(nxt[0])

    def resolve(self, cname, mname):
        for c in self.mro(cname):
            if mname in self.meth[c]:
                return c
        return None

    def ok_name(self, base, args):
        return '%s_ok %s' % (base, ' '.join(args))

    def call_method(self, cx, name, args, env, keywords=None):
        if keywords:
            cx.rej('keyword arguments in a call of self.%s' % name)
        if cx.selfty == 'LAYER':
            owner = self.resolve(cx.cname, name)
            if owner is None:
                cx.rej('self.%s: no class of the hierarchy defines it' % name)
            short = LAYER_CLASSES[owner][0]
            if name in ('out_features_eff', 'get_modified_vars') and not args:
                if (short, name) not in self.okdefs:
                    cx.rej('self.%s is used before / inside its own definition' % name)
                cx.ok('%s_%s_ok self' % (short, name))
                return '(%s_%s_gen self)' % (short, name), ('Q' if name == 'out_features_eff' else 'SPEC')
            cx.rej('call of self.%s not in the subset' % name)
        if cx.selfty == 'MPS':
            a = [ex(x, env, cx) for x in args] if not (name == 'get_cost' and len(args) == 1 and isinstance(args[0], ast.Constant) and args[0].value is None) else [('None', 'OSTR')]
            tys = [t[1] for t in a]
            txt = ' '.join(par(t[0]) for t in a)
            sig = {'_get_single_cost': ('mps_get_single_cost', ['CS', 'FNMAP'], 'Q', True), '_single_cost_fn_map': ('mps_single_cost_fn_map', ['CS'], 'FNMAP', False),
                   '_create_cost_fn_map': ('dnas_create_cost_fn_map', [], 'FNMAPS', False), 'get_cost': ('dnas_get_cost', ['OSTR'], 'Q', True)}
            if name == '_cost_reduction_fn' and tys == ['TENSOR']:
                return '(mp_reduce self %s)' % txt, 'Q'
            if name in sig and tys == sig[name][1]:
                base = sig[name][0]
                if base not in self.okdefs:
                    cx.rej('self.%s is used before its definition' % name)
                if sig[name][3]:
                    cx.ok(('%s_ok self %s' % (base, txt)).strip())
                return ('(%s_gen self %s)' % (base, txt)).replace(' )', ')'), sig[name][2]
            cx.rej('call of self.%s with %s not in the subset' % (name, tys))
        cx.rej('call of self.%s' % name)

    # ---- emitting one function
    def emit(self, name, params, rty, fn, cx, env, prop=None, stateful=False):
        decs = [_u(d) for d in fn.decorator_list]
        want = ['property'] if prop == 'property' else [prop] if prop else []
        if decs != want:
            cx.rej('decorators %s (expected %s)' % (decs, want))
        a = fn.args
        if a.vararg or a.kwarg or a.kwonlyargs or a.posonlyargs:
            cx.rej('*args / keyword-only parameters')
        cx.params = {x.arg for x in a.args}
        cx.stateful = stateful
        body, env2, ty = block(fn.body, env, cx, 1, 'fn')
        if stateful:
            if ty is not None:
                pass
        body = body.rstrip('\n')
        if rty == 'TENSOR':
            wrapc = {'Q': 'T0', 'LQ': 'T1', 'M2': 'T2'}.get(ty)
            if wrapc is None:
                cx.rej('returns %s where a tensor is expected' % ty)
            lines = body.split('\n')
            lines[-1] = '  %s %s' % (wrapc, par(lines[-1].strip()))
            body = '\n'.join(lines)
        elif ty != rty:
            cx.rej('returns %s, expected %s' % (ty, rty))
        self.out.append('Definition %s_gen %s : %s :=\n%s.\n' % (name, params, COQTY[rty], body))
        oks = cx.oks or ['true']
        self.out.append('Definition %s_ok %s : bool :=\n  %s.\n' % (name, params, '\n  && '.join(oks)))
        self.okdefs[name if isinstance(name, tuple) else name] = oks

    # ---- qtz.py
    def do_qtz(self):
        rel = 'plinio/methods/mps/nn/qtz.py'
        t = self.tree(rel)
        pc = find_class(t, 'MPSPerChannelQtz', rel)
        pl = find_class(t, 'MPSPerLayerQtz', rel)
        for c in (pc, pl):
            if [_u(b) for b in c.bases] != ['MPSBaseQtz']:
                raise Reject('%s: bases of %s' % (rel, c.name))
        mpc, mpl = methods(pc, rel), methods(pl, rel)
        init = [_u(s) for s in ast.walk(mpc['__init__']) if isinstance(s, (ast.Assign, ast.Expr))]
        if 'self.zero_index = None if 0 not in precision else precision.index(0)' not in init:
            raise Reject('%s: MPSPerChannelQtz.__init__ does not set zero_index to the position of the 0-bit precision (None if absent)' % rel)
        if not any(s.startswith("self.register_buffer('theta_alpha', torch.ones((len(precision), quantizer_kwargs['cout'])") for s in init):
            raise Reject('%s: MPSPerChannelQtz.theta_alpha is not a (len(precision), cout) buffer' % rel)
        initl = [_u(s) for s in ast.walk(mpl['__init__']) if isinstance(s, ast.Expr)]
        if not any(s.startswith("self.register_buffer('theta_alpha', torch.ones((len(precision),)") for s in initl):
            raise Reject('%s: MPSPerLayerQtz.theta_alpha is not a (len(precision),) buffer' % rel)
        for nm, ms in (('MPSPerChannelQtz', mpc), ('MPSPerLayerQtz', mpl)):
            for k, m in ms.items():
                if k != '__init__' and 'zero_index' in stores_into_self(m, ('zero_index', 'precision')):
                    raise Reject('%s: %s.%s stores into zero_index / precision' % (rel, nm, k))
        if 'out_features_eff' in mpl:
            raise Reject('%s: MPSPerLayerQtz defines out_features_eff (the layers only ask a per-channel quantizer)' % rel)
        if 'out_features_eff' not in mpc:
            raise Reject('%s: MPSPerChannelQtz.out_features_eff not found' % rel)
        cx = Cx(self, 'MPSPerChannelQtz.out_features_eff', 'PCQ')
        self.emit('pcq_out_features_eff', '(q_theta_alpha : mat) (q_zero_index : option nat)', 'Q', mpc['out_features_eff'], cx, {}, prop='property')

    # ---- the layer classes
    def load_layers(self):
        for cname, (short, rel, bases) in LAYER_CLASSES.items():
            c = find_class(self.tree(rel), cname, rel)
            if [_u(b) for b in c.bases] != bases or c.keywords or c.decorator_list:
                raise Reject('%s: class %s(%s): expected bases %s' % (rel, cname, ', '.join(_u(b) for b in c.bases), bases))
            self.cls[cname] = c
            self.meth[cname] = methods(c, rel)
        rel = 'plinio/methods/mps/nn/module.py'
        base = find_class(self.tree(rel), 'MPSModule', rel)
        if base.bases or base.keywords or base.decorator_list:
            raise Reject('%s: MPSModule has bases / decorators' % rel)
        bm = methods(base, rel)
        for k in ('get_cost', 'get_modified_vars', 'out_features_eff', 'input_features_calculator', 'input_features_calculator.setter', '__getattr__', '__getattribute__', '__setattr__'):
            if k in bm:
                m = bm[k]
                body = _strip(m.body)
                if not ('abstractmethod' in [_u(d) for d in m.decorator_list] and len(body) == 1 and isinstance(body[0], ast.Raise)):
                    raise Reject('%s: MPSModule.%s is not an abstract stub (a concrete member of the base class is inherited by every layer)' % (rel, k))
        for k, m in bm.items():
            bad = stores_into_self(m, TRACKED)
            if bad:
                raise Reject('%s: MPSModule.%s stores into %s' % (rel, k, bad))
            for x in ast.walk(m):
                if isinstance(x, ast.Attribute) and x.attr == '__dict__':
                    raise Reject('%s: MPSModule.%s touches __dict__' % (rel, k))

    def check_layer_wiring(self, cname):
        short, rel, _ = LAYER_CLASSES[cname]
        ms = self.meth[cname]
        weighted = short in ('conv1d', 'conv2d', 'linear')
        for k in ('__getattr__', '__getattribute__', '__setattr__', '__dict__'):
            if k in ms:
                raise Reject('%s: %s defines %s' % (rel, cname, k))
        if cname != 'MPSAdd':
            init = ms.get('__init__')
            if init is None:
                raise Reject('%s: %s has no __init__' % (rel, cname))
            lines = [_u(s) for s in ast.walk(init) if isinstance(s, ast.Assign)]
            need = ['self.in_mps_quantizer = MPSPerLayerQtz((-1,), DummyQuantizer)']
            if weighted:
                need.append('self.w_mps_quantizer = w_mps_quantizer')
                ann = {a.arg: (_u(a.annotation) if a.annotation else None) for a in init.args.args}
                if ann.get('w_mps_quantizer') != 'Union[MPSPerLayerQtz, MPSPerChannelQtz]':
                    raise Reject('%s: %s.__init__: w_mps_quantizer is annotated %s, expected Union[MPSPerLayerQtz, MPSPerChannelQtz]' % (rel, cname, ann.get('w_mps_quantizer')))
            for l in need:
                if lines.count(l) != 1:
                    raise Reject('%s: %s.__init__ lacks `%s`' % (rel, cname, l))
            if sum(1 for l in lines if l.startswith('self._input_features_calculator = ConstFeaturesCalculator(')) != 1:
                raise Reject('%s: %s.__init__ does not create its input features calculator' % (rel, cname))
            g, st = ms.get('input_features_calculator'), ms.get('input_features_calculator.setter')
            if g is None or st is None or [_u(s) for s in _strip(g.body)] != ['return self._input_features_calculator'] \
                    or [_u(d) for d in g.decorator_list] != ['property'] \
                    or [_u(s) for s in _strip(st.body)] != ['calc.register(self)', 'self._input_features_calculator = calc']:
                raise Reject('%s: %s.input_features_calculator is not the plain property over _input_features_calculator' % (rel, cname))
            u = ms.get('update_softmax_options')
            if u is None or [a.arg for a in u.args.args] != ['self'] + OPTS or u.args.vararg or u.args.kwarg or u.args.kwonlyargs:
                raise Reject('%s: %s.update_softmax_options: parameters are not (temperature, hard, gumbel, disable_sampling)' % (rel, cname))
            calls = [x for x in ast.walk(u) if isinstance(x, ast.Call) and isinstance(x.func, ast.Attribute) and x.func.attr == 'update_softmax_options']
            tg = sorted(_u(x.func.value) for x in calls)
            if tg != (['self.out_mps_quantizer', 'self.w_mps_quantizer'] if weighted else ['self.out_mps_quantizer']):
                raise Reject('%s: %s.update_softmax_options updates %s' % (rel, cname, tg))
            for x in calls:
                if x.keywords or [_u(a) for a in x.args] != OPTS:
                    raise Reject('%s: %s.update_softmax_options does not hand (temperature, hard, gumbel, disable_sampling) over in this order: %s' % (rel, cname, _u(x)))
            for x in ast.walk(u):
                if isinstance(x, (ast.For, ast.While, ast.Dict, ast.Starred)) or (isinstance(x, ast.Call) and any(k.arg is None for k in x.keywords)):
                    raise Reject('%s: %s.update_softmax_options: loops / ** are not in the subset' % (rel, cname))
        for k, m in ms.items():
            if k in ('__init__', 'input_features_calculator.setter'):
                continue
            bad = stores_into_self(m, TRACKED)
            if bad:
                raise Reject('%s: %s.%s stores into %s' % (rel, cname, k, bad))
            if k not in ('get_cost',):
                for x in ast.walk(m):
                    if isinstance(x, ast.Call) and _name(x.func, 'vars') and x.args and _name(x.args[0], 'self') and k != 'get_modified_vars':
                        raise Reject('%s: %s.%s uses vars(self)' % (rel, cname, k))
                    if isinstance(x, ast.Attribute) and x.attr == '__dict__':
                        raise Reject('%s: %s.%s touches __dict__' % (rel, cname, k))

    def do_layer(self, cname):
        short, rel, _ = LAYER_CLASSES[cname]
        ms = self.meth[cname]
        self.check_layer_wiring(cname)
        self.out.append('(* ---------------------------------------------------------------- %s (%s) *)\n' % (cname, rel))

        def cx_(m):
            c = Cx(self, '%s.%s' % (cname, m), 'LAYER', short)
            c.cname = cname
            return c
        if 'out_features_eff' in ms:
            self.emit('%s_out_features_eff' % short, '(self : glayer)', 'Q', ms['out_features_eff'], cx_('out_features_eff'), {}, prop='property')
            self.okdefs[(short, 'out_features_eff')] = True
        if 'get_modified_vars' in ms:
            if [a.arg for a in ms['get_modified_vars'].args.args] != ['self']:
                raise Reject('%s: %s.get_modified_vars takes parameters' % (rel, cname))
            self.emit('%s_get_modified_vars' % short, '(self : glayer)', 'SPEC', ms['get_modified_vars'], cx_('get_modified_vars'), {})
            self.okdefs[(short, 'get_modified_vars')] = True
        if 'get_cost' in ms:
            g = ms['get_cost']
            if [a.arg for a in g.args.args] != ['self', 'cost_fn', 'out_shape'] or g.args.defaults:
                raise Reject('%s: %s.get_cost: parameters are not (self, cost_fn, out_shape)' % (rel, cname))
            env = {'cost_fn': ('cost_fn', 'FN'), 'out_shape': ('out_shape', 'SPEC')}
            self.emit('%s_get_cost' % short, '(self : glayer) (cost_fn : spec -> Q) (out_shape : spec)', 'TENSOR', g, cx_('get_cost'), env)

    def do_dispatch(self):
        """layer.get_cost(...) / isinstance(layer, MPSModule): Python's method resolution over the class headers"""
        arms_v, arms_ok = [], []
        for cname in LAYER_CLASSES:
            owner = self.resolve(cname, 'get_cost')
            if owner is None:
                raise Reject('%s inherits the abstract get_cost' % cname)
            short = LAYER_CLASSES[owner][0]
            arms_v.append('  | %s => %s_get_cost_gen (snd layer) cost_fn out_shape' % (GCLASS[cname], short))
            arms_ok.append('  | %s => %s_get_cost_ok (snd layer) cost_fn out_shape' % (GCLASS[cname], short))
            if 'MPSModule' not in [b for c in self.mro(cname) for b in LAYER_CLASSES[c][2]]:
                raise Reject('%s is not an MPSModule' % cname)
        self.out.append('(* ---------------------------------------------------------------- dynamic dispatch (class headers) *)\n'
                        'Definition is_mps_module (layer : gmod) : bool := match fst layer with KOther _ => false | _ => true end.\n'
                        'Definition layer_get_cost_gen (layer : gmod) (cost_fn : spec -> Q) (out_shape : spec) : gtensor :=\n  match fst layer with\n%s\n  | KOther _ => T0 0\n  end.\n'
                        'Definition layer_get_cost_ok (layer : gmod) (cost_fn : spec -> Q) (out_shape : spec) : bool :=\n  match fst layer with\n%s\n  | KOther _ => false\n  end.\n'
                        % ('\n'.join(arms_v), '\n'.join(arms_ok)))

    # ---- graph.py / inspection.py
    def do_graph(self):
        rel = 'plinio/methods/mps/graph.py'
        t = self.tree(rel)
        ds = [n for n in t.body if (isinstance(n, ast.AnnAssign) and _name(n.target, 'mps_layer_map')) or (isinstance(n, ast.Assign) and any(_name(x, 'mps_layer_map') for x in n.targets))]
        if len(ds) != 1 or not isinstance(ds[0].value, ast.Dict):
            raise Reject('%s: mps_layer_map is not one dictionary literal' % rel)
        for x in ast.walk(t):
            if isinstance(x, (ast.Assign, ast.AugAssign, ast.Delete)) and x is not ds[0]:
                for y in ast.walk(x.targets[0] if isinstance(x, ast.Assign) else x.target if isinstance(x, ast.AugAssign) else x.targets[0]):
                    if _name(y, 'mps_layer_map'):
                        raise Reject('%s: mps_layer_map is modified after its definition' % rel)
            if isinstance(x, ast.Call) and isinstance(x.func, ast.Attribute) and _name(x.func.value, 'mps_layer_map') and x.func.attr not in ('keys', 'values', 'items', 'get'):
                raise Reject('%s: mps_layer_map.%s()' % (rel, x.func.attr))
        items = []
        for k, v in zip(ds[0].value.keys, ds[0].value.values):
            if k is None or _u(k) not in PTYPE or not (isinstance(v, ast.Name) and v.id in GCLASS):
                raise Reject('%s: mps_layer_map entry %s: %s' % (rel, _u(k) if k is not None else '**', _u(v)))
            items.append('(%s, %s)' % (PTYPE[_u(k)], GCLASS[v.id]))
        self.out.append('(* ---------------------------------------------------------------- %s *)\nDefinition mps_layer_map_gen : list (ptype * gclass) := [%s].\n' % (rel, '; '.join(items)))
        # every class an MPS graph can hold is one the dispatch knows: mps_func_map, the import list of the nn package, the graph module
        fm = [n for n in t.body if (isinstance(n, ast.AnnAssign) and _name(n.target, 'mps_func_map')) or (isinstance(n, ast.Assign) and any(_name(x, 'mps_func_map') for x in n.targets))]
        if len(fm) != 1 or not isinstance(fm[0].value, ast.Dict) or any(not (isinstance(v, ast.Name) and v.id in GCLASS) for v in fm[0].value.values):
            raise Reject('%s: mps_func_map maps a function to a class the translator does not know' % rel)
        for n in ast.walk(t):
            if isinstance(n, ast.ClassDef) and any('MPSModule' in _u(b_) or _u(b_) in GCLASS for b_ in n.bases):
                raise Reject('%s: class %s derives from an MPS layer class' % (rel, n.name))
        rel_i = 'plinio/methods/mps/nn/__init__.py'
        for n in self.tree(rel_i).body:
            if isinstance(n, ast.ImportFrom):
                for a_ in n.names:
                    if a_.name.startswith('MPS') and a_.name not in list(GCLASS) + ['MPSModule', 'MPSType']:
                        raise Reject('%s: exports %s, a class the translator does not know' % (rel_i, a_.name))
            elif not (isinstance(n, ast.Expr) and isinstance(n.value, ast.Constant)) and not (isinstance(n, ast.Assign) and _name(n.targets[0], '__all__')):
                raise Reject('%s: statement not in the subset: %s' % (rel_i, _u(n).split('\n')[0]))
        for relf, short_ in [(v[1], v[0]) for v in LAYER_CLASSES.values()] + [('plinio/methods/mps/nn/module.py', 'module')]:
            known = set(LAYER_CLASSES) | {'MPSModule'}
            for n in self.tree(relf).body:
                if isinstance(n, ast.ClassDef) and n.name not in known:
                    raise Reject('%s: defines the class %s' % (relf, n.name))
        conv = [n for n in t.body if isinstance(n, ast.FunctionDef) and n.name == 'convert']
        if len(conv) != 1:
            raise Reject('%s: convert' % rel)
        lines = [_u(s) for s in conv[0].body]
        if lines.count('nlf = named_leaf_modules(mod)') != 1 or lines.count('ulf = uniquify_leaf_modules(nlf)') != 1 or lines[-1] not in ('return (mod, nlf, ulf)', 'return mod, nlf, ulf') \
                or any(re.match(r'^(nlf|ulf)\b.*=', l) for l in lines if l not in ('nlf = named_leaf_modules(mod)', 'ulf = uniquify_leaf_modules(nlf)')):
            raise Reject('%s: convert does not return (mod, named_leaf_modules(mod), uniquify_leaf_modules(..))' % rel)
        rel = 'plinio/graph/inspection.py'
        t = self.tree(rel)
        pins = {'shapes_dict': ['d = {}', "d['output_shape'] = n.meta['tensor_meta'].shape", 'return d'],
                'named_leaf_modules': ['res = []', 'g = fx_to_nx_graph(mod.graph)',
                                       "for n in g.nodes:\n    if n.op == 'call_module':\n        res.append((str(n.target), n, mod.get_submodule(str(n.target))))", 'return res'],
                'uniquify_leaf_modules': ['names = set()', 'unique_modules = []',
                                          'for name, node, layer in nlf:\n    if name not in names:\n        names.add(name)\n        unique_modules.append((name, node, layer))',
                                          'return unique_modules']}
        for fn, want in pins.items():
            fs = [n for n in t.body if isinstance(n, ast.FunctionDef) and n.name == fn]
            if len(fs) != 1 or [ast.unparse(s) for s in _strip(fs[0].body)] != want or fs[0].decorator_list:
                raise Reject('%s: %s is not the text the translator pins (leaf list = every call_module node in graph order; unique list = first occurrence of every name; shapes_dict = output shape)' % (rel, fn))

    # ---- mps.py / dnas.py
    def do_mps(self):
        rel, rel2 = 'plinio/methods/mps/mps.py', 'plinio/methods/dnas_base/dnas.py'
        mps = find_class(self.tree(rel), 'MPS', rel)
        dnas = find_class(self.tree(rel2), 'DNAS', rel2)
        if [_u(b) for b in mps.bases] != ['DNAS'] or [_u(b) for b in dnas.bases] != ['nn.Module'] or mps.decorator_list or dnas.decorator_list:
            raise Reject('bases of MPS / DNAS')
        mm, dm = methods(mps, rel), methods(dnas, rel2)
        for k in ('get_cost', 'cost', '_create_cost_fn_map', '__getattr__', '__getattribute__', '__setattr__'):
            if k in mm:
                raise Reject('%s: MPS overrides %s' % (rel, k))
        for k in ('__getattr__', '__getattribute__', '__setattr__'):
            if k in dm:
                raise Reject('%s: DNAS defines %s' % (rel2, k))
        for k in ('_get_single_cost', '_single_cost_fn_map', 'cost_specification', 'cost_specification.setter', '__init__', 'update_softmax_options'):
            if k not in mm:
                raise Reject('%s: MPS.%s not found' % (rel, k))
        for k in ('get_cost', 'cost', '_create_cost_fn_map', '__init__'):
            if k not in dm:
                raise Reject('%s: DNAS.%s not found' % (rel2, k))
        # constructors
        init = mm['__init__']
        lines = [_u(s) for s in _strip(init.body)]
        dfl = {a.arg: _u(d) for a, d in zip(init.args.args[-len(init.args.defaults):], init.args.defaults)}
        if dfl.get('cost_reduction_fn') != 'torch.sum' or dfl.get('full_cost') != 'False':
            raise Reject('%s: MPS.__init__ defaults: cost_reduction_fn=%s full_cost=%s' % (rel, dfl.get('cost_reduction_fn'), dfl.get('full_cost')))
        need = ['super(MPS, self).__init__(model, cost, input_example, input_shape)', 'self._cost_reduction_fn = cost_reduction_fn', 'self._cost_fn_map = self._create_cost_fn_map()', 'self.full_cost = full_cost']
        for l in need:
            if lines.count(l) != 1:
                raise Reject('%s: MPS.__init__ lacks `%s`' % (rel, l))
        cv = [l for l in lines if l.startswith('self.seed, self._leaf_modules, self._unique_leaf_modules = convert(')]
        if len(cv) != 1 or not (lines.index(need[0]) < lines.index(cv[0]) < lines.index(need[2])):
            raise Reject('%s: MPS.__init__: the leaf-module lists do not come from convert(), before the cost function map is built' % rel)
        for k2, m in mm.items():
            if k2 in ('__init__', 'cost_specification.setter'):
                continue
            bad = stores_into_self(m, MPS_TRACKED)
            if bad:
                raise Reject('%s: MPS.%s stores into %s' % (rel, k2, bad))
        bad = [b for b in stores_into_self(init, MPS_TRACKED) if b not in ('_leaf_modules', '_unique_leaf_modules', '_cost_reduction_fn', '_cost_fn_map', 'full_cost')]
        if bad:
            raise Reject('%s: MPS.__init__ stores into %s' % (rel, bad))
        dlines = [_u(s) for s in _strip(dm['__init__'].body)]
        if dlines.count('self._cost_specification = cost') != 1 or dlines.count('self._cost_fn_map = {}') != 1:
            raise Reject('%s: DNAS.__init__ does not store the cost specification / an empty cost function map' % rel2)
        for k2, m in dm.items():
            if k2 in ('__init__', 'cost_specification.setter'):
                continue
            bad = stores_into_self(m, MPS_TRACKED)
            if bad:
                raise Reject('%s: DNAS.%s stores into %s' % (rel2, k2, bad))
        g = mm['cost_specification']
        if [_u(s) for s in _strip(g.body)] != ['return self._cost_specification'] or [_u(d) for d in g.decorator_list] != ['property']:
            raise Reject('%s: MPS.cost_specification getter' % rel)
        self.spec_getter_ok = True
        u = mm['update_softmax_options']
        if [a.arg for a in u.args.args] != ['self'] + OPTS:
            raise Reject('%s: MPS.update_softmax_options parameters' % rel)
        if [_u(s) for s in _strip(u.body)] != ['for _, _, layer in self._unique_leaf_modules:\n    if isinstance(layer, MPSModule):\n        layer.update_softmax_options(temperature, hard, gumbel, disable_sampling)']:
            raise Reject('%s: MPS.update_softmax_options does not hand the four options to every unique MPS layer positionally' % rel)
        for nm, tr_ in (('shapes_dict', rel), ('mps_layer_map', rel), ('MPSModule', rel)):
            imported = [a.asname or a.name for n in self.tree(tr_).body if isinstance(n, ast.ImportFrom) for a in n.names]
            if imported.count(nm) != 1 or any(isinstance(x, (ast.Assign, ast.FunctionDef, ast.ClassDef)) and nm in ([getattr(x, 'name', None)] + [_u(t_) for t_ in getattr(x, 'targets', [])]) for x in self.tree(tr_).body):
                raise Reject('%s: %s is not imported exactly once / is re-bound' % (tr_, nm))

        def cx_(where):
            c = Cx(self, where, 'MPS')
            return c
        self.out.append('(* ---------------------------------------------------------------- %s, %s *)\n' % (rel, rel2))
        f = mm['_single_cost_fn_map']
        if [a.arg for a in f.args.args] != ['self', 'c']:
            raise Reject('%s: MPS._single_cost_fn_map parameters' % rel)
        self.emit('mps_single_cost_fn_map', '(self : gmps) (c : gcostspec)', 'FNMAP', f, cx_('MPS._single_cost_fn_map'), {'c': ('c', 'CS')})
        f = mm['_get_single_cost']
        if [a.arg for a in f.args.args] != ['self', 'cost_spec', 'cost_fn_map']:
            raise Reject('%s: MPS._get_single_cost parameters' % rel)
        self.emit('mps_get_single_cost', '(self : gmps) (cost_spec : gcostspec) (cost_fn_map : fnmap)', 'Q', f, cx_('MPS._get_single_cost'),
                  {'cost_spec': ('cost_spec', 'CS'), 'cost_fn_map': ('cost_fn_map', 'FNMAP')})
        f = dm['_create_cost_fn_map']
        if [a.arg for a in f.args.args] != ['self']:
            raise Reject('%s: DNAS._create_cost_fn_map parameters' % rel2)
        self.emit('dnas_create_cost_fn_map', '(self : gmps)', 'FNMAPS', f, cx_('DNAS._create_cost_fn_map'), {})
        # the setter: a state transformer
        f = mm['cost_specification.setter']
        if [a.arg for a in f.args.args] != ['self', 'cs']:
            raise Reject('%s: cost_specification setter parameters' % rel)
        cx = cx_('MPS.cost_specification (setter)')
        cx.params = {'self', 'cs'}
        cx.stateful = True
        body = _strip(f.body)
        for s in body:
            if not (isinstance(s, ast.Assign) and len(s.targets) == 1 and _self(s.targets[0])):
                cx.rej('statement not in the subset: %s' % _u(s).split('\n')[0])
        txt, _, _ = block(body, {'cs': ('cs', 'SPECS')}, cx, 1, 'br')
        if cx.oks:
            cx.rej('definedness conditions in the setter')
        self.out.append('Definition mps_set_cost_specification_gen (self : gmps) (cs : gspecs) : gmps :=\n%s  self.\n' % txt)
        f = dm['get_cost']
        if [a.arg for a in f.args.args] != ['self', 'name'] or [_u(d) for d in f.args.defaults] != ['None'] or _u(f.args.args[1].annotation) != 'Optional[str]':
            raise Reject('%s: DNAS.get_cost parameters' % rel2)
        self.emit('dnas_get_cost', '(self : gmps) (name : option string)', 'Q', f, cx_('DNAS.get_cost'), {'name': ('name', 'OSTR')})
        f = dm['cost']
        self.emit('dnas_cost', '(self : gmps)', 'Q', f, cx_('DNAS.cost'), {}, prop='property')

    def run(self):
        self.do_qtz()
        self.load_layers()
        for cname in ('MPSIdentity', 'MPSAdd', 'MPSConv1d', 'MPSConv2d', 'MPSLinear'):
            self.do_layer(cname)
        self.do_dispatch()
        self.do_graph()
        self.do_mps()
        return ''.join(self.out)


# --------------------------------------------------------------------------------------------- fixed text
HEADER = '''(* GENERATED by translator/mpscost2coq.py from plinio/methods/mps/nn/{qtz,conv1d,conv2d,linear,identity,add}.py, plinio/methods/mps/{mps,graph}.py
   and plinio/methods/dnas_base/dnas.py of the tree under test -- do not edit.
   The MPS cost composition (get_cost / get_modified_vars / out_features_eff of the layers, MPS._get_single_cost, the cost function
   maps, DNAS.get_cost), statement by statement, over the vocabulary of Model/MpsCost.v. *)
From Coq Require Import String List Arith Bool QArith.
Import ListNotations.
Require Import Plinio.Base.Qx Plinio.Model.MpsNet Plinio.Model.MpsCost Plinio.Model.MpsCostNet.
Open Scope Q_scope.
Open Scope string_scope.

(* ---------------------------------------------------------------- vocabulary (fixed text) *)
(* a 2-D tensor: its rows and its number of columns (every row has that many entries) *)
Record mat := mkMat { m_rows : list (list Q); m_cols : Q }.
Definition mat_mean_dim1 (m : mat) : list Q := map (fun row => qsum row / m_cols m) (m_rows m).
Definition mat_mean_ok (m : mat) : bool := negb (Qeq_bool (m_cols m) 0).
Definition mat_size_dim1 (m : mat) : Q := m_cols m.
Definition mat_row (m : mat) (z : nat) : list Q := nth z (m_rows m) [].
Definition mat_row_ok (m : mat) (z : nat) : bool := Nat.ltb z (length (m_rows m)).
(* the quantizer objects a layer holds *)
Inductive wqtz :=
| WPerLayer (precision theta_alpha : list Q)                                   (* MPSPerLayerQtz *)
| WPerChannel (precision : list Q) (theta_alpha : mat) (zero_index : option nat).   (* MPSPerChannelQtz *)
Definition wq_precision (w : wqtz) : list Q := match w with WPerLayer p _ => p | WPerChannel p _ _ => p end.
Record inqtz := mkInQ { iq_precision : list Q; iq_theta_alpha : list Q }.
(* a layer object: vars(self), the value of its input features calculator, its input and weight quantizers *)
Record glayer := mkGL { gl_vars : spec; gl_ein : Q; gl_in : inqtz; gl_w : wqtz }.
Definition fmt_int : Q := 0.          (* the type object `int` under in_format / w_format *)
Definition fmt_float : Q := 1.
(* what get_cost returns: a 0-d, 1-d or 2-d tensor; torch.sum *)
Inductive gtensor := T0 (x : Q) | T1 (v : list Q) | T2 (m : list (list Q)).
Definition tsum (t : gtensor) : Q := match t with T0 x => x | T1 v => qsum v | T2 m => qsum (map qsum m) end.
Definition zeros2 (n m : nat) : list (list Q) := repeat (repeat 0 m) n.
Fixpoint set_nth {A} (l : list A) (i : nat) (x : A) : list A :=
  match l, i with
  | [], _ => []
  | _ :: r, O => x :: r
  | y :: r, S k => y :: set_nth r k x
  end.
Definition set2 (m : list (list Q)) (i j : nat) (x : Q) : list (list Q) := set_nth m i (set_nth (nth i m []) j x).   (* m[i][j] = x *)
Fixpoint enumerate_from {A} (k : nat) (l : list A) : list (nat * A) :=
  match l with [] => [] | x :: r => (k, x) :: enumerate_from (S k) r end.
Definition enumerate {A} (l : list A) : list (nat * A) := enumerate_from 0 l.
Definition dict_update (v d : spec) : spec := app d v.                          (* v.update(d) *)
Definition vmap2 (f : Q -> Q -> Q) (a b : list Q) : list Q := map (fun ab => f (fst ab) (snd ab)) (combine a b).   (* torch.vmap *)
(* leaf modules: (name, node, module); a node is the dictionary shapes_dict returns for it; a module is (class, object) *)
Inductive gclass := KConv1d | KConv2d | KLinear | KIdentity | KAdd | KOther (n : nat).
Inductive ptype := PConv1d | PConv2d | PLinear | PModule | POther (n : nat).       (* nn.Conv1d, nn.Conv2d, nn.Linear, nn.Module, any other type *)
Definition gclass_eqb (a b : gclass) : bool :=
  match a, b with
  | KConv1d, KConv1d | KConv2d, KConv2d | KLinear, KLinear | KIdentity, KIdentity | KAdd, KAdd => true
  | KOther x, KOther y => Nat.eqb x y
  | _, _ => false
  end.
Definition gmod := (gclass * glayer)%type.
Definition gnode := spec.
Definition shapes_dict (n : gnode) : spec := n.
Definition gleaf := (nat * gnode * gmod)%type.
Definition nn_type_of (layer : gmod) : ptype := match fst layer with KOther n => POther n | _ => PModule end.   (* type(layer), used for non-MPS modules *)
Fixpoint rev_lookup (m : list (ptype * gclass)) (c : gclass) : option ptype :=        (* list(m.keys())[list(m.values()).index(c)]; None = ValueError *)
  match m with [] => None | (k, v) :: r => if gclass_eqb v c then Some k else rev_lookup r c end.
(* cost specifications and cost function maps *)
Record gcostspec := mkCS { cs_shared : bool; cs_get : ptype -> spec -> (spec -> Q) }.   (* cs_get c t v = c[(t, v)] *)
Definition default_cs : gcostspec := mkCS false (fun _ _ _ => 0).
Inductive gspecs := CSingle (c : gcostspec) | CDict (d : list (string * gcostspec)).
Definition fnmap := list (nat * (spec -> Q)).
Inductive gfnmaps := FSingle (m : fnmap) | FDict (d : list (string * fnmap)).
Definition fnmap_set (m : fnmap) (k : nat) (f : spec -> Q) : fnmap := (k, f) :: m.
Definition fnmap_get (m : fnmap) (k : nat) : spec -> Q :=
  match find (fun e => Nat.eqb (fst e) k) m with Some e => snd e | None => fun _ => 0 end.
Definition fnmap_has (m : fnmap) (k : nat) : bool := existsb (fun e => Nat.eqb (fst e) k) m.
Definition dict_set {A} (d : list (string * A)) (k : string) (x : A) : list (string * A) := (k, x) :: d.
Definition dict_get {A} (dflt : A) (d : list (string * A)) (k : string) : A :=
  match find (fun e => String.eqb (fst e) k) d with Some e => snd e | None => dflt end.
Definition dict_has {A} (d : list (string * A)) (k : string) : bool := existsb (fun e => String.eqb (fst e) k) d.
Definition dict_items {A} (d : list (string * A)) : list (string * A) := d.
Definition specs_is_single (s : gspecs) : bool := match s with CSingle _ => true | CDict _ => false end.
Definition specs_is_dict (s : gspecs) : bool := negb (specs_is_single s).
Definition specs_as_single (s : gspecs) : gcostspec := match s with CSingle c => c | CDict _ => default_cs end.
Definition specs_as_dict (s : gspecs) : list (string * gcostspec) := match s with CDict d => d | CSingle _ => [] end.
Definition specs_get (s : gspecs) (k : string) : gcostspec := dict_get default_cs (specs_as_dict s) k.
Definition specs_has (s : gspecs) (k : string) : bool := specs_is_dict s && dict_has (specs_as_dict s) k.
Definition fnmaps_is_single (s : gfnmaps) : bool := match s with FSingle _ => true | FDict _ => false end.
Definition fnmaps_as_single (s : gfnmaps) : fnmap := match s with FSingle m => m | FDict _ => [] end.
Definition fnmaps_get (s : gfnmaps) (k : string) : fnmap := match s with FDict d => dict_get [] d k | FSingle _ => [] end.
Definition fnmaps_has (s : gfnmaps) (k : string) : bool := match s with FDict d => dict_has d k | FSingle _ => false end.
(* the MPS object: the two leaf lists, full_cost, the reduction, the cost specification and the cost function map(s) *)
Record gmps := mkMPS { mp_leaf : list gleaf; mp_unique : list gleaf; mp_full_cost : bool; mp_reduce : gtensor -> Q;
                       mp_cost_specification : gspecs; mp_cost_fn_map : gfnmaps }.
Definition with_cost_specification (s : gmps) (c : gspecs) : gmps :=
  mkMPS (mp_leaf s) (mp_unique s) (mp_full_cost s) (mp_reduce s) c (mp_cost_fn_map s).
Definition with_cost_fn_map (s : gmps) (m : gfnmaps) : gmps :=
  mkMPS (mp_leaf s) (mp_unique s) (mp_full_cost s) (mp_reduce s) (mp_cost_specification s) m.

(* ---------------------------------------------------------------- generated *)
'''

FOOTER = '''
(* ---------------------------------------------------------------- the objects of a network of Model/MpsNet.v (fixed text)
   net, lays as in Model/MpsCostNet.v; names i = index of the node whose MODULE node i invokes (i itself, or the earlier
   node it re-applies); dim1 = the convolutions are Conv1d.  The effective input features of a layer are what the
   calculators give (ein_of ... false: C09); a per-channel theta_alpha has as many columns as the layer has channels. *)
Definition gclass_of (dim1 : bool) (nd : node) : gclass :=
  match nd with
  | NConv _ _ _ | NDw _ _ => if dim1 then KConv1d else KConv2d
  | NLin _ _ _ => KLinear
  | NIn _ => KIdentity
  | NAdd _ _ => KAdd
  | _ => KOther 0
  end.
Definition glayer_of (net : list node) (lays : list lay) (i : nat) (nd : node) : glayer :=
  let l := lay_at lays i in
  let C := inject_Z (Z.of_nat (chan_out nd)) in
  let cin := match nd with NConv _ ci _ | NLin _ ci _ => inject_Z (Z.of_nat ci) | _ => C end in
  mkGL (match ltype_of nd with
        | Some t => [(in_key t, cin); (out_key t, C); ("kh", nth 0 (l_geom l) 0); ("kw", nth 1 (l_geom l) 0);
                     ("groups", match nd with NDw _ _ => C | _ => 1 end)]
        | None => []
        end)
       (match first_src nd with Some s => ein_of net lays false s | None => 0 end)
       (mkInQ (l_pin l) (l_tin l))
       (if l_pc l then WPerChannel (l_pw l) (mkMat (l_th l) C) (l_zero l) else WPerLayer (l_pw l) (l_tw l)).
Definition shapes_of (lays : list lay) (i : nat) : gnode :=
  let l := lay_at lays i in [("oh", nth 2 (l_geom l) 0); ("ow", nth 3 (l_geom l) 0)].
Definition gleaf_of (dim1 : bool) (net : list node) (lays : list lay) (names : list nat) (i : nat) : gleaf :=
  match nth_error net i with
  | Some nd => (nth i names i, shapes_of lays i, (gclass_of dim1 nd, glayer_of net lays i nd))
  | None => (i, [], (KOther 0, mkGL [] 0 (mkInQ [] []) (WPerLayer [] [])))
  end.
(* MPS(model, full_cost=False, cost_reduction_fn=torch.sum): every node is a leaf module; the unique list keeps the first call site *)
Definition gmps_of (dim1 : bool) (net : list node) (lays : list lay) (names : list nat) : gmps :=
  mkMPS (map (gleaf_of dim1 net lays names) (seq 0 (length net)))
        (map (gleaf_of dim1 net lays names) (filter (fun i => negb (l_reuse (lay_at lays i))) (seq 0 (length net))))
        false tsum (CDict []) (FDict []).
(* a CostSpec for the networks of dimension d (dim1: Conv1d) that registers cf LConv / cf LDw / cf LLin for the generic conv.,
   depthwise conv. (conv_dw_constraint) and linear patterns of THAT dimension; every other pattern gets the default 0 *)
Definition dw_constraint (v : spec) : bool :=
  Qeq_bool (getk "in_channels" v) (getk "groups" v) && Qeq_bool (getk "out_channels" v) (getk "groups" v).
Definition cs_of (dim1 shared : bool) (cf : ltype -> spec -> Q) : gcostspec :=
  mkCS shared (fun t v => match t with
                          | PConv1d => if dim1 then (if dw_constraint v then cf LDw else cf LConv) else fun _ => 0
                          | PConv2d => if dim1 then fun _ => 0 else (if dw_constraint v then cf LDw else cf LConv)
                          | PLinear => cf LLin
                          | _ => fun _ => 0
                          end).
(* correspondence helper: the four totals of run_net (Model/MpsCostNet.v), through the setter and DNAS.get_cost(name) *)
Definition run_specs (dim1 : bool) : list (string * gcostspec) :=
  [("pb", cs_of dim1 true (cf_of 0)); ("ob", cs_of dim1 false (cf_of 1)); ("probe_in", cs_of dim1 false (cf_of 2)); ("probe_out", cs_of dim1 false (cf_of 3))].
Definition run_net_gen (dim1 : bool) (net : list node) (lays : list lay) (names : list nat) : list (Z * Z) * bool :=
  let self := mps_set_cost_specification_gen (gmps_of dim1 net lays names) (CDict (run_specs dim1)) in
  (map (fun k => qpair (dnas_get_cost_gen self (Some k))) ["pb"; "ob"; "probe_in"; "probe_out"],
   forallb (fun k => dnas_get_cost_ok self (Some k)) ["pb"; "ob"; "probe_in"; "probe_out"]).
'''


def translate_repo(repo):
    return HEADER + Translator(repo).run() + FOOTER


if __name__ == '__main__':
    import sys
    print(translate_repo(sys.argv[1] if len(sys.argv) > 1 else '/repo'))
