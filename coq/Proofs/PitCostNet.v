(* Proofs of the composition C09 (derived calculators, sharing, exported widths) + C04 (cost)   (C04 + C09) *)
From Coq Require Import QArith ZArith List Bool Arith Lia.
Import ListNotations.
Require Import Plinio.Base.Qx Plinio.Model.Masks Plinio.Proofs.Masks Plinio.Model.PitCost Plinio.Proofs.PitCost.
Require Plinio.Model.Calc Plinio.Proofs.Calc.
Require Import Plinio.Model.PitCostNet.
Module CP := Plinio.Proofs.Calc.
Local Open Scope nat_scope.

(* ------------------------------------------------------------------ calculators: C09 terms evaluate alike in both models *)
Lemma tr_calc_mask rms c : calc_mask rms (tr_calc c) = CM.cmask (bmask rms) c.
Proof.
  induction c as [id n|i|id p m IH|cs IH] using CP.calc_ind2; cbn [tr_calc calc_mask CM.cmask].
  - reflexivity.
  - reflexivity.
  - rewrite IH. reflexivity.
  - induction IH as [|c cs Hc Hcs IH2]; [reflexivity|]. rewrite Hc, IH2. reflexivity.
Qed.

Lemma count_is_count_true l : CM.count l = count_true l.
Proof. reflexivity. Qed.

Lemma list_as_map {A} (d : A) l : l = map (fun i => nth i l d) (seq 0 (length l)).
Proof. induction l as [|x t IH]; cbn [length seq map]; [reflexivity|]. f_equal. rewrite <- seq_shift, map_map. exact IH. Qed.

(* ------------------------------------------------------------------ params = numel, tolerant to padding records *)
Lemma params_layer_numel_p l : wf_layer_b l || is_pad_b l = true -> (plain_layer_cost params_spec l == nq (numel l))%Q.
Proof.
  intros H. destruct (wf_layer_b l) eqn:W; [apply params_layer_numel; exact W|]. cbn [orb] in H.
  unfold is_pad_b in H. unfold plain_layer_cost, sites_of, numel.
  destruct (l_sites l); [|discriminate]. apply andb_prop in H. destruct H as [H _]. apply Nat.eqb_eq in H.
  rewrite H. cbn [s_shared params_spec firstn map]. destruct (l_bias l); reflexivity.
Qed.

Lemma params_plain_is_numel_p net full : forallb (fun l => wf_layer_b l || is_pad_b l) net = true ->
  (plain_cost params_spec full net == nq (numel_net full net))%Q.
Proof.
  intros Hw. unfold plain_cost, numel_net. rewrite nq_fold_sum. apply qsum_map_ext. intros l Hl.
  rewrite forallb_forall in Hw. destruct (counted full l); [apply params_layer_numel_p, Hw, Hl|reflexivity].
Qed.

Lemma feat_mask_length m : length (feat_mask m) = length (m_alpha m).
Proof.
  unfold feat_mask, theta_a, theta_alpha_frozen, theta_alpha. rewrite map_length.
  destruct (m_afrozen m); [apply map_length|apply keep_alive_length].
Qed.

Section Net.
  Variable nt : CM.net.
  Variable xd : nat -> extra.
  Variable rms : list lmask.
  Hypothesis Hwf : CM.wf nt = true.
  Hypothesis Hcons : CM.consistent_b true nt (bmask rms) = true.
  Hypothesis Hcompat : compat_b nt xd = true.
  Hypothesis Hlen : length rms = length nt.

  Let ms := bmask rms.
  Let al j := nth j (CM.alive nt ms) [].
  Let xw j := nth j (CM.xwidths nt ms) 0.
  Let w j := nth j (CM.widths nt) 0.

  Lemma Hsound : CM.sound_b nt ms = true.
  Proof. exact (CP.P3 nt ms Hwf Hcons). Qed.

  Lemma compat_at i : i < length nt ->
    match CM.node_at nt i with
    | CM.NLayer s co CM.Dw _ => is_conv (x_kind (xd i))
    | CM.NLayer s co CM.Full _ => negb (is_conv (x_kind (xd i))) || negb (dwc (w s) co 1)
    | _ => true
    end = true.
  Proof. intros Hi. unfold compat_b in Hcompat. rewrite forallb_forall in Hcompat. apply (Hcompat i). apply in_seq. lia. Qed.

  (* the derived calculator of a converted layer evaluates to the alive set of the tensor that feeds it *)
  Lemma derived_calc_alive i s co k : i < length nt -> CM.node_at nt i = CM.NLayer s co k true ->
    calc_mask rms (tr_calc (CM.input_calc true nt i)) = al s.
  Proof.
    intros Hi E. rewrite tr_calc_mask.
    assert (Hc : CM.consumer nt i = true) by (unfold CM.consumer; rewrite E; reflexivity).
    destruct (CP.coherent_eval _ ms _ (CP.names_ok_at true nt i (CP.names_ok_fixed nt Hwf) Hi Hc)) as [E1 _].
    fold ms. rewrite <- E1.
    destruct (CP.calc_sound_fixed nt ms Hwf Hsound i Hi Hc) as [E2 _]. rewrite E2, E. reflexivity.
  Qed.

  Lemma src_lt i s co k sr : i < length nt -> CM.node_at nt i = CM.NLayer s co k sr -> s < length nt.
  Proof.
    intros Hi E. pose proof (CP.wf_srcs nt i Hwf Hi) as H. rewrite E in H. cbn in H.
    specialize (H s (or_introl eq_refl)). lia.
  Qed.

  Lemma xw_alive j : j < length nt -> xw j = count_true (al j).
  Proof. intros Hj. exact (CP.xwidth_count nt ms Hwf Hsound j Hj). Qed.

  Lemma xw_layer i s co k sr : i < length nt -> CM.node_at nt i = CM.NLayer s co k sr ->
    xw i = if sr then out_opt (nth i rms dmask) else co.
  Proof.
    intros Hi E. unfold xw. rewrite CP.xwidths_nth by exact Hi. rewrite E. unfold CM.xwidth_step.
    unfold CM.xwidths. rewrite CP.firstn_build_length by lia. destruct sr; reflexivity.
  Qed.

  Lemma w_layer i s co k sr : i < length nt -> CM.node_at nt i = CM.NLayer s co k sr -> w i = co.
  Proof. intros Hi E. unfold w. rewrite CP.widths_nth by exact Hi. rewrite E. reflexivity. Qed.

  Lemma fixed_sees_all i s co k : i < length nt -> CM.node_at nt i = CM.NLayer s co k false -> xw s = w s.
  Proof.
    intros Hi E. pose proof (CP.sound_at nt ms i Hsound Hi) as H. rewrite E in H.
    rewrite (xw_alive s (src_lt i s co k false Hi E)). unfold al.
    destruct k; apply CP.lbeq_eq in H; rewrite H; apply count_true_repeat_true.
  Qed.

  Lemma dw_mask_is_input i s co : i < length nt -> CM.node_at nt i = CM.NLayer s co CM.Dw true -> ms i = al s.
  Proof. intros Hi E. pose proof (CP.sound_at nt ms i Hsound Hi) as H. rewrite E in H. exact (CP.lbeq_eq _ _ H). Qed.

  Lemma static_dw_tr i s co k sr : i < length nt -> CM.node_at nt i = CM.NLayer s co k sr ->
    static_dw (tr_layer nt xd i) = match k with CM.Dw => true | CM.Full => false end.
  Proof.
    intros Hi E. pose proof (compat_at i Hi) as Hc. rewrite E in Hc. unfold tr_layer. rewrite E.
    unfold static_dw. cbn [l_kind l_cin l_cout l_groups]. fold (w s). destruct k.
    - destruct (x_kind (xd i)); cbn [is_conv negb orb] in Hc; try reflexivity;
        destruct (dwc (w s) co 1); cbn in Hc; congruence.
    - pose proof (CP.wf_dw nt i s co sr Hwf Hi E) as Hd. fold (w s) in Hd.
      destruct (x_kind (xd i)); cbn [is_conv] in Hc; try discriminate; rewrite Hd; apply dwc_refl.
  Qed.

  (* ---- the premise dw_consistent of the cost theorem is a consequence of the sharing *)
  Lemma rms_as_map : rms = map (fun i => nth i rms dmask) (seq 0 (length nt)).
  Proof. rewrite <- Hlen. apply list_as_map. Qed.

  Lemma combine_tr : combine (tr_net nt xd) rms = map (fun i => (tr_layer nt xd i, nth i rms dmask)) (seq 0 (length nt)).
  Proof. unfold tr_net. rewrite rms_as_map at 1. apply combine_map_seq. Qed.

  Lemma derived_dw_consistent : dw_consistent (tr_net nt xd) rms.
  Proof.
    unfold dw_consistent. rewrite combine_tr. apply Forall_forall. intros lm Hin. apply in_map_iff in Hin.
    destruct Hin as [i [E Hi]]. subst lm. apply in_seq in Hi. cbn [fst snd]. assert (Hi' : i < length nt) by lia.
    unfold dw_consistent_b. destruct (CM.node_at nt i) as [c|s co k sr|s sr|s t|s m t|a b t|l] eqn:En;
      try (unfold tr_layer; rewrite En; reflexivity).
    rewrite (static_dw_tr i s co k sr Hi' En).
    assert (Es : l_search (tr_layer nt xd i) = sr) by (unfold tr_layer; rewrite En; reflexivity).
    rewrite Es. destruct sr; [|reflexivity]. destruct k; [reflexivity|]. cbn [andb negb orb].
    apply Nat.eqb_eq. unfold tr_layer. rewrite En. cbn [l_calc].
    rewrite (derived_calc_alive i s co CM.Dw Hi' En). rewrite <- (dw_mask_is_input i s co Hi' En). reflexivity.
  Qed.

  (* ---- the exported layers have the C09 exported widths *)
  Lemma export_is_x i : i < length nt ->
    export_layer rms (tr_layer nt xd i) (nth i rms dmask) = x_layer nt xd rms i.
  Proof.
    intros Hi. unfold x_layer. destruct (CM.node_at nt i) as [c|s co k sr|s sr|s t|s m t|a b t|l] eqn:En;
      try (unfold tr_layer; rewrite En; reflexivity).
    fold ms. fold (xw s) (xw i).
    pose proof (static_dw_tr i s co k sr Hi En) as Hd.
    pose proof (src_lt i s co k sr Hi En) as Hs.
    rewrite (xw_layer i s co k sr Hi En).
    destruct sr.
    - unfold export_layer. rewrite Hd. unfold tr_layer. rewrite En. cbn [l_search l_kind l_calc l_groups l_ks l_bias l_sites ksize].
      rewrite (derived_calc_alive i s co k Hi En), <- (xw_alive s Hs).
      unfold ksize. cbn [l_ks].
      destruct k, (x_kind (xd i)) eqn:Ek; try reflexivity.
      (* Dw + linear is excluded by compat *)
      pose proof (compat_at i Hi) as Hc. rewrite En, Ek in Hc. discriminate Hc.
    - rewrite export_fixed by (unfold tr_layer; rewrite En; reflexivity).
      rewrite (fixed_sees_all i s co k Hi En). unfold tr_layer. rewrite En. fold (w s).
      destruct (x_kind (xd i)); reflexivity.
  Qed.

  Theorem export_net_is_x_net : export_net (tr_net nt xd) rms = x_net nt xd rms.
  Proof.
    unfold export_net, x_net. rewrite combine_tr, map_map. apply map_ext_in. intros i Hi.
    apply in_seq in Hi. cbn [fst snd]. apply export_is_x. lia.
  Qed.

  (* ---- network-level statement: discrete PIT cost with DERIVED calculators = plain cost of the network with the
          C09 exported widths *)
  Theorem net_cost_discrete_eq_export spec full :
    groups_blind spec -> no_degenerate (tr_net nt xd) rms ->
    pit_cost spec (tr_net nt xd) rms true full = plain_cost spec full (x_net nt xd rms).
  Proof.
    intros Hg Hd. rewrite <- export_net_is_x_net.
    apply cost_discrete_eq_export; [exact Hg|exact derived_dw_consistent|exact Hd].
  Qed.

  (* ---- params: the number of weights and biases of the exported conv / linear layers *)
  Lemma consistent_len i : i < length nt -> CM.is_search_layer (CM.node_at nt i) = true -> length (ms i) = w i.
  Proof.
    intros Hi Hs. unfold CM.consistent_b in Hcons. rewrite forallb_forall in Hcons.
    assert (Hin : In i (filter (fun i => CM.is_search_layer (CM.node_at nt i)) (seq 0 (length nt)))).
    { apply filter_In. split; [apply in_seq; lia|exact Hs]. }
    specialize (Hcons i Hin). fold ms in Hcons. destruct (CM.masker_of true nt i) as [[c fr]|]; [|discriminate].
    apply andb_prop in Hcons. destruct Hcons as [H _]. apply andb_prop in H. destruct H as [H _].
    apply Nat.eqb_eq in H. exact H.
  Qed.

  Hypothesis Hstatic : static_ok_b nt xd = true.

  Lemma x_net_wfp : forallb (fun l => wf_layer_b l || is_pad_b l) (x_net nt xd rms) = true.
  Proof.
    rewrite <- export_net_is_x_net. unfold export_net. rewrite combine_tr, map_map. apply forallb_forall.
    intros e He. apply in_map_iff in He. destruct He as [i [E Hi]]. subst e. apply in_seq in Hi. cbn [fst snd].
    assert (Hi' : i < length nt) by lia.
    unfold static_ok_b in Hstatic. rewrite forallb_forall in Hstatic.
    assert (Hl : wf_layer_b (tr_layer nt xd i) || is_pad_b (tr_layer nt xd i) = true).
    { apply Hstatic. unfold tr_net. apply in_map. apply in_seq. lia. }
    destruct (wf_layer_b (tr_layer nt xd i)) eqn:W.
    - apply orb_true_intro. left. apply export_wf; [exact W| |].
      + pose proof derived_dw_consistent as Hd. unfold dw_consistent in Hd. rewrite combine_tr in Hd.
        rewrite Forall_forall in Hd. apply (Hd (tr_layer nt xd i, nth i rms dmask)).
        apply in_map_iff. exists i. split; [reflexivity|apply in_seq; lia].
      + intros Hs Hdw. apply out_opt_pos. intro Ea.
        destruct (CM.node_at nt i) as [c|s co k sr|s sr|s t|s m t|a b t|l] eqn:En;
          try (unfold tr_layer in Hs; rewrite En in Hs; discriminate Hs).
        assert (Esr : sr = true) by (unfold tr_layer in Hs; rewrite En in Hs; exact Hs). subst sr.
        rewrite (static_dw_tr i s co k true Hi' En) in Hdw. destruct k; [discriminate|].
        pose proof (consistent_len i Hi' ltac:(rewrite En; reflexivity)) as Hlen'.
        unfold ms, bmask in Hlen'. rewrite feat_mask_length, Ea in Hlen'. cbn in Hlen'.
        rewrite (w_layer i s co CM.Dw true Hi' En) in Hlen'.
        (* co = 0 contradicts the static well-formedness of a depthwise layer (groups >= 1) *)
        pose proof (CP.wf_dw nt i s co true Hwf Hi' En) as Hco.
        unfold wf_layer_b in W. apply andb_prop in W. destruct W as [_ W].
        unfold tr_layer in W. rewrite En in W. cbn [l_kind l_groups l_ks] in W.
        pose proof (compat_at i Hi') as Hc. rewrite En in Hc.
        destruct (x_kind (xd i)); cbn [is_conv] in Hc; try discriminate;
          apply andb_prop in W; destruct W as [W _]; rewrite <- Hco, <- Hlen' in W; cbn in W; discriminate W.
    - cbn [orb] in Hl. rewrite export_fixed.
      + rewrite Hl. apply orb_true_r.
      + unfold is_pad_b in Hl. destruct (l_sites (tr_layer nt xd i)); [|discriminate].
        apply andb_prop in Hl. destruct Hl as [_ Hl]. apply negb_true_iff in Hl. exact Hl.
  Qed.

  Theorem net_params_is_numel full : no_degenerate (tr_net nt xd) rms ->
    (pit_cost params_spec (tr_net nt xd) rms true full == nq (numel_net full (x_net nt xd rms)))%Q.
  Proof.
    intros Hd. rewrite (net_cost_discrete_eq_export params_spec full groups_blind_params Hd).
    apply params_plain_is_numel_p, x_net_wfp.
  Qed.
End Net.
