(* Model of checkpoint / resume of the three DNAS wrappers (PIT, MPS, SuperNet)            (C17)

   A wrapper state is split, exactly as the code does, into
     persisted = what state_dict() contains: every nn.Parameter / register_buffer site
        pit/nn/features_masker.py  alpha, _keep_alive, (_fixed_alpha)      timestep_masker.py beta, _keep_alive, _c_beta
        pit/nn/dilation_masker.py  gamma, _keep_alive, _c_gamma            pit/nn/conv1d.py   _beta_norm, _gamma_norm
        mps/nn/qtz.py              alpha, precision, temperature, theta_alpha (buffers re-assigned through Module.__setattr__)
        supernet/nn/combiner.py    alpha   (ONLY: theta_alpha, _softmax_temperature, hard_softmax, sample_alpha are attributes)
        graph/features_calculation.py feat_calc_* buffers, weights, biases, BatchNorm statistics, PACT clip_val  (plain entries)
     transient = plain python attributes: training flag, PIT discrete_cost, hard_softmax, the bound sampler method
        (sample_alpha_sm / _gs / _none), SuperNetCombiner._softmax_temperature and theta_alpha, MinMaxWeight.ch_min/ch_max and
        QuantizerBias._scale (recomputed by forward).
   Coefficient tensors (theta_alpha) are represented by a normal form [tnf] that is a complete invariant of the tensor
   (soft-max of shifted logits / one-hot of the first arg-max / Gumbel sample identified by its noise), so that equality of
   observations can be decided; plain tensors are represented by an integer digest (their values never matter here). *)
From Coq Require Import QArith ZArith List Bool String Arith.
Import ListNotations.
Require Import Plinio.Base.Qx.
Local Open Scope string_scope.
Local Open Scope list_scope.

Inductive method := PIT | MPS | SN.
Inductive skind := Sm | Gs | NoSamp.                (* which method is bound to sample_alpha *)
Inductive mkind := Feat | FrozenFeat | TimeM | DilM.

(* ---------------------------------------------------------------- coefficient tensors *)
Inductive cnf :=                                          (* one column (one channel / the whole layer) of theta_alpha *)
| CInit                                                   (* value left by the constructor *)
| COne                                                    (* a single alternative: the coefficient is 1 under every sampler *)
| CHard (i : nat)                                         (* one-hot of the (first) arg-max *)
| CSoft (z : list Q)                                      (* softmax of the logits shifted by the first one *)
| CGumbel (a : list Q) (t : Q) (h : bool) (noise : nat).  (* F.gumbel_softmax(alpha, t, h) with the noise drawn at RNG position [noise] *)
Definition tnf := list cnf.

Definition logits (t : Q) (col : list Q) : list Q := map (fun a => a / t) col.
Definition shift (col : list Q) : list Q := match col with [] => [] | a0 :: _ => map (fun a => Qred (a - a0)) col end.
Fixpoint argmax_from (best : Q) (bi i : nat) (l : list Q) : nat :=
  match l with
  | [] => bi
  | x :: r => if qlt_bool best x then argmax_from x i (S i) r else argmax_from best bi (S i) r
  end.
Definition argmax (l : list Q) : nat := match l with [] => 0%nat | x :: r => argmax_from x 0 1 r end.
Definition single (c : list Q) : bool := match c with [_] => true | _ => false end.

Definition soft_nf (t : Q) (alpha : list (list Q)) : tnf := map (fun c => if single c then COne else CSoft (shift (logits t c))) alpha.
Definition hard_nf (t : Q) (alpha : list (list Q)) : tnf := map (fun c => if single c then COne else CHard (argmax (logits t c))) alpha.
Definition gumbel_nf (t : Q) (h : bool) (noise : nat) (alpha : list (list Q)) : tnf :=
  map (fun c => if single c then COne else CGumbel c (if h then 1 else t) h noise) alpha.
     (* hard Gumbel sample: one-hot of argmax((alpha + g)/t), the same for every t > 0 *)

(* MPSBaseQtz.sample_alpha_sm / _gs / _none  (qtz.py) *)
Definition mps_sample (k : skind) (training hard : bool) (t : Q) (noise : nat) (alpha : list (list Q)) (old : tnf) : tnf :=
  match k with
  | NoSamp => old
  | Sm => if hard || negb training then hard_nf t alpha else soft_nf t alpha
  | Gs => if training then gumbel_nf t hard noise alpha
          else if hard || negb training then hard_nf t alpha else soft_nf t alpha
  end.
(* SuperNetCombiner.sample_alpha_sm / _gs  (combiner.py): no `not self.training` in the soft-max sampler *)
Definition sn_sample (k : skind) (training hard : bool) (t : Q) (noise : nat) (alpha : list (list Q)) : tnf :=
  match k with
  | Gs => if training then gumbel_nf t hard noise alpha else if hard then hard_nf t alpha else soft_nf t alpha
  | _ => if hard then hard_nf t alpha else soft_nf t alpha
  end.

(* ---------------------------------------------------------------- persisted components *)
Record pmask := { m_names : list string;       (* module paths under which the (possibly shared) masker appears *)
                  m_kind : mkind; m_p : list Q; m_ka : list Q; m_c : list (list Q); m_fixed : list Q }.
Record player := { l_name : string; l_feat : nat; l_time : option (nat * nat); l_bnorm : list Q; l_gnorm : list Q }.
Record sampler := { s_names : list string;
                   s_reach : bool;    (* MPS: it is the out_/w_mps_quantizer of some layer, i.e. update_softmax_options reaches it;
                                         the others keep the defaults of MPSBaseQtz.__init__ (soft-max, not hard, temperature 1) *)
                   s_alpha : list (list Q); s_prec : list Q; s_temp : Q; s_theta : tnf }.
Record pers := { p_bn : bool;     (* some BatchNorm layer tracks running statistics: a training-mode forward writes them *)
                 p_net : list (string * Z); p_masks : list pmask; p_layers : list player; p_samplers : list sampler }.

Record trans := { training : bool; disc : bool; hard : bool;
                  gum : bool; nos : bool;      (* MPSBaseQtz.gumbel_softmax / disable_sampling (SuperNet: constructor argument of the block / never) *)
                  sn_temp : Q;
                  sn_thetas : list tnf;                         (* SuperNetCombiner.theta_alpha: not a buffer *)
                  ranges : option (list (string * Z));      (* MinMaxWeight.ch_min/ch_max, QuantizerBias._scale: plain attributes, uninitialised
                       after construction, recomputed from the weights by every forward pass (of the wrapper and of the exported net) *)
                  rg : list (nat * bool) }.                (* requires_grad of the parameters (tensor attribute, not in the state_dict): the log of
                       train_net_only / train_nas_only / train_net_and_nas / train_features|rf|dilation := b / train_selection := b calls *)
(* the method bound to sample_alpha: qtz.py update_softmax_options re-derives it from the two flags on every call *)
Definition smp (t : trans) : skind := if nos t then NoSamp else if gum t then Gs else Sm.
Record state := { meth : method; pe : pers; tr : trans }.

(* ---------------------------------------------------------------- state_dict keys *)
Definition mask_suffixes (k : mkind) : list string :=
  match k with
  | Feat => [".alpha"; "._keep_alive"]
  | FrozenFeat => [".alpha"; "._keep_alive"; "._fixed_alpha"]
  | TimeM => [".beta"; "._keep_alive"; "._c_beta"]
  | DilM => [".gamma"; "._keep_alive"; "._c_gamma"]
  end.
Definition sampler_suffixes (m : method) : list string :=
  match m with
  | MPS => [".alpha"; ".precision"; ".temperature"; ".theta_alpha"]
  | _ => [".alpha"]
  end.
Definition with_suffixes (names sufs : list string) : list string :=
  flat_map (fun n => map (fun s => String.append n s) sufs) names.
Definition keys (m : method) (p : pers) : list string :=
  map fst (p_net p)
  ++ flat_map (fun k => with_suffixes (m_names k) (mask_suffixes (m_kind k))) (p_masks p)
  ++ flat_map (fun l => match l_time l with Some _ => with_suffixes [l_name l] ["._beta_norm"; "._gamma_norm"] | None => [] end) (p_layers p)
  ++ flat_map (fun s => with_suffixes (s_names s) (sampler_suffixes m)) (p_samplers p).

Fixpoint list_eqb {A} (e : A -> A -> bool) (a b : list A) : bool :=
  match a, b with
  | [], [] => true
  | x :: a', y :: b' => e x y && list_eqb e a' b'
  | _, _ => false
  end.
Definition subset (a b : list string) : bool := forallb (fun x => existsb (String.eqb x) b) a.

(* ---------------------------------------------------------------- save / load (strict) *)
Definition save (s : state) : pers := pe s.
Definition missing_keys (sd : pers) (f : state) : list string :=
  filter (fun k => negb (existsb (String.eqb k) (keys (meth f) sd))) (keys (meth f) (pe f)).
Definition unexpected_keys (sd : pers) (f : state) : list string :=
  filter (fun k => negb (existsb (String.eqb k) (keys (meth f) (pe f)))) (keys (meth f) sd).
(* load_state_dict(sd, strict=True): raises unless there are no missing and no unexpected keys; then every
   persisted tensor of the wrapper is overwritten, every python attribute keeps the constructor's value *)
Definition load (sd : pers) (f : state) : option state :=
  match missing_keys sd f, unexpected_keys sd f with
  | [], [] => Some {| meth := meth f; pe := sd; tr := tr f |}
  | _, _ => None
  end.

(* ---------------------------------------------------------------- constructor *)
Record cfg := { c_meth : method; c_pers : pers;      (* the seed network after conversion: names, initial values *)
                c_training : bool; c_disc : bool; c_hard : bool; c_gum : bool; c_nos : bool; c_temp : Q }.
Definition c_smp (c : cfg) : skind := if c_nos c then NoSamp else if c_gum c then Gs else Sm.
Definition fresh (c : cfg) : state :=
  {| meth := c_meth c;
     pe := {| p_bn := p_bn (c_pers c); p_net := p_net (c_pers c); p_masks := p_masks (c_pers c); p_layers := p_layers (c_pers c);
              p_samplers := map (fun s => {| s_names := s_names s; s_reach := s_reach s; s_alpha := s_alpha s; s_prec := s_prec s;
                                             s_temp := if s_reach s then c_temp c else 1;
                                             (* every quantizer is built with the defaults of MPSBaseQtz.__init__ (graph.py) and
                                                samples once in its constructor: soft-max, temperature 1, module in train mode *)
                                             s_theta := match c_meth c with MPS => soft_nf 1 (s_alpha s) | _ => s_theta s end |})
                                  (p_samplers (c_pers c)) |};
     tr := {| training := c_training c; disc := c_disc c; hard := c_hard c; gum := c_gum c; nos := c_nos c; sn_temp := c_temp c;
              sn_thetas := map (fun s => map (fun _ => CInit) (s_alpha s)) (p_samplers (c_pers c)); ranges := None; rg := [] |} |}.

(* ---------------------------------------------------------------- operations *)
Inductive op :=
| OStep (net' : list Z) (mp' : list (list Q)) (al' : list (list (list Q)))
      (* new values of the plain tensors, the mask parameters and the selection logits: an optimizer step on both
         parameter groups (and the BatchNorm statistics written by a training forward pass); names never change *)
| OSetDisc (b : bool)                                  (* PIT.discrete_cost = b *)
| OUpdate (t : option Q) (h g d : option bool)         (* update_softmax_options(temperature, hard, gumbel, disable_sampling) *)
| OTrain | OEval
| OForward (noise : nat)
| OTrainSwitch (which : nat) (b : bool)      (* trainability switches of dnas.py / pit.py / supernet.py: write requires_grad only *)
| OObserve (which : nat).                    (* export() / export(add_bn=False) / summary() / get_cost / str(): observers, _preserve_state *)

Fixpoint zip_with {A B C} (f : A -> B -> C) (keep : A -> C) (a : list A) (b : list B) : list C :=
  match a, b with
  | x :: a', y :: b' => f x y :: zip_with f keep a' b'
  | x :: a', [] => keep x :: zip_with f keep a' []
  | [], _ => []
  end.

Definition set_net (n : list (string * Z)) (v : list Z) := zip_with (fun e z => (fst e, z)) (fun e => e) n v.
Definition set_mask (k : pmask) (p : list Q) : pmask :=
  {| m_names := m_names k; m_kind := m_kind k; m_p := p; m_ka := m_ka k; m_c := m_c k; m_fixed := m_fixed k |}.
Definition set_alpha (s : sampler) (a : list (list Q)) : sampler :=
  {| s_names := s_names s; s_reach := s_reach s; s_alpha := a; s_prec := s_prec s; s_temp := s_temp s; s_theta := s_theta s |}.
Definition set_temp (t : Q) (s : sampler) : sampler :=
  {| s_names := s_names s; s_reach := s_reach s; s_alpha := s_alpha s; s_prec := s_prec s;
     s_temp := if s_reach s then t else s_temp s; s_theta := s_theta s |}.
Definition set_theta (s : sampler) (th : tnf) : sampler :=
  {| s_names := s_names s; s_reach := s_reach s; s_alpha := s_alpha s; s_prec := s_prec s; s_temp := s_temp s; s_theta := th |}.

Definition with_tr (s : state) (t : trans) : state := {| meth := meth s; pe := pe s; tr := t |}.
Definition with_pe (s : state) (p : pers) : state := {| meth := meth s; pe := p; tr := tr s |}.
Definition set_mode (b : bool) (s : state) : state :=
  with_tr s {| training := b; disc := disc (tr s); hard := hard (tr s); gum := gum (tr s); nos := nos (tr s); sn_temp := sn_temp (tr s);
               sn_thetas := sn_thetas (tr s); ranges := ranges (tr s); rg := rg (tr s) |}.

Definition mps_resample (k : skind) (trn h : bool) (noise : nat) (q : sampler) : sampler :=
  set_theta q (if s_reach q then mps_sample k trn h (s_temp q) noise (s_alpha q) (s_theta q)
               else mps_sample Sm trn false (s_temp q) noise (s_alpha q) (s_theta q)).

(* the forward pass: every sampler is re-sampled (MPS: into the theta_alpha BUFFER, SuperNet: into the attribute),
   weight ranges and bias scales are recomputed from the weights and the new coefficients *)
Definition forward (noise : nat) (s : state) : state :=
  let t := tr s in let p := pe s in
  match meth s with
  | PIT => s
  | MPS =>
      let ss := map (mps_resample (smp t) (training t) (hard t) noise) (p_samplers p) in
      {| meth := MPS;
         pe := {| p_bn := p_bn p; p_net := p_net p; p_masks := p_masks p; p_layers := p_layers p; p_samplers := ss |};
         tr := {| training := training t; disc := disc t; hard := hard t; gum := gum t; nos := nos t; sn_temp := sn_temp t;
                  sn_thetas := sn_thetas t; ranges := Some (p_net p); rg := rg t |} |}
  | SN =>
      with_tr s {| training := training t; disc := disc t; hard := hard t; gum := gum t; nos := nos t; sn_temp := sn_temp t;
                   sn_thetas := map (fun q => sn_sample (smp t) (training t) (hard t) (sn_temp t) noise (s_alpha q)) (p_samplers p);
                   ranges := ranges t; rg := rg t |}
  end.

Definition upd {A} (o : option A) (d : A) : A := match o with Some x => x | None => d end.
Definition is_true (o : option bool) : bool := match o with Some true => true | _ => false end.

Definition step (s : state) (o : op) : state :=
  let t := tr s in let p := pe s in
  match o with
  | OStep n' mp' al' =>
      with_pe s {| p_bn := p_bn p; p_net := set_net (p_net p) n';
                   p_masks := zip_with set_mask (fun k => k) (p_masks p) mp';
                   p_layers := p_layers p;
                   p_samplers := zip_with set_alpha (fun q => q) (p_samplers p) al' |}
  | OSetDisc b =>
      match meth s with
      | PIT => with_tr s {| training := training t; disc := b; hard := hard t; gum := gum t; nos := nos t; sn_temp := sn_temp t;
                            sn_thetas := sn_thetas t; ranges := ranges t; rg := rg t |}
      | _ => s
      end
  | OUpdate ot oh og od =>
      match meth s with
      | PIT => s
      | MPS =>     (* qtz.py update_softmax_options: options that are not given keep their value *)
          {| meth := MPS;
             pe := {| p_bn := p_bn p; p_net := p_net p; p_masks := p_masks p; p_layers := p_layers p;
                      p_samplers := match ot with Some x => map (set_temp x) (p_samplers p) | None => p_samplers p end |};
             tr := {| training := training t; disc := disc t; hard := upd oh (hard t);
                      gum := upd og (gum t); nos := upd od (nos t);
                      sn_temp := sn_temp t; sn_thetas := sn_thetas t; ranges := ranges t; rg := rg t |} |}
      | SN =>      (* supernet.py update_softmax_options(temperature, hard) *)
          with_tr s {| training := training t; disc := disc t; hard := upd oh (hard t); gum := gum t; nos := nos t;
                       sn_temp := upd ot (sn_temp t); sn_thetas := sn_thetas t; ranges := ranges t; rg := rg t |}
      end
  | OTrain => set_mode true s
  | OEval => set_mode false s
  | OForward n => forward n s
  | OTrainSwitch w b =>
      with_tr s {| training := training t; disc := disc t; hard := hard t; gum := gum t; nos := nos t; sn_temp := sn_temp t;
                   sn_thetas := sn_thetas t; ranges := ranges t; rg := rg t ++ [(w, b)] |}
  | OObserve _ => s
  end.
Definition run (s : state) (ops : list op) : state := fold_left step ops s.

(* ---------------------------------------------------------------- observations *)
Definition qmul2 (a b : list Q) : list Q := map (fun x => fst x * snd x) (combine a b).
Definition qsum (l : list Q) : Q := fold_right Qplus 0 l.
Definition binq (x : Q) : Q := if qlt_bool (1 # 2) x then 1 else 0.            (* PITBinarizer, threshold 0.5 *)
Definition kaabs (p ka : list Q) : list Q := map (fun x => qabs (fst x) * (1 - snd x) + snd x) (combine p ka).
Definition matvec (c : list (list Q)) (v : list Q) : list Q := map (fun row => qsum (qmul2 row v)) c.
Definition theta (k : pmask) : list Q :=
  match m_kind k with
  | Feat => kaabs (m_p k) (m_ka k)
  | FrozenFeat => m_fixed k
  | _ => matvec (m_c k) (kaabs (m_p k) (m_ka k))
  end.
Definition nth_mask (p : pers) (i : nat) : list Q :=
  match nth_error (p_masks p) i with Some k => theta k | None => [] end.
(* out_features_eff and k_eff of a layer (conv1d.py: _features_mask / _time_mask with discrete = discrete_cost) *)
Definition layer_eff (d : bool) (p : pers) (l : player) : Q * Q :=
  let ta := nth_mask p (l_feat l) in
  let oe := qsum (if d then map binq ta else ta) in
  let ke := match l_time l with
            | None => 0
            | Some (ib, ig) =>
                let tb := nth_mask p ib in let tg := nth_mask p ig in
                if d then qsum (qmul2 (map binq tg) (map binq tb))
                else qsum (qmul2 (qmul2 tg (l_gnorm l)) (qmul2 tb (l_bnorm l)))
            end in
  (Qred oe, Qred ke).

Definition thetas (s : state) : list tnf :=
  match meth s with PIT => [] | MPS => map s_theta (p_samplers (pe s)) | SN => sn_thetas (tr s) end.

(* what the four observations are functions of, beyond the persisted tensors themselves *)
Record observation := {
  o_out : bool * list tnf;                     (* outputs: mode, coefficients used by the forward pass (PIT: binarized masks = persisted) *)
  o_cost : list tnf * list (Q * Q);            (* get_cost: coefficients / effective sizes *)
  o_summary : list tnf;                        (* summary(): SuperNetCombiner.summary re-samples; PIT/MPS read persisted tensors *)
  o_export : list tnf }.
     (* export(): arg-max of the persisted logits, persisted weights; the BatchNorm statistics written by a training-mode
        forward depend on the coefficients that forward used.  (MPS ranges / scales are recomputed by the exported
        network's own forward pass and are therefore not part of this observation: see [lazy].) *)
Definition lazy (s : state) := ranges (tr s).
Definition obs (s : state) : observation :=
  let t := tr s in
  {| o_out := (training t, thetas s);
     o_cost := (thetas s, match meth s with PIT => map (layer_eff (disc t) (pe s)) (p_layers (pe s)) | _ => [] end);
     o_summary := match meth s with
                  (* SuperNetCombiner.summary(): noise-free soft-max (one-hot if hard) of alpha / temperature, not stored *)
                  | SN => map (fun q => if hard t then hard_nf (sn_temp t) (s_alpha q) else soft_nf (sn_temp t) (s_alpha q)) (p_samplers (pe s))
                  | _ => [] end;
     o_export := if p_bn (pe s) && training t then thetas s else [] |}.
Definition observe (s : state) : pers * observation := (pe s, obs s).

(* transient options that the constructor sets from its arguments *)
Definition opts_match (s : state) (c : cfg) : Prop :=
  disc (tr s) = c_disc c /\ hard (tr s) = c_hard c /\ gum (tr s) = c_gum c /\ nos (tr s) = c_nos c /\ sn_temp (tr s) = c_temp c.

(* the resume protocol: build the wrapper again, load strictly, put it in the mode of the interrupted run, forward *)
Definition resume (noise : nat) (c : cfg) (s : state) : option state :=
  match load (save s) (fresh c) with
  | Some s' => Some (forward noise (set_mode (training (tr s)) s'))
  | None => None
  end.

(* two other ways a training script restarts:
   - the seed network handed to the constructor is already in the mode of the interrupted run and NO train()/eval() call is
     made between construction, load_state_dict and the forward pass;
   - train()/eval() is called on the fresh wrapper BEFORE the checkpoint is loaded *)
Definition with_training (b : bool) (c : cfg) : cfg :=
  {| c_meth := c_meth c; c_pers := c_pers c; c_training := b; c_disc := c_disc c; c_hard := c_hard c;
     c_gum := c_gum c; c_nos := c_nos c; c_temp := c_temp c |}.
Definition resume_nomode (noise : nat) (c : cfg) (s : state) : option state :=
  match load (save s) (fresh (with_training (training (tr s)) c)) with
  | Some s' => Some (forward noise s')
  | None => None
  end.
Definition resume_mode_first (noise : nat) (c : cfg) (s : state) : option state :=
  match load (save s) (set_mode (training (tr s)) (fresh c)) with
  | Some s' => Some (forward noise s')
  | None => None
  end.

(* ---------------------------------------------------------------- decidable comparison (harness) *)
Definition q_eqb (a b : Q) : bool := Qeq_bool a b.
Definition ql_eqb := list_eqb q_eqb.
Definition qll_eqb := list_eqb ql_eqb.
Definition cnf_eqb (a b : cnf) : bool :=
  match a, b with
  | CInit, CInit => true
  | COne, COne => true
  | CHard x, CHard y => Nat.eqb x y
  | CSoft x, CSoft y => ql_eqb x y
  | CGumbel a1 t1 h1 n1, CGumbel a2 t2 h2 n2 => ql_eqb a1 a2 && q_eqb t1 t2 && Bool.eqb h1 h2 && Nat.eqb n1 n2
  | _, _ => false
  end.
Definition tnf_eqb : tnf -> tnf -> bool := list_eqb cnf_eqb.
Definition tl_eqb := list_eqb tnf_eqb.
Definition net_eqb := list_eqb (fun a b : string * Z => String.eqb (fst a) (fst b) && Z.eqb (snd a) (snd b)).
Definition obs_eqb (a b : observation) : bool * bool * bool * bool :=
  (Bool.eqb (fst (o_out a)) (fst (o_out b)) && tl_eqb (snd (o_out a)) (snd (o_out b)),
   tl_eqb (fst (o_cost a)) (fst (o_cost b)) && list_eqb (fun x y => q_eqb (fst x) (fst y) && q_eqb (snd x) (snd y)) (snd (o_cost a)) (snd (o_cost b)),
   tl_eqb (o_summary a) (o_summary b),
   tl_eqb (o_export a) (o_export b)).

(* ---------------------------------------------------------------- run_* helpers evaluated by vlib/c17.py *)
Definition skind_id (k : skind) : Z := match k with Sm => 0%Z | Gs => 1%Z | NoSamp => 2%Z end.
Definition opt_view (s : state) : bool * bool * bool * Z * (Z * Z) * list (Z * Z) :=
  (training (tr s), disc (tr s), hard (tr s), skind_id (smp (tr s)), qpair (sn_temp (tr s)),
   map (fun q => qpair (s_temp q)) (p_samplers (pe s))).
Definition cnf_view (t : cnf) : Z * Z * list (Z * Z) :=
  match t with
  | CInit => (0%Z, 0%Z, [])
  | COne => (4%Z, 0%Z, [])
  | CHard i => (1%Z, Z.of_nat i, [])
  | CSoft z => (2%Z, 0%Z, map qpair z)
  | CGumbel _ _ _ n => (3%Z, Z.of_nat n, [])
  end.
Definition tnf_view (t : tnf) := map cnf_view t.
(* one case = constructor configuration + history; returns
   (keys of the checkpoint, option view after every op, load succeeded, missing, unexpected,
    predicted equality of (outputs, costs, summary, export) between resumed and original after the forward pass,
    coefficients and PIT effective sizes of the original after the forward pass) *)
Definition run_case (c : cfg) (ops : list op) (noise : nat) :=
  let s := run (fresh c) ops in
  let orig := forward noise s in
  (keys (meth s) (save s),
   map opt_view (tl (fold_left (fun acc o => acc ++ [step (last acc (fresh c)) o]) ops [fresh c])),
   (missing_keys (save s) (fresh c), unexpected_keys (save s) (fresh c)),
   map (fun o => match o with
                 | Some r => Some (obs_eqb (obs r) (obs orig))
                 | None => None
                 end) [resume noise c s; resume_nomode noise c s; resume_mode_first noise c s],
   (map tnf_view (thetas orig), map (fun x => (qpair (fst x), qpair (snd x))) (snd (o_cost (obs orig))))).
(* loading a checkpoint into a wrapper with a different structure (strictness of load) *)
Definition run_load_other (c c2 : cfg) : list string * list string :=
  (missing_keys (save (fresh c)) (fresh c2), unexpected_keys (save (fresh c)) (fresh c2)).
