(* Model of the operators and of the three searchable PIT layers (plinio/methods/pit/nn/{conv1d,conv2d,linear}.py):
   forward in eval mode (weights x time mask, fused BN, output x feature mask; fold_bn variant) and export
   (slicing by the output mask, the producer-derived input mask and the time mask).           (C01)
   Everything is parametric in a carrier R with 0, 1, +, * (instantiated with Z for the executable
   correspondence and with Z / Q in the theorems).  No proofs here. *)
From Coq Require Import QArith ZArith List Bool Arith.
Import ListNotations.
Require Import Plinio.Model.Masks.
Local Open Scope nat_scope.

(* ---------------------------------------------------------------- slicing  t[mask]  *)
Fixpoint select {A} (m : list bool) (l : list A) : list A :=
  match m, l with
  | b :: m', x :: l' => if b then x :: select m' l' else select m' l'
  | _, _ => []
  end.
(* indices kept by a mask, in increasing order (= torch boolean indexing) *)
Definition kept (m : list bool) : list nat := filter (fun j => nth j m false) (seq 0 (length m)).
Definition all_true (n : nat) : list bool := repeat true n.

Section Ring.
Variable R : Type.
Variables (r0 r1 : R) (radd rmul : R -> R -> R).

Definition rsum (l : list R) : R := fold_right radd r0 l.
Definition bit (b : bool) : R := if b then r1 else r0.

(* a 1-D signal is a function of (integer) time that is 0 before time 0 and after its end: reading a
   list outside its range gives 0.  Left zero padding by P = shifting time by P. *)
Definition signal := Z -> R.
Definition sig1 (l : list R) : signal := fun t => if (t <? 0)%Z then r0 else nth (Z.to_nat t) l r0.
Definition padl (P : nat) (x : signal) : signal := fun t => x (t - Z.of_nat P)%Z.
Definition pad1d (P : nat) (x : list (list R)) : list (list R) := map (fun c => repeat r0 P ++ c) x.   (* ConstantPad1d((P,0),0) *)

Definition w3 := list (list (list R)).          (* [cout][cin or 1][K] *)
Definition w3at (w : w3) (co ci : nat) : list R := nth ci (nth co w []) [].

(* sum_j wk[j] * x(u + j*d)     (cross-correlation, as torch) *)
Definition taps (wk : list R) (K : nat) (d : Z) (x : signal) (u : Z) : R :=
  rsum (map (fun j => rmul (nth j wk r0) (x (u + Z.of_nat j * d)%Z)) (seq 0 K)).
Definition addbias (b : option (list R)) (co : nat) (acc : R) : R :=
  match b with Some bl => radd (nth co bl r0) acc | None => acc end.

(* torch.nn.functional.conv1d(x, w, b, stride s, padding 0, dilation d, groups in {1, C}) at output (co, t) *)
Definition conv1d_at (dw : bool) (w : w3) (b : option (list R)) (cin K : nat) (d s : Z) (x : nat -> signal) (co : nat) (t : Z) : R :=
  addbias b co (if dw then taps (w3at w co 0) K d (x co) (s * t)%Z
                else rsum (map (fun ci => taps (w3at w co ci) K d (x ci) (s * t)%Z) (seq 0 cin))).
Definition out_len (n K d s : nat) : nat := if n <? d * (K - 1) + 1 then 0 else (n - d * (K - 1) - 1) / s + 1.
Definition chans1 (x : list (list R)) : nat -> signal := fun ci => sig1 (nth ci x []).
Definition conv1d (dw : bool) (w : w3) (b : option (list R)) (cin K d s : nat) (x : list (list R)) : list (list R) :=
  map (fun co => map (fun t => conv1d_at dw w b cin K (Z.of_nat d) (Z.of_nat s) (chans1 x) co (Z.of_nat t))
                     (seq 0 (out_len (length (nth 0 x [])) K d s))) (seq 0 (length w)).

(* ---- 2-D *)
Definition signal2 := Z -> Z -> R.
Definition sig2 (l : list (list R)) : signal2 := fun h v => if (h <? 0)%Z then r0 else sig1 (nth (Z.to_nat h) l []) v.
Definition w4 := list (list (list (list R))).   (* [cout][cin or 1][kh][kw] *)
Definition w4at (w : w4) (co ci : nat) : list (list R) := nth ci (nth co w []) [].
Definition taps2 (wk : list (list R)) (kh kw : nat) (d : Z) (x : signal2) (u v : Z) : R :=
  rsum (map (fun a => rsum (map (fun b => rmul (nth b (nth a wk []) r0) (x (u + Z.of_nat a * d)%Z (v + Z.of_nat b * d)%Z)) (seq 0 kw))) (seq 0 kh)).
(* zero padding (ph, pw) on both sides of each axis *)
Definition conv2d_at (dw : bool) (w : w4) (b : option (list R)) (cin kh kw : nat) (d s ph pw : Z) (x : nat -> signal2) (co : nat) (h v : Z) : R :=
  addbias b co (if dw then taps2 (w4at w co 0) kh kw d (x co) (s * h - ph)%Z (s * v - pw)%Z
                else rsum (map (fun ci => taps2 (w4at w co ci) kh kw d (x ci) (s * h - ph)%Z (s * v - pw)%Z) (seq 0 cin))).
Definition out_len_p (n K d s p : nat) : nat := if n + 2 * p <? d * (K - 1) + 1 then 0 else (n + 2 * p - d * (K - 1) - 1) / s + 1.
(* the map is read through a bounds check on the right/bottom too: sig2 returns 0 past the end of the lists *)
Definition chans2 (x : list (list (list R))) : nat -> signal2 := fun ci => sig2 (nth ci x []).
Definition conv2d (dw : bool) (w : w4) (b : option (list R)) (cin kh kw d s ph pw : nat) (x : list (list (list R))) : list (list (list R)) :=
  let H := length (nth 0 x []) in let W := length (nth 0 (nth 0 x []) []) in
  map (fun co => map (fun h => map (fun v => conv2d_at dw w b cin kh kw (Z.of_nat d) (Z.of_nat s) (Z.of_nat ph) (Z.of_nat pw) (chans2 x) co (Z.of_nat h) (Z.of_nat v))
                                   (seq 0 (out_len_p W kw d s pw))) (seq 0 (out_len_p H kh d s ph))) (seq 0 (length w)).

(* ---- linear: y[co] = b[co] + sum_ci w[co][ci] * x[ci] *)
Definition linear_at (w : list (list R)) (b : option (list R)) (cin : nat) (x : nat -> R) (co : nat) : R :=
  addbias b co (rsum (map (fun ci => rmul (nth ci (nth co w []) r0) (x ci)) (seq 0 cin))).
Definition linear (w : list (list R)) (b : option (list R)) (cin : nat) (x : list R) : list R :=
  map (fun co => linear_at w b cin (fun ci => nth ci x r0) co) (seq 0 (length w)).

(* ---- BatchNorm in eval mode = per-channel affine map  y*a_c + s_c  (a_c = gamma_c * rsqrt(var_c+eps),
        s_c = beta_c - mean_c*a_c : ARBITRARY per-channel coefficients here) *)
Definition bn_at (bn : option (list R * list R)) (co : nat) (y : R) : R :=
  match bn with Some (a, sh) => radd (rmul y (nth co a r0)) (nth co sh r0) | None => y end.

(* ---------------------------------------------------------------- the PIT layers, eval-mode forward.
   mout = binarized output-feature mask, tm = binarized time mask.
   maskbias = the repaired code (fold_bn also masks the bias); false = the pinned upstream commit. *)
Definition mask_w3_time (tm : list bool) (w : w3) : w3 :=          (* torch.mul(time_mask, weight) *)
  map (map (fun wk => map (fun p => rmul (bit (fst p)) (snd p)) (combine tm wk))) w.
Definition mask_w3_out (mout : list bool) (w : w3) : w3 :=          (* torch.mul(weight, cout_mask[:,None,None]) *)
  map (fun p => map (map (fun x => rmul x (bit (fst p)))) (snd p)) (combine mout w).
Definition mask_bias (maskbias : bool) (mout : list bool) (b : option (list R)) : option (list R) :=
  if maskbias then option_map (fun bl => map (fun p => rmul (snd p) (bit (fst p))) (combine mout bl)) b else b.

Definition pit_conv1d_at (maskbias fold dw : bool) (w : w3) (b : option (list R)) (bn : option (list R * list R))
    (cin K : nat) (d s : Z) (mout tm : list bool) (x : nat -> signal) (co : nat) (t : Z) : R :=
  if fold then conv1d_at dw (mask_w3_time tm (mask_w3_out mout w)) (mask_bias maskbias mout b) cin K d s x co t
  else rmul (bn_at bn co (conv1d_at dw (mask_w3_time tm w) b cin K d s x co t)) (bit (nth co mout false)).

Definition mask_w4_out (mout : list bool) (w : w4) : w4 :=
  map (fun p => map (map (map (fun x => rmul x (bit (fst p))))) (snd p)) (combine mout w).
Definition pit_conv2d_at (maskbias fold dw : bool) (w : w4) (b : option (list R)) (bn : option (list R * list R))
    (cin kh kw : nat) (d s ph pw : Z) (mout : list bool) (x : nat -> signal2) (co : nat) (h v : Z) : R :=
  if fold then conv2d_at dw (mask_w4_out mout w) (mask_bias maskbias mout b) cin kh kw d s ph pw x co h v
  else rmul (bn_at bn co (conv2d_at dw w b cin kh kw d s ph pw x co h v)) (bit (nth co mout false)).

Definition mask_w2_out (mout : list bool) (w : list (list R)) : list (list R) :=
  map (fun p => map (fun x => rmul x (bit (fst p))) (snd p)) (combine mout w).
Definition pit_linear_at (maskbias fold : bool) (w : list (list R)) (b : option (list R)) (bn : option (list R * list R))
    (cin : nat) (mout : list bool) (x : nat -> R) (co : nat) : R :=
  if fold then linear_at (mask_w2_out mout w) (mask_bias maskbias mout b) cin x co
  else rmul (bn_at bn co (linear_at w b cin x co)) (bit (nth co mout false)).

(* ---------------------------------------------------------------- export: what PIT*.export writes *)
Definition slice_bn (mout : list bool) (bn : option (list R * list R)) : option (list R * list R) :=
  option_map (fun p => (select mout (fst p), select mout (snd p))) bn.
Definition export_w3 (dw : bool) (mout min tm : list bool) (w : w3) : w3 :=
  map (fun wc => map (select tm) (if dw then wc else select min wc)) (select mout w).
Definition export_w4 (dw : bool) (mout min : list bool) (w : w4) : w4 :=
  map (fun wc => if dw then wc else select min wc) (select mout w).
Definition export_w2 (mout min : list bool) (w : list (list R)) : list (list R) := map (select min) (select mout w).
Definition export_bias (mout : list bool) (b : option (list R)) : option (list R) := option_map (select mout) b.
End Ring.

Arguments rsum {R}. Arguments bit {R}. Arguments sig1 {R}. Arguments padl {R}. Arguments pad1d {R}.
Arguments taps {R}. Arguments addbias {R}. Arguments conv1d_at {R}. Arguments conv1d {R}. Arguments chans1 {R}.
Arguments sig2 {R}. Arguments taps2 {R}. Arguments conv2d_at {R}. Arguments conv2d {R}. Arguments chans2 {R}.
Arguments linear_at {R}. Arguments linear {R}. Arguments bn_at {R}. Arguments w3at {R}. Arguments w4at {R}.
Arguments mask_w3_time {R}. Arguments mask_w3_out {R}. Arguments mask_w4_out {R}. Arguments mask_w2_out {R}. Arguments mask_bias {R}.
Arguments pit_conv1d_at {R}. Arguments pit_conv2d_at {R}. Arguments pit_linear_at {R}.
Arguments slice_bn {R}. Arguments export_w3 {R}. Arguments export_w4 {R}. Arguments export_w2 {R}. Arguments export_bias {R}.

(* ---------------------------------------------------------------- exported hyper-parameters of a PITConv1d *)
Record conv1d_hp := { hp_in : nat; hp_out : nat; hp_k : nat; hp_dil : nat; hp_groups : nat; hp_pad : nat; hp_bn : option nat }.
(* frozen time maskers (stride <> 1): all-ones mask, kernel and dilation unchanged *)
Definition time_mask_of (frozen : bool) (K : nat) (beta gamma : list Q) : list bool :=
  if frozen then all_true K else time_mask true K beta gamma.
Definition export_conv1d_hp (dw frozen has_bn fold : bool) (K d0 : nat) (beta gamma : list Q) (mout min : list bool) : conv1d_hp :=
  let k' := if frozen then K else kernel_size_opt true K beta gamma in
  let d' := if frozen then d0 else dilation_opt true K d0 gamma in
  {| hp_in := count_true min; hp_out := count_true mout; hp_k := k'; hp_dil := d';
     hp_groups := if dw then count_true min else 1; hp_pad := (k' - 1) * d';
     hp_bn := if has_bn && negb fold then Some (count_true mout) else None |}.

(* ---------------------------------------------------------------- zero-preserving channel-wise operators over Z *)
Local Open Scope Z_scope.
Definition relu (x : Z) : Z := Z.max 0 x.
Definition relu6 (x : Z) : Z := Z.min 6 (Z.max 0 x).
Fixpoint chunks {A} (fuel k : nat) (l : list A) : list (list A) :=
  match fuel with
  | O => []
  | S f => if (length l <? k)%nat then [] else firstn k l :: chunks f k (skipn k l)
  end.
Definition zsum (l : list Z) : Z := fold_right Z.add 0 l.
Definition zmax (l : list Z) : Z := match l with [] => 0 | x :: t => fold_right Z.max x t end.
(* MaxPool1d(k) / k * AvgPool1d(k) (stride k, no padding, floor mode) *)
Definition maxpool1d (k : nat) (l : list Z) : list Z := map zmax (chunks (length l) k l).
Definition sumpool1d (k : nat) (l : list Z) : list Z := map zsum (chunks (length l) k l).
(* 2-D pooling, square window k: rows are grouped k by k, then columns *)
Definition transpose_k (rows : list (list Z)) : list (list Z) :=   (* columns of a group of rows *)
  match rows with [] => [] | r :: _ => map (fun j => map (fun row => nth j row 0) rows) (seq 0 (length r)) end.
Definition pool2d (red : list Z -> Z) (k : nat) (x : list (list Z)) : list (list Z) :=
  map (fun grp => map (fun cols => red (concat cols)) (chunks (length (transpose_k grp)) k (transpose_k grp))) (chunks (length x) k x).
Definition maxpool2d := pool2d zmax.
Definition sumpool2d := pool2d zsum.

(* ---------------------------------------------------------------- run_* helpers evaluated by the harness (R = Z) *)
Definition Zconv1d := @conv1d Z 0 Z.add Z.mul.
Definition Zconv2d := @conv2d Z 0 Z.add Z.mul.
Definition Zlinear := @linear Z 0 Z.add Z.mul.
Definition Zpad1d := @pad1d Z 0.
(* the PIT layer on a list tensor (with the causal pad (K-1)*d in front), eval mode *)
Definition run_pit_conv1d (maskbias fold dw : bool) (w : list (list (list Z))) (b : option (list Z)) (bn : option (list Z * list Z))
    (cin K d s : nat) (mout tm : list bool) (x : list (list Z)) : list (list Z) :=
  let xp := Zpad1d ((K - 1) * d) x in
  map (fun co => map (fun t => pit_conv1d_at 0 1 Z.add Z.mul maskbias fold dw w b bn cin K (Z.of_nat d) (Z.of_nat s) mout tm (chans1 0 xp) co (Z.of_nat t))
                     (seq 0 (out_len (length (nth 0 xp [])) K d s))) (seq 0 (length w)).
(* the exported layer on the sliced input *)
Definition run_exp_conv1d (dw : bool) (w : list (list (list Z))) (b : option (list Z)) (bn : option (list Z * list Z))
    (k' d' s : nat) (mout min tm : list bool) (x : list (list Z)) : list (list Z) :=
  let xp := Zpad1d ((k' - 1) * d') (select min x) in
  let w' := export_w3 dw mout min tm w in
  let y := Zconv1d dw w' (export_bias mout b) (count_true min) k' d' s xp in
  map (fun p => map (bn_at 0 Z.add Z.mul (slice_bn mout bn) (fst p)) (snd p)) (combine (seq 0 (length y)) y).
Definition run_export_w3 (dw : bool) (mout min tm : list bool) (w : list (list (list Z))) := @export_w3 Z dw mout min tm w.
Definition run_export_w4 (dw : bool) (mout min : list bool) (w : list (list (list (list Z)))) := @export_w4 Z dw mout min w.
Definition run_export_w2 (mout min : list bool) (w : list (list Z)) := @export_w2 Z mout min w.
Definition run_hp (dw frozen has_bn fold : bool) (K d0 : nat) (beta gamma : list Q) (mout min : list bool) :=
  let h := export_conv1d_hp dw frozen has_bn fold K d0 beta gamma mout min in
  (hp_in h, hp_out h, hp_k h, (hp_dil h, hp_groups h, hp_pad h, hp_bn h), time_mask_of frozen K beta gamma).

(* ---------------------------------------------------------------- whole networks on integer tensors (BN-free), executable:
   one pass computes, for every node, the tensor of the masked (PIT, eval mode) network, the tensor of the exported
   network and the alive mask.  Derived quantities of the export (sliced weights, K', d', new pad amount, input masks)
   are all computed by the model functions above. *)
Inductive tens := TS1 (x : list (list Z)) | TS2 (x : list (list (list Z))) | TS0 (x : list Z) | TErr.
Inductive xnode :=
| XIn
| XPad (src P P' : nat)                              (* a stand-alone ConstantPad1d((P,0)); P' = amount after export (not used for the pad of a conv1d) *)
| XConv1 (src : nat) (fold dw : bool) (w : list (list (list Z))) (b : option (list Z)) (cin K d s : nat) (m tm : list bool) (K' d' : nat)
| XConv2 (src : nat) (fold dw : bool) (w : list (list (list (list Z)))) (b : option (list Z)) (cin kh kw d s ph pw : nat) (m : list bool)
| XLin (src : nat) (fold : bool) (w : list (list Z)) (b : option (list Z)) (cin : nat) (m : list bool)
| XAct (src : nat) (six : bool) | XId (src : nat) | XMaxPool (src k : nat) | XFlatten (src : nat)
| XAdd (a b : nat) | XCat (srcs : list nat).

Definition pit_conv1d_l (fold dw : bool) w b cin K d s (m tm : list bool) (x : list (list Z)) : list (list Z) :=
  map (fun co => map (fun t => pit_conv1d_at 0 1 Z.add Z.mul true fold dw w b None cin K (Z.of_nat d) (Z.of_nat s) m tm (chans1 0 x) co (Z.of_nat t))
                     (seq 0 (out_len (length (nth 0 x [])) K d s))) (seq 0 (length w)).
Definition pit_conv2d_l (fold dw : bool) w b cin kh kw d s ph pw (m : list bool) (x : list (list (list Z))) : list (list (list Z)) :=
  let H := length (nth 0 x []) in let W := length (nth 0 (nth 0 x []) []) in
  map (fun co => map (fun h => map (fun v => pit_conv2d_at 0 1 Z.add Z.mul true fold dw w b None cin kh kw (Z.of_nat d) (Z.of_nat s) (Z.of_nat ph) (Z.of_nat pw) m (chans2 0 x) co (Z.of_nat h) (Z.of_nat v))
                                   (seq 0 (out_len_p W kw d s pw))) (seq 0 (out_len_p H kh d s ph))) (seq 0 (length w)).
Definition pit_linear_l (fold : bool) w b cin (m : list bool) (x : list Z) : list Z :=
  map (fun co => pit_linear_at 0 1 Z.add Z.mul true fold w b None cin m (fun ci => nth ci x 0) co) (seq 0 (length w)).

Definition tmap (f1 : list Z -> list Z) (f2 : list (list Z) -> list (list Z)) (f0 : Z -> Z) (t : tens) : tens :=
  match t with TS1 x => TS1 (map f1 x) | TS2 x => TS2 (map f2 x) | TS0 x => TS0 (map f0 x) | TErr => TErr end.
Fixpoint zip2 {A} (f : A -> A -> A) (a b : list A) : list A :=
  match a, b with x :: a', y :: b' => f x y :: zip2 f a' b' | _, _ => [] end.
Definition tadd (a b : tens) : tens :=
  match a, b with
  | TS1 x, TS1 y => TS1 (zip2 (zip2 Z.add) x y)
  | TS2 x, TS2 y => TS2 (zip2 (zip2 (zip2 Z.add)) x y)
  | TS0 x, TS0 y => TS0 (zip2 Z.add x y)
  | _, _ => TErr
  end.
Definition tcat (a b : tens) : tens :=
  match a, b with TS1 x, TS1 y => TS1 (x ++ y) | TS2 x, TS2 y => TS2 (x ++ y) | TS0 x, TS0 y => TS0 (x ++ y) | _, _ => TErr end.
Definition tflat (t : tens) : tens :=
  match t with TS1 x => TS0 (concat x) | TS2 x => TS0 (concat (map (@concat Z) x)) | TS0 x => TS0 x | TErr => TErr end.
Definition tmult (t : tens) : nat :=
  match t with TS1 x => length (nth 0 x []) | TS2 x => length (nth 0 x []) * length (nth 0 (nth 0 x []) []) | _ => 1 end.
Definition tchan (t : tens) : nat := match t with TS1 x => length x | TS2 x => length x | TS0 x => length x | TErr => 0 end.

Definition xstate := (tens * tens * list bool)%type.
Definition xget (acc : list xstate) (i : nat) : xstate := nth i acc (TErr, TErr, []).
Definition xstep (x : tens) (acc : list xstate) (nd : xnode) : xstate :=
  match nd with
  | XIn => (x, x, all_true (tchan x))
  | XPad src P P' => let '(p, e, a) := xget acc src in
      (match p with TS1 v => TS1 (Zpad1d P v) | _ => TErr end, match e with TS1 v => TS1 (Zpad1d P' v) | _ => TErr end, a)
  | XConv1 src fold dw w b cin K d s m tm K' d' => let '(p, e, a) := xget acc src in     (* the causal pad is part of the layer *)
      (match p with TS1 v => TS1 (pit_conv1d_l fold dw w b cin K d s m tm (Zpad1d ((K - 1) * d) v)) | _ => TErr end,
       match e with TS1 v => TS1 (Zconv1d dw (export_w3 dw m a tm w) (export_bias m b) (count_true a) K' d' s (Zpad1d ((K' - 1) * d') v)) | _ => TErr end, m)
  | XConv2 src fold dw w b cin kh kw d s ph pw m => let '(p, e, a) := xget acc src in
      (match p with TS2 v => TS2 (pit_conv2d_l fold dw w b cin kh kw d s ph pw m v) | _ => TErr end,
       match e with TS2 v => TS2 (Zconv2d dw (export_w4 dw m a w) (export_bias m b) (count_true a) kh kw d s ph pw v) | _ => TErr end, m)
  | XLin src fold w b cin m => let '(p, e, a) := xget acc src in
      (match p with TS0 v => TS0 (pit_linear_l fold w b cin m v) | _ => TErr end,
       match e with TS0 v => TS0 (Zlinear (export_w2 m a w) (export_bias m b) (count_true a) v) | _ => TErr end, m)
  | XAct src six => let '(p, e, a) := xget acc src in
      let f := if six then relu6 else relu in (tmap (map f) (map (map f)) f p, tmap (map f) (map (map f)) f e, a)
  | XId src => xget acc src
  | XMaxPool src k => let '(p, e, a) := xget acc src in
      (tmap (maxpool1d k) (maxpool2d k) (fun v => v) p, tmap (maxpool1d k) (maxpool2d k) (fun v => v) e, a)
  | XFlatten src => let '(p, e, a) := xget acc src in (tflat p, tflat e, flat_map (fun b => repeat b (tmult p)) a)
  | XAdd i j => let '(p, e, a) := xget acc i in let '(p2, e2, _) := xget acc j in (tadd p p2, tadd e e2, a)
  | XCat srcs => match srcs with
      | [] => (TErr, TErr, [])
      | s0 :: rest => fold_left (fun st j => let '(p, e, a) := st in let '(p2, e2, a2) := xget acc j in (tcat p p2, tcat e e2, a ++ a2)) rest (xget acc s0)
      end
  end.
Fixpoint xrun (x : tens) (acc : list xstate) (net : list xnode) : list xstate :=
  match net with [] => acc | nd :: rest => xrun x (acc ++ [xstep x acc nd]) rest end.
Definition run_net (net : list xnode) (x : tens) : list xstate := xrun x [] net.
