(* Proofs about Model/Sampler.v (C10).  exp is a Section variable g with the two hypotheses
   "positive" and "strictly increasing"; they become visible premises of every theorem. *)
From Coq Require Import QArith ZArith List Bool Arith Lia Lqa.
Import ListNotations.
Require Import Plinio.Base.Qx Plinio.Model.Sampler.
Local Open Scope Q_scope.

(* ------------------------------------------------------------------ basic notions *)
Definition prob_vec (v : list Q) : Prop := Forall (fun x => 0 <= x) v /\ qsum v == 1.
Definition is_onehot (v : list Q) : Prop := exists k, (k < length v)%nat /\ v = onehot (length v) k.
(* no two coefficients equal *)
Definition tie_free (a : list Q) : Prop := ForallOrdPairs (fun x y => ~ x == y) a.
Definition col_ok (a : list Q) : Prop := a <> [] /\ tie_free a.

(* ------------------------------------------------------------------ sums *)
Lemma qsum_scale c l : qsum (map (fun x => x * c) l) == qsum l * c.
Proof. induction l as [|x l IH]; cbn [map qsum fold_right]; [ring|]. fold (qsum (map (fun x => x * c) l)). fold (qsum l). rewrite IH. ring. Qed.

Lemma qsum_pos l : l <> [] -> Forall (fun x => 0 < x) l -> 0 < qsum l.
Proof.
  intros Hne H. induction H as [|x l Hx Hl IH]; [congruence|].
  cbn [qsum fold_right]. fold (qsum l). destruct l as [|y l'].
  - cbn. lra.
  - assert (0 < qsum (y :: l')) by (apply IH; discriminate). lra.
Qed.

Lemma qsum_nonneg l : Forall (fun x => 0 <= x) l -> 0 <= qsum l.
Proof. induction 1; cbn [qsum fold_right]; [lra|]. fold (qsum l). lra. Qed.

(* ------------------------------------------------------------------ one-hot *)
Lemma onehot_length n k : length (onehot n k) = n.
Proof. unfold onehot. now rewrite map_length, seq_length. Qed.

Lemma qsum_ind_seq k s n :
  qsum (map (fun i => if Nat.eqb i k then 1 else 0) (seq s n)) ==
  if (Nat.leb s k && Nat.ltb k (s + n))%bool then 1 else 0.
Proof.
  revert s. induction n as [|n IH]; intro s.
  - cbn [seq map qsum fold_right]. destruct (Nat.leb s k) eqn:E1; cbn [andb]; [|reflexivity].
    destruct (Nat.ltb k (s + 0)) eqn:E2; [|reflexivity].
    apply Nat.leb_le in E1. apply Nat.ltb_lt in E2. lia.
  - cbn [seq map qsum fold_right]. fold (qsum (map (fun i => if Nat.eqb i k then 1 else 0) (seq (S s) n))).
    rewrite IH.
    destruct (Nat.eqb_spec s k); destruct (Nat.leb_spec0 (S s) k); destruct (Nat.ltb_spec0 k (S s + n));
    destruct (Nat.leb_spec0 s k); destruct (Nat.ltb_spec0 k (s + S n)); cbn [andb]; try lia; ring.
Qed.

Lemma onehot_prob n k : (k < n)%nat -> prob_vec (onehot n k).
Proof.
  intro H. split.
  - unfold onehot. apply Forall_forall. intros x Hx. apply in_map_iff in Hx. destruct Hx as [i [Hi _]].
    subst x. destruct (Nat.eqb i k); lra.
  - unfold onehot. rewrite qsum_ind_seq. replace (Nat.leb 0 k) with true by reflexivity.
    cbn [andb]. destruct (Nat.ltb k (0 + n)) eqn:E; [reflexivity|]. apply Nat.ltb_ge in E. lia.
Qed.

Lemma onehot_is_onehot n k : (k < n)%nat -> is_onehot (onehot n k).
Proof. intro H. exists k. rewrite onehot_length. auto. Qed.

Lemma is_onehot_prob v : is_onehot v -> prob_vec v.
Proof. intros [k [Hk E]]. rewrite E. now apply onehot_prob. Qed.




Lemma onehot_mix_seq k fs : forall s,
  dot (map (fun i => if Nat.eqb i k then 1 else 0) (seq s (length fs))) fs ==
  if Nat.leb s k then nth (k - s) fs 0 else 0.
Proof.
  unfold dot. induction fs as [|x fs IH]; intro s; cbn [length seq map combine qsum fold_right fst snd].
  - destruct (Nat.leb s k); [destruct (k - s)%nat|]; reflexivity.
  - fold (qsum (map (fun p : Q * Q => fst p * snd p) (combine (map (fun i => if Nat.eqb i k then 1 else 0) (seq (S s) (length fs))) fs))).
    rewrite IH. destruct (Nat.eqb_spec s k); destruct (Nat.leb_spec0 (S s) k); destruct (Nat.leb_spec0 s k); try lia.
    + subst s. rewrite Nat.sub_diag. cbn [nth]. ring.
    + replace (k - s)%nat with (S (k - S s)) by lia. cbn [nth]. ring.
    + ring.
Qed.

Theorem onehot_mix n k fs : length fs = n -> dot (onehot n k) fs == nth k fs 0.
Proof. intro H. subst n. unfold onehot. rewrite onehot_mix_seq. cbn [Nat.leb]. now rewrite Nat.sub_0_r. Qed.

(* ------------------------------------------------------------------ argmax *)
Lemma argmax_aux_bound l : forall i bi bv, (bi < i)%nat -> (argmax_aux l i bi bv < i + length l)%nat.
Proof.
  induction l as [|x l IH]; intros i bi bv H; cbn [argmax_aux length]; [lia|].
  destruct (qlt_bool bv x).
  - specialize (IH (S i) i x). lia.
  - specialize (IH (S i) bi bv). lia.
Qed.

Lemma argmax_lt l : l <> [] -> (argmax l < length l)%nat.
Proof.
  destruct l as [|x l]; [congruence|]. intros _. unfold argmax. cbn [length].
  pose proof (argmax_aux_bound l 1 0 x). lia.
Qed.

(* a map that preserves the strict order between the elements that are compared commutes with argmax *)
Lemma argmax_aux_map (f : Q -> Q) l : forall i bi bv,
  Forall (fun x => qlt_bool (f bv) (f x) = qlt_bool bv x) l ->
  ForallOrdPairs (fun x y => qlt_bool (f x) (f y) = qlt_bool x y) l ->
  argmax_aux (map f l) i bi (f bv) = argmax_aux l i bi bv.
Proof.
  induction l as [|x l IH]; intros i bi bv H1 H2; cbn [map argmax_aux]; [reflexivity|].
  inversion H1 as [|? ? Hx Hl]; subst. inversion H2 as [|? ? Hxl Hll]; subst.
  rewrite Hx. destruct (qlt_bool bv x); apply IH; assumption.
Qed.

Lemma argmax_map (f : Q -> Q) l :
  ForallOrdPairs (fun x y => qlt_bool (f x) (f y) = qlt_bool x y) l -> argmax (map f l) = argmax l.
Proof.
  destruct l as [|x l]; [reflexivity|]. intro H. inversion H; subst. cbn [map argmax].
  apply argmax_aux_map; assumption.
Qed.

Lemma qlt_bool_mono_map (f : Q -> Q) :
  (forall x y, x < y -> f x < f y) -> forall x y, ~ x == y -> qlt_bool (f x) (f y) = qlt_bool x y.
Proof.
  intros Hf x y Hne. destruct (Q_dec x y) as [[Hlt|Hgt]|Heq]; [| |contradiction].
  - assert (A : qlt_bool x y = true) by (apply qlt_bool_iff; exact Hlt).
    assert (B : qlt_bool (f x) (f y) = true) by (apply qlt_bool_iff; auto). congruence.
  - assert (A : qlt_bool x y = false).
    { destruct (qlt_bool x y) eqn:E; [|reflexivity]. apply qlt_bool_iff in E. lra. }
    assert (B : qlt_bool (f x) (f y) = false).
    { destruct (qlt_bool (f x) (f y)) eqn:E; [|reflexivity]. apply qlt_bool_iff in E. specialize (Hf y x Hgt). lra. }
    congruence.
Qed.

Lemma argmax_mono_map (f : Q -> Q) l :
  (forall x y, x < y -> f x < f y) -> tie_free l -> argmax (map f l) = argmax l.
Proof.
  intros Hf Ht. apply argmax_map. unfold tie_free in Ht.
  induction Ht as [|x l Hx Hl IH]; constructor.
  - eapply Forall_impl; [|exact Hx]. intros y Hy. cbv beta in Hy. now apply qlt_bool_mono_map.
  - exact IH.
Qed.

Lemma argmax_aux_ind_seq k m : forall s bi (b : bool),
  argmax_aux (map (fun i => if Nat.eqb i k then 1 else 0) (seq s m)) s bi (if b then 1 else 0) =
  if (negb b && Nat.leb s k && Nat.ltb k (s + m))%bool then k else bi.
Proof.
  induction m as [|m IH]; intros s bi b; cbn [seq map argmax_aux].
  - destruct b; cbn [negb andb]; [reflexivity|]. destruct (Nat.leb s k) eqn:E1; cbn [andb]; [|reflexivity].
    destruct (Nat.ltb k (s + 0)) eqn:E2; [|reflexivity]. apply Nat.leb_le in E1. apply Nat.ltb_lt in E2. lia.
  - destruct (Nat.eqb s k) eqn:E0.
    + apply Nat.eqb_eq in E0. subst s. destruct b.
      * change (qlt_bool 1 1) with false. cbv iota. rewrite (IH (S k) bi true). reflexivity.
      * change (qlt_bool 0 1) with true. cbv iota. rewrite (IH (S k) k true). cbn [negb andb].
        rewrite Nat.leb_refl. cbn [andb]. destruct (Nat.ltb k (k + S m)) eqn:E; [reflexivity|]. apply Nat.ltb_ge in E. lia.
    + apply Nat.eqb_neq in E0.
      assert (Hq : qlt_bool (if b then 1 else 0) 0 = false) by (destruct b; reflexivity).
      rewrite Hq. rewrite (IH (S s) bi b).
      destruct (negb b); cbn [andb]; [|reflexivity].
      destruct (Nat.leb_spec0 (S s) k); destruct (Nat.leb_spec0 s k); cbn [andb];
      destruct (Nat.ltb_spec0 k (S s + m)); destruct (Nat.ltb_spec0 k (s + S m)); try lia; reflexivity.
Qed.

Lemma argmax_onehot n k : (k < n)%nat -> argmax (onehot n k) = k.
Proof.
  intro H. unfold onehot. destruct n as [|n]; [lia|]. cbn [seq map argmax].
  destruct (Nat.eqb 0 k) eqn:E0.
  - apply Nat.eqb_eq in E0. subst k. rewrite (argmax_aux_ind_seq 0 n 1 0 true). reflexivity.
  - apply Nat.eqb_neq in E0. rewrite (argmax_aux_ind_seq k n 1 0 false). cbn [negb andb].
    destruct (Nat.leb 1 k) eqn:E1; [|apply Nat.leb_gt in E1; lia]. cbn [andb].
    destruct (Nat.ltb k (1 + n)) eqn:E2; [reflexivity|]. apply Nat.ltb_ge in E2. lia.
Qed.

(* ------------------------------------------------------------------ addn / zipcols *)
Lemma addn_length a : forall n, length (addn a n) = length a.
Proof. induction a as [|x a IH]; intros [|y n]; cbn [addn length]; auto. Qed.

Lemma zipcols_Forall {A} (P : list Q -> Prop) (R : A -> Prop) (f : list Q -> list Q -> A) a :
  (forall x n, P x -> R (f x n)) -> forall n, Forall P a -> Forall R (zipcols f a n).
Proof.
  intro H. induction a as [|x a IH]; intros n Ha; cbn [zipcols]; [constructor|].
  inversion Ha; subst. destruct n as [|y n]; constructor; auto.
Qed.

(* ------------------------------------------------------------------ softmax *)
Section G.
Variable g : Q -> Q.
Hypothesis g_pos : forall x, 0 < g x.
Hypothesis g_incr : forall x y, x < y -> g x < g y.

Lemma expo_pos T a : Forall (fun x => 0 < x) (expo g T a).
Proof. unfold expo. apply Forall_forall. intros x Hx. apply in_map_iff in Hx. destruct Hx as [y [Hy _]]. subst. apply g_pos. Qed.

Lemma expo_sum_pos T a : a <> [] -> 0 < qsum (expo g T a).
Proof. intro H. apply qsum_pos; [|apply expo_pos]. unfold expo. destruct a; [congruence|discriminate]. Qed.

Lemma softmax_length T a : length (softmax g T a) = length a.
Proof. unfold softmax, expo. now rewrite !map_length. Qed.

Theorem softmax_prob T a : a <> [] -> prob_vec (softmax g T a).
Proof.
  intro Hne. pose proof (expo_sum_pos T a Hne) as Hs. split.
  - unfold softmax. apply Forall_forall. intros x Hx. apply in_map_iff in Hx. destruct Hx as [y [Hy Hin]].
    subst x. pose proof (expo_pos T a) as Hp. rewrite Forall_forall in Hp. specialize (Hp y Hin).
    apply Qle_shift_div_l; [exact Hs|]. lra.
  - unfold softmax. cbv zeta. unfold Qdiv. rewrite qsum_scale. apply Qmult_inv_r. lra.
Qed.

Lemma softmax_as_map T a : softmax g T a = map (fun x => g (x / T) / qsum (expo g T a)) a.
Proof. unfold softmax. cbv zeta. unfold expo at 2. rewrite map_map. reflexivity. Qed.

Theorem argmax_softmax T a : 0 < T -> a <> [] -> tie_free a -> argmax (softmax g T a) = argmax a.
Proof.
  intros HT Hne Ht. rewrite softmax_as_map. apply argmax_mono_map; [|exact Ht].
  intros x y Hxy. pose proof (expo_sum_pos T a Hne) as Hs.
  assert (Hd : x / T < y / T).
  { unfold Qdiv. apply Qmult_lt_compat_r; [apply Qinv_lt_0_compat; exact HT|exact Hxy]. }
  apply g_incr in Hd. unfold Qdiv. apply Qmult_lt_compat_r; [apply Qinv_lt_0_compat; exact Hs|exact Hd].
Qed.

Theorem ste_onehot_at_argmax T a : 0 < T -> a <> [] -> tie_free a ->
  ste (softmax g T a) = onehot (length a) (argmax a).
Proof. intros. unfold ste. rewrite softmax_length, argmax_softmax; auto. Qed.

Lemma addn_nonempty a n : a <> [] -> addn a n <> [].
Proof. destruct a; [congruence|]. destruct n; discriminate. Qed.

Theorem gumbel_prob T hd a n : a <> [] -> prob_vec (gumbel_softmax g T hd a n).
Proof.
  intro Hne. unfold gumbel_softmax. cbv zeta. destruct hd; [|apply softmax_prob, addn_nonempty, Hne].
  unfold ste. apply onehot_prob. apply argmax_lt. intro E.
  apply (f_equal (@length Q)) in E. rewrite softmax_length, addn_length in E. destruct a; [congruence|discriminate].
Qed.

Theorem gumbel_hard_onehot T a n : a <> [] ->
  gumbel_softmax g T true a n = onehot (length a) (argmax (softmax g T (addn a n))) /\
  (argmax (softmax g T (addn a n)) < length a)%nat.
Proof.
  intro Hne. unfold gumbel_softmax, ste. cbv zeta. rewrite softmax_length, addn_length. split; [reflexivity|].
  rewrite <- (addn_length a n), <- (softmax_length T (addn a n)). apply argmax_lt.
  intro E. apply (f_equal (@length Q)) in E. rewrite softmax_length, addn_length in E. destruct a; [congruence|discriminate].
Qed.

(* with a positive temperature the hard Gumbel sample sits at the arg-max of the PERTURBED coefficients *)
Theorem gumbel_hard_at_perturbed_argmax T a n : 0 < T -> a <> [] -> tie_free (addn a n) ->
  gumbel_softmax g T true a n = onehot (length a) (argmax (addn a n)).
Proof.
  intros HT Hne Ht. destruct (gumbel_hard_onehot T a n Hne) as [E _]. rewrite E.
  rewrite argmax_softmax; auto. now apply addn_nonempty.
Qed.

(* ------------------------------------------------------------------ the state machine *)
Definition wf (s : sampler) : Prop := 0 < temp s /\ Forall col_ok (alpha s).
Definition wf_op (o : sop) : Prop :=
  match o with
  | SUpdate (Some t) _ _ _ => 0 < t
  | SOptStep a' => Forall col_ok a'
  | _ => True
  end.

Lemma step_wf c k s o s' : wf s -> wf_op o -> step g c k s o = Some s' -> wf s'.
Proof.
  intros [HT Ha] Ho E. destruct o as [t h gm d| | |noise|a']; cbn [step] in E.
  - destruct k.
    + inversion E; subst; clear E. split; cbn [temp alpha]; [|exact Ha]. destruct t; cbn [upd_temp]; [exact Ho|exact HT].
    + destruct (is_none gm && is_none d)%bool; [|discriminate]. inversion E; subst; clear E.
      split; cbn [temp alpha]; [|exact Ha]. destruct t; cbn [upd_temp]; [exact Ho|exact HT].
  - inversion E; subst. split; assumption.
  - inversion E; subst. split; assumption.
  - inversion E; subst. split; assumption.
  - inversion E; subst. split; [exact HT|exact Ho].
Qed.

Lemma run_wf c k ops : forall s s', wf s -> Forall wf_op ops -> run g c k s ops = Some s' -> wf s'.
Proof.
  induction ops as [|o r IH]; intros s s' Hs Ho E; cbn [run] in E.
  - inversion E; subst; exact Hs.
  - inversion Ho; subst. destruct (step g c k s o) as [s1|] eqn:E1; [|discriminate].
    eapply IH; [eapply step_wf; eauto|assumption|exact E].
Qed.

(* what a forward pass must leave in theta_alpha, given the options in force (state s before the pass) *)
Definition argmax_onehots (al : list (list Q)) : list (list Q) := map onehot_at_argmax al.
Definition post_ok (s : sampler) (th : list (list Q)) : Prop :=
  Forall prob_vec th /\
  ((training s = false \/ (hard s = true /\ gumbel s = false)) -> th = argmax_onehots (alpha s)) /\
  (hard s = true -> Forall is_onehot th).
(* the sub-domain on which the faithful model of the unchanged code meets the property: everything except
   (open findings) the SuperNet combiner of the pinned code in eval mode with soft selection, and
   disable_sampling (guard `disabled s = false`, stated separately) *)
Definition covered (c : cfg) (k : kind) (s : sampler) : Prop :=
  k = KMps \/ comb_eval_argmax c = true \/ training s = true \/ hard s = true.

Lemma map_ste_softmax T al : 0 < T -> Forall col_ok al ->
  map ste (map (softmax g T) al) = argmax_onehots al.
Proof.
  intros HT H. unfold argmax_onehots. rewrite map_map. apply map_ext_in. intros a Ha.
  rewrite Forall_forall in H. destruct (H a Ha) as [Hne Ht]. now apply ste_onehot_at_argmax.
Qed.

Lemma argmax_onehots_onehot al : Forall col_ok al -> Forall is_onehot (argmax_onehots al).
Proof.
  intro H. unfold argmax_onehots. apply Forall_forall. intros v Hv. apply in_map_iff in Hv.
  destruct Hv as [a [E Ha]]. subst v. rewrite Forall_forall in H. destruct (H a Ha) as [Hne _].
  apply onehot_is_onehot. now apply argmax_lt.
Qed.

Lemma Forall_onehot_prob th : Forall is_onehot th -> Forall prob_vec th.
Proof. intro H. eapply Forall_impl; [|exact H]. apply is_onehot_prob. Qed.

Lemma softmax_cols_prob T al : Forall col_ok al -> Forall prob_vec (map (softmax g T) al).
Proof.
  intro H. apply Forall_forall. intros v Hv. apply in_map_iff in Hv. destruct Hv as [a [E Ha]]. subst v.
  rewrite Forall_forall in H. destruct (H a Ha) as [Hne _]. now apply softmax_prob.
Qed.

(* one forward pass *)
Lemma forward_post_ok c k s noise : covered c k s -> wf s -> disabled s = false ->
  post_ok s (sample g c k s noise).
Proof.
  intros Hc [HT Ha] Hd. unfold sample. rewrite Hd.
  assert (PSM : gumbel s = false \/ training s = false -> post_ok s (sample_sm g c k s)).
  { intro Hcase. unfold sample_sm. cbv zeta.
    destruct (hard s || eval_argmax c k s)%bool eqn:Eh.
    - rewrite map_ste_softmax by assumption. unfold post_ok. split; [|split].
      + apply Forall_onehot_prob, argmax_onehots_onehot, Ha.
      + intros _. reflexivity.
      + intros _. apply argmax_onehots_onehot, Ha.
    - apply orb_false_iff in Eh. destruct Eh as [Eh1 Eh2]. unfold post_ok. split; [|split].
      + apply softmax_cols_prob, Ha.
      + intros [Htr|[Hh _]]; [|congruence]. exfalso. unfold eval_argmax in Eh2.
        destruct Hc as [Hk|[Hfix|[Ht|Hh]]]; [subst k; rewrite Htr in Eh2; discriminate| |congruence|congruence].
        destruct k; rewrite Htr in Eh2; [discriminate|]. rewrite Hfix in Eh2. discriminate.
      + intro; congruence. }
  destruct (gumbel s) eqn:Eg; [|apply PSM; auto].
  unfold sample_gs. destruct (training s) eqn:Et; [|apply PSM; auto].
  unfold post_ok. split; [|split].
  - apply (zipcols_Forall col_ok); [|exact Ha]. intros x n [Hne _]. now apply gumbel_prob.
  - intros [H|[_ H]]; congruence.
  - intro Hh. rewrite Hh. apply (zipcols_Forall col_ok); [|exact Ha]. intros x n [Hne _].
    destruct (gumbel_hard_onehot (temp s) x n Hne) as [E Hlt]. rewrite E.
    rewrite <- (onehot_length (length x) (argmax (softmax g (temp s) (addn x n)))) at 1.
    exists (argmax (softmax g (temp s) (addn x n))). rewrite !onehot_length. auto.
Qed.

(* every forward pass of every op sequence *)
Fixpoint all_forwards_ok (c : cfg) (k : kind) (s : sampler) (ops : list sop) : Prop :=
  match ops with
  | [] => True
  | o :: r =>
      match step g c k s o with
      | None => True
      | Some s' =>
          match o with
          | SForward _ => disabled s = false -> covered c k s -> post_ok s (theta s')
          | _ => True
          end /\ all_forwards_ok c k s' r
      end
  end.

Theorem invariant_all_sequences c k : forall ops s, wf s -> Forall wf_op ops ->
  all_forwards_ok c k s ops.
Proof.
  induction ops as [|o r IH]; intros s Hs Ho; cbn [all_forwards_ok]; [exact I|].
  inversion Ho; subst. destruct (step g c k s o) as [s'|] eqn:E; [|exact I]. split.
  - destruct o; try exact I. intros Hd Hc. cbn [step] in E. inversion E; subst. cbn [set_theta theta].
    now apply forward_post_ok.
  - apply IH; [eapply step_wf; eauto|assumption].
Qed.

Corollary invariant_after_run c k ops s s1 noise s2 : wf s -> Forall wf_op ops ->
  run g c k s ops = Some s1 -> step g c k s1 (SForward noise) = Some s2 -> disabled s1 = false ->
  covered c k s1 -> post_ok s1 (theta s2).
Proof.
  intros Hs Ho E1 E2 Hd Hc. cbn [step] in E2. inversion E2; subst. cbn [set_theta theta].
  apply forward_post_ok; auto. eapply run_wf; eauto.
Qed.

(* the combiner never becomes `disabled` *)
Lemma comb_never_disabled c ops : forall s s', disabled s = false -> run g c KComb s ops = Some s' -> disabled s' = false.
Proof.
  induction ops as [|o r IH]; intros s s' Hd E; cbn [run] in E; [inversion E; subst; exact Hd|].
  destruct (step g c KComb s o) as [s1|] eqn:E1; [|discriminate]. apply (IH s1 s'); [|exact E].
  destruct o; cbn [step] in E1; try (inversion E1; subst; exact Hd).
  destruct (is_none g0 && is_none d)%bool; [|discriminate]. inversion E1; subst; exact Hd.
Qed.

(* selection used by summary()/export() against the evaluated coefficients: whenever no Gumbel noise is
   involved the largest evaluated coefficient of every decision sits at the alternative that
   selected_*_precision / best_layer_index pick; in eval / hard mode it is the only non-zero one *)
Theorem selected_is_argmax c k s noise : wf s -> disabled s = false ->
  (gumbel s = false \/ training s = false) ->
  map argmax (sample g c k s noise) = selected (alpha s).
Proof.
  intros [HT Ha] Hd Hm. unfold sample. rewrite Hd.
  assert (PSM : map argmax (sample_sm g c k s) = selected (alpha s)).
  { unfold sample_sm, selected. cbv zeta. destruct (hard s || eval_argmax c k s)%bool.
    - rewrite map_ste_softmax by assumption. unfold argmax_onehots. rewrite map_map. apply map_ext_in.
      intros a Hin. rewrite Forall_forall in Ha. destruct (Ha a Hin) as [Hne _]. unfold onehot_at_argmax.
      apply argmax_onehot. now apply argmax_lt.
    - rewrite map_map. apply map_ext_in. intros a Hin. rewrite Forall_forall in Ha.
      destruct (Ha a Hin) as [Hne Ht]. now apply argmax_softmax. }
  destruct (gumbel s) eqn:Eg; [|exact PSM]. unfold sample_gs. destruct Hm as [Hm|Hm]; [discriminate|].
  rewrite Hm. exact PSM.
Qed.

Theorem selected_onehot c k s noise : covered c k s -> wf s -> disabled s = false ->
  (training s = false \/ (hard s = true /\ gumbel s = false)) ->
  sample g c k s noise = map (fun col => onehot (length col) (argmax col)) (alpha s) /\
  selected (alpha s) = map argmax (alpha s).
Proof.
  intros Hc Hs Hd Hm. destruct (forward_post_ok c k s noise Hc Hs Hd) as [_ [H _]]. split; [exact (H Hm)|reflexivity].
Qed.

(* ------------------------------------------------------------------ where the unchanged code breaks the property *)
Lemma softmax_pos T a : Forall (fun x => 0 < x) (softmax g T a).
Proof.
  destruct a as [|x0 a0]; [constructor|]. set (a := x0 :: a0).
  assert (Hs : 0 < qsum (expo g T a)) by (apply expo_sum_pos; discriminate).
  unfold softmax. cbv zeta. apply Forall_forall. intros x Hx. apply in_map_iff in Hx. destruct Hx as [y [Hy Hin]].
  subst x. pose proof (expo_pos T a) as Hp. rewrite Forall_forall in Hp. specialize (Hp y Hin).
  apply Qlt_shift_div_l; [exact Hs|]. lra.
Qed.

(* pinned upstream SuperNetCombiner: eval mode with soft selection evaluates a mixture *)
Theorem comb_upstream_eval_soft_refuted : exists s noise,
  wf s /\ disabled s = false /\ training s = false /\ hard s = false /\
  ~ post_ok s (sample g (mkCfg false false) KComb s noise).
Proof.
  exists (mkS false false false 1 false [[1; 2]] [[1#2; 1#2]]), [].
  split; [|split; [reflexivity|split; [reflexivity|split; [reflexivity|]]]].
  - split; cbn [temp alpha]; [reflexivity|]. repeat constructor; try discriminate; cbv; discriminate.
  - intros [_ [H _]]. specialize (H (or_introl eq_refl)).
    cbv [sample sample_sm disabled gumbel hard training eval_argmax comb_eval_argmax andb orb negb temp alpha map
         argmax_onehots onehot_at_argmax] in H.
    apply (f_equal (fun l => hd [] l)) in H. cbn [hd] in H. pose proof (softmax_pos 1 [1; 2]) as P. rewrite H in P.
    inversion P as [|? ? P0 _]; subst. cbv in P0. discriminate.
Qed.

(* disable_sampling=True: the coefficients stay at their stale values, also in eval mode *)
Theorem disabled_eval_stale_refuted : forall c, exists s ops s1 noise s2,
  wf s /\ Forall wf_op ops /\ run g c KMps s ops = Some s1 /\ step g c KMps s1 (SForward noise) = Some s2 /\
  training s1 = false /\ disabled s1 = true /\ ~ post_ok s1 (theta s2).
Proof.
  intro c.
  exists (mkS false false false 1 true [[1; 2]] [[1; 1]]),
         [SForward []; SUpdate None None None (Some true); SOptStep [[2; 1]]; SEval].
  eexists. exists []. eexists. split; [|split; [|split; [reflexivity|split; [reflexivity|split; [reflexivity|split; [reflexivity|]]]]]].
  - split; cbn [temp alpha]; [reflexivity|]. repeat constructor; try discriminate; cbv; discriminate.
  - repeat constructor; try discriminate; cbv; discriminate.
  - intros [_ [H _]]. specialize (H (or_introl eq_refl)).
    cbv [step set_theta theta sample sample_sm disabled gumbel hard training eval_argmax andb orb negb temp alpha map
         upd_flag upd_hard upd_temp argmax_onehots onehot_at_argmax] in H.
    apply (f_equal (fun l => hd [] l)) in H. cbn [hd] in H. pose proof (softmax_pos 1 [1; 2]) as P. rewrite H in P.
    inversion P as [|? ? _ P1]; subst. inversion P1 as [|? ? P0 _]; subst. cbv in P0. discriminate.
Qed.
End G.


(* ------------------------------------------------------------------ a concrete g: the premises are satisfiable *)
Definition gsur (x : Q) : Q := if Qle_bool x 0 then 1 / (1 - x) else 1 + x.

Lemma gsur_pos x : 0 < gsur x.
Proof.
  unfold gsur. destruct (Qle_bool x 0) eqn:E.
  - apply Qle_bool_iff in E. apply Qlt_shift_div_l; lra.
  - assert (0 < x); [|lra]. apply Qnot_le_lt. intro H. apply Qle_bool_iff in H. congruence.
Qed.

Lemma gsur_incr x y : x < y -> gsur x < gsur y.
Proof.
  intro H. unfold gsur. destruct (Qle_bool x 0) eqn:Ex; destruct (Qle_bool y 0) eqn:Ey.
  - apply Qle_bool_iff in Ex. apply Qle_bool_iff in Ey.
    apply Qlt_shift_div_l; [lra|]. setoid_replace (1 / (1 - x) * (1 - y)) with ((1 - y) / (1 - x)) by (field; lra).
    apply Qlt_shift_div_r; lra.
  - apply Qle_bool_iff in Ex.
    assert (0 < y) by (apply Qnot_le_lt; intro H0; apply Qle_bool_iff in H0; congruence).
    assert (1 / (1 - x) <= 1) by (apply Qle_shift_div_r; lra). lra.
  - apply Qle_bool_iff in Ey.
    assert (0 < x) by (apply Qnot_le_lt; intro H0; apply Qle_bool_iff in H0; congruence). lra.
  - lra.
Qed.
