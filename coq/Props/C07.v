(* C07 — Importing a model is behaviour-preserving and leaves the user model intact.
   Statements only (proofs: Proofs/Import.v, models: Model/Import.v, Model/Masks.v).
   Part 1 (algebra) quantifies over ALL rational weights, inputs, biases, BatchNorm coefficients, every per-channel
   factor r standing for rsqrt(var+eps), every kernel size K and channel count C.
   Part 2 (object graph) quantifies over ALL lists of modules, all configurations (method, autoconvert, fold_bn) and both
   modes; the flags c_copyfuse / c_setflag / c_restore / c_keepshared select the code as it is now (true) or the pinned commit (false):
   a theorem that does not constrain a flag holds for both. *)
From Coq Require Import QArith ZArith List Bool.
Import ListNotations.
Require Import Plinio.Base.Qx Plinio.Model.Masks Plinio.Model.Import Plinio.Proofs.Import.

(* --- the initial architectural parameters (all 1.0) open every mask, for every K and C *)
Theorem C07_open_time_mask : forall K, open_time_mask K = repeat true K.
Proof. exact open_time_mask_all. Qed.

Theorem C07_open_features_mask : forall C, open_features_mask C = repeat true C.
Proof. exact open_features_mask_all. Qed.

(* --- with those masks the PIT layer produced by the import (BatchNorm attached, or folded into weight and bias; bias
   masked or not) computes BatchNorm(plain layer) on every input *)
Theorem C07_open_masks_identity : forall K C c maskb fold w ob bn x,
  (c < C)%nat -> Forall (fun row => length row = K) w ->
  (pit_out maskb (open_time_mask K) (nth c (open_features_mask C) false) (import_layer fold w ob bn) x == obn bn (plain w ob x))%Q.
Proof. exact open_masks_identity. Qed.

(* --- folding as computed by remove_bn_inplace, for EVERY factor r, with and without a conv bias *)
Theorem C07_bn_fold_identity : forall p w ob x,
  (plain (fold_w p w) (Some (fold_b p ob)) x == bn_apply p (plain w ob x))%Q.
Proof. exact bn_fold_identity. Qed.

Theorem C07_bn_fold_identity_nobias : forall p w x,
  (plain (fold_w p w) (Some (fold_b p None)) x == bn_apply p (dot2 w x))%Q.
Proof. exact bn_fold_identity_nobias. Qed.

(* pinned commit: a layer folded by PIT(fold_bn=True) but run with its own flag (False) applies BatchNorm twice *)
Theorem C07_double_bn_refuted : exists maskb K C c w ob p x, (c < C)%nat /\ Forall (fun row => length row = K) w /\
  ~ (pit_out maskb (open_time_mask K) (nth c (open_features_mask C) false) (with_flag false (import_layer true w ob (Some p))) x
     == bn_apply p (plain w ob x))%Q.
Proof. exact double_bn_refuted. Qed.

(* --- an immediate export has the original sizes and the original weights *)
Theorem C07_export_open_is_original : forall K C cin d0 (W : list (list (list Q))) (B : list Q),
  length W = C -> length B = C ->
  Forall (fun ch => length ch = cin /\ Forall (fun row => length row = K) ch) W ->
  export_hp K d0 (ones C) (ones K) (ones (gamma_len K)) (repeat true cin) = (cin, C, K, d0)
  /\ export_w (open_features_mask C) (repeat true cin) (open_time_mask K) W = W
  /\ export_b (open_features_mask C) B = B.
Proof. exact export_open_is_original. Qed.

(* --- conversion keeps the mode it found (PIT and MPS): wrapper, seed, every object held by the seed; an object the seed
   shares with the caller's model (id <= length mods) keeps the caller's flag (c_keepshared) *)
Theorem C07_convert_keeps_mode : forall c mods rt st,
  c_method c <> SN -> convert c mods rt = Some st ->
  wrap_train st = rt /\ seed_train st = rt /\
  forall id, In id (reach (heap st) (seed st)) -> (id < length (heap st))%nat ->
    o_train (nth id (heap st) dobj) = if c_keepshared c && Nat.leb id (length mods) then found_flag mods rt id else rt.
Proof. exact convert_keeps_mode. Qed.

(* --- ... and the caller's own model object: each module (and the model, index = length mods) gets the flag it was found
   with (c_keepshared); before the last repair a module shared with the converted model followed the converted model *)
Theorem C07_convert_user_mode : forall c mods rt st,
  c_restore c = true -> convert c mods rt = Some st ->
  forall i, (i <= length mods)%nat ->
    o_train (nth i (heap st) dobj) =
      match c_method c with
      | SN => found_flag mods rt i
      | _ => if c_keepshared c then found_flag mods rt i
             else if memb i (reach (heap st) (seed st)) then rt else found_flag mods rt i
      end.
Proof. exact convert_user_mode. Qed.

(* the code as it is now: a model handed over with ANY mix of flags (frozen BatchNorm / Dropout ...) gets every flag back *)
Theorem C07_convert_keeps_user_flags : forall c mods rt st,
  c_restore c = true -> c_keepshared c = true -> convert c mods rt = Some st ->
  forall i, (i <= length mods)%nat -> o_train (nth i (heap st) dobj) = found_flag mods rt i.
Proof. exact convert_keeps_user_flags. Qed.

(* before the last repair (constructor tail recursing into shared modules): a module kept in eval() inside a training model flips *)
Theorem C07_convert_keeps_user_flags_refuted : exists m mods rt st i,
  convert (before_keepshared m true false) mods rt = Some st /\ (i < length mods)%nat /\
  o_train (nth i (heap st) dobj) <> found_flag mods rt i.
Proof. exact convert_keeps_user_flags_refuted. Qed.

Theorem C07_convert_keeps_user_mode : forall c mods rt st,
  c_restore c = true -> Forall (fun m => u_train m = rt) mods -> convert c mods rt = Some st ->
  forall i, (i <= length mods)%nat -> o_train (nth i (heap st) dobj) = found_flag mods rt i.
Proof. exact convert_keeps_user_mode. Qed.

Theorem C07_convert_keeps_user_mode_refuted : exists m mods rt st,
  Forall (fun u => u_train u = rt) mods /\ convert (pinned m true false) mods rt = Some st /\
  o_train (nth (length mods) (heap st) dobj) <> rt.
Proof. exact convert_keeps_user_mode_refuted. Qed.

(* --- conversion writes nothing but training flags into the caller's objects (all configurations, incl. autoconvert off
   with user-placed PIT layers followed by BatchNorm) *)
Theorem C07_convert_keeps_user_params : forall c mods rt st,
  c_copyfuse c = true -> convert c mods rt = Some st ->
  forall i, (i <= length mods)%nat -> pview (nth i (heap st) dobj) = pview (nth i (heap0 mods rt) dobj).
Proof. exact convert_keeps_user_params. Qed.

Theorem C07_convert_keeps_user_params_readable : forall c mods rt st d,
  c_copyfuse c = true -> convert c mods rt = Some st ->
  forall i, (i < length mods)%nat ->
    let o := nth i (heap st) dobj in
    o_ver o = 0%nat /\ o_bn o = None /\ o_fold o = u_fold (nth i mods d) /\ o_kind o = u_kind (nth i mods d).
Proof. exact convert_keeps_user_params_readable. Qed.

Theorem C07_convert_keeps_user_params_refuted : exists auto fold mods rt st i,
  convert (pinned PIT auto fold) mods rt = Some st /\ (i < length mods)%nat /\
  ((0 < o_ver (nth i (heap st) dobj))%nat /\ o_bn (nth i (heap st) dobj) <> None).
Proof. exact convert_keeps_user_params_refuted. Qed.

(* --- SuperNet: the seed consists of the caller's own objects, which keep everything but flags *)
Theorem C07_supernet_wrap_identity : forall c mods rt st,
  c_method c = SN -> convert c mods rt = Some st ->
  seed st = map Some (seq 0 (length mods)) /\
  forall i, (i <= length mods)%nat -> pview (nth i (heap st) dobj) = pview (nth i (heap0 mods rt) dobj).
Proof. exact supernet_wrap_identity. Qed.

(* --- a layer that holds a BatchNorm copy runs with the fold flag of the fusion (so C07_open_masks_identity applies) *)
Theorem C07_fused_layer_flag : forall c mods rt st,
  c_setflag c = true -> convert c mods rt = Some st ->
  forall id, o_bn (nth id (heap st) dobj) <> None -> o_fold (nth id (heap st) dobj) = c_fold c.
Proof. exact fused_layer_flag. Qed.

Theorem C07_fused_layer_flag_refuted : exists mods rt st id,
  convert (pinned PIT false true) mods rt = Some st /\ nth 0 (seed st) None = Some id /\
  o_bn (nth id (heap st) dobj) <> None /\ (0 < o_ver (nth id (heap st) dobj))%nat /\ o_fold (nth id (heap st) dobj) = false.
Proof. exact fused_layer_flag_refuted. Qed.

(* non-vacuity: a K=5 conv with BatchNorm (no conv bias), folded, evaluated on numbers; a conversion that succeeds with a
   user-placed PIT layer + BatchNorm, an auto-converted layer + BatchNorm, an excluded layer and a shared ReLU *)
Example C07_example_algebra :
  let p := {| bn_g := 3 # 2; bn_b := -1; bn_mu := 1 # 4; bn_r := 2 # 3 |} in
  let w := [[1; -2; 3; 0; 1 # 2]; [2; 2; -1; 1; 1]] in
  let x := [[1; 1; 2; 3; 5]; [-1; 0; 1; 0; 2]] in
  qpair (pit_out false (open_time_mask 5) (nth 2 (open_features_mask 4) false) (import_layer true w None (Some p)) x)
  = qpair (bn_apply p (plain w None x)) /\ qpair (bn_apply p (plain w None x)) = (21%Z, 4%Z) /\ open_time_mask 5 = repeat true 5.
Proof. vm_compute. repeat split. Qed.

Example C07_example_convert :
  let mods := [mk KPit false None 0 false true; mk KBn false (Some 0%nat) 1 false true; mk KOther false (Some 1%nat) 1 false true;
               mk KLayer false (Some 2%nat) 1 false true; mk KBn false (Some 3%nat) 1 false true; mk KLayer true (Some 4%nat) 1 false true] in
  run_convert (now PIT true true) mods true =
    Some (true, true, true, [(true, false, false, 1, true); (true, false, false, 2, false); (true, false, false, 0, false);
                             (true, false, false, 1, true); (true, false, false, 2, false); (true, false, false, 0, false)]%nat)
  /\ run_convert (now PIT true true) [mk KLayer false None 0 false false; mk KBn false (Some 0%nat) 2 false false] false = None.
Proof. vm_compute. repeat split. Qed.

Print Assumptions C07_open_time_mask.
Print Assumptions C07_open_features_mask.
Print Assumptions C07_open_masks_identity.
Print Assumptions C07_bn_fold_identity.
Print Assumptions C07_bn_fold_identity_nobias.
Print Assumptions C07_double_bn_refuted.
Print Assumptions C07_export_open_is_original.
Print Assumptions C07_convert_keeps_mode.
Print Assumptions C07_convert_user_mode.
Print Assumptions C07_convert_keeps_user_flags.
Print Assumptions C07_convert_keeps_user_flags_refuted.
Print Assumptions C07_convert_keeps_user_mode.
Print Assumptions C07_convert_keeps_user_mode_refuted.
Print Assumptions C07_convert_keeps_user_params.
Print Assumptions C07_convert_keeps_user_params_readable.
Print Assumptions C07_convert_keeps_user_params_refuted.
Print Assumptions C07_supernet_wrap_identity.
Print Assumptions C07_fused_layer_flag.
Print Assumptions C07_fused_layer_flag_refuted.
