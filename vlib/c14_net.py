"""C14 worker side: build a small network from a JSON spec, MPS -> export -> integerize_arch, run both nets,
and return every observable of every Conv2d/Linear layer as plain python data (ints / float reprs).

A spec:  {'seed', 'cin', 'hw':[H,W], 'wbits', 'abits', 'backend':'MATCH'|'MAUPITI', 'kwargs':{scale_bit, shift_pos},
          'layers':[{'kind':'conv','cout','k':[kh,kw],'stride':[..],'pad':[..],'dil':[..],'dw':bool,'bias':bool,'bn':bool}, ...],
          'head':{'pool':bool,'bias':bool,'out':n,'hidden':k|0,'hidden_bias':bool} | None (fully convolutional: the last conv is the output layer)}
"""
import copy, sys, traceback, random, math


def build(spec, torch, nn):
    g = torch.Generator().manual_seed(spec['seed'])

    def dead_channels(w, L):
        """output channels whose weights are all tiny but non-zero ('tiny': [[channel, magnitude], ...], magnitudes
        1e-10..1e-7) or exactly zero ('zero': [channel, ...]) next to the ordinary ones"""
        for ch, mag in (L.get('tiny') or []):
            w[ch % w.shape[0]] = torch.randn(w.shape[1:], generator=g) * mag
        for ch in (L.get('zero') or []):
            w[ch % w.shape[0]] = 0.0

    class Net(nn.Module):
        def __init__(self):
            super().__init__()
            self.order = []
            c = spec['cin']
            h, w = spec['hw']
            for i, L in enumerate(spec['layers']):
                cout = c if L['dw'] else L['cout']
                conv = nn.Conv2d(c, cout, tuple(L['k']), tuple(L['stride']), tuple(L['pad']), tuple(L['dil']),
                                 groups=c if L['dw'] else 1, bias=L['bias'])
                with torch.no_grad():
                    conv.weight.copy_((torch.rand(conv.weight.shape, generator=g) - 0.5) * 2 * L.get('wmag', 0.5))
                    if L['bias']:
                        conv.bias.copy_((torch.rand(cout, generator=g) - 0.5) * 2 * L.get('bmag', 0.5))
                    dead_channels(conv.weight, L)
                setattr(self, 'c%d' % i, conv)
                self.order.append('c%d' % i)
                if L['bn']:
                    bn = nn.BatchNorm2d(cout)
                    with torch.no_grad():
                        bn.weight.copy_(0.5 + torch.rand(cout, generator=g))
                        bn.bias.copy_(torch.rand(cout, generator=g) - 0.5)
                        bn.running_mean.copy_((torch.rand(cout, generator=g) - 0.5) * 0.4)
                        bn.running_var.copy_(0.5 + torch.rand(cout, generator=g))
                    setattr(self, 'bn%d' % i, bn)
                    self.order.append('bn%d' % i)
                last_conv_is_output = spec['head'] is None and i == len(spec['layers']) - 1
                if not last_conv_is_output:
                    setattr(self, 'r%d' % i, nn.ReLU())
                    self.order.append('r%d' % i)
                h = (h + 2 * L['pad'][0] - L['dil'][0] * (L['k'][0] - 1) - 1) // L['stride'][0] + 1
                w = (w + 2 * L['pad'][1] - L['dil'][1] * (L['k'][1] - 1) - 1) // L['stride'][1] + 1
                c = cout
            assert h >= 1 and w >= 1, (h, w)
            if spec['head'] is not None:
                H = spec['head']
                if H['pool']:
                    self.pool = nn.AdaptiveAvgPool2d(1)
                    self.order.append('pool')
                    feat = c
                else:
                    feat = c * h * w
                self.flat = nn.Flatten()
                self.order.append('flat')
                if H.get('hidden'):
                    fc0 = nn.Linear(feat, H['hidden'], bias=H.get('hidden_bias', True))
                    with torch.no_grad():
                        fc0.weight.copy_((torch.rand(fc0.weight.shape, generator=g) - 0.5) * 2 * 0.4)
                        if fc0.bias is not None:
                            fc0.bias.copy_((torch.rand(H['hidden'], generator=g) - 0.5) * 2 * H.get('bmag', 0.5))
                        dead_channels(fc0.weight, {'tiny': H.get('hidden_tiny'), 'zero': H.get('hidden_zero')})
                    self.fc0 = fc0
                    self.rfc0 = nn.ReLU()
                    self.order += ['fc0', 'rfc0']
                    feat = H['hidden']
                fc = nn.Linear(feat, H['out'], bias=H['bias'])
                with torch.no_grad():
                    fc.weight.copy_((torch.rand(fc.weight.shape, generator=g) - 0.5) * 2 * 0.4)
                    if H['bias']:
                        fc.bias.copy_((torch.rand(H['out'], generator=g) - 0.5) * 2 * H.get('bmag', 0.5))
                    dead_channels(fc.weight, H)
                self.fc = fc
                self.order.append('fc')

        def forward(self, x):
            for n in self.order:
                x = getattr(self, n)(x)
            return x
    return Net()


def fl(t):
    """tensor -> nested lists of python floats (exact float64 images of the stored values)"""
    return t.detach().double().cpu().tolist()


def _inner_frame(tb):
    """innermost traceback frame that lies in plinio"""
    fr = [f for f in traceback.extract_tb(tb) if '/plinio/' in f.filename]
    if not fr:
        return 'outside-plinio'
    f = fr[-1]
    return '%s:%s' % (f.filename.split('/plinio/')[-1], f.name)


def _prepare(spec):
    """build, MPS, export (+ optional weight change after the last forward); returns (error_out | None, state)"""
    import warnings
    warnings.filterwarnings('ignore')
    import torch, torch.nn as nn, torch.nn.functional as F
    torch.set_num_threads(1)
    from plinio.methods import MPS
    from plinio.methods.mps import get_default_qinfo
    from plinio.methods.mps.quant.quantizers import PACTAct, DummyQuantizer
    from plinio.methods.mps.quant.backends import Backend, integerize_arch
    out = {'spec': spec, 'status': 'ok', 'layers': []}
    rng = random.Random(spec['seed'] * 7919 + 13)
    torch.manual_seed(spec['seed'])
    H, W = spec['hw']
    x = torch.rand(2, spec['cin'], H, W)
    x[0, :, 0, 0] = 1.5     # above the input clip: top level
    x[0, :, -1, -1] = 0.0
    try:
        net = build(spec, torch, nn).eval()
        aprec = tuple(spec['amix']) if spec.get('amix') else (spec['abits'],)
        mps = MPS(net, input_shape=(spec['cin'], H, W), qinfo=get_default_qinfo((spec['wbits'],), aprec))
        if len(aprec) > 1:
            # mixed activation precisions: every activation selector gets its own (seeded) winner
            for n, prm in mps.named_parameters():
                if n.endswith('alpha') and prm.numel() > 1 and ('out_mps_quantizer' in n or 'in_mps_quantizer' in n):
                    k = rng.randrange(prm.numel())
                    with torch.no_grad():
                        prm.fill_(0.1)
                        prm[k] = 5.0
        # diversify the learned clip values (s_y, s_x): every PACT quantizer gets its own clip
        for n, m in mps.named_modules():
            if isinstance(m, PACTAct):
                with torch.no_grad():
                    if 'input_quantizer' in n:
                        m.clip_val.fill_(rng.choice([1.0, 1.0, 0.75, 1.25]))
                    else:
                        m.clip_val.fill_(math.exp(rng.uniform(math.log(spec.get('clip_lo', 0.4)), math.log(spec.get('clip_hi', 8.0)))))
        mps.eval()
        e = mps.export().eval()
    except Exception as ex:
        out['status'] = 'EXC-export:%s' % type(ex).__name__
        out['where'] = _inner_frame(sys.exc_info()[2])
        out['msg'] = str(ex)[:300]
        return out, None
    if spec.get('stale'):
        # the exported model is run once (its weight quantizers record the per-channel min/max of THESE weights), then
        # its weights change (checkpoint load / last optimizer step) and it is integerized without another forward
        with torch.no_grad():
            e(x)
            sd = {k: v.clone() for k, v in e.state_dict().items()}
            for n in [n for n in net.order if n.startswith('c') or n in ('fc', 'fc0')]:
                w = sd[n + '.weight']
                fac = torch.tensor([rng.choice([0.35, 0.6, 1.7, 2.6]) * rng.uniform(0.9, 1.1) for _ in range(w.shape[0])]).view(-1, *([1] * (w.dim() - 1)))
                w2 = w * fac + 0.02 * (torch.rand(w.shape) - 0.5)
                if spec['stale'] == 'inplace':
                    e.get_submodule(n).weight.copy_(w2)
                    if e.get_submodule(n).bias is not None:
                        e.get_submodule(n).bias.mul_(rng.choice([0.5, 1.0, 1.5]))
                else:
                    sd[n + '.weight'] = w2
                    if n + '.bias' in sd:
                        sd[n + '.bias'] = sd[n + '.bias'] * rng.choice([0.5, 1.0, 1.5])
            if spec['stale'] != 'inplace':
                e.load_state_dict(sd)
    return None, (net, e, x, rng)


_PRIOR = []      # (backend, kwargs) of every integerize_arch call made earlier in this process


def warm(prior):
    """re-create the process history of a replayed case: the same integerize_arch calls on a tiny network"""
    spec = {'seed': 1, 'cin': 1, 'hw': [4, 4], 'wbits': 8, 'abits': 8, 'kwargs': {},
            'layers': [dict(kind='conv', cout=2, k=[1, 1], stride=[1, 1], pad=[0, 0], dil=[1, 1], dw=False, bias=True, bn=False)],
            'head': {'pool': True, 'bias': True, 'out': 2}}
    for be, kw in prior:
        run_net(dict(spec, backend=be, kwargs=kw, maxpos=1))


def run_net(spec):
    """returns {'status': 'ok'|'EXC:..', 'layers': [...], ...}; with spec['seq'] (list of backend_kwargs) the exported
    model is integerized once per entry, in this order, in this process: {'status': 'seq', 'seq_results': [...]}"""
    err, st = _prepare(spec)
    if err is not None:
        err['prior_calls'] = list(_PRIOR)
        return err
    if spec.get('seq') is not None:
        res = []
        for i, kw in enumerate(spec['seq']):
            s2 = dict(spec, kwargs=kw, seq_index=i)
            res.append(_observe(s2, st))
        return {'spec': spec, 'status': 'seq', 'seq_results': res}
    return _observe(spec, st)


def _observe(spec, st):
    import warnings
    warnings.filterwarnings('ignore')
    import torch, torch.nn as nn, torch.nn.functional as F
    from plinio.methods.mps.quant.quantizers import PACTAct, DummyQuantizer
    from plinio.methods.mps.quant.backends import Backend, integerize_arch
    net, e, x, rng = st
    H, W = spec['hw']
    out = {'spec': spec, 'status': 'ok', 'layers': [], 'prior_calls': list(_PRIOR)[-40:]}
    _PRIOR.append((spec['backend'], dict(spec.get('kwargs') or {})))
    be = Backend.MATCH if spec['backend'] == 'MATCH' else Backend.MAUPITI
    try:
        ie = integerize_arch(copy.deepcopy(e), be, dict(spec.get('kwargs') or {})).eval()
    except Exception as ex:
        out['status'] = 'EXC:%s' % type(ex).__name__
        out['where'] = _inner_frame(sys.exc_info()[2])
        out['msg'] = str(ex)[:300]
        return out
    names = [n for n in net.order if n.startswith('c') or n in ('fc', 'fc0')]
    iq = {}
    hooks = [ie.get_submodule(n).register_forward_hook(lambda mod, i, o, n=n: iq.__setitem__(n, (i[0].detach().clone(), o.detach().clone()))) for n in names]
    inq = copy.deepcopy(e.x_input_quantizer.out_quantizer)
    inq.dequantize = False
    p_in0 = int(inq.precision)
    with torch.no_grad():
        xin = x if spec['backend'] == 'MATCH' else inq(x) - 2 ** (p_in0 - 1)
        try:
            y_int = ie(xin)
            y_fq_net = e(x)
        except Exception as ex:
            out['status'] = 'EXC-forward:%s' % type(ex).__name__
            out['where'] = _inner_frame(sys.exc_info()[2])
            out['msg'] = str(ex)[:300]
            return out
    out['y_int'] = fl(y_int)
    out['y_fq_net'] = fl(y_fq_net)
    maxpos = spec.get('maxpos', 24)
    with torch.no_grad():
        for n in names:
            Lf = e.get_submodule(n)
            Li = ie.get_submodule(n)
            is_conv = isinstance(Lf, nn.Conv2d)
            last = isinstance(Lf.out_quantizer, DummyQuantizer)
            p_in = int(Lf.in_quantizer.precision)
            p_out = None if last else int(Lf.out_quantizer.precision)
            z_in = 2 ** (p_in - 1) if spec['backend'] == 'MAUPITI' else 0
            z_out = 0 if (last or spec['backend'] == 'MATCH') else 2 ** (p_out - 1)
            Xi, Yi = iq[n]
            Xu = Xi + z_in                                   # unsigned integer image of the layer's input
            # --- the fake-quantized counterpart on the same input
            wq = copy.deepcopy(Lf.w_quantizer)
            wq.dequantize = False
            Wq = wq(Lf.weight)
            s_w = wq.scale.clone()
            s_x = Lf.in_quantizer.scale.clone()
            if Lf.bias is not None:
                bq = copy.deepcopy(Lf.b_quantizer)
                bq.dequantize = False
                Bq = bq(Lf.bias, s_x, s_w).clone()
            else:
                Bq = torch.zeros(Wq.shape[0])
            s_y = torch.tensor(1.0) if last else Lf.out_quantizer.scale.clone()
            Yf = Lf(s_x * Xu)                                 # float32 fake-quantized output
            if is_conv:
                geo = dict(stride=Lf.stride, padding=Lf.padding, dilation=Lf.dilation, groups=Lf.groups)
                acc = F.conv2d(Xu.double(), Wq.double(), None, **geo)
                acc_abs = F.conv2d(Xu.double().abs(), Wq.double().abs(), None, **geo)
                nterms = Wq[0].numel()
            else:
                acc = F.linear(Xu.double(), Wq.double())
                acc_abs = F.linear(Xu.double().abs(), Wq.double().abs())
                nterms = Wq.shape[1]
            rec = {'name': n, 'conv': is_conv, 'last': last, 'p_in': p_in, 'p_out': p_out, 'wbits': int(Lf.w_quantizer.precision),
                   'bias': Lf.bias is not None, 'nterms': nterms, 'cout': Wq.shape[0],
                   'dw': bool(is_conv and Lf.groups > 1),
                   'geo': ({'k': list(Lf.kernel_size), 'stride': list(Lf.stride), 'pad': list(Lf.padding), 'dil': list(Lf.dilation), 'groups': Lf.groups} if is_conv else None),
                   'shape_int': list(Yi.shape), 'shape_fq': list(Yf.shape), 'shape_acc': list(acc.shape)}
            # stored tensors of the integer layer
            rec['W_int'] = fl(Li.weight)
            rec['Wq'] = fl(Wq)
            rec['int_dilation'] = list(Li.dilation) if is_conv else None
            rec['int_kernel_size'] = list(Li.kernel_size) if is_conv else None
            rec['scale'] = fl(Li.scale.flatten())
            rec['shift'] = fl(Li.shift.flatten())
            ab = getattr(Li, 'add_bias', None)
            rec['add_bias'] = None if ab is None else fl(ab.flatten())
            rec['int_conv_bias'] = fl(Li.bias) if (is_conv and last and Li.bias is not None) else None
            rec['zero_point'] = fl(Li._zero_point.flatten()) if hasattr(Li, '_zero_point') else None
            rec['s_w'] = fl(Li.s_w.flatten())
            rec['s_x'] = fl(Li.s_x.flatten())
            rec['s_y'] = fl(Li.s_y.flatten())
            rec['fq_s_w'] = fl(s_w.flatten())
            rec['fq_s_x'] = fl(s_x.flatten())
            rec['fq_s_y'] = fl(s_y.flatten())
            rec['clip'] = None if last else fl(Lf.out_quantizer.clip_val.flatten())[0]
            rec['B'] = fl(Bq)
            rec['target'] = fl((s_w * s_x / s_y).flatten())              # s_w*s_x/s_y of the CURRENT weights (same float32 arithmetic as the layer)
            rec['target_layer'] = fl((Li.s_w * Li.s_x / Li.s_y).flatten())   # what the layer says it approximated
            rec['pad_value'] = (float(Li.pad.value) if hasattr(Li, 'pad') and hasattr(Li.pad, 'value') else None)
            rec['pad_pad'] = (list(Li.pad.padding) if hasattr(Li, 'pad') else None)
            rec['sumW'] = fl(Wq.double().flatten(1).sum(1))
            rec['in_min'] = float(Xu.min())
            rec['in_max'] = float(Xu.max())
            rec['in_integer'] = bool((Xu == Xu.round()).all())
            rec['out_integer'] = bool((Yi == Yi.round()).all())
            rec['out_min'] = float(Yi.min())
            rec['out_max'] = float(Yi.max())
            kw = spec.get('kwargs') or {}
            rec['scale_bit'] = kw.get('scale_bit', 24) if spec['backend'] == 'MATCH' else 16      # declared for THIS call
            rec['shift_pos'] = kw.get('shift_pos', 24) if spec['backend'] == 'MATCH' else 32
            rec['attr_scale_bit'] = getattr(Li, 'scale_bit', 16)
            rec['attr_shift_pos'] = getattr(Li, 'shift_pos', 32)
            if list(Yi.shape) != list(Yf.shape) or list(acc.shape) != list(Yi.shape):
                rec['shape_mismatch'] = True
                out['layers'].append(rec)
                continue
            # sample positions per channel
            C = Wq.shape[0]
            A = acc.transpose(0, 1).reshape(C, -1)
            AA = acc_abs.transpose(0, 1).reshape(C, -1)
            YI = Yi.double().transpose(0, 1).reshape(C, -1)
            YF = Yf.double().transpose(0, 1).reshape(C, -1)
            npos = A.shape[1]
            chans = list(range(C)) if C <= 6 else sorted({0, 1, 2} | set(rng.sample(range(3, C), 3)))
            rec['chans'] = chans
            rec['samples'] = []
            for c in chans:
                if npos <= maxpos:
                    pos = list(range(npos))
                else:
                    # extremes of the accumulator (saturation on both sides) + random positions
                    srt = torch.argsort(A[c]).tolist()
                    pos = sorted(set(srt[:3] + srt[-3:] + rng.sample(range(npos), max(0, min(npos, maxpos - 6)))))
                rec['samples'].append({'c': c, 'pos': pos, 'acc': [A[c, j].item() for j in pos], 'acc_abs': [AA[c, j].item() for j in pos],
                                       'y_int': [YI[c, j].item() for j in pos], 'y_fq': [YF[c, j].item() for j in pos]})
            # whole-tensor oracle quantities (cheap, vectorised): distance of the integer output to the counterpart's code
            if not last:
                code_f = torch.round(Yf.double() / s_y.double())
                rec['max_dist'] = float((Yi.double() + z_out - code_f).abs().max())
            out['layers'].append(rec)
    for h in hooks:
        h.remove()
    return out


def run_approx_direct(case):
    """call MATCHConv2d._integer_approximation / MAUPITILinear._integer_approximation directly (float64 bias: exact products)"""
    import warnings
    warnings.filterwarnings('ignore')
    import torch, types
    torch.set_num_threads(1)
    from plinio.methods.mps.quant.backends.match.nn.conv2d import MATCHConv2d
    from plinio.methods.mps.quant.backends.match.nn.linear import MATCHLinear
    from plinio.methods.mps.quant.backends.maupiti.nn.conv2d import MAUPITIConv2d
    from plinio.methods.mps.quant.backends.maupiti.nn.linear import MAUPITILinear
    cls = {'MATCHConv2d': MATCHConv2d, 'MATCHLinear': MATCHLinear, 'MAUPITIConv2d': MAUPITIConv2d, 'MAUPITILinear': MAUPITILinear}[case['cls']]
    obj = types.SimpleNamespace(scale_bit=case['scale_bit'], shift_pos=case['shift_pos'])
    t = torch.tensor(case['targets'], dtype=torch.float64)
    b = torch.tensor(case['bias'], dtype=torch.float64)
    try:
        sc, sh = cls._integer_approximation(obj, t, torch.tensor(1.0, dtype=torch.float64), torch.tensor(1.0, dtype=torch.float64), b)
        return {'status': 'ok', 'scale': [int(v) for v in sc.tolist()], 'shift': int(sh.item())}
    except Exception as ex:
        return {'status': 'EXC:%s' % type(ex).__name__, 'msg': str(ex)[:200]}


def run_bs_direct(case):
    from plinio.methods.mps.quant.backends.utils import binary_search
    return binary_search(2.0 ** -case['sh'], case['lo'], case['hi'], case['x'])
