(* Proofs about Model/Calc.v (C09: input-features annotation). *)
From Coq Require Import List Bool Arith Lia.
Import ListNotations.
Require Import Plinio.Model.Calc.

(* ================================================================ generic list facts *)
Lemma nth_firstn_lt {A} : forall (l : list A) i n d, i < n -> nth i (firstn n l) d = nth i l d.
Proof.
  induction l as [|a l IH]; intros i n d H.
  - rewrite firstn_nil. reflexivity.
  - destruct n; [lia|]. destruct i; simpl; [reflexivity|]. apply IH. lia.
Qed.

Lemma flat_map_ext_in' {A B} (f g : A -> list B) l :
  (forall a, In a l -> f a = g a) -> flat_map f l = flat_map g l.
Proof.
  induction l as [|a l IH]; intros H; simpl; [reflexivity|].
  rewrite (H a (or_introl eq_refl)), IH; [reflexivity|]. intros; apply H; right; assumption.
Qed.

Lemma hd_indep {A} (l : list A) x d1 d2 : In x l -> hd d1 l = hd d2 l.
Proof. destruct l; simpl; [tauto|reflexivity]. Qed.

(* ================================================================ (0) build *)
Section Build.
Context {A : Type} (f : list A -> node -> A).

Lemma build_snoc nt nd : build f (nt ++ [nd]) = build f nt ++ [f (build f nt) nd].
Proof. unfold build. rewrite fold_left_app. reflexivity. Qed.

Lemma build_length nt : length (build f nt) = length nt.
Proof.
  induction nt as [|x nt IH] using rev_ind; [reflexivity|].
  rewrite build_snoc, !app_length, IH. reflexivity.
Qed.

Lemma build_app_firstn nt l : firstn (length nt) (build f (nt ++ l)) = build f nt.
Proof.
  induction l as [|x l IH] using rev_ind.
  - rewrite app_nil_r. rewrite <- (build_length nt). apply firstn_all.
  - rewrite app_assoc, build_snoc, firstn_app, build_length, app_length.
    replace (length nt - (length nt + length l)) with 0 by lia.
    simpl. rewrite app_nil_r. exact IH.
Qed.

Lemma build_prefix nt l i d : i < length nt -> nth i (build f (nt ++ l)) d = nth i (build f nt) d.
Proof.
  intro H. rewrite <- (build_app_firstn nt l). symmetry. apply nth_firstn_lt. exact H.
Qed.

Lemma build_firstn nt i : i <= length nt -> build f (firstn i nt) = firstn i (build f nt).
Proof.
  intro H. rewrite <- (firstn_skipn i nt) at 2.
  rewrite <- (build_app_firstn (firstn i nt) (skipn i nt)).
  rewrite firstn_length_le by exact H. reflexivity.
Qed.

Lemma build_firstn_length nt i : i <= length nt -> length (build f (firstn i nt)) = i.
Proof. intro H. rewrite build_length. apply firstn_length_le. exact H. Qed.

Lemma firstn_build_length nt i : i <= length nt -> length (firstn i (build f nt)) = i.
Proof. intro H. apply firstn_length_le. rewrite build_length. exact H. Qed.

Lemma nth_build_mid l1 x l2 d : nth (length l1) (build f (l1 ++ x :: l2)) d = f (build f l1) x.
Proof.
  replace (l1 ++ x :: l2) with ((l1 ++ [x]) ++ l2) by (rewrite <- app_assoc; reflexivity).
  rewrite build_prefix by (rewrite app_length; simpl; lia).
  rewrite build_snoc, app_nth2 by (rewrite build_length; lia).
  rewrite build_length, Nat.sub_diag. reflexivity.
Qed.

Lemma nth_build nt i d d0 : i < length nt ->
  nth i (build f nt) d = f (firstn i (build f nt)) (nth i nt d0).
Proof.
  intro H. destruct (nth_split nt d0 H) as (l1 & l2 & E & Hl).
  remember (nth i nt d0) as x eqn:Ex. clear Ex. subst i nt.
  rewrite build_app_firstn, nth_build_mid. reflexivity.
Qed.

Lemma nth_build_firstn nt i d d0 : i < length nt ->
  nth i (build f nt) d = f (build f (firstn i nt)) (nth i nt d0).
Proof. intro H. rewrite build_firstn by lia. apply nth_build. exact H. Qed.

End Build.

(* ================================================================ (0) well-formedness per node *)
Lemma wf_from_nodes : forall l2 l1 d, wf_from (widths l1) l2 = true ->
  forall i, i < length l2 -> wf_step (widths (l1 ++ firstn i l2)) (nth i l2 d) = true.
Proof.
  induction l2 as [|nd r IH]; intros l1 d H i Hi; simpl in Hi; [lia|].
  simpl in H. apply andb_true_iff in H as [H1 H2].
  destruct i.
  - simpl. rewrite app_nil_r. exact H1.
  - simpl. unfold widths in H2. rewrite <- build_snoc in H2.
    specialize (IH (l1 ++ [nd]) d H2 i ltac:(lia)). rewrite <- app_assoc in IH. exact IH.
Qed.

Lemma wf_node_prefix nt i : wf nt = true -> i < length nt ->
  wf_step (widths (firstn i nt)) (nth i nt (NIn 0)) = true.
Proof. intros H Hi. exact (wf_from_nodes nt [] (NIn 0) H i Hi). Qed.

Lemma wf_node nt i : wf nt = true -> i < length nt ->
  wf_step (firstn i (widths nt)) (node_at nt i) = true.
Proof.
  intros H Hi. unfold widths. rewrite <- build_firstn by lia. apply wf_node_prefix; assumption.
Qed.

Lemma wf_srcs nt i : wf nt = true -> i < length nt ->
  forall j, In j (srcs_of (node_at nt i)) -> j < i.
Proof.
  intros H Hi j Hj. pose proof (wf_node nt i H Hi) as W. unfold wf_step in W.
  apply andb_true_iff in W as [W _]. rewrite forallb_forall in W.
  apply W in Hj. apply Nat.ltb_lt in Hj. unfold widths in Hj.
  rewrite firstn_build_length in Hj by lia. exact Hj.
Qed.

Lemma wf_dw nt i s co sr : wf nt = true -> i < length nt -> node_at nt i = NLayer s co Dw sr ->
  co = nth s (widths nt) 0.
Proof.
  intros H Hi E. pose proof (wf_node nt i H Hi) as W.
  pose proof (wf_srcs nt i H Hi s) as Hs. rewrite E in W, Hs. unfold wf_step in W.
  apply andb_true_iff in W as [_ W]. apply Nat.eqb_eq in W.
  rewrite nth_firstn_lt in W by (apply Hs; simpl; auto). exact W.
Qed.

(* ================================================================ small facts on masks *)
Lemma lbeq_eq : forall x y, lbeq x y = true -> x = y.
Proof.
  induction x as [|a x IH]; destruct y as [|b y]; simpl; intro H; try discriminate; [reflexivity|].
  apply andb_true_iff in H as [H1 H2]. apply eqb_prop in H1. rewrite H1, (IH y H2). reflexivity.
Qed.

Lemma map2_andb_diag x : map2 andb x x = x.
Proof. induction x as [|a x IH]; simpl; [reflexivity|]. rewrite IH, andb_diag. reflexivity. Qed.

Lemma map2_orb_diag x : map2 orb x x = x.
Proof. induction x as [|a x IH]; simpl; [reflexivity|]. rewrite IH, orb_diag. reflexivity. Qed.

Lemma cmask_cat ms cs : cmask ms (CCat cs) = flat_map (cmask ms) cs.
Proof. induction cs as [|c cs IH]; simpl; [reflexivity|]. f_equal; try exact IH. Qed.

Lemma count_app a b : count (a ++ b) = count a + count b.
Proof. unfold count. rewrite filter_app, app_length. reflexivity. Qed.

Lemma count_repeat_true n : count (repeat true n) = n.
Proof. induction n as [|n IH]; [reflexivity|]. unfold count in *. simpl. rewrite IH. reflexivity. Qed.

Lemma count_repeat_false n : count (repeat false n) = 0.
Proof. induction n as [|n IH]; [reflexivity|]. unfold count in *. simpl. exact IH. Qed.

Lemma count_expand m l : count (expand m l) = m * count l.
Proof.
  induction l as [|b l IH]; [unfold expand, count; simpl; lia|].
  unfold expand in *. simpl flat_map. rewrite count_app, IH.
  destruct b.
  - rewrite count_repeat_true. unfold count. simpl. lia.
  - rewrite count_repeat_false. unfold count. simpl. lia.
Qed.

Lemma count_flat_map {A} (g : A -> list bool) l :
  count (flat_map g l) = list_sum (map (fun x => count (g x)) l).
Proof. induction l as [|a l IH]; [reflexivity|]. simpl. rewrite count_app, IH. reflexivity. Qed.

(* ================================================================ per-node unfolding *)
Lemma sound_at nt ms i : sound_b nt ms = true -> i < length nt ->
  match node_at nt i with
  | NLayer s _ Dw true => lbeq (ms i) (nth s (alive nt ms) [])
  | NLayer s _ _ false => lbeq (nth s (alive nt ms) []) (repeat true (nth s (widths nt) 0))
  | NBn s false => lbeq (nth s (alive nt ms) []) (repeat true (nth s (widths nt) 0))
  | NJoin a b _ => lbeq (nth a (alive nt ms) []) (nth b (alive nt ms) [])
  | _ => true
  end = true.
Proof.
  intros H Hi. unfold sound_b in H. rewrite forallb_forall in H.
  apply (H i). apply in_seq. lia.
Qed.

Lemma alive_nth nt ms i : i < length nt ->
  nth i (alive nt ms) [] = alive_step ms (firstn i (alive nt ms)) (node_at nt i).
Proof. intro H. apply nth_build. exact H. Qed.

Lemma calcs_nth fixd nt i : i < length nt ->
  nth i (calcs fixd nt) (CConst 0 0) = calc_step fixd (firstn i (calcs fixd nt)) (node_at nt i).
Proof. intro H. apply nth_build. exact H. Qed.

Lemma setters_nth nt i : i < length nt ->
  nth i (setters nt) 0 = setter_step (firstn i (setters nt)) (node_at nt i).
Proof. intro H. apply nth_build. exact H. Qed.

Lemma widths_nth nt i : i < length nt ->
  nth i (widths nt) 0 = width_step (firstn i (widths nt)) (node_at nt i).
Proof. intro H. apply nth_build. exact H. Qed.

Lemma xwidths_nth nt ms i : i < length nt ->
  nth i (xwidths nt ms) 0 = xwidth_step ms (firstn i (xwidths nt ms)) (node_at nt i).
Proof. intro H. apply nth_build. exact H. Qed.

(* ================================================================ (1) ideal soundness *)
Section Sound.
Context (nt : net) (ms : nat -> list bool).
Context (Hwf : wf nt = true) (Hsound : sound_b nt ms = true).

Let al j := nth j (alive nt ms) [].
Let ca j := nth j (calcs true nt) (CConst 0 0).

Lemma calc_own : forall j, j < length nt -> cmask ms (ca j) = al j.
Proof.
  intro j. induction j as [j IH] using lt_wf_ind. intro Hj.
  pose proof (wf_srcs nt j Hwf Hj) as Hs.
  pose proof (sound_at nt ms j Hsound Hj) as Hsd.
  unfold ca, al. rewrite calcs_nth, alive_nth by exact Hj.
  unfold calc_step, alive_step. unfold calcs, alive.
  rewrite !firstn_build_length by lia. fold (calcs true nt) (alive nt ms).
  destruct (node_at nt j) as [c|s co k sr|s sr|s t|s m t|a b t|l] eqn:E; simpl in Hs.
  - reflexivity.
  - assert (Hsj : s < j) by (apply Hs; auto).
    destruct k, sr; simpl.
    + reflexivity.
    + reflexivity.
    + rewrite nth_firstn_lt by exact Hsj. apply lbeq_eq in Hsd. rewrite Hsd.
      rewrite map2_andb_diag. reflexivity.
    + rewrite !nth_firstn_lt by exact Hsj. apply IH; lia.
  - assert (Hsj : s < j) by (apply Hs; auto).
    rewrite !nth_firstn_lt by exact Hsj. apply IH; lia.
  - assert (Hsj : s < j) by (apply Hs; auto).
    rewrite !nth_firstn_lt by exact Hsj. apply IH; lia.
  - assert (Hsj : s < j) by (apply Hs; auto).
    rewrite !nth_firstn_lt by exact Hsj. simpl. f_equal. apply IH; lia.
  - assert (Haj : a < j) by (apply Hs; auto).
    assert (Hbj : b < j) by (apply Hs; auto).
    rewrite !nth_firstn_lt by assumption. apply lbeq_eq in Hsd. rewrite <- Hsd.
    rewrite map2_orb_diag. apply IH; lia.
  - rewrite cmask_cat, flat_map_concat_map, map_map, <- flat_map_concat_map.
    apply flat_map_ext_in'. intros x Hx. specialize (Hs x Hx).
    rewrite !nth_firstn_lt by exact Hs. apply IH; lia.
Qed.

Lemma alive_setter : forall j, j < length nt ->
  nth j (setters nt) 0 < length nt /\ al (nth j (setters nt) 0) = al j.
Proof.
  intro j. induction j as [j IH] using lt_wf_ind. intro Hj.
  pose proof (wf_srcs nt j Hwf Hj) as Hs.
  pose proof (sound_at nt ms j Hsound Hj) as Hsd.
  rewrite setters_nth by exact Hj. unfold setter_step, setters.
  rewrite !firstn_build_length by lia. fold (setters nt).
  assert (Hal := alive_nth nt ms j Hj). unfold alive_step, alive in Hal.
  rewrite ?firstn_build_length in Hal by lia. fold (alive nt ms) in Hal.
  destruct (node_at nt j) as [c|s co k sr|s sr|s t|s m t|a b t|l] eqn:E; simpl in Hs |- *.
  - auto.
  - destruct k; [auto|].
    assert (Hsj : s < j) by (apply Hs; auto).
    rewrite nth_firstn_lt by exact Hsj. destruct (IH s Hsj ltac:(lia)) as [I1 I2].
    split; [exact I1|]. rewrite I2. unfold al at 2. rewrite Hal.
    rewrite nth_firstn_lt by exact Hsj. destruct sr; [|reflexivity].
    apply lbeq_eq in Hsd. rewrite Hsd. rewrite map2_andb_diag. reflexivity.
  - assert (Hsj : s < j) by (apply Hs; auto).
    rewrite nth_firstn_lt by exact Hsj. destruct (IH s Hsj ltac:(lia)) as [I1 I2].
    split; [exact I1|]. rewrite I2. unfold al at 2. rewrite Hal.
    rewrite nth_firstn_lt by exact Hsj. reflexivity.
  - assert (Hsj : s < j) by (apply Hs; auto).
    rewrite nth_firstn_lt by exact Hsj. destruct (IH s Hsj ltac:(lia)) as [I1 I2].
    split; [exact I1|]. rewrite I2. unfold al at 2. rewrite Hal.
    rewrite nth_firstn_lt by exact Hsj. reflexivity.
  - auto.
  - assert (Haj : a < j) by (apply Hs; auto).
    assert (Hbj : b < j) by (apply Hs; auto).
    rewrite nth_firstn_lt by exact Haj. destruct (IH a Haj ltac:(lia)) as [I1 I2].
    split; [exact I1|]. rewrite I2. unfold al at 2. rewrite Hal.
    rewrite !nth_firstn_lt by assumption. apply lbeq_eq in Hsd. rewrite <- Hsd.
    rewrite map2_orb_diag. reflexivity.
  - auto.
Qed.

Theorem calc_ideal_sound_sec : forall i, i < length nt ->
  cmask ms (nth (nth i (setters nt) 0) (calcs true nt) (CConst 0 0)) = nth i (alive nt ms) [].
Proof.
  intros i Hi. destruct (alive_setter i Hi) as [H1 H2].
  fold (ca (nth i (setters nt) 0)). rewrite calc_own by exact H1. exact H2.
Qed.

End Sound.

Theorem calc_ideal_sound : forall nt ms, wf nt = true -> sound_b nt ms = true ->
  forall i, i < length nt ->
    cmask ms (nth (nth i (setters nt) 0) (calcs true nt) (CConst 0 0)) = nth i (alive nt ms) [].
Proof. intros nt ms H1 H2. exact (calc_ideal_sound_sec nt ms H1 H2). Qed.

(* ================================================================ (2) coherent registration *)
Fixpoint calc_ind2 (P : calc -> Prop)
  (Hc : forall id c, P (CConst id c)) (Hm : forall i, P (CMod i))
  (Hf : forall id p m, P p -> P (CFlat id p m))
  (Hcat : forall cs, Forall P cs -> P (CCat cs)) (c : calc) : P c :=
  match c with
  | CConst id n => Hc id n
  | CMod i => Hm i
  | CFlat id p m => Hf id p m (calc_ind2 P Hc Hm Hf Hcat p)
  | CCat cs => Hcat cs ((fix go (l : list calc) : Forall P l :=
                           match l with
                           | [] => Forall_nil P
                           | x :: r => Forall_cons x (calc_ind2 P Hc Hm Hf Hcat x) (go r)
                           end) cs)
  end.

Lemma smask_cat st ms cs : smask st ms (CCat cs) = flat_map (smask st ms) cs.
Proof. induction cs as [|c cs IH]; simpl; [reflexivity|]. f_equal; try exact IH. Qed.

Lemma sfeat_cat st ms cs : sfeat st ms (CCat cs) = list_sum (map (sfeat st ms) cs).
Proof. induction cs as [|c cs IH]; simpl; [reflexivity|]. f_equal; try exact IH. Qed.

Lemma coherent_cat st cs : coherent_b st (CCat cs) = forallb (coherent_b st) cs.
Proof. induction cs as [|c cs IH]; simpl; [reflexivity|]. f_equal; try exact IH. Qed.

Lemma coherent_eval : forall st ms c, coherent_b st c = true ->
  smask st ms c = cmask ms c /\ sfeat st ms c = count (cmask ms c).
Proof.
  intros st ms c. induction c as [id n|i|id p m IH|cs IH] using calc_ind2; intro H.
  - simpl in *. destruct (rd id st) as [v|]; [|discriminate].
    apply Nat.eqb_eq in H. subst v. rewrite count_repeat_true. auto.
  - simpl. auto.
  - simpl in *. apply andb_true_iff in H as [H1 H2].
    destruct (rd id st) as [v|]; [|discriminate].
    apply Nat.eqb_eq in H1. subst v. destruct (IH H2) as [I1 I2].
    rewrite I1, I2, count_expand. auto.
  - rewrite coherent_cat in H. rewrite smask_cat, sfeat_cat, cmask_cat.
    induction IH as [|c cs Hc Hcs IH2]; [simpl; auto|].
    simpl in H. apply andb_true_iff in H as [H1 H2].
    destruct (Hc H1) as [I1 I2]. destruct (IH2 H2) as [J1 J2].
    simpl. rewrite I1, I2, J1, J2, count_app. auto.
Qed.

(* ================================================================ (3) calculators through the buffers *)
Lemma consumer_src nt i : consumer nt i = true ->
  In (src1 (node_at nt i)) (srcs_of (node_at nt i)).
Proof.
  unfold consumer. destruct (node_at nt i) as [c|s co k sr|s sr|s t|s m t|a b t|l];
    try discriminate; simpl; auto.
Qed.

Lemma names_ok_at fixd nt i : names_ok fixd nt = true -> i < length nt -> consumer nt i = true ->
  coherent_b (register_all fixd nt) (input_calc fixd nt i) = true.
Proof.
  intros H Hi Hc. unfold names_ok in H. rewrite forallb_forall in H.
  specialize (H i ltac:(apply in_seq; lia)). rewrite Hc in H. exact H.
Qed.

Theorem calc_sound : forall nt ms, wf nt = true -> sound_b nt ms = true -> names_ok true nt = true ->
  forall i, i < length nt -> consumer nt i = true ->
    smask (register_all true nt) ms (input_calc true nt i) = nth (src1 (node_at nt i)) (alive nt ms) [] /\
    sfeat (register_all true nt) ms (input_calc true nt i) = count (nth (src1 (node_at nt i)) (alive nt ms) []).
Proof.
  intros nt ms Hwf Hs Hn i Hi Hc.
  pose proof (wf_srcs nt i Hwf Hi _ (consumer_src nt i Hc)) as Hlt.
  pose proof (calc_ideal_sound nt ms Hwf Hs (src1 (node_at nt i)) ltac:(lia)) as Hid.
  fold (input_calc true nt i) in Hid.
  destruct (coherent_eval _ ms _ (names_ok_at true nt i Hn Hi Hc)) as [E1 E2].
  rewrite E1, E2, Hid. auto.
Qed.

Corollary in_features_export : forall nt ms, wf nt = true -> sound_b nt ms = true -> names_ok true nt = true ->
  forall i, i < length nt -> consumer nt i = true ->
    export_in true nt ms i = count (nth (src1 (node_at nt i)) (alive nt ms) []).
Proof.
  intros nt ms Hwf Hs Hn i Hi Hc. unfold export_in. rewrite Hc.
  destruct (calc_sound nt ms Hwf Hs Hn i Hi Hc) as [E _]. rewrite E. reflexivity.
Qed.

(* ================================================================ (4) exported shapes *)
Lemma xwidth_count : forall nt ms, wf nt = true -> sound_b nt ms = true ->
  forall j, j < length nt -> nth j (xwidths nt ms) 0 = count (nth j (alive nt ms) []).
Proof.
  intros nt ms Hwf Hsound j. induction j as [j IH] using lt_wf_ind. intro Hj.
  pose proof (wf_srcs nt j Hwf Hj) as Hs.
  pose proof (sound_at nt ms j Hsound Hj) as Hsd.
  rewrite xwidths_nth, alive_nth by exact Hj.
  unfold xwidth_step, alive_step. unfold xwidths, alive.
  rewrite !firstn_build_length by lia. fold (xwidths nt ms) (alive nt ms).
  destruct (node_at nt j) as [c|s co k sr|s sr|s t|s m t|a b t|l] eqn:E; simpl in Hs.
  - rewrite count_repeat_true. reflexivity.
  - assert (Hsj : s < j) by (apply Hs; auto).
    destruct k, sr.
    + reflexivity.
    + rewrite count_repeat_true. reflexivity.
    + rewrite nth_firstn_lt by exact Hsj. apply lbeq_eq in Hsd. rewrite Hsd.
      rewrite map2_andb_diag. reflexivity.
    + rewrite nth_firstn_lt by exact Hsj. apply lbeq_eq in Hsd. rewrite Hsd.
      rewrite count_repeat_true. apply (wf_dw nt j s co false Hwf Hj E).
  - assert (Hsj : s < j) by (apply Hs; auto).
    rewrite !nth_firstn_lt by exact Hsj. apply IH; lia.
  - assert (Hsj : s < j) by (apply Hs; auto).
    rewrite !nth_firstn_lt by exact Hsj. apply IH; lia.
  - assert (Hsj : s < j) by (apply Hs; auto).
    rewrite !nth_firstn_lt by exact Hsj. rewrite count_expand, IH by lia. apply Nat.mul_comm.
  - assert (Haj : a < j) by (apply Hs; auto).
    assert (Hbj : b < j) by (apply Hs; auto).
    rewrite !nth_firstn_lt by assumption. apply lbeq_eq in Hsd. rewrite <- Hsd.
    rewrite map2_orb_diag. apply IH; lia.
  - rewrite count_flat_map. f_equal. apply map_ext_in. intros x Hx. specialize (Hs x Hx).
    rewrite !nth_firstn_lt by exact Hs. apply IH; lia.
Qed.

Theorem export_shape_consistent : forall nt ms, wf nt = true -> sound_b nt ms = true ->
  names_ok true nt = true -> shape_ok true nt ms = true.
Proof.
  intros nt ms Hwf Hsound Hn. unfold shape_ok. apply forallb_forall. intros i Hi.
  apply in_seq in Hi. assert (Hlt : i < length nt) by lia. clear Hi.
  pose proof (wf_srcs nt i Hwf Hlt) as Hs.
  pose proof (sound_at nt ms i Hsound Hlt) as Hsd.
  pose proof (in_features_export nt ms Hwf Hsound Hn i Hlt) as Hex.
  assert (Hxw : forall j, j < i -> nth j (xwidths nt ms) 0 = count (nth j (alive nt ms) []))
    by (intros j Hj; apply xwidth_count; auto; lia).
  unfold export_in, consumer, fused in *.
  destruct (node_at nt i) as [c|s co k sr|s sr|s t|s m t|a b t|l] eqn:E; simpl in Hs, Hex; auto.
  - assert (Hsj : s < i) by (apply Hs; auto).
    destruct sr.
    + specialize (Hex eq_refl).
      destruct k.
      * apply Nat.eqb_eq. rewrite Hex, Hxw by exact Hsj. reflexivity.
      * apply lbeq_eq in Hsd. rewrite Hex, Hxw, Hsd by exact Hsj.
        rewrite !Nat.eqb_refl. reflexivity.
    + assert (Hw : nth s (widths nt) 0 = nth s (xwidths nt ms) 0).
      { rewrite Hxw by exact Hsj. destruct k; apply lbeq_eq in Hsd; rewrite Hsd, count_repeat_true; reflexivity. }
      destruct k; apply Nat.eqb_eq; exact Hw.
  - assert (Hsj : s < i) by (apply Hs; auto).
    destruct sr.
    + destruct (match node_at nt s with NLayer _ _ _ true => true | _ => false end) eqn:F;
        [reflexivity|]. simpl in *. specialize (Hex eq_refl).
      apply Nat.eqb_eq. rewrite Hex, Hxw by exact Hsj. reflexivity.
    + apply orb_true_iff. right. apply Nat.eqb_eq. apply lbeq_eq in Hsd.
      rewrite Hxw, Hsd, count_repeat_true by exact Hsj. reflexivity.
  - assert (Haj : a < i) by (apply Hs; auto).
    assert (Hbj : b < i) by (apply Hs; auto).
    apply lbeq_eq in Hsd. apply Nat.eqb_eq. rewrite !Hxw by assumption. rewrite Hsd. reflexivity.
Qed.

(* ================================================================ (5) sharing partition *)
Lemma labels_snoc nt nd : labels (nt ++ [nd]) = label_step (labels nt) nd.
Proof. unfold labels. rewrite fold_left_app. reflexivity. Qed.

Lemma labels_split l1 x l2 : labels (l1 ++ x :: l2) = fold_left label_step l2 (label_step (labels l1) x).
Proof. unfold labels. rewrite fold_left_app. reflexivity. Qed.

Lemma label_step_shape acc nd : exists h v, label_step acc nd = map h acc ++ [v].
Proof.
  destruct nd as [c|s co k sr|s sr|s t|s m t|a b t|l];
    try (unfold label_step; destruct (is_cut _);
         eexists (fun l => l), _; rewrite map_id; reflexivity).
  simpl. eexists _, _. reflexivity.
Qed.

Lemma label_step_length acc nd : length (label_step acc nd) = S (length acc).
Proof.
  destruct (label_step_shape acc nd) as (h & v & E). rewrite E, app_length, map_length. simpl. lia.
Qed.

Lemma labels_length nt : length (labels nt) = length nt.
Proof.
  induction nt as [|x nt IH] using rev_ind; [reflexivity|].
  rewrite labels_snoc, label_step_length, app_length, IH. simpl. lia.
Qed.

Lemma nth_map_lt {A B} (h : A -> B) l i d d' : i < length l -> nth i (map h l) d' = h (nth i l d).
Proof.
  intro H. rewrite (nth_indep _ d' (h d)) by (rewrite map_length; exact H). apply map_nth.
Qed.

Lemma label_step_keeps_eq acc nd x y : x < length acc -> y < length acc ->
  nth x acc 0 = nth y acc 0 -> nth x (label_step acc nd) 0 = nth y (label_step acc nd) 0.
Proof.
  intros Hx Hy E. destruct (label_step_shape acc nd) as (h & v & S). rewrite S.
  rewrite !app_nth1 by (rewrite map_length; assumption).
  rewrite !(nth_map_lt h acc _ 0 0) by assumption. rewrite E. reflexivity.
Qed.

Lemma fold_keeps_eq : forall l2 acc x y, x < length acc -> y < length acc ->
  nth x acc 0 = nth y acc 0 ->
  nth x (fold_left label_step l2 acc) 0 = nth y (fold_left label_step l2 acc) 0.
Proof.
  induction l2 as [|nd l2 IH]; intros acc x y Hx Hy E; simpl; [exact E|].
  apply IH; rewrite ?label_step_length; try lia. apply label_step_keeps_eq; assumption.
Qed.

Theorem join_same_component : forall nt i a b t, wf nt = true -> i < length nt ->
  node_at nt i = NJoin a b t ->
  nth a (labels nt) 0 = nth b (labels nt) 0 /\ nth i (labels nt) 0 = nth a (labels nt) 0.
Proof.
  intros nt i a b t Hwf Hi E.
  pose proof (wf_srcs nt i Hwf Hi) as Hs. rewrite E in Hs. simpl in Hs.
  assert (Ha : a < i) by (apply Hs; auto). assert (Hb : b < i) by (apply Hs; auto).
  destruct (nth_split nt (NIn 0) Hi) as (l1 & l2 & Sp & Hl).
  unfold node_at in E. rewrite E in Sp. rewrite Sp, labels_split.
  pose proof (labels_length l1) as LL.
  assert (K : forall acc, length acc = i ->
     nth a (label_step acc (NJoin a b t)) 0 = nth a acc 0 /\
     nth b (label_step acc (NJoin a b t)) 0 = nth a acc 0 /\
     nth i (label_step acc (NJoin a b t)) 0 = nth a acc 0).
  { intros acc La. simpl.
    rewrite !app_nth1 by (rewrite map_length; lia).
    rewrite app_nth2 by (rewrite map_length; lia).
    rewrite map_length, La, Nat.sub_diag.
    rewrite !(nth_map_lt _ acc _ 0 0) by lia. rewrite Nat.eqb_refl.
    destruct (nth a acc 0 =? nth b acc 0); auto. }
  destruct (K (labels l1) ltac:(lia)) as (K1 & K2 & K3).
  split; apply fold_keeps_eq; rewrite ?label_step_length; try lia; congruence.
Qed.

Theorem through_same_component : forall nt i, wf nt = true -> i < length nt ->
  is_cut (node_at nt i) = false -> (forall a b t, node_at nt i <> NJoin a b t) ->
  nth i (labels nt) 0 = nth (src1 (node_at nt i)) (labels nt) 0.
Proof.
  intros nt i Hwf Hi Hc Hj.
  pose proof (wf_srcs nt i Hwf Hi) as Hs.
  destruct (nth_split nt (NIn 0) Hi) as (l1 & l2 & Sp & Hl).
  unfold node_at in *. remember (nth i nt (NIn 0)) as nd eqn:End. clear End.
  rewrite Sp, labels_split. pose proof (labels_length l1) as LL.
  assert (Hsrc : src1 nd < i).
  { apply Hs. destruct nd as [c|s co k sr|s sr|s t|s m t|a b t|l]; simpl in Hc |- *; auto; discriminate. }
  assert (St : label_step (labels l1) nd = labels l1 ++ [nth (src1 nd) (labels l1) 0]).
  { destruct nd as [c|s co k sr|s sr|s t|s m t|a b t|l];
      try (unfold label_step; rewrite Hc; reflexivity).
    exfalso. exact (Hj a b t eq_refl). }
  apply fold_keeps_eq; rewrite ?label_step_length; try lia.
  rewrite St, app_nth2, app_nth1 by lia.
  replace (i - length (labels l1)) with 0 by lia. reflexivity.
Qed.

Theorem shared_groups_equal_masks : forall fixd nt x y,
  is_search_layer (node_at nt x) = true -> is_search_layer (node_at nt y) = true ->
  x < length nt -> y < length nt ->
  nth x (labels nt) 0 = nth y (labels nt) 0 -> masker_of fixd nt x = masker_of fixd nt y.
Proof.
  intros fixd nt x y Sx Sy Hx Hy E. unfold masker_of. rewrite <- E.
  destruct (has_masker nt (nth x (labels nt) 0) || fixd); [|reflexivity].
  f_equal. f_equal.
  assert (M : forall z, z < length nt -> is_search_layer (node_at nt z) = true ->
     nth z (labels nt) 0 = nth x (labels nt) 0 ->
     In z (filter (fun j => is_search_layer (node_at nt j)) (members nt (nth x (labels nt) 0)))).
  { intros z Hz Sz Ez. apply filter_In. split; [|exact Sz].
    unfold members. apply filter_In. split; [apply in_seq; lia|]. apply Nat.eqb_eq. exact Ez. }
  apply (hd_indep _ x). apply M; auto.
Qed.

(* ================================================================ (6) buffer names of the repaired code *)
Lemma key_eqb_eq a b : key_eqb a b = true <-> a = b.
Proof.
  destruct a as [[c1 b1] p1], b as [[c2 b2] p2]. simpl.
  destruct (list_eq_dec Nat.eq_dec p1 p2) as [e|ne].
  - rewrite andb_true_r, andb_true_iff, !Nat.eqb_eq.
    split; [intros [H1 H2]; subst; reflexivity | intro H; inversion H; auto].
  - rewrite andb_false_r. split; [discriminate | intro H; inversion H; contradiction].
Qed.

Definition used (st : rstate) (k : key) : Prop := exists id, lookup_reg id st = Some k.

Lemma write_old id k v st k0 : lookup_reg id st = Some k0 -> write id k v st = st.
Proof. intro H. unfold write. rewrite H. reflexivity. Qed.

Lemma write_new_reg id k v st id0 : lookup_reg id st = None ->
  lookup_reg id0 (write id k v st) = if id =? id0 then Some k else lookup_reg id0 st.
Proof.
  intro H. unfold write. rewrite H. unfold lookup_reg. simpl. destruct (id =? id0); reflexivity.
Qed.

Lemma write_new_store id k v st k0 : lookup_reg id st = None ->
  lookup_store k0 (write id k v st) = if key_eqb k k0 then Some v else lookup_store k0 st.
Proof.
  intro H. unfold write. rewrite H. unfold lookup_store. simpl. destruct (key_eqb k k0); reflexivity.
Qed.

(* the (id, value) pairs of all constants of a calculator *)
Fixpoint consts (c : calc) : list (nat * nat) :=
  match c with
  | CConst id n => [(id, n)]
  | CMod _ => []
  | CFlat id p m => consts p ++ [(id, m)]
  | CCat cs => (fix go (l : list calc) := match l with [] => [] | x :: r => consts x ++ go r end) cs
  end.

Lemma consts_cat cs : consts (CCat cs) = flat_map consts cs.
Proof. induction cs as [|c cs IH]; simpl; [reflexivity|]. f_equal; try exact IH. Qed.

Lemma coherent_of_consts st c :
  (forall id v, In (id, v) (consts c) -> rd id st = Some v) -> coherent_b st c = true.
Proof.
  induction c as [id n|i|id p m IH|cs IH] using calc_ind2; intro H.
  - simpl. rewrite (H id n) by (simpl; auto). apply Nat.eqb_refl.
  - reflexivity.
  - simpl. rewrite (H id m) by (simpl; apply in_or_app; simpl; auto).
    rewrite Nat.eqb_refl. simpl. apply IH. intros id' v' Hin. apply H. simpl.
    apply in_or_app. left. exact Hin.
  - rewrite coherent_cat. rewrite consts_cat in H.
    induction IH as [|c cs Hc Hcs IH2]; [reflexivity|]. simpl in *.
    rewrite Hc by (intros; apply H; apply in_or_app; left; assumption).
    rewrite IH2 by (intros; apply H; apply in_or_app; right; assumption). reflexivity.
Qed.

Fixpoint reg_loop (cn : nat) (l : list calc) (k : nat) (P : list nat) (st : rstate) : rstate :=
  match l with
  | [] => st
  | x :: r => reg_loop cn r (S k) (S k :: P) (reg true cn (S k :: P) x st)
  end.

Lemma reg_cat cn P cs st : reg true cn P (CCat cs) st = reg_loop cn cs 0 P st.
Proof.
  simpl. generalize 0 as k. revert P st.
  induction cs as [|c cs IH]; intros P st k; simpl; [reflexivity|]. apply IH.
Qed.

Section Names.
Context (vl : nat -> nat).

Definition I1 (st : rstate) : Prop :=
  forall id k, lookup_reg id st = Some k -> lookup_store k st = Some (vl id).

Definition walk_pre (cn : nat) (R : list nat -> Prop) (st : rstate) : Prop :=
  I1 st /\ forall b Q, R Q -> ~ used st (cn, b, Q).

Definition walk_post (cn : nat) (R : list nat -> Prop) (cl : list (nat * nat)) (st st' : rstate) : Prop :=
  I1 st' /\
  (forall id k, lookup_reg id st = Some k -> lookup_reg id st' = Some k) /\
  (forall id v, In (id, v) cl -> exists k, lookup_reg id st' = Some k) /\
  (forall k0, used st' k0 -> used st k0 \/ exists b Q, R Q /\ k0 = (cn, b, Q)).

Lemma pre_sub cn (R R' : list nat -> Prop) st :
  walk_pre cn R st -> (forall Q, R' Q -> R Q) -> walk_pre cn R' st.
Proof. intros [H1 H2] Hs. split; [exact H1|]. intros b Q HQ. apply H2. apply Hs. exact HQ. Qed.

Lemma post_sub cn (R R' : list nat -> Prop) cl st st' :
  walk_post cn R' cl st st' -> (forall Q, R' Q -> R Q) -> walk_post cn R cl st st'.
Proof.
  intros (H1 & H2 & H3 & H4) Hs. repeat split; auto.
  intros k0 Hu. destruct (H4 k0 Hu) as [|(b & Q & HQ & E)]; [left; assumption|].
  right. exists b, Q. auto.
Qed.

Lemma pre_after cn (R R1 R2 : list nat -> Prop) cl st st1 :
  walk_pre cn R st -> walk_post cn R1 cl st st1 ->
  (forall Q, R2 Q -> R Q) -> (forall Q, R1 Q -> R2 Q -> False) -> walk_pre cn R2 st1.
Proof.
  intros [P1 P2] (H1 & H2 & H3 & H4) Hs Hd. split; [exact H1|].
  intros b Q HQ Hu. destruct (H4 _ Hu) as [Hu0|(b' & Q' & HQ' & E)].
  - exact (P2 b Q (Hs Q HQ) Hu0).
  - inversion E; subst. exact (Hd _ HQ' HQ).
Qed.

Lemma walk_seq cn (R R1 R2 : list nat -> Prop) cl1 cl2 st st1 st2 :
  walk_post cn R1 cl1 st st1 -> walk_post cn R2 cl2 st1 st2 ->
  (forall Q, R1 Q -> R Q) -> (forall Q, R2 Q -> R Q) ->
  walk_post cn R (cl1 ++ cl2) st st2.
Proof.
  intros (A1 & A2 & A3 & A4) (B1 & B2 & B3 & B4) S1 S2. split; [exact B1|].
  split; [intros; apply B2, A2; assumption|]. split.
  - intros id v Hin. apply in_app_or in Hin as [Hin|Hin].
    + destruct (A3 id v Hin) as [k Hk]. exists k. apply B2. exact Hk.
    + exact (B3 id v Hin).
  - intros k0 Hu. destruct (B4 k0 Hu) as [Hu1|(b & Q & HQ & E)].
    + destruct (A4 k0 Hu1) as [|(b & Q & HQ & E)]; [left; assumption|].
      right. exists b, Q. auto.
    + right. exists b, Q. auto.
Qed.

Lemma write_walk cn id b P v st :
  v = vl id -> walk_pre cn (fun Q => Q = P) st ->
  walk_post cn (fun Q => Q = P) [(id, v)] st (write id (cn, b, P) v st).
Proof.
  intros Hv [HI Hfresh]. destruct (lookup_reg id st) as [k0|] eqn:L.
  - rewrite (write_old _ _ _ _ _ L). split; [exact HI|]. split; [auto|]. split.
    + intros id' v' [H|[]]. inversion H; subst. eauto.
    + intros k1 Hu. left. exact Hu.
  - split.
    { intros id0 k0 H0. rewrite write_new_reg in H0 by exact L.
      rewrite write_new_store by exact L.
      destruct (id =? id0) eqn:Eid.
      - inversion H0; subst k0. apply Nat.eqb_eq in Eid. subst id0.
        rewrite (proj2 (key_eqb_eq _ _) eq_refl). rewrite Hv. reflexivity.
      - destruct (key_eqb (cn, b, P) k0) eqn:Ek.
        + apply key_eqb_eq in Ek. subst k0. exfalso.
          apply (Hfresh b P eq_refl). exists id0. exact H0.
        + apply HI. exact H0. }
    split.
    { intros id0 k0 H0. rewrite write_new_reg by exact L.
      destruct (id =? id0) eqn:Eid; [|exact H0]. apply Nat.eqb_eq in Eid. subst. congruence. }
    split.
    { intros id' v' [H|[]]. inversion H; subst. exists (cn, b, P).
      rewrite write_new_reg by exact L. rewrite Nat.eqb_refl. reflexivity. }
    intros k1 [id1 H1]. rewrite write_new_reg in H1 by exact L.
    destruct (id =? id1).
    + inversion H1. right. exists b, P. auto.
    + left. exists id1. exact H1.
Qed.

Definition Rg (P Q : list nat) : Prop := exists X, last X 0 <= 1 /\ Q = X ++ P.
Definition RL (k : nat) (P Q : list nat) : Prop := exists Z, last Z 0 = S k /\ Q = Z ++ P.

Lemma app_cons_snoc {A} (X : list A) a P : X ++ a :: P = (X ++ [a]) ++ P.
Proof. rewrite <- app_assoc. reflexivity. Qed.

Definition walk_spec (c : calc) : Prop :=
  forall cn P st, (forall id v, In (id, v) (consts c) -> v = vl id) ->
    walk_pre cn (Rg P) st -> walk_post cn (Rg P) (consts c) st (reg true cn P c st).

Lemma loop_walk : forall cs, Forall walk_spec cs ->
  forall cn k P st, (forall id v, In (id, v) (flat_map consts cs) -> v = vl id) ->
    walk_pre cn (RL k P) st ->
    walk_post cn (RL k P) (flat_map consts cs) st (reg_loop cn cs k P st).
Proof.
  intros cs HF. induction HF as [|c cs Hc Hcs IH]; intros cn k P st Hl Hpre.
  - simpl. destruct Hpre as [HI _]. split; [exact HI|]. split; [auto|].
    split; [intros id v []|]. intros k0 Hu. left. exact Hu.
  - simpl.
    assert (S1 : forall Q, Rg (S k :: P) Q -> RL k P Q).
    { intros Q (X & HX & E). exists (X ++ [S k]). rewrite last_last. split; [reflexivity|].
      rewrite E. apply app_cons_snoc. }
    assert (S2 : forall Q, RL (S k) (S k :: P) Q -> RL k P Q).
    { intros Q (Z & HZ & E). exists (Z ++ [S k]). rewrite last_last. split; [reflexivity|].
      rewrite E. apply app_cons_snoc. }
    assert (D : forall Q, Rg (S k :: P) Q -> RL (S k) (S k :: P) Q -> False).
    { intros Q (X & HX & E) (Z & HZ & E'). rewrite E in E'. apply app_inv_tail in E'. subst Z. lia. }
    pose proof (Hc cn (S k :: P) st
                  (fun id v Hin => Hl id v (in_or_app _ _ _ (or_introl Hin)))
                  (pre_sub _ _ _ _ Hpre S1)) as Post1.
    pose proof (pre_after _ _ _ _ _ _ _ Hpre Post1 S2 D) as Pre2.
    pose proof (IH cn (S k) (S k :: P) _
                  (fun id v Hin => Hl id v (in_or_app _ _ _ (or_intror Hin))) Pre2) as Post2.
    exact (walk_seq _ _ _ _ _ _ _ _ _ Post1 Post2 S1 S2).
Qed.

Lemma reg_walk : forall c, walk_spec c.
Proof.
  intro c. induction c as [id n|i|id p m IH|cs IH] using calc_ind2; intros cn P st Hl Hpre.
  - simpl.
    assert (S0 : forall Q, Q = P -> Rg P Q) by (intros Q ->; exists []; simpl; split; [lia|reflexivity]).
    apply (post_sub _ _ (fun Q => Q = P)); [|exact S0].
    apply write_walk; [apply Hl; simpl; auto|]. exact (pre_sub _ _ _ _ Hpre S0).
  - simpl. destruct Hpre as [HI _]. split; [exact HI|]. split; [auto|].
    split; [intros id v []|]. intros k0 Hu. left. exact Hu.
  - simpl.
    assert (S0 : forall Q, Q = P -> Rg P Q) by (intros Q ->; exists []; simpl; split; [lia|reflexivity]).
    assert (S1 : forall Q, Rg (0 :: P) Q -> Rg P Q).
    { intros Q (X & HX & E). exists (X ++ [0]). rewrite last_last. split; [lia|].
      rewrite E. apply app_cons_snoc. }
    assert (D : forall Q, Rg (0 :: P) Q -> Q = P -> False).
    { intros Q (X & HX & E) E'. rewrite E' in E. apply (f_equal (@length nat)) in E.
      rewrite app_length in E. simpl in E. lia. }
    simpl in Hl.
    pose proof (IH cn (0 :: P) st
                  (fun id' v Hin => Hl id' v (in_or_app _ _ _ (or_introl Hin)))
                  (pre_sub _ _ _ _ Hpre S1)) as Post1.
    pose proof (pre_after _ _ _ _ _ _ _ Hpre Post1 S0 D) as Pre2.
    assert (Hv : m = vl id) by (apply Hl; apply in_or_app; simpl; auto).
    pose proof (write_walk cn id 1 P m _ Hv Pre2) as Post2.
    exact (walk_seq _ _ _ _ _ _ _ _ _ Post1 Post2 S1 S0).
  - rewrite reg_cat, consts_cat. rewrite consts_cat in Hl.
    assert (S1 : forall Q, RL 0 P Q -> Rg P Q).
    { intros Q (Z & HZ & E). exists Z. split; [lia|exact E]. }
    apply (post_sub _ _ (RL 0 P)); [|exact S1].
    apply loop_walk; [exact IH|exact Hl|]. exact (pre_sub _ _ _ _ Hpre S1).
Qed.

End Names.

(* the constant attached to a node id *)
Definition val (nt : net) (id : nat) : nat :=
  match node_at nt id with NIn c => c | NLayer _ co _ _ => co | NFlat _ m _ => m | _ => 0 end.

Lemma setter_le nt : wf nt = true -> forall j, j < length nt -> nth j (setters nt) 0 <= j.
Proof.
  intros Hwf j. induction j as [j IH] using lt_wf_ind. intro Hj.
  pose proof (wf_srcs nt j Hwf Hj) as Hs.
  rewrite setters_nth by exact Hj. unfold setter_step, setters.
  rewrite !firstn_build_length by lia. fold (setters nt).
  destruct (node_at nt j) as [c|s co k sr|s sr|s t|s m t|a b t|l] eqn:E; simpl in Hs |- *; auto.
  - destruct k; [auto|]. assert (Hsj : s < j) by (apply Hs; auto).
    rewrite nth_firstn_lt by exact Hsj. specialize (IH s Hsj ltac:(lia)). lia.
  - assert (Hsj : s < j) by (apply Hs; auto).
    rewrite nth_firstn_lt by exact Hsj. specialize (IH s Hsj ltac:(lia)). lia.
  - assert (Hsj : s < j) by (apply Hs; auto).
    rewrite nth_firstn_lt by exact Hsj. specialize (IH s Hsj ltac:(lia)). lia.
  - assert (Hsj : a < j) by (apply Hs; auto).
    rewrite nth_firstn_lt by exact Hsj. specialize (IH a Hsj ltac:(lia)). lia.
Qed.

Lemma calcs_legal nt : wf nt = true -> forall j, j < length nt ->
  forall id v, In (id, v) (consts (nth j (calcs true nt) (CConst 0 0))) -> v = val nt id.
Proof.
  intros Hwf j. induction j as [j IH] using lt_wf_ind. intros Hj id v.
  pose proof (wf_srcs nt j Hwf Hj) as Hs.
  rewrite calcs_nth by exact Hj. unfold calc_step, calcs.
  rewrite !firstn_build_length by lia. fold (calcs true nt).
  destruct (node_at nt j) as [c|s co k sr|s sr|s t|s m t|a b t|l] eqn:E; simpl in Hs.
  - simpl. intros [H|[]]. inversion H; subst. unfold val. rewrite E. reflexivity.
  - assert (Hsj : s < j) by (apply Hs; auto).
    destruct k, sr; simpl.
    + intros [].
    + intros [H|[]]. inversion H; subst. unfold val. rewrite E. reflexivity.
    + intros [].
    + rewrite nth_firstn_lt by exact Hsj. apply IH; lia.
  - assert (Hsj : s < j) by (apply Hs; auto).
    rewrite nth_firstn_lt by exact Hsj. apply IH; lia.
  - assert (Hsj : s < j) by (apply Hs; auto).
    rewrite nth_firstn_lt by exact Hsj. apply IH; lia.
  - assert (Hsj : s < j) by (apply Hs; auto).
    rewrite nth_firstn_lt by exact Hsj. simpl. intro H. apply in_app_or in H as [H|[H|[]]].
    + revert H. apply IH; lia.
    + inversion H; subst. unfold val. rewrite E. reflexivity.
  - assert (Hsj : a < j) by (apply Hs; auto).
    rewrite nth_firstn_lt by exact Hsj. apply IH; lia.
  - rewrite consts_cat. intro H. apply in_flat_map in H as (c & Hc & Hin).
    apply in_map_iff in Hc as (x & Ex & Hx). subst c. specialize (Hs x Hx).
    rewrite nth_firstn_lt in Hin by exact Hs. revert Hin. apply IH; lia.
Qed.

Lemma input_calc_legal nt i : wf nt = true -> i < length nt -> consumer nt i = true ->
  forall id v, In (id, v) (consts (input_calc true nt i)) -> v = val nt id.
Proof.
  intros Hwf Hi Hc. pose proof (wf_srcs nt i Hwf Hi _ (consumer_src nt i Hc)) as Hlt.
  pose proof (setter_le nt Hwf (src1 (node_at nt i)) ltac:(lia)) as Hle.
  unfold input_calc. apply calcs_legal; [exact Hwf|lia].
Qed.

Definition reg_fold (nt : net) (n : nat) : rstate :=
  fold_left (fun st i => if consumer nt i then reg true i [] (input_calc true nt i) st else st)
            (seq 0 n) {| regs := []; store := [] |}.

Lemma reg_fold_inv nt : wf nt = true -> forall n, n <= length nt ->
  I1 (val nt) (reg_fold nt n) /\
  (forall c b Q, used (reg_fold nt n) (c, b, Q) -> c < n) /\
  (forall i, i < n -> consumer nt i = true -> forall id v,
     In (id, v) (consts (input_calc true nt i)) -> exists k, lookup_reg id (reg_fold nt n) = Some k).
Proof.
  intros Hwf n. induction n as [|n IH]; intro Hn.
  - unfold reg_fold. simpl. split; [intros id k H; discriminate|].
    split; [intros c b Q [id H]; discriminate|]. intros i Hi. lia.
  - destruct (IH ltac:(lia)) as (J1 & J2 & J3).
    unfold reg_fold in *. rewrite seq_S, fold_left_app. simpl.
    set (st := fold_left _ (seq 0 n) _) in *.
    destruct (consumer nt n) eqn:Hc.
    + assert (Hpre : walk_pre (val nt) n (Rg []) st).
      { split; [exact J1|]. intros b Q _ Hu. specialize (J2 _ _ _ Hu). lia. }
      destruct (reg_walk (val nt) (input_calc true nt n) n [] st
                  (input_calc_legal nt n Hwf ltac:(lia) Hc) Hpre) as (K1 & K2 & K3 & K4).
      split; [exact K1|]. split.
      * intros c b Q Hu. destruct (K4 _ Hu) as [Hu0|(b' & Q' & _ & E)].
        -- specialize (J2 _ _ _ Hu0). lia.
        -- inversion E. lia.
      * intros i Hi Hci id v Hin. destruct (Nat.eq_dec i n) as [->|Hne].
        -- exact (K3 id v Hin).
        -- destruct (J3 i ltac:(lia) Hci id v Hin) as [k Hk]. exists k. apply K2. exact Hk.
    + split; [exact J1|]. split.
      * intros c b Q Hu. specialize (J2 _ _ _ Hu). lia.
      * intros i Hi Hci id v Hin. destruct (Nat.eq_dec i n) as [->|Hne]; [congruence|].
        apply (J3 i ltac:(lia) Hci id v Hin).
Qed.

Theorem names_ok_fixed : forall nt, wf nt = true -> names_ok true nt = true.
Proof.
  intros nt Hwf. unfold names_ok. apply forallb_forall. intros i Hi. apply in_seq in Hi.
  destruct (consumer nt i) eqn:Hc; [|reflexivity]. simpl.
  destruct (reg_fold_inv nt Hwf (length nt) (le_n _)) as (J1 & _ & J3).
  change (register_all true nt) with (reg_fold nt (length nt)).
  apply coherent_of_consts. intros id v Hin.
  destruct (J3 i ltac:(lia) Hc id v Hin) as [k Hk].
  unfold rd. rewrite Hk. rewrite (J1 id k Hk).
  rewrite (input_calc_legal nt i Hwf ltac:(lia) Hc id v Hin). reflexivity.
Qed.

(* consequences without the names_ok premise *)
Corollary calc_sound_fixed : forall nt ms, wf nt = true -> sound_b nt ms = true ->
  forall i, i < length nt -> consumer nt i = true ->
    smask (register_all true nt) ms (input_calc true nt i) = nth (src1 (node_at nt i)) (alive nt ms) [] /\
    sfeat (register_all true nt) ms (input_calc true nt i) = count (nth (src1 (node_at nt i)) (alive nt ms) []).
Proof. intros nt ms Hwf Hs. apply calc_sound; auto using names_ok_fixed. Qed.

Corollary export_shape_consistent_fixed : forall nt ms, wf nt = true -> sound_b nt ms = true ->
  shape_ok true nt ms = true.
Proof. intros nt ms Hwf Hs. apply export_shape_consistent; auto using names_ok_fixed. Qed.


(* ================================================================ refutations of the pinned upstream behaviour *)
(* row 6: cat(x, excluded_conv(x)) feeding a searchable layer: 10 input features instead of 8 *)
Definition w_const : net := [NIn 3; NLayer 0 5 Full false; NCat [0; 1]; NLayer 2 4 Full true; NLayer 3 2 Full true].
Definition m_const := assoc [(3, [true; false; true; true]); (4, [true; true])].
Lemma calc_sound_refuted :
  wf w_const = true /\ sound_b w_const m_const = true /\
  sfeat (register_all false w_const) m_const (input_calc false w_const 3) = 10 /\
  count (nth 2 (alive w_const m_const) []) = 8 /\ names_ok false w_const = false /\
  (* repaired naming *)
  sfeat (register_all true w_const) m_const (input_calc true w_const 3) = 8 /\ names_ok true w_const = true.
Proof. vm_compute. repeat split. Qed.

(* two flattened tensors with different spatial sizes concatenated: the multipliers collide *)
Definition w_flat : net := [NIn 3; NLayer 0 2 Full true; NFlat 1 25 FFlatten; NLayer 1 3 Full true; NProp 3 TPlain; NFlat 4 1 FFlatten; NCat [2; 5]; NLayer 6 2 Full true].
Definition m_flat := assoc [(1, [true; true]); (3, [true; true; true]); (7, [true; true])].
Lemma flatten_names_refuted :
  wf w_flat = true /\ sfeat (register_all false w_flat) m_flat (input_calc false w_flat 7) <> count (nth 6 (alive w_flat m_flat) []) /\
  sfeat (register_all true w_flat) m_flat (input_calc true w_flat 7) = count (nth 6 (alive w_flat m_flat) []).
Proof. vm_compute. repeat split; discriminate. Qed.

(* the same tensor twice in a cat: all_input_nodes de-duplicates *)
Definition w_dup : net := [NIn 3; NLayer 0 2 Full true; NLayer 1 3 Full true; NCat [2; 1; 1]; NLayer 3 3 Full true; NLayer 4 2 Full true].
Definition m_dup := assoc [(1, [true; true]); (2, [true; false; true]); (4, [true; true; true]); (5, [true; true])].
Lemma dup_cat_refuted :
  wf w_dup = true /\ sound_b w_dup m_dup = true /\
  length (smask (register_all false w_dup) m_dup (input_calc false w_dup 4)) = 5 /\
  length (nth 3 (alive w_dup m_dup) []) = 7 /\
  smask (register_all true w_dup) m_dup (input_calc true w_dup 4) = nth 3 (alive w_dup m_dup) [].
Proof. vm_compute. repeat split. Qed.

(* row 7: residual add with a cat operand: masks that are consistent with the upstream sharing
   give an exported network that is not shape-consistent; the repaired sharing freezes all three layers *)
Definition w_addcat : net := [NIn 3; NLayer 0 2 Full true; NLayer 0 3 Full true; NCat [1; 2]; NLayer 0 5 Full true; NJoin 3 4 false; NLayer 5 3 Full true; NLayer 6 2 Full true].
Definition m_addcat := assoc [(1, [false; true]); (2, [true; true; true]); (4, [true; false; false; true; true]); (6, [true; true; true]); (7, [true; true])].
Lemma add_of_cat_refuted :
  wf w_addcat = true /\ consistent_b false w_addcat m_addcat = true /\
  sound_b w_addcat m_addcat = false /\ shape_ok false w_addcat m_addcat = false /\
  consistent_b true w_addcat m_addcat = false /\
  map (masker_of true w_addcat) [1; 2; 4] = [Some (1, true); Some (2, true); Some (4, true)].
Proof. vm_compute. repeat split. Qed.

(* depthwise directly after a cat: upstream creates no masker for the depthwise layer *)
Definition w_dwcat : net := [NIn 3; NLayer 0 2 Full true; NLayer 0 3 Full true; NCat [1; 2]; NLayer 3 5 Dw true; NLayer 4 3 Full true; NLayer 5 2 Full true].
Lemma dw_after_cat_refuted :
  wf w_dwcat = true /\ masker_of false w_dwcat 4 = None /\
  map (masker_of true w_dwcat) [1; 2; 4] = [Some (1, true); Some (2, true); Some (4, true)].
Proof. vm_compute. repeat split. Qed.

(* an excluded layer downstream of a searchable one / summed with a searchable one *)
Definition w_excl : net := [NIn 3; NLayer 0 4 Full true; NProp 1 TPlain; NLayer 2 3 Full false; NLayer 3 3 Full true; NLayer 4 2 Full true].
Definition m_excl := assoc [(1, [true; false; false; true]); (4, [true; true; true]); (5, [true; true])].
Lemma excluded_downstream_refuted :
  wf w_excl = true /\ consistent_b false w_excl m_excl = true /\ shape_ok false w_excl m_excl = false /\
  masker_of true w_excl 1 = Some (1, true) /\ consistent_b true w_excl m_excl = false.
Proof. vm_compute. repeat split. Qed.

(* ================================================================ (P3) masks of the repaired sharing satisfy sound_b *)
(* P3: masks produced by the maskers (consistent_b) satisfy the soundness conditions (sound_b). *)

(* ================================================================ list / mask helpers *)
Lemma existsb_eqb_In L l : existsb (Nat.eqb L) l = true <-> In L l.
Proof.
  rewrite existsb_exists. split.
  - intros (x & Hx & E). apply Nat.eqb_eq in E. subst. exact Hx.
  - intro H. exists L. split; [exact H|apply Nat.eqb_refl].
Qed.

Lemma incl_or_witness (l l' : list nat) : incl l l' \/ exists x, In x l /\ ~ In x l'.
Proof.
  induction l as [|a l IH].
  - left. intros x [].
  - destruct IH as [IH|(x & Hx & Hn)].
    + destruct (in_dec Nat.eq_dec a l') as [Ha|Ha].
      * left. intros x [->|Hx]; auto.
      * right. exists a. simpl. auto.
    + right. exists x. simpl. auto.
Qed.

Lemma NoDup_strict_length (l l' : list nat) x :
  NoDup l -> incl l l' -> In x l' -> ~ In x l -> length l < length l'.
Proof.
  intros Hn Hi Hx Hnx.
  assert (H : length (x :: l) <= length l').
  { apply NoDup_incl_length; [constructor; assumption|]. intros y [->|Hy]; auto. }
  simpl in H. lia.
Qed.

Lemma iter_add {A} (f : A -> A) a b x : Nat.iter (a + b) f x = Nat.iter a f (Nat.iter b f x).
Proof. induction a as [|a IH]; simpl; [reflexivity|]. rewrite IH. reflexivity. Qed.

Lemma lbeq_refl x : lbeq x x = true.
Proof. induction x as [|a x IH]; simpl; [reflexivity|]. rewrite IH, eqb_reflx. reflexivity. Qed.

Lemma expand_nil m : expand m [] = [].
Proof. reflexivity. Qed.

Lemma expand_app m a b : expand m (a ++ b) = expand m a ++ expand m b.
Proof. unfold expand. apply flat_map_app. Qed.

Lemma expand_repeat m b e : expand m (repeat b e) = repeat b (e * m).
Proof.
  induction e as [|e IH]; [reflexivity|]. simpl repeat. change (b :: repeat b e) with ([b] ++ repeat b e).
  rewrite expand_app, IH. unfold expand at 1. simpl. rewrite app_nil_r, <- repeat_app. reflexivity.
Qed.

Lemma expand_1 l : expand 1 l = l.
Proof.
  induction l as [|b l IH]; [reflexivity|]. change (b :: l) with ([b] ++ l).
  rewrite expand_app, IH. reflexivity.
Qed.

Lemma expand_expand m e l : expand m (expand e l) = expand (e * m) l.
Proof.
  induction l as [|b l IH]; [reflexivity|].
  change (b :: l) with ([b] ++ l). rewrite !expand_app, IH. f_equal.
  unfold expand at 2 3. simpl. rewrite !app_nil_r. apply expand_repeat.
Qed.

Lemma length_expand e l : length (expand e l) = e * length l.
Proof.
  induction l as [|b l IH]; [simpl; lia|].
  change (b :: l) with ([b] ++ l). rewrite expand_app, app_length, IH.
  unfold expand. simpl. rewrite app_nil_r, repeat_length. lia.
Qed.

Lemma flat_map_all_true {A} (g : A -> list bool) (w : A -> nat) l :
  (forall s, In s l -> g s = repeat true (w s)) -> flat_map g l = repeat true (list_sum (map w l)).
Proof.
  induction l as [|a l IH]; intro H; [reflexivity|]. simpl.
  rewrite repeat_app, (H a) by (simpl; auto). f_equal. apply IH. intros; apply H; simpl; auto.
Qed.

Lemma length_flat_map {A} (g : A -> list bool) (w : A -> nat) l :
  (forall s, In s l -> length (g s) = w s) -> length (flat_map g l) = list_sum (map w l).
Proof.
  induction l as [|a l IH]; intro H; [reflexivity|]. simpl.
  rewrite app_length, (H a) by (simpl; auto). f_equal. apply IH. intros; apply H; simpl; auto.
Qed.

Lemma mul_cancel_pos e n : n = e * n -> n <> 0 -> e = 1.
Proof. intros H Hn. destruct e as [|[|e]]; [lia|reflexivity|]. simpl in H. lia. Qed.

(* ================================================================ closure premise *)
Definition closed_b (nt : net) : bool :=
  forallb (fun j => match node_at nt j with
                    | NCat l => negb (frozen true nt (nth j (labels nt) 0))
                                || forallb (fun s => frozen true nt (nth s (labels nt) 0)) l
                    | _ => true end) (seq 0 (length nt)).

Section Structure.
Context (nt : net) (Hwf : wf nt = true).

Let lab j := nth j (labels nt) 0.
Let F L := frozen true nt L.

(* ---------------------------------------------------------------- A: structure of the partition *)
Lemma noncut_parent j : j < length nt -> is_cut (node_at nt j) = false ->
  exists s, s < j /\ lab j = lab s.
Proof.
  intros Hj Hc. pose proof (wf_srcs nt j Hwf Hj) as Hs.
  pose proof (through_same_component nt j Hwf Hj Hc) as T.
  pose proof (join_same_component nt j) as J.
  destruct (node_at nt j) as [c|s co k sr|s sr|s t|s m t|a b t|l] eqn:E; simpl in *;
    try discriminate;
    try (exists s; split; [apply Hs; auto | apply T; intros; discriminate]).
  exists a. split; [apply Hs; auto|]. apply (J a b t Hwf Hj eq_refl).
Qed.

Lemma root_exists : forall j, j < length nt ->
  exists r, r <= j /\ lab r = lab j /\ is_cut (node_at nt r) = true.
Proof.
  intro j. induction j as [j IH] using lt_wf_ind. intro Hj.
  destruct (is_cut (node_at nt j)) eqn:Hc.
  - exists j. auto.
  - destruct (noncut_parent j Hj Hc) as (s & Hs & El).
    destruct (IH s Hs ltac:(lia)) as (r & Hr & Er & Cr).
    exists r. split; [lia|]. split; [congruence|exact Cr].
Qed.

Lemma In_members j L : In j (members nt L) <-> j < length nt /\ lab j = L.
Proof.
  unfold members. cbv zeta. rewrite filter_In, in_seq, Nat.eqb_eq. unfold lab. split; intros [H1 H2]; split; auto; lia.
Qed.

Lemma any_member_intro L p j : j < length nt -> lab j = L -> p j (node_at nt j) = true ->
  any_member nt L p = true.
Proof.
  intros Hj El Hp. unfold any_member. apply existsb_exists. exists j. split; [|exact Hp].
  apply In_members. auto.
Qed.

Lemma any_member_elim L p : any_member nt L p = true ->
  exists j, j < length nt /\ lab j = L /\ p j (node_at nt j) = true.
Proof.
  unfold any_member. rewrite existsb_exists. intros (j & Hin & Hp). apply In_members in Hin.
  exists j. tauto.
Qed.

Lemma lab_In j : j < length nt -> In (lab j) (labels nt).
Proof. intro Hj. apply nth_In. rewrite labels_length. exact Hj. Qed.

(* ---------------------------------------------------------------- B: frozen classes *)
Let F0 := filter (frozen_basic true nt) (dedup (labels nt)).
Let Sk k := Nat.iter k (pin_round nt) F0.

Lemma frozen_iff L : F L = true <-> In L (Sk (length nt)).
Proof.
  unfold F, frozen, pinned. cbv zeta. rewrite existsb_eqb_In. unfold dedup at 1.
  rewrite nodup_In. reflexivity.
Qed.

Lemma In_pin_round x S : In x (pin_round nt S) <->
  In x S \/ exists j l s, j < length nt /\ node_at nt j = NCat l /\ In (lab j) S /\ In s l /\ x = lab s.
Proof.
  unfold pin_round. cbv zeta. unfold dedup. rewrite nodup_In, in_app_iff, in_flat_map. split.
  - intros [H|(j & Hj & Hin)]; [left; exact H|]. right. apply in_seq in Hj.
    destruct (node_at nt j) as [c|s co k sr|s sr|s t|s m t|a b t|l] eqn:E; try contradiction.
    destruct (existsb (Nat.eqb (nth j (labels nt) 0)) S) eqn:Ex; [|contradiction].
    apply existsb_eqb_In in Ex. apply in_map_iff in Hin as (s & Es & Hs).
    exists j, l, s. repeat split; auto; lia.
  - intros [H|(j & l & s & Hj & E & Hl & Hs & Ex)]; [left; exact H|]. right.
    exists j. split; [apply in_seq; lia|]. rewrite E.
    apply existsb_eqb_In in Hl. unfold lab in Hl. rewrite Hl. apply in_map_iff. exists s. auto.
Qed.

Lemma Sk_mono k x : In x (Sk k) -> In x (Sk (S k)).
Proof. intro H. unfold Sk. simpl. apply In_pin_round. left. exact H. Qed.

Lemma F0_in L : frozen_basic true nt L = true -> In L (labels nt) -> In L F0.
Proof. intros H1 H2. unfold F0. apply filter_In. split; [|exact H1]. apply nodup_In. exact H2. Qed.

Lemma Sk_F0 k x : In x F0 -> In x (Sk k).
Proof. intro H. induction k as [|k IH]; [exact H|]. apply Sk_mono. exact IH. Qed.

Lemma frozen_of_basic L : frozen_basic true nt L = true -> In L (labels nt) -> F L = true.
Proof. intros H1 H2. apply frozen_iff. apply Sk_F0. apply F0_in; assumption. Qed.

Definition closedS (S : list nat) : Prop :=
  forall j l s, j < length nt -> node_at nt j = NCat l -> In (lab j) S -> In s l -> In (lab s) S.

Lemma closed_round S : closedS S -> forall x, In x (pin_round nt S) <-> In x S.
Proof.
  intros C x. rewrite In_pin_round. split; [|auto].
  intros [H|(j & l & s & Hj & E & Hl & Hs & Ex)]; [exact H|]. subst x. exact (C j l s Hj E Hl Hs).
Qed.

Lemma closed_next S : closedS S -> closedS (pin_round nt S).
Proof.
  intros C j l s Hj E Hl Hs. apply (closed_round S C). apply (closed_round S C) in Hl.
  exact (C j l s Hj E Hl Hs).
Qed.

Lemma closed_iter S k : closedS S -> closedS (Nat.iter k (pin_round nt) S).
Proof. intro C. induction k as [|k IH]; [exact C|]. simpl. apply closed_next. exact IH. Qed.

Lemma stable_closed S : incl (pin_round nt S) S -> closedS S.
Proof.
  intros Hi j l s Hj E Hl Hs. apply Hi. apply In_pin_round. right. exists j, l, s. auto.
Qed.

Lemma Sk_labels k x : In x (Sk k) -> In x (labels nt).
Proof.
  revert x. induction k as [|k IH]; intros x H.
  - unfold Sk, F0 in H. simpl in H. apply filter_In in H as [H _]. apply nodup_In in H. exact H.
  - unfold Sk in H. simpl in H. apply In_pin_round in H as [H|(j & l & s & Hj & E & Hl & Hs & Ex)].
    + apply IH. exact H.
    + subst x. apply lab_In. pose proof (wf_srcs nt j Hwf Hj s) as Hlt. rewrite E in Hlt.
      specialize (Hlt Hs). lia.
Qed.

Lemma Sk_NoDup k : NoDup (Sk k).
Proof.
  destruct k as [|k].
  - unfold Sk, F0. simpl. apply NoDup_filter. apply NoDup_nodup.
  - unfold Sk. simpl. unfold pin_round. cbv zeta. apply NoDup_nodup.
Qed.

Lemma Sk_length k : length (Sk k) <= length nt.
Proof.
  rewrite <- labels_length. apply NoDup_incl_length; [apply Sk_NoDup|].
  intros x Hx. exact (Sk_labels k x Hx).
Qed.

Lemma Sk_progress k : closedS (Sk k) \/ k + 1 <= length (Sk k).
Proof.
  induction k as [|k IH].
  - destruct (Sk 0) as [|a r] eqn:E.
    + left. intros j l s _ _ [].
    + right. simpl. lia.
  - destruct IH as [C|Hlen].
    + left. unfold Sk. simpl. apply closed_next. exact C.
    + destruct (incl_or_witness (Sk (S k)) (Sk k)) as [Hi|(x & Hx & Hn)].
      * left. unfold Sk. simpl. apply closed_next. apply stable_closed. exact Hi.
      * right. assert (length (Sk k) < length (Sk (S k))).
        { apply (NoDup_strict_length _ _ x); auto using Sk_NoDup. intros y Hy. apply Sk_mono. exact Hy. }
        lia.
Qed.

Lemma Sk_closed : closedS (Sk (length nt)).
Proof.
  assert (E : exists k, k <= length nt /\ closedS (Sk k)).
  { destruct (Sk_progress (length nt)) as [C|Hlen].
    - exists (length nt). auto.
    - pose proof (Sk_length (length nt)). lia. }
  destruct E as (k & Hk & C).
  replace (length nt) with ((length nt - k) + k) by lia.
  unfold Sk. rewrite iter_add. apply closed_iter. exact C.
Qed.

Lemma closed_frozen j l s : j < length nt -> node_at nt j = NCat l -> F (lab j) = true -> In s l ->
  F (lab s) = true.
Proof.
  intros Hj E Hf Hs. apply frozen_iff. apply frozen_iff in Hf. exact (Sk_closed j l s Hj E Hf Hs).
Qed.

End Structure.

Theorem closed_b_holds : forall nt, wf nt = true -> closed_b nt = true.
Proof.
  intros nt Hwf. unfold closed_b. apply forallb_forall. intros j Hj. apply in_seq in Hj.
  destruct (node_at nt j) as [c|s co k sr|s sr|s t|s m t|a b t|l] eqn:E; auto.
  destruct (frozen true nt (nth j (labels nt) 0)) eqn:Hf; [|reflexivity]. simpl.
  apply forallb_forall. intros s Hs. exact (closed_frozen nt Hwf j l s ltac:(lia) E Hf Hs).
Qed.

(* ================================================================ global per-node equations *)
Section Unfold.
Context (nt : net) (ms : nat -> list bool) (Hwf : wf nt = true).

Let W j := nth j (widths nt) 0.
Let al j := nth j (alive nt ms) [].

Lemma alive_at j : j < length nt ->
  al j = match node_at nt j with
         | NIn c => repeat true c
         | NLayer s co k sr =>
             match k, sr with
             | Full, true => ms j
             | Full, false => repeat true co
             | Dw, true => map2 andb (al s) (ms j)
             | Dw, false => al s
             end
         | NBn s _ => al s
         | NProp s _ => al s
         | NFlat s m _ => expand m (al s)
         | NJoin a b _ => map2 orb (al a) (al b)
         | NCat l => flat_map al l
         end.
Proof.
  intro Hj. pose proof (wf_srcs nt j Hwf Hj) as Hs.
  unfold al. rewrite alive_nth by exact Hj. unfold alive_step, alive.
  rewrite ?firstn_build_length by lia. fold (alive nt ms).
  destruct (node_at nt j) as [c|s co k sr|s sr|s t|s m t|a b t|l] eqn:E; simpl in Hs;
    try (destruct k, sr); try (rewrite ?nth_firstn_lt by (apply Hs; auto); reflexivity).
  apply flat_map_ext_in'. intros x Hx. rewrite nth_firstn_lt by (apply Hs; exact Hx). reflexivity.
Qed.

Lemma W_at j : j < length nt ->
  W j = match node_at nt j with
        | NIn c => c
        | NLayer _ co _ _ => co
        | NBn s _ => W s
        | NProp s _ => W s
        | NFlat s m _ => W s * m
        | NJoin a _ _ => W a
        | NCat l => list_sum (map W l)
        end.
Proof.
  intro Hj. pose proof (wf_srcs nt j Hwf Hj) as Hs.
  unfold W. rewrite widths_nth by exact Hj. unfold width_step.
  destruct (node_at nt j) as [c|s co k sr|s sr|s t|s m t|a b t|l] eqn:E; simpl in Hs;
    try (rewrite ?nth_firstn_lt by (apply Hs; auto); reflexivity).
  f_equal. apply map_ext_in. intros x Hx. rewrite nth_firstn_lt by (apply Hs; exact Hx). reflexivity.
Qed.

Lemma wf_join j a b t : j < length nt -> node_at nt j = NJoin a b t -> W a = W b.
Proof.
  intros Hj E. pose proof (wf_node nt j Hwf Hj) as Wn.
  pose proof (wf_srcs nt j Hwf Hj) as Hs. rewrite E in Wn, Hs. unfold wf_step in Wn.
  apply andb_true_iff in Wn as [_ Wn]. apply Nat.eqb_eq in Wn. simpl in Hs.
  rewrite !nth_firstn_lt in Wn by (apply Hs; auto). exact Wn.
Qed.

End Unfold.

(* ================================================================ C: the main invariant *)
Lemma singleton_of_short (fl : list nat) j : In j fl -> length fl <= 1 -> fl = [j].
Proof.
  destruct fl as [|x [|y r]]; simpl; intros H Hl; [contradiction| |lia].
  destruct H as [->|[]]. reflexivity.
Qed.

Section Main.
Context (nt : net) (ms : nat -> list bool).
Context (Hwf : wf nt = true) (Hcons : consistent_b true nt ms = true) (Hclosed : closed_b nt = true).

Local Notation lab j := (nth j (labels nt) 0) (only parsing).
Local Notation W j := (nth j (widths nt) 0) (only parsing).
Local Notation al j := (nth j (alive nt ms) []) (only parsing).
Local Notation F L := (frozen true nt L) (only parsing).
Local Notation searchf := (fun j => is_search_layer (node_at nt j)) (only parsing).
Local Notation catf := (fun j => is_cat (node_at nt j)) (only parsing).

Lemma closedP j l s : j < length nt -> node_at nt j = NCat l -> F (lab j) = true -> In s l ->
  F (lab s) = true.
Proof.
  intros Hj E Hf Hs. unfold closed_b in Hclosed. rewrite forallb_forall in Hclosed.
  specialize (Hclosed j ltac:(apply in_seq; lia)). rewrite E, Hf in Hclosed. simpl in Hclosed.
  rewrite forallb_forall in Hclosed. exact (Hclosed s Hs).
Qed.

Lemma consistent_at i : i < length nt -> is_search_layer (node_at nt i) = true ->
  length (ms i) = W i /\
  ((F (lab i) || negb (has_masker nt (lab i))) = true -> ms i = repeat true (length (ms i))) /\
  ms i = ms (hd i (filter searchf (members nt (lab i)))).
Proof.
  intros Hi Hs. pose proof Hcons as H. unfold consistent_b in H. cbv zeta in H.
  rewrite forallb_forall in H.
  specialize (H i ltac:(apply filter_In; split; [apply in_seq; lia|exact Hs])).
  unfold masker_of in H. cbv zeta in H. rewrite orb_true_r in H.
  apply andb_true_iff in H as [H12 H3]. apply andb_true_iff in H12 as [H1 H2].
  apply Nat.eqb_eq in H1. apply lbeq_eq in H3. split; [exact H1|]. split; [|exact H3].
  intro Hfr. rewrite Hfr in H2. simpl in H2. apply lbeq_eq in H2. exact H2.
Qed.

Definition Vof (L : nat) : list bool :=
  match filter searchf (members nt L) with
  | c :: _ => ms c
  | [] => match filter catf (members nt L) with r :: _ => al r | [] => [] end
  end.

Definition Inv (j : nat) : Prop :=
  (F (lab j) = true -> al j = repeat true (W j)) /\
  (F (lab j) = false -> exists e, al j = expand e (Vof (lab j)) /\ W j = e * length (Vof (lab j))).

Lemma Inv_frozen j : F (lab j) = true -> al j = repeat true (W j) -> Inv j.
Proof. intros Hf Ha. split; [intros _; exact Ha|intro H; congruence]. Qed.

Lemma Inv_free j e : F (lab j) = false -> al j = expand e (Vof (lab j)) ->
  W j = e * length (Vof (lab j)) -> Inv j.
Proof. intros Hf Ha Hw. split; [intro H; congruence|]. intros _. exists e. auto. Qed.

Lemma Inv_len j : Inv j -> length (al j) = W j.
Proof.
  intros [I1 I2]. destruct (F (lab j)) eqn:Hf.
  - rewrite I1 by reflexivity. apply repeat_length.
  - destruct (I2 eq_refl) as (e & Ha & Hw). rewrite Ha, length_expand. lia.
Qed.

Lemma Inv_transfer j s : lab j = lab s -> al j = al s -> W j = W s -> Inv s -> Inv j.
Proof. intros El Ea Ew. unfold Inv. rewrite El, Ea, Ew. auto. Qed.

(* ---------------------------------------------------------------- classes that are frozen *)
Lemma in_frozen j c : j < length nt -> node_at nt j = NIn c -> F (lab j) = true.
Proof.
  intros Hj E. apply frozen_of_basic; [|apply lab_In; exact Hj]. unfold frozen_basic.
  rewrite (any_member_intro nt (lab j) _ j Hj eq_refl); [reflexivity|]. rewrite E. reflexivity.
Qed.

Lemma fixed_or_feeds_frozen j : j < length nt ->
  is_fixed_module (node_at nt j) || feeds_fixed_full nt j = true -> F (lab j) = true.
Proof.
  intros Hj E. apply frozen_of_basic; [|apply lab_In; exact Hj]. unfold frozen_basic.
  apply orb_true_iff. right. simpl. apply orb_true_iff. left.
  apply (any_member_intro nt (lab j) _ j Hj eq_refl). exact E.
Qed.

Lemma fixed_frozen j : j < length nt -> is_fixed_module (node_at nt j) = true -> F (lab j) = true.
Proof. intros Hj E. apply fixed_or_feeds_frozen; [exact Hj|]. rewrite E. reflexivity. Qed.

Lemma feeds_frozen j s co : j < length nt -> s < length nt ->
  node_at nt j = NLayer s co Full false -> F (lab s) = true.
Proof.
  intros Hj Hs E. apply fixed_or_feeds_frozen; [exact Hs|]. apply orb_true_iff. right.
  unfold feeds_fixed_full. apply existsb_exists. exists (node_at nt j). split.
  - unfold node_at. apply nth_In. exact Hj.
  - rewrite E. apply Nat.eqb_refl.
Qed.

Lemma cat_search_frozen j i : j < length nt -> i < length nt -> lab i = lab j ->
  is_cat (node_at nt j) = true -> is_search_layer (node_at nt i) = true -> F (lab j) = true.
Proof.
  intros Hj Hi El Hc Hs. apply frozen_of_basic; [|apply lab_In; exact Hj]. unfold frozen_basic.
  apply orb_true_iff. right. simpl. apply orb_true_iff. right.
  rewrite (any_member_intro nt (lab j) (fun _ nd => is_cat nd) j Hj eq_refl Hc).
  rewrite (any_member_intro nt (lab j) (fun _ nd => is_search_layer nd) i Hi El Hs). reflexivity.
Qed.

Lemma two_cat_frozen j : j < length nt -> is_cat (node_at nt j) = true ->
  1 < length (filter catf (members nt (lab j))) -> F (lab j) = true.
Proof.
  intros Hj Hc Hl. apply frozen_of_basic; [|apply lab_In; exact Hj]. unfold frozen_basic.
  apply orb_true_iff. right. simpl. apply orb_true_iff. right.
  rewrite (any_member_intro nt (lab j) (fun _ nd => is_cat nd) j Hj eq_refl Hc). simpl.
  apply orb_true_iff. right. apply Nat.ltb_lt. exact Hl.
Qed.

Lemma search_head i : i < length nt -> is_search_layer (node_at nt i) = true ->
  exists c r, filter searchf (members nt (lab i)) = c :: r.
Proof.
  intros Hi Hs.
  assert (Hin : In i (filter searchf (members nt (lab i)))).
  { apply filter_In. split; [|exact Hs]. apply In_members. auto. }
  destruct (filter searchf (members nt (lab i))) as [|c r]; [contradiction|]. eauto.
Qed.

Lemma masker_exists j s co : j < length nt -> node_at nt j = NLayer s co Dw true ->
  F (lab j) = false -> has_masker nt (lab j) = true.
Proof.
  intros Hj E Hf. destruct (has_masker nt (lab j)) eqn:Hm; [reflexivity|exfalso].
  destruct (root_exists nt Hwf j Hj) as (r & Hr & El & Cr).
  assert (Hrl : r < length nt) by lia.
  destruct (is_defining (node_at nt r)) eqn:Hd.
  - unfold has_masker in Hm.
    rewrite (any_member_intro nt (lab j) (fun _ nd => is_defining nd) r Hrl El Hd) in Hm. discriminate.
  - assert (Hc : is_cat (node_at nt r) = true).
    { destruct (node_at nt r) as [c|s' co' k sr|s' sr|s' t|s' m t|a b t|l]; simpl in *; try discriminate; try reflexivity.
      destruct k; discriminate. }
    assert (Hs : is_search_layer (node_at nt j) = true) by (rewrite E; reflexivity).
    pose proof (cat_search_frozen r j Hrl Hj (eq_sym El) Hc Hs) as Hfr. rewrite El in Hfr. congruence.
Qed.

Definition SndOK (j : nat) : Prop :=
  match node_at nt j with
  | NLayer s _ Dw true => lbeq (ms j) (al s)
  | NLayer s _ _ false => lbeq (al s) (repeat true (W s))
  | NBn s false => lbeq (al s) (repeat true (W s))
  | NJoin a b _ => lbeq (al a) (al b)
  | _ => true
  end = true.

Lemma main_inv : forall j, j < length nt -> Inv j /\ SndOK j.
Proof.
  intro j. induction j as [j IH] using lt_wf_ind. intro Hj.
  pose proof (wf_srcs nt j Hwf Hj) as Hs.
  pose proof (alive_at nt ms Hwf j Hj) as Ha. pose proof (W_at nt Hwf j Hj) as Hw.
  pose proof (through_same_component nt j Hwf Hj) as Hthru.
  assert (IHi : forall s, s < j -> Inv s) by (intros s Hsj; apply IH; lia).
  unfold SndOK.
  destruct (node_at nt j) as [c|s co k sr|s sr|s t|s m t|a b t|l] eqn:E; simpl in Hs.
  - (* NIn *)
    split; [|reflexivity]. apply Inv_frozen; [exact (in_frozen j c Hj E)|]. rewrite Ha, Hw. reflexivity.
  - (* NLayer *)
    assert (Hsj : s < j) by (apply Hs; auto).
    destruct k, sr.
    + (* Full, searchable *)
      split; [|reflexivity].
      assert (Hsl : is_search_layer (node_at nt j) = true) by (rewrite E; reflexivity).
      destruct (consistent_at j Hj Hsl) as (Hl & Hfr & Hc).
      destruct (F (lab j)) eqn:Hf.
      * apply Inv_frozen; [exact Hf|]. rewrite Ha, <- Hl. apply Hfr. reflexivity.
      * destruct (search_head j Hj Hsl) as (c & r & Efl). rewrite Efl in Hc. simpl in Hc.
        assert (EV : Vof (lab j) = ms j) by (unfold Vof; rewrite Efl; symmetry; exact Hc).
        apply (Inv_free j 1); [exact Hf| |]; rewrite EV.
        -- rewrite expand_1. exact Ha.
        -- lia.
    + (* Full, fixed *)
      assert (Hfm : is_fixed_module (node_at nt j) = true) by (rewrite E; reflexivity).
      split.
      * apply Inv_frozen; [exact (fixed_frozen j Hj Hfm)|]. rewrite Ha, Hw. reflexivity.
      * pose proof (feeds_frozen j s co Hj ltac:(lia) E) as Hfs.
        destruct (IHi s Hsj) as [I1 _]. rewrite (I1 Hfs). apply lbeq_refl.
    + (* Dw, searchable *)
      assert (Hsl : is_search_layer (node_at nt j) = true) by (rewrite E; reflexivity).
      assert (El : lab j = lab s) by (apply Hthru; [reflexivity|intros; discriminate]).
      pose proof (wf_dw nt j s co true Hwf Hj E) as Hco.
      destruct (consistent_at j Hj Hsl) as (Hl & Hfr & Hc).
      destruct (IHi s Hsj) as [I1 I2]. rewrite <- El in I1, I2.
      destruct (F (lab j)) eqn:Hf.
      * assert (Hm : ms j = al s).
        { rewrite (I1 eq_refl). rewrite (Hfr eq_refl), Hl, Hw, Hco. reflexivity. }
        split.
        -- apply Inv_frozen; [exact Hf|]. rewrite Ha, Hm, map2_andb_diag, (I1 eq_refl), Hw, Hco.
           reflexivity.
        -- rewrite Hm. apply lbeq_refl.
      * pose proof (masker_exists j s co Hj E Hf) as Hmk.
        destruct (search_head j Hj Hsl) as (c & r & Efl). rewrite Efl in Hc. simpl in Hc.
        assert (EV : Vof (lab j) = ms j) by (unfold Vof; rewrite Efl; symmetry; exact Hc).
        destruct (I2 eq_refl) as (e & Hae & Hwe). rewrite EV in Hae, Hwe.
        assert (Hm : ms j = al s).
        { destruct (ms j) as [|b0 V0] eqn:EM.
          - rewrite Hae. reflexivity.
          - assert (e = 1).
            { apply (mul_cancel_pos e (length (b0 :: V0))); [|simpl; lia].
              rewrite <- Hwe, <- Hco, <- Hw. exact Hl. }
            subst e. rewrite Hae, expand_1. reflexivity. }
        split.
        -- apply (Inv_free j 1); [exact Hf| |]; rewrite EV.
           ++ rewrite expand_1, Ha, <- Hm, map2_andb_diag. reflexivity.
           ++ lia.
        -- rewrite Hm. apply lbeq_refl.
    + (* Dw, fixed *)
      assert (Hfm : is_fixed_module (node_at nt j) = true) by (rewrite E; reflexivity).
      assert (El : lab j = lab s) by (apply Hthru; [reflexivity|intros; discriminate]).
      pose proof (wf_dw nt j s co false Hwf Hj E) as Hco.
      pose proof (fixed_frozen j Hj Hfm) as Hf.
      destruct (IHi s Hsj) as [I1 _]. rewrite <- El in I1. specialize (I1 Hf).
      split.
      * apply Inv_frozen; [exact Hf|]. rewrite Ha, Hw, I1, Hco. reflexivity.
      * rewrite I1. apply lbeq_refl.
  - (* NBn *)
    assert (Hsj : s < j) by (apply Hs; auto).
    assert (El : lab j = lab s) by (apply Hthru; [reflexivity|intros; discriminate]).
    split.
    + apply (Inv_transfer j s El Ha Hw). apply IHi. exact Hsj.
    + destruct sr; [reflexivity|].
      assert (Hfm : is_fixed_module (node_at nt j) = true) by (rewrite E; reflexivity).
      pose proof (fixed_frozen j Hj Hfm) as Hf.
      destruct (IHi s Hsj) as [I1 _]. rewrite <- El in I1. rewrite (I1 Hf). apply lbeq_refl.
  - (* NProp *)
    assert (Hsj : s < j) by (apply Hs; auto).
    assert (El : lab j = lab s) by (apply Hthru; [reflexivity|intros; discriminate]).
    split; [|reflexivity]. apply (Inv_transfer j s El Ha Hw). apply IHi. exact Hsj.
  - (* NFlat *)
    assert (Hsj : s < j) by (apply Hs; auto).
    assert (El : lab j = lab s) by (apply Hthru; [reflexivity|intros; discriminate]).
    split; [|reflexivity].
    destruct (IHi s Hsj) as [I1 I2]. rewrite <- El in I1, I2.
    destruct (F (lab j)) eqn:Hf.
    + apply Inv_frozen; [exact Hf|]. rewrite Ha, Hw, (I1 eq_refl). apply expand_repeat.
    + destruct (I2 eq_refl) as (e & Hae & Hwe).
      apply (Inv_free j (e * m)); [exact Hf| |].
      * rewrite Ha, Hae. apply expand_expand.
      * rewrite Hw, Hwe. lia.
  - (* NJoin *)
    assert (Haj : a < j) by (apply Hs; auto).
    assert (Hbj : b < j) by (apply Hs; auto).
    destruct (join_same_component nt j a b t Hwf Hj E) as [Eab Eja].
    pose proof (wf_join nt Hwf j a b t Hj E) as Wab.
    destruct (IHi a Haj) as [A1 A2]. destruct (IHi b Hbj) as [B1 B2].
    rewrite <- Eab in B1, B2. rewrite <- Eja in A1, A2, B1, B2.
    assert (Hab : al a = al b).
    { destruct (F (lab j)) eqn:Hf.
      - rewrite (A1 eq_refl), (B1 eq_refl), Wab. reflexivity.
      - destruct (A2 eq_refl) as (ea & Haa & Hwa). destruct (B2 eq_refl) as (eb & Hab & Hwb).
        rewrite Haa, Hab. destruct (Vof (lab j)) as [|b0 V0].
        + reflexivity.
        + assert (ea = eb).
          { apply (Nat.mul_cancel_r ea eb (length (b0 :: V0))); [simpl; lia|]. congruence. }
          subst. reflexivity. }
    split; [|rewrite Hab; apply lbeq_refl].
    apply (Inv_transfer j a Eja); [|exact Hw|exact (IHi a Haj)].
    rewrite Ha, <- Hab. apply map2_orb_diag.
  - (* NCat *)
    split; [|reflexivity].
    assert (Hcat : is_cat (node_at nt j) = true) by (rewrite E; reflexivity).
    destruct (F (lab j)) eqn:Hf.
    + apply Inv_frozen; [exact Hf|]. rewrite Ha, Hw. apply flat_map_all_true.
      intros s Hin. destruct (IHi s (Hs s Hin)) as [I1 _]. apply I1.
      exact (closedP j l s Hj E Hf Hin).
    + assert (Hsf : filter searchf (members nt (lab j)) = []).
      { destruct (filter searchf (members nt (lab j))) as [|c r] eqn:Efl; [reflexivity|exfalso].
        assert (Hin : In c (filter searchf (members nt (lab j)))) by (rewrite Efl; simpl; auto).
        apply filter_In in Hin as [Hm Hsc]. apply In_members in Hm as [Hcl Ecl].
        pose proof (cat_search_frozen j c Hj Hcl Ecl Hcat Hsc). congruence. }
      assert (Hcf : filter catf (members nt (lab j)) = [j]).
      { apply singleton_of_short.
        - apply filter_In. split; [|exact Hcat]. apply In_members. auto.
        - destruct (le_lt_dec (length (filter catf (members nt (lab j)))) 1) as [Hle|Hgt]; [exact Hle|].
          pose proof (two_cat_frozen j Hj Hcat Hgt). congruence. }
      assert (EV : Vof (lab j) = al j) by (unfold Vof; rewrite Hsf, Hcf; reflexivity).
      apply (Inv_free j 1); [exact Hf| |]; rewrite EV.
      * rewrite expand_1. reflexivity.
      * rewrite Hw. rewrite Ha at 1.
        rewrite (length_flat_map _ (fun s => W s) l); [lia|].
        intros s Hin. apply Inv_len. apply IHi. exact (Hs s Hin).
Qed.

Theorem P3_closed_sec : sound_b nt ms = true.
Proof.
  unfold sound_b. cbv zeta. apply forallb_forall. intros i Hi. apply in_seq in Hi.
  destruct (main_inv i ltac:(lia)) as [_ H]. exact H.
Qed.

End Main.

Theorem P3_closed : forall nt ms, wf nt = true -> consistent_b true nt ms = true ->
  closed_b nt = true -> sound_b nt ms = true.
Proof. intros nt ms H1 H2 H3. exact (P3_closed_sec nt ms H1 H2 H3). Qed.

Theorem P3 : forall nt ms, wf nt = true -> consistent_b true nt ms = true -> sound_b nt ms = true.
Proof. intros nt ms H1 H2. apply P3_closed; auto using closed_b_holds. Qed.

