"""C09, second tie by translation: the features calculators (plinio/graph/features_calculation.py).

translator/calc2coq.py turns the source of the four calculator classes of the tree under test into coq/Gen/CalcGen.v;
coq/Proofs/CalcGen.v proves the generated registration simulates the hand model's and the generated evaluation equals
sfeat / smask; the C09_generated_* theorems of coq/Props/C09.v transport the property.  This module is what vlib/c09.py
calls:  regenerate(ctx) before ctx.build(),  note(ctx, built, rej),  correspond(ctx, cases, coq_net, mm) next to the
hand-model comparison,  report_rejected(ctx, built, rej) in the final block.
"""
import os
from .common import COQ, REPO, write_if_changed
from translator import calc2coq

GEN_V = os.path.join(COQ, 'Gen', 'CalcGen.v')
TRANSLATOR = 'translator/calc2coq.py'
SOURCE = 'plinio/graph/features_calculation.py'


def regenerate(ctx=None, repo=None):
    """translate the calculators of the tree under test into Gen/CalcGen.v (written only when it changed).
    -> None, or the reason why the translator refused the source (the file then fails on purpose)"""
    try:
        text, rej = calc2coq.translate_repo(repo or REPO), None
    except (calc2coq.Reject, SyntaxError, OSError, RecursionError) as e:
        rej = '%s: %s' % (type(e).__name__, e)
        text = ('(* %s REFUSED %s of the tree under test:\n   %s\n   no model of the current code exists; this file fails on purpose. *)\n'
                'Definition translator_rejected : True := 0.\n' % (TRANSLATOR, SOURCE, rej.replace('*)', '* )').replace('(*', '( *')))
    write_if_changed(GEN_V, text)
    if ctx is not None and rej:
        ctx.notes.append('generated model: the translator refused the source: ' + rej)
    return rej


def note(ctx, built, rej):
    ctx.extra['generated_model'] = {
        'file': 'coq/Gen/CalcGen.v', 'translator': TRANSLATOR, 'source': SOURCE,
        'status': ('refused: ' + rej) if rej else
                  ('regenerated; its registration simulates the hand model, its evaluation equals sfeat / smask, every buffer read defined (C09_generated_*)' if built
                   else 'regenerated; obligations do not check')}


def b2c(bits):
    return '[' + '; '.join('true' if b else 'false' for b in bits) + ']'


def masks_expr(ob, r, keep_none=False):
    return '[' + '; '.join('(%d, %s)' % (i, b2c(r['masks'][mk[0]])) for i, mk in sorted(ob['maskers'].items()) if keep_none or mk is not None) + ']'


def gen_exprs(net, ob, keep_none=False):
    """Coq expressions for one architecture: the buffer names the generated registration creates, then per mask
    assignment (consumer, (features, features_mask), defined) of the generated calculators"""
    return ['run_names_gen %s' % net] + ['run_masks_gen %s %s' % (net, masks_expr(ob, r, keep_none)) for r in ob['runs']]


def buffer_name(tokens, base):
    return ''.join('prev_' if t == 0 else 'prev_%d' % (t - 1) for t in tokens) + base


def correspond(ctx, cases, coq_net, mm, mps=False):
    """generated model vs implementation on the same architectures and masks.
    cases: [(kind, seed, spec, ob)] with ob['construct'] == 'ok'; mm(what, spec, info) records a mismatch"""
    exprs, spans = [], []
    for kind, seed, spec, ob in cases:
        e = gen_exprs(coq_net(spec), ob, keep_none=mps)
        spans.append(len(e))
        exprs += e
    if not exprs:
        return 0
    vals = ctx.coq_eval_sharded('gen_mps' if mps else 'gen_cases', ['Plinio.Model.Calc', 'Plinio.Gen.CalcGen'], 'Open Scope nat_scope.\n', exprs, shard=160)
    k, n = 0, 0
    for (kind, seed, spec, ob), span in zip(cases, spans):
        names, runs = vals[k], vals[k + 1:k + span]
        k += span
        if not mps:
            want = {i: set() for i in ob.get('buffers', {})}
            for cons, (toks, base) in names:
                want.setdefault(int(cons), set()).add(buffer_name(toks, base))
            got = {i: set(v) for i, v in ob.get('buffers', {}).items()}
            ctx.corr += len(want)
            n += len(want)
            if want != got:
                bad = sorted(i for i in set(want) | set(got) if want.get(i) != got.get(i))[0]
                mm('generated model: registered buffer names', spec, {'layer': bad, 'generated': sorted(want.get(bad, [])), 'impl': sorted(got.get(bad, []))})
        for r, lay in zip(ob['runs'], runs):
            for i, (feat, mask), ok in lay:
                d = r['layers'].get(int(i))
                if d is None:
                    continue
                ctx.corr += 2 if mps else 3
                n += 2 if mps else 3
                if ok is not True:
                    mm('generated model: a calculator reads a buffer that was never registered', spec, {'layer': int(i)})
                if d.get('features') != float(feat) or (not mps and d.get('features_mask') != list(mask)):
                    mm('generated model: features / features_mask', spec, {'layer': int(i), 'generated': (feat, mask), 'impl': d, 'masks': r['masks']})
    ctx.extra['generated_model_comparisons'] = ctx.extra.get('generated_model_comparisons', 0) + n
    return n


def report_rejected(ctx, built, rej):
    """to be called first in the final block of the check; True if it reported"""
    if built or not rej:
        return False
    ctx.violation('translator-rejected', {'translator': TRANSLATOR, 'source': SOURCE, 'reason': rej, 'theorems': [o[0] for o in ctx.obligations if not o[1]]},
                  'the source of the features calculators is outside the subset the translator accepts (%s): no generated model, the C09_generated_* theorems are not established' % rej[:300],
                  no_input=True)
    return True
