"""C13 — quantizers (DESIGN.md §C13).  Theorems: coq/Props/C13.v over coq/Model/Quant.v.

Correspondence: MinMaxWeight / PACTAct / QuantizerBias of /repo on seeded float32 tensors
(magnitudes 2^-30..2^13, constant / all-zero / single-element / mixed-sign channels) and on an
exhaustive level-boundary sweep (bits 2,3,4,8) built so that the float computation is exact; integer
codes and reported scales are compared with the exact rational model evaluated in Coq.  A code may
differ by one only where the exact pre-rounding value lies within 2^-18 (relative) of a rounding
boundary (float rounding of the implementation, DESIGN.md §4); such cases are counted.
Oracle: the sentences of the property evaluated on the implementation's float outputs.
"""
import math, struct
from .common import *
from translator import quant2coq

GEN_V = os.path.join(COQ, 'Gen', 'QuantGen.v')


def regenerate(ctx):
    """translate the three quantizers of the tree under test into Gen/QuantGen.v (written only when it changed).
    -> None, or the reason why the translator refused the source (the file then fails on purpose)"""
    try:
        text, rej = quant2coq.translate_repo(REPO), None
    except (quant2coq.Reject, SyntaxError, OSError) as e:
        rej = '%s: %s' % (type(e).__name__, e)
        text = ('(* translator/quant2coq.py REFUSED the quantizers of the tree under test:\n   %s\n   no model of the current code exists; this file fails on purpose. *)\n'
                'Definition translator_rejected : True := 0.\n' % rej.replace('*)', '* )').replace('(*', '( *'))
    write_if_changed(GEN_V, text)
    return rej

BOUND_REL = Fraction(1, 2 ** 18)


def _env():
    torch = setup_torch()
    from plinio.methods.mps.quant.quantizers import PACTAct, MinMaxWeight, QuantizerBias
    return torch, PACTAct, MinMaxWeight, QuantizerBias


def f32(x):
    return struct.unpack('f', struct.pack('f', x))[0]


def nextf(x, up):
    b = struct.unpack('i', struct.pack('f', x))[0]
    if x == 0:
        return f32(1e-45) if up else -f32(1e-45)
    b += 1 if (x > 0) == up else -1
    return struct.unpack('f', struct.pack('i', b))[0]


def rand_mag(rng, lo=-30, hi=13):
    e = rng.randint(lo, hi - 1)
    return f32(rng.choice([-1, 1]) * (1 + rng.random()) * 2.0 ** e)


def gen_channel(rng, n):
    kind = rng.choice(['mixed', 'mixed', 'mixed', 'const', 'zero', 'single', 'pos', 'smallspread', 'withzeros'])
    if kind == 'zero':
        return kind, [0.0] * n
    if kind == 'const':
        v = rand_mag(rng)
        return kind, [v] * n
    if kind == 'single':
        return kind, [rand_mag(rng)]
    if kind == 'pos':
        return kind, [abs(rand_mag(rng, -6, 4)) for _ in range(n)]
    if kind == 'smallspread':
        e = rng.randint(-20, 8)
        return kind, [f32(rng.uniform(-1, 1) * 2.0 ** e) for _ in range(n)]
    if kind == 'withzeros':
        e = rng.randint(-10, 8)
        return kind, [0.0 if rng.random() < 0.3 else f32(rng.uniform(-1, 1) * 2.0 ** e) for _ in range(n)]
    e = rng.randint(-24, 10)
    return kind, [f32(rng.uniform(-1, 1) * 2.0 ** (e + rng.randint(-3, 3))) for _ in range(n)]


def near_boundary(pre, kind):
    """pre: exact Fraction before rounding. kind 'rne' -> boundaries at half-integers, 'floor' -> at integers"""
    if kind == 'rne':
        d = abs((pre - Fraction(1, 2)) - round(pre - Fraction(1, 2)))
    else:
        d = abs(pre - round(pre))
    return d <= BOUND_REL * max(1, abs(pre))


def long_channel(torch, spec):
    """one channel of spec['n'] float32 weights (seeded), its largest magnitude planted where spec['peak_pos'] says"""
    g = torch.Generator().manual_seed(spec['seed'])
    n = spec['n']
    x = (torch.rand(n, generator=g) * 2 - 1) * 2.0 ** spec['magnitude_exp']
    pos = {'first': 0, 'middle': n // 2, 'last': n - 1, 'last-100': max(0, n - 100)}.get(spec['peak_pos'])
    if pos is None:
        pos = int(torch.randint(0, n, (1,), generator=g))
    x[pos] = -3.0 * 2.0 ** spec['magnitude_exp'] if spec['seed'] % 2 else 3.0 * 2.0 ** spec['magnitude_exp']
    return x.view(1, -1)


def configure(torch, rng_tag, make, p, deq, all_precs, warm):
    """a quantizer at precision p / mode deq, reached either directly by its constructor or through the public
    `precision` / `dequantize` setters of Quantizer on an object built (and sometimes already used) with other values.
    rng_tag in 0..4 selects the route deterministically."""
    route = ('fresh', 'fresh', 'set-precision', 'set-precision-after-a-forward', 'set-dequantize')[rng_tag % 5]
    if route == 'fresh':
        return make(p, deq), route
    if route == 'set-dequantize':
        q = make(p, not deq)
        q.dequantize = deq
        return q, route
    others = [b for b in all_precs if b != p]
    p0 = others[(rng_tag // 5) % len(others)]
    q = make(p0, deq)
    if route.endswith('forward'):
        with torch.no_grad():
            q(warm.clone())
    q.precision = p
    return q, route + ':from-%d-bit' % p0


def run(ctx):
    torch, PACTAct, MinMaxWeight, QuantizerBias = _env()
    gen_rejected = regenerate(ctx)
    if gen_rejected:
        ctx.notes.append('generated model: the translator refused the source: ' + gen_rejected)
    built = ctx.build()
    ctx.extra['generated_model'] = {'file': 'coq/Gen/QuantGen.v', 'translator': 'translator/quant2coq.py', 'source': 'plinio/methods/mps/quant/quantizers/{pact_act,minmax_weight,qtz_bias}.py',
                                    'status': 'refused: ' + gen_rejected if gen_rejected else 'regenerated; equal to the hand model and every division defined (C13_generated_*)' if built else 'regenerated; obligations do not check'}
    ctx.rule = ('seeded float32 channels (kinds: mixed/const/zero/single/pos/smallspread/withzeros, magnitudes 2^-30..2^13) x bits {0,2..8} for weights; '
                'clip in [0.05,1e3] x bits 2..8 x inputs in [-clip,2clip] plus {<=0, clip, >clip} for activations; bias with zero/tiny/normal scales; '
                'plus exhaustive sweep of every level boundary (multiples and half-multiples of a power-of-two scale and their float32 neighbours) for bits {2,3,4,8}. '
                'one case = one channel / one input vector; non-trivial = not all codes equal; distinct by content')
    fails = []

    def oracle(cond, key, info):
        if not cond:
            fails.append((key, info))

    W, A, B = [], [], []      # case dicts
    nW = 350 if ctx.quick else 6000
    # ---------------- weights: seeded
    for i in range(nW):
        p = ctx.rng.choice([0, 2, 3, 4, 5, 6, 7, 8])
        kind, xs = gen_channel(ctx.rng, ctx.rng.randint(2, 24))
        W.append({'p': p, 'xs': xs, 'kind': 'w:' + kind, 'exact': False})
    # ---------------- weights: exhaustive boundary sweep, scale = 2^k exactly
    for p in (2, 3, 4, 8):
        N = 2 ** p - 1
        for k in ((-3,) if ctx.quick else (-12, -3, 0, 5)):
            sc = 2.0 ** k
            m = N * sc / 2
            pts = set()
            for j in range(-N, N + 1):          # j/2 * scale : every level and every half level inside the range
                v = j * sc / 2
                pts.update([v, nextf(v, True), nextf(v, False)])
            pts = sorted(x for x in pts if abs(x) <= m)
            for off in range(0, len(pts), 40):
                W.append({'p': p, 'xs': [m] + pts[off:off + 40], 'kind': 'w:boundary', 'exact': True})
    # ---------------- weights: the SAME parameter object quantized again after its values were changed through .data
    # (in-place ops on .data / re-assignment of .data do not bump the autograd version counter; the library itself does
    # this in compensate_weights_values): the second call must quantize the NEW values
    for i in range(60 if ctx.quick else 600):
        p = ctx.rng.choice([2, 3, 4, 8])
        n = ctx.rng.randint(2, 12)
        kind, xs = gen_channel(ctx.rng, n)
        xs = [f32(v * ctx.rng.choice([1.0, 4.0, 64.0])) for v in xs]
        first = [f32(ctx.rng.uniform(-1, 1) * 2.0 ** ctx.rng.randint(-6, 2)) for _ in xs]
        W.append({'p': p, 'xs': xs, 'kind': 'w:reused-parameter:' + kind, 'exact': False, 'first': first, 'route': ctx.rng.choice(['mul_', 'copy_', 'assign'])})
    for c in W:
        x = torch.tensor(c['xs'], dtype=torch.float32).view(1, -1)
        tagw = c.setdefault('tag', len([d for d in W if 'tag' in d]))
        qi, c['route_int'] = configure(torch, tagw, lambda pp, dq: MinMaxWeight(pp, 1, dequantize=dq), c['p'], False, (0, 2, 3, 4, 5, 8), torch.ones(1, max(2, len(c['xs']))))
        qf, c['route_fq'] = configure(torch, tagw + 2, lambda pp, dq: MinMaxWeight(pp, 1, dequantize=dq), c['p'], True, (0, 2, 3, 4, 5, 8), torch.ones(1, max(2, len(c['xs']))))
        ctx.dist['w:how:' + c['route_int'].split(':')[0]] += 1
        if 'first' in c:
            outs = []
            for q in (qi, qf):
                w = torch.nn.Parameter(torch.tensor(c['first'], dtype=torch.float32).view(1, -1))
                q(w)                                            # first call on the old values
                if c['route'] == 'assign':
                    w.data = x.clone()
                elif c['route'] == 'copy_':
                    w.data.copy_(x)
                else:
                    w.data.mul_(0.0).add_(x)
                outs.append(q(w)[0].tolist())
            yi, yf = outs
        else:
            yi = qi(x.clone())[0].tolist()
            yf = qf(x.clone())[0].tolist()
        sc = float(qi.scale.view(-1)[0])
        c.update(codes=yi, fq=yf, scale=sc)
        p = c['p']
        info = {'quantizer': 'MinMaxWeight', 'bits': p, 'channel': c['xs'], 'int_out': yi, 'fq_out': yf, 'scale': sc, 'configured': [c['route_int'], c['route_fq']]}
        if 'first' in c:
            info.update(first_call_values=c['first'], route=c['route'], note='same Parameter object quantized first on first_call_values, then its .data changed to channel')
        oracle(all(math.isfinite(v) and v == int(v) for v in yi) and math.isfinite(sc), 'wq-not-integer-or-not-finite', info)
        if p == 0:
            oracle(all(v == 0 for v in yi) and all(v == 0 for v in yf), 'wq-0bit-not-zero', info)
        else:
            oracle(all(-2 ** (p - 1) <= v <= 2 ** (p - 1) - 1 for v in yi), 'wq-out-of-signed-range', info)
            order = sorted(range(len(yi)), key=lambda j: c['xs'][j])
            oracle(all(yi[order[j]] <= yi[order[j + 1]] for j in range(len(order) - 1)), 'wq-not-monotone', info)
            oracle(all(abs(f - v * sc) <= 1e-6 * max(abs(f), 1e-30) for f, v in zip(yf, yi)), 'wq-fq-not-int-times-scale', info)
            oracle(all(abs(xv - f) <= sc / 2 * (1 + 1e-5) + 2.0 ** -20 * abs(xv) for xv, f in zip(c['xs'], yf)), 'wq-error-above-half-step', info)
    # ---------------- weights: LONG channels (fan-in of real layers: a Linear with 20000 inputs, a 3x5x70x70 convolution), the
    # largest magnitude at the start / in the middle / in the last elements; regenerated from a compact description
    for i in range(12 if ctx.quick else 80):
        spec = {'n': ctx.rng.choice([1000, 4097, 16384, 16385, 20000, 33000, 49152, 70000]), 'seed': ctx.seed * 100 + i, 'bits': ctx.rng.choice([2, 3, 4, 8]),
                'peak_pos': ctx.rng.choice(['first', 'middle', 'last', 'last-100', 'random']), 'magnitude_exp': ctx.rng.randint(-6, 6)}
        x = long_channel(torch, spec)
        qi, qf = MinMaxWeight(spec['bits'], 1, dequantize=False), MinMaxWeight(spec['bits'], 1, dequantize=True)
        with torch.no_grad():
            yi, yf = qi(x.clone())[0], qf(x.clone())[0]
        sc = float(qi.scale.view(-1)[0])
        pb = spec['bits']
        lo, hi = float(yi.min()), float(yi.max())
        info = {'quantizer': 'MinMaxWeight', 'bits': pb, 'long_channel': spec, 'int_out_min_max': [lo, hi], 'scale': sc, 'channel_max_abs': float(x.abs().max())}
        ctx.case(('w:long', tuple(sorted(spec.items()))), nontrivial=True, kind='w:long-channel:%s' % spec['peak_pos'])
        ctx.corr += 1
        oracle(bool(torch.isfinite(yi).all()) and bool((yi == yi.round()).all()) and -2 ** (pb - 1) <= lo and hi <= 2 ** (pb - 1) - 1, 'wq-out-of-signed-range', info)
        oracle(bool(((yf - yi * sc).abs() <= 1e-6 * yf.abs().clamp(min=1e-30)).all()), 'wq-fq-not-int-times-scale', info)
        oracle(bool(((x[0] - yf).abs() <= sc / 2 * (1 + 1e-5) + 2.0 ** -20 * x[0].abs()).all()), 'wq-error-above-half-step', info)
    # ---------------- activations
    nA = 300 if ctx.quick else 5000
    for i in range(nA):
        p = ctx.rng.randint(2, 8)
        clip = f32(math.exp(ctx.rng.uniform(math.log(0.05), math.log(1000))))
        n = ctx.rng.randint(3, 20)
        xs = [f32(ctx.rng.uniform(-clip, 2 * clip)) for _ in range(n)] + [0.0, -f32(clip / 3), clip, nextf(clip, True), nextf(clip, False), f32(clip * 1.5), f32(clip * 7)]
        A.append({'p': p, 'clip': clip, 'xs': xs, 'kind': 'a:seeded'})
    # level-boundary sweep: inputs at j * step and neighbours (float computation not exact: 1e-3 is not dyadic -> boundary rule applies)
    for p in (2, 3, 4, 8):
        for clip in ((6.0,) if ctx.quick else (0.05, 1.0, 6.0, 1000.0)):
            N = 2 ** p - 1
            step = (Fraction(clip) + Fraction(1, 1000)) / N
            pts = []
            for j in range(0, N + 1):
                v = f32(float(j * step))
                pts += [v, nextf(v, True), nextf(v, False), f32(float((j + Fraction(1, 2)) * step))]
                # clearly (but barely) below / above the boundary: outside the float window in which both neighbours are
                # accepted, inside any 'nudge' of 1e-4 step -> must truncate to level j-1 / j
                if j >= 1:
                    pts += [f32(float((j - Fraction(5, 100000)) * step)), f32(float((j - Fraction(3, 100000)) * step)), f32(float((j + Fraction(5, 100000)) * step))]
            for off in range(0, len(pts), 64):
                A.append({'p': p, 'clip': f32(clip), 'xs': pts[off:off + 64], 'kind': 'a:boundary'})
    for c in A:
        x = torch.tensor(c['xs'], dtype=torch.float32)
        taga = c.setdefault('tag', len([d for d in A if 'tag' in d]))
        qi, c['route_int'] = configure(torch, taga, lambda pp, dq: PACTAct(pp, init_clip_val=c['clip'], dequantize=dq), c['p'], False, (2, 3, 4, 6, 8), torch.ones(4))
        qf, c['route_fq'] = configure(torch, taga + 2, lambda pp, dq: PACTAct(pp, init_clip_val=c['clip'], dequantize=dq), c['p'], True, (2, 3, 4, 6, 8), torch.ones(4))
        ctx.dist['a:how:' + c['route_int'].split(':')[0]] += 1
        with torch.no_grad():
            yi = qi(x).tolist()
            yf = qf(x).tolist()
        sc = float(qi.scale)
        c.update(codes=yi, fq=yf, scale=sc)
        p, clip = c['p'], c['clip']
        info = {'quantizer': 'PACTAct', 'bits': p, 'clip': clip, 'inputs': c['xs'], 'int_out': yi, 'fq_out': yf, 'scale': sc, 'configured': [c['route_int'], c['route_fq']]}
        oracle(all(math.isfinite(v) and v == int(v) and 0 <= v <= 2 ** p - 1 for v in yi), 'aq-out-of-range', info)
        oracle(all(v == 0 for xv, v in zip(c['xs'], yi) if xv <= 0), 'aq-nonpositive-not-zero', info)
        tops = {v for xv, v in zip(c['xs'], yi) if xv >= clip}
        oracle(len(tops) <= 1, 'aq-no-common-top-level', info)
        order = sorted(range(len(yi)), key=lambda j: c['xs'][j])
        oracle(all(yi[order[j]] <= yi[order[j + 1]] for j in range(len(order) - 1)), 'aq-not-monotone', info)
        oracle(all(abs(f - v * sc) <= 1e-5 * max(abs(f), 1e-30) for f, v in zip(yf, yi)), 'aq-fq-not-int-times-reported-scale', info)
        step = (clip + 1e-3) / (2 ** p - 1)
        oracle(all(f <= xv * (1 + 2.0 ** -20) + 1e-30 and xv - f < step * (1 + 1e-4) + 2.0 ** -20 * xv for xv, f in zip(c['xs'], yf) if 0 <= xv <= clip), 'aq-not-truncating-within-one-step', info)
    # ---------------- bias
    nB = 200 if ctx.quick else 3000
    for i in range(nB):
        n = ctx.rng.randint(2, 12)
        s_a = f32(abs(rand_mag(ctx.rng, -12, 2)))
        s_w = []
        for j in range(n):
            r = ctx.rng.random()
            s_w.append(0.0 if r < 0.25 else f32(1e-12) if r < 0.3 else abs(rand_mag(ctx.rng, -14, 0)))
        if i % 7 == 0:
            s_w = [0.0] * n
        bs = [0.0 if ctx.rng.random() < 0.1 else rand_mag(ctx.rng, -10, 6) for _ in range(n)]
        B.append({'s_a': s_a, 's_w': s_w, 'bs': bs, 'kind': 'b:' + ('allzero' if i % 7 == 0 else 'mixed')})
    # ordinary-magnitude biases over a SMALL (but non-zero) scale product: the integer image exceeds 2^31 (it is a float
    # holding an integer: must stay monotone and within half a step, no wrap-around)
    for i in range(30 if ctx.quick else 300):
        n = ctx.rng.randint(2, 8)
        s_a = f32(2.0 ** ctx.rng.randint(-14, -11))
        s_w = [f32(2.0 ** ctx.rng.randint(-12, -9)) for _ in range(n)]
        bs = sorted(f32(ctx.rng.choice([-1, 1]) * 2.0 ** ctx.rng.randint(6, 12) * ctx.rng.choice([1.0, 1.5, 1.25])) for _ in range(n))
        B.append({'s_a': s_a, 's_w': s_w, 'bs': bs, 'kind': 'b:beyond-int32'})
    for c in B:
        n = len(c['bs'])
        b = torch.tensor(c['bs'], dtype=torch.float32)
        sa = torch.tensor(c['s_a'], dtype=torch.float32)
        sw = torch.tensor(c['s_w'], dtype=torch.float32)
        qi = QuantizerBias(32, n, dequantize=False)
        qf = QuantizerBias(32, n, dequantize=True)
        yi = qi(b, sa, sw).tolist()
        yf = qf(b, sa, sw).tolist()
        sb = [float(v) for v in qi.scale.tolist()]
        c.update(codes=yi, fq=yf, sb=sb)
        info = {'quantizer': 'QuantizerBias', 's_a': c['s_a'], 's_w': c['s_w'], 'bias': c['bs'], 'int_out': yi, 'fq_out': yf, 'scale': sb}
        oracle(all(math.isfinite(v) and v == int(v) for v in yi) and all(math.isfinite(v) for v in yf), 'bq-not-finite-or-not-integer', info)
        oracle(all(v == 0 and f == 0 for v, f, s in zip(yi, yf, sb) if abs(s) <= 1e-9), 'bq-zero-scale-not-zero', info)
        oracle(all(abs(f - v * s) <= 1e-6 * max(abs(f), 1e-30) for f, v, s in zip(yf, yi, sb) if math.isfinite(v)), 'bq-fq-not-multiple-of-scale', info)
        oracle(all(abs(bv - f) <= abs(s) / 2 * (1 + 1e-5) + 2.0 ** -20 * abs(bv) for bv, f, s in zip(c['bs'], yf, sb) if abs(s) > 1e-7), 'bq-error-above-half-step', info)
        if c['kind'] == 'b:beyond-int32':
            oracle(all(abs(bv - f) <= 2.0 ** -20 * abs(bv) + abs(s) for bv, f, s in zip(c['bs'], yf, sb)), 'bq-error-above-half-step', info)
            oracle(all((v > 0) == (bv > 0) for v, bv in zip(yi, c['bs']) if bv != 0), 'bq-sign-flipped', info)
    # monotonicity of the bias quantizer in b for a fixed positive scale
    for i in range(20 if ctx.quick else 200):
        s = abs(rand_mag(ctx.rng, -10, 0))
        bs = sorted(f32(ctx.rng.uniform(-40, 40) * s) for _ in range(16))
        q = QuantizerBias(32, 16, dequantize=False)
        yi = q(torch.tensor(bs), torch.tensor(1.0), torch.full((16,), s)).tolist()
        oracle(all(yi[j] <= yi[j + 1] for j in range(15)), 'bq-not-monotone', {'scale': s, 'bias_sorted': bs, 'int_out': yi})

    for c in W + A + B:
        key = (c['kind'], c.get('p'), tuple(c.get('xs', c.get('bs'))), c.get('clip'), c.get('s_a'))
        ctx.case(key, nontrivial=len(set(c['codes'])) > 1, kind=c['kind'] + (':p%d' % c['p'] if 'p' in c else ''),
                 sample={k: v for k, v in c.items() if k in ('kind', 'p', 'clip', 'xs', 'bs', 's_a', 's_w', 'codes', 'scale')})
    ctx.extra['elements'] = sum(len(c['codes']) for c in W + A + B)

    for key, info in fails:
        ctx.violation(key, {'case': info}, '%s: %s' % (key, str(info)[:600]))

    # ---------------- model in Coq
    mism = []
    nbound = 0
    model_ok = built
    if built:
        try:
            ex = ['run_wq %s %s' % (coq(Nat(c['p'])), coq([Fraction(x) for x in c['xs']])) for c in W]
            ex += ['run_aq %s %s %s' % (coq(Nat(c['p'])), coq(Fraction(c['clip'])), coq([Fraction(x) for x in c['xs']])) for c in A]
            bflat = [(c, j) for c in B for j in range(len(c['bs']))]
            ex += ['run_bq %s %s' % (coq(Fraction(c['sb'][j])), coq([Fraction(c['bs'][j])])) for c, j in bflat]
            vals = ctx.coq_eval_sharded('cases', ['Plinio.Model.Quant'], '', ex, shard=250)
            # the GENERATED model (the quantizers' source translated on this run) on the same cases: same values as the hand model
            gex = [e.replace('run_wq ', 'run_wq_gen ', 1).replace('run_aq ', 'run_aq_gen ', 1).replace('run_bq ', 'run_bq_gen ', 1) for e in ex]
            gvals = ctx.coq_eval_sharded('gcases', ['Plinio.Model.Quant', 'Plinio.Gen.QuantGen'], '', gex, shard=250)
            ctx.corr += len(gvals)
            gdiff = [k for k, (a, b) in enumerate(zip(vals, gvals)) if a != b]
            if gdiff:
                mism.append(('generated model differs from the hand-written model', {'expr': gex[gdiff[0]][:400], 'n': len(gdiff)}, str(gvals[gdiff[0]])[:200]))
            suspects = []      # (case, element index, impl code, model code, pre-expr, kind)
            for c, (codes, (sn, sd)) in zip(W, vals[:len(W)]):
                ctx.corr += len(codes) + 1
                if not close(c['scale'], Fraction(sn, sd)):
                    mism.append(('weight scale', c, float(Fraction(sn, sd))))
                for j, (ci, cm) in enumerate(zip(c['codes'], codes)):
                    if ci != cm:
                        if c['exact'] or abs(ci - cm) > 1:
                            mism.append(('weight code', dict(c, index=j), cm))
                        else:
                            suspects.append((c, j, ci, cm, 'nth %d%%nat (run_wq_pre %s %s) (0%%Z,1%%Z)' % (j, coq(Nat(c['p'])), coq([Fraction(x) for x in c['xs']])), 'rne'))
            for c, (codes, (sn, sd)) in zip(A, vals[len(W):len(W) + len(A)]):
                ctx.corr += len(codes) + 1
                if not close(c['scale'], Fraction(sn, sd)):
                    mism.append(('activation scale', c, float(Fraction(sn, sd))))
                for j, (ci, cm) in enumerate(zip(c['codes'], codes)):
                    if ci != cm:
                        if abs(ci - cm) > 1:
                            mism.append(('activation code', dict(c, index=j), cm))
                        else:
                            suspects.append((c, j, ci, cm, 'nth 0%%nat (run_aq_pre %s %s %s) (0%%Z,1%%Z)' % (coq(Nat(c['p'])), coq(Fraction(c['clip'])), coq([Fraction(c['xs'][j])])), 'floor'))
            for (c, j), codes in zip(bflat, vals[len(W) + len(A):]):
                ctx.corr += 1
                ci, cm = c['codes'][j], codes[0]
                if ci != cm:
                    if abs(abs(c['sb'][j]) - 1e-8) <= 1e-10:
                        nbound += 1      # scale at the isclose threshold itself
                    elif abs(ci - cm) > max(1, abs(cm) * 2.0 ** -22) or abs(c['sb'][j]) <= 1e-8:
                        mism.append(('bias code', dict(c, index=j), cm))
                    elif abs(cm) < 2 ** 22:
                        suspects.append((c, j, ci, cm, 'nth 0%%nat (run_bq_pre %s %s) (0%%Z,1%%Z)' % (coq(Fraction(c['sb'][j])), coq([Fraction(c['bs'][j])])), 'rne'))
            if suspects:
                pres = ctx.coq_eval_sharded('pre', ['Plinio.Model.Quant'], '', [s[4] for s in suspects], shard=250)
                for (c, j, ci, cm, _, kind), (n_, d_) in zip(suspects, pres):
                    if near_boundary(Fraction(n_, d_), kind):
                        nbound += 1
                    else:
                        mism.append(('code off by one away from a rounding boundary', dict(c, index=j, pre=float(Fraction(n_, d_))), cm))
        except RuntimeError as e:
            model_ok = False
            ctx.notes.append('model evaluation failed: ' + str(e)[-800:])
    ctx.extra['boundary_cases_accepted'] = nbound
    ctx.extra['model_impl_mismatches'] = len(mism)

    if not ctx.violations:   # a printed KNOWN-FINDING must not hide a broken proof / model / correspondence
        if not built and gen_rejected:
            ctx.violation('translator-rejected', {'translator': 'translator/quant2coq.py', 'source': 'plinio/methods/mps/quant/quantizers', 'reason': gen_rejected, 'theorems': [o[0] for o in ctx.obligations if not o[1]]},
                          'the source of the quantizers is outside the subset the translator accepts (%s): no generated model, the C13_generated_* theorems are not established' % gen_rejected[:300], no_input=True)
        elif not built:
            ctx.violation('proof-broken', {'theorems': [o[0] for o in ctx.obligations if not o[1]], 'log': getattr(ctx, 'broken_log', '')[-3000:]},
                          'Props/C13.v no longer checks (the model generated from the current source of the quantizers may no longer equal the hand-written one, or divides by a possibly zero quantity: Proofs/QuantGen.v)', no_input=True)
        elif not model_ok:
            ctx.violation('model-eval-broken', {'notes': ctx.notes}, 'the model could not be evaluated', no_input=True)
        elif mism:
            what, c, mv = mism[0]
            ctx.violation('correspondence-broken', {'what': what, 'case': c, 'model_value': mv, 'n_mismatches': len(mism), 'correspondence': 'Model/Quant.v vs plinio quantizers'},
                          'model and implementation disagree on %d observations (first: %s, model %r, case %s) but the property oracle found no failing input' % (len(mism), what, mv, str(c)[:500]), no_input=True)


def replay(r):
    import json
    print(json.dumps(r, indent=1)[:4000])
    torch, PACTAct, MinMaxWeight, QuantizerBias = _env()
    c = r.get('case', {})
    c = c.get('case', c)
    def from_route(make, p, deq, route, warm):
        head, _, frm = route.partition(':from-')
        if head == 'fresh':
            return make(p, deq)
        if head == 'set-dequantize':
            q = make(p, not deq)
            q.dequantize = deq
            return q
        q = make(int(frm.split('-')[0]), deq)
        if head.endswith('forward'):
            with torch.no_grad():
                q(warm.clone())
        q.precision = p
        return q
    routes = c.get('configured', ['fresh', 'fresh'])
    if 'long_channel' in c:
        spec = c['long_channel']
        x = long_channel(torch, spec)
        pb = spec['bits']
        qi, qf = MinMaxWeight(pb, 1, dequantize=False), MinMaxWeight(pb, 1, dequantize=True)
        with torch.no_grad():
            yi, yf = qi(x.clone())[0], qf(x.clone())[0]
        sc = float(qi.scale.view(-1)[0])
        ok = (-2 ** (pb - 1) <= float(yi.min()) and float(yi.max()) <= 2 ** (pb - 1) - 1 and bool(((yf - yi * sc).abs() <= 1e-6 * yf.abs().clamp(min=1e-30)).all())
              and bool(((x[0] - yf).abs() <= sc / 2 * (1 + 1e-5) + 2.0 ** -20 * x[0].abs()).all()))
        print('replayed long channel', spec, ': integers in [%g, %g], scale %g, max|w| %g ->' % (float(yi.min()), float(yi.max()), sc, float(x.abs().max())), 'holds' if ok else 'VIOLATED')
        return 0 if ok else 1
    if c.get('quantizer') == 'PACTAct':
        mk = lambda pp, dq: PACTAct(pp, init_clip_val=c['clip'], dequantize=dq)
        qi = from_route(mk, c['bits'], False, routes[0], torch.ones(4))
        qf = from_route(mk, c['bits'], True, routes[1], torch.ones(4))
        x = torch.tensor(c['inputs'], dtype=torch.float32)
        with torch.no_grad():
            yi, yf = qi(x).tolist(), qf(x).tolist()
        sc = float(qi.scale)
        print('replayed (configured %s): int output' % routes, yi, 'fake-quantized', yf, 'reported scale', sc)
        pb = c['bits']
        ok = all(v == int(v) and 0 <= v <= 2 ** pb - 1 for v in yi) and all(abs(f - v * sc) <= 1e-5 * max(abs(f), 1e-30) for f, v in zip(yf, yi))
        print('required: integers in [0, 2^%d - 1] and fake-quantized = integer x reported scale ->' % pb, 'holds' if ok else 'VIOLATED')
        return 0 if ok and yi == c.get('int_out', yi) else 1
    elif c.get('quantizer') == 'MinMaxWeight':
        x = torch.tensor(c['channel'], dtype=torch.float32).view(1, -1)
        q = from_route(lambda pp, dq: MinMaxWeight(pp, 1, dequantize=dq), c['bits'], False, routes[0], torch.ones(1, max(2, x.shape[1])))
        if 'first_call_values' in c:
            w = torch.nn.Parameter(torch.tensor(c['first_call_values'], dtype=torch.float32).view(1, -1))
            q(w)
            if c['route'] == 'assign':
                w.data = x.clone()
            elif c['route'] == 'copy_':
                w.data.copy_(x)
            else:
                w.data.mul_(0.0).add_(x)
            x = w
        y = q(x)[0].tolist()
        print('replayed int output:', y, 'scale', q.scale.tolist())
        pbits = c['bits']
        ok = all(v == int(v) for v in y) and (all(v == 0 for v in y) if pbits == 0 else all(-2 ** (pbits - 1) <= v <= 2 ** (pbits - 1) - 1 for v in y))
        print('required: integers within the signed range of', pbits, 'bits ->', 'holds' if ok else 'VIOLATED')
        return 0 if ok and y == c.get('int_out', y) else 1
    elif c.get('quantizer') == 'QuantizerBias':
        q = QuantizerBias(32, len(c['bias']), dequantize=False)
        print('replayed int output:', q(torch.tensor(c['bias']), torch.tensor(c['s_a']), torch.tensor(c['s_w'])).tolist())
    return 1
