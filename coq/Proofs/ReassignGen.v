(* C20: the two-pass reassignment meets every target count and leaves no channel unassigned,
   for ALL sizes (no bound on the number of precisions or channels). *)
From Coq Require Import QArith ZArith List Bool Arith Lia Permutation.
Import ListNotations.
Require Import Plinio.Base.Qx Plinio.Model.Reassign Plinio.Proofs.Reassign.
Local Open Scope nat_scope.

(* ------------------------------------------------------------------ set_nth / set_all, pointwise *)
Lemma set_nth_overflow {A} n (x : A) l : length l <= n -> set_nth n x l = l.
Proof.
  intro H. unfold set_nth. rewrite skipn_all2 by lia. rewrite app_nil_r. apply firstn_all2. lia.
Qed.

Lemma gnth_set_nth_same {A} n (x d : A) l : n < length l -> nth n (set_nth n x l) d = x.
Proof.
  intro Hn. destruct (set_nth_split n x d l Hn) as [_ E2]. rewrite E2.
  assert (La : length (firstn n l) = n) by (rewrite firstn_length; lia).
  rewrite app_nth2 by lia. rewrite La. replace (n - n) with 0 by lia. reflexivity.
Qed.

Lemma gnth_set_nth_other {A} n m (x d : A) l : n <> m -> nth m (set_nth n x l) d = nth m l d.
Proof.
  intro Hne. destruct (Nat.lt_ge_cases n (length l)) as [Hn|Hn].
  - destruct (set_nth_split n x d l Hn) as [E1 E2]. rewrite E2.
    assert (La : length (firstn n l) = n) by (rewrite firstn_length; lia).
    remember (firstn n l) as a. remember (skipn (S n) l) as b. remember (nth n l d) as y.
    assert (Ev : nth m l d = nth m (a ++ y :: b) d) by (rewrite <- E1; reflexivity).
    rewrite Ev. destruct (Nat.lt_ge_cases m n) as [Hm|Hm].
    + rewrite !app_nth1 by lia. reflexivity.
    + rewrite !app_nth2 by lia. rewrite La.
      replace (m - n) with (S (m - n - 1)) by lia. reflexivity.
  - rewrite set_nth_overflow by lia. reflexivity.
Qed.

Lemma length_set_all cs x a : length (set_all cs x a) = length a.
Proof.
  unfold set_all. revert a. induction cs as [|c cs IH]; intro a; cbn [fold_left]; [reflexivity|].
  rewrite IH. apply length_set_nth.
Qed.

Lemma set_all_cons c cs x a : set_all (c :: cs) x a = set_all cs x (set_nth c x a).
Proof. reflexivity. Qed.

Lemma get_set_all_cases cs x a c : get (set_all cs x a) c = x \/ get (set_all cs x a) c = get a c.
Proof.
  revert a. induction cs as [|c0 cs IH]; intro a; [right; reflexivity|].
  rewrite set_all_cons. destruct (IH (set_nth c0 x a)) as [H|H]; [left; exact H|].
  rewrite H. unfold get. destruct (Nat.eq_dec c0 c) as [E|E].
  - subst c0. destruct (Nat.lt_ge_cases c (length a)) as [Hc|Hc].
    + left. apply gnth_set_nth_same. exact Hc.
    + right. rewrite set_nth_overflow by lia. reflexivity.
  - right. apply gnth_set_nth_other. exact E.
Qed.

Lemma get_set_all_in cs x a c : In c cs \/ get a c = x -> c < length a -> get (set_all cs x a) c = x.
Proof.
  revert a. induction cs as [|c0 cs IH]; intros a H Hc.
  - destruct H as [[]|H]. exact H.
  - rewrite set_all_cons. apply IH; [|rewrite length_set_nth; exact Hc].
    destruct H as [[E|H]|H].
    + right. subst c0. unfold get. apply gnth_set_nth_same. exact Hc.
    + left. exact H.
    + right. unfold get in *. destruct (Nat.eq_dec c0 c) as [E|E].
      * subst c0. apply gnth_set_nth_same. exact Hc.
      * rewrite gnth_set_nth_other by exact E. exact H.
Qed.

Lemma get_set_all_notin cs x a c : ~ In c cs -> get (set_all cs x a) c = get a c.
Proof.
  revert a. induction cs as [|c0 cs IH]; intros a H; [reflexivity|].
  rewrite set_all_cons. rewrite IH by (intro K; apply H; right; exact K).
  unfold get. apply gnth_set_nth_other. intro E. apply H. left. exact E.
Qed.

(* ------------------------------------------------------------------ counting *)
Definition cnt (f : option nat -> bool) (a : assignment) : nat := length (filter f a).
Definition b2n (b : bool) : nat := if b then 1 else 0.

Lemma cnt_app f a b : cnt f (a ++ b) = cnt f a + cnt f b.
Proof. unfold cnt. rewrite filter_app, app_length. reflexivity. Qed.

Lemma cnt_cons f x a : cnt f (x :: a) = b2n (f x) + cnt f a.
Proof. unfold cnt. cbn [filter]. destruct (f x); reflexivity. Qed.

Lemma cnt_set_nth f c x a : c < length a ->
  cnt f (set_nth c x a) + b2n (f (get a c)) = cnt f a + b2n (f x).
Proof.
  intro Hc. destruct (set_nth_split c x None a Hc) as [E1 E2]. rewrite E2.
  unfold get. remember (nth c a None) as y. remember (firstn c a) as u. remember (skipn (S c) a) as v.
  rewrite E1. rewrite !cnt_app, !cnt_cons. lia.
Qed.

Lemma cnt_set_all_none f cs a : f None = false -> cnt f (set_all cs None a) <= cnt f a.
Proof.
  intro Hf. revert a. induction cs as [|c cs IH]; intro a; [apply Nat.le_refl|].
  rewrite set_all_cons. eapply Nat.le_trans; [apply IH|].
  destruct (Nat.lt_ge_cases c (length a)) as [Hc|Hc].
  - pose proof (cnt_set_nth f c None a Hc) as H. rewrite Hf in H. cbn [b2n] in H. lia.
  - rewrite set_nth_overflow by lia. apply Nat.le_refl.
Qed.

Lemma cnt_set_all_some f p cs a : f None = false -> NoDup cs ->
  (forall c, In c cs -> c < length a /\ get a c = None) ->
  cnt f (set_all cs (Some p) a) = cnt f a + (if f (Some p) then length cs else 0).
Proof.
  intros Hf. revert a. induction cs as [|c cs IH]; intros a Hnd Hall.
  - unfold set_all. cbn [fold_left length]. destruct (f (Some p)); lia.
  - rewrite set_all_cons. inversion Hnd as [|c' cs' Hnin Hnd']; subst.
    destruct (Hall c (or_introl eq_refl)) as [Hc Hg].
    rewrite IH; [|exact Hnd'|].
    + pose proof (cnt_set_nth f c (Some p) a Hc) as H. rewrite Hg, Hf in H. cbn [b2n] in H.
      cbn [length]. destruct (f (Some p)); cbn [b2n] in H; lia.
    + intros c1 Hc1. destruct (Hall c1 (or_intror Hc1)) as [H1 H2].
      rewrite length_set_nth. split; [exact H1|].
      unfold get in *. rewrite gnth_set_nth_other; [exact H2|]. intro E. subst c1. apply Hnin. exact Hc1.
Qed.

(* a count over the entries is a count over the indices, in any order *)
Lemma filter_perm_length {A} (f : A -> bool) l l' : Permutation l l' -> length (filter f l) = length (filter f l').
Proof.
  induction 1 as [|x l l' H IH|x y l|l l' l'' H1 IH1 H2 IH2]; cbn [filter].
  - reflexivity.
  - destruct (f x); cbn [length]; rewrite IH; reflexivity.
  - destruct (f x), (f y); reflexivity.
  - rewrite IH1. exact IH2.
Qed.

Lemma cnt_seq f (a : assignment) : cnt f a = length (filter (fun c => f (get a c)) (seq 0 (length a))).
Proof.
  induction a as [|x a IH] using rev_ind; [reflexivity|].
  rewrite cnt_app, last_length, seq_S, filter_app, app_length. cbn [plus].
  assert (E : filter (fun c => f (get (a ++ [x]) c)) (seq 0 (length a)) = filter (fun c => f (get a c)) (seq 0 (length a))).
  { apply filter_ext_in. intros c Hc. apply in_seq in Hc. unfold get. rewrite app_nth1 by lia. reflexivity. }
  rewrite E, <- IH. f_equal.
  cbn [filter]. unfold get. rewrite app_nth2 by lia. rewrite Nat.sub_diag. cbn [nth].
  rewrite cnt_cons. unfold cnt. cbn. destruct (f x); reflexivity.
Qed.

Lemma cnt_perm f (a : assignment) ord : Permutation ord (seq 0 (length a)) ->
  cnt f a = length (filter (fun c => f (get a c)) ord).
Proof. intro H. rewrite cnt_seq. symmetry. apply filter_perm_length. exact H. Qed.

Lemma count_cnt p a : count p a = cnt (is_prec p) a.
Proof. reflexivity. Qed.

(* ------------------------------------------------------------------ sums over the precisions *)
Fixpoint sumf (f : nat -> nat) (n : nat) : nat :=
  match n with 0 => 0 | S k => sumf f k + f k end.

Lemma sumf_ext f g n : (forall i, i < n -> f i = g i) -> sumf f n = sumf g n.
Proof.
  induction n as [|n IH]; intro H; [reflexivity|]. cbn [sumf]. rewrite IH by (intros; apply H; lia).
  rewrite (H n) by lia. reflexivity.
Qed.

Lemma sumf_le f g n : (forall i, i < n -> f i <= g i) -> sumf f n <= sumf g n.
Proof.
  induction n as [|n IH]; intro H; [apply Nat.le_refl|]. cbn [sumf].
  pose proof (IH (fun i Hi => H i (Nat.lt_lt_succ_r _ _ Hi))). pose proof (H n (Nat.lt_succ_diag_r n)). lia.
Qed.

Lemma sumf_le_at f g n p : (forall i, i < n -> f i <= g i) -> p < n -> sumf f n + (g p - f p) <= sumf g n.
Proof.
  induction n as [|n IH]; intros H Hp; [lia|]. cbn [sumf].
  pose proof (H n (Nat.lt_succ_diag_r n)) as Hn.
  assert (H' : forall i, i < n -> f i <= g i) by (intros; apply H; lia).
  destruct (Nat.eq_dec p n) as [E|E].
  - subst p. pose proof (sumf_le f g n H'). lia.
  - assert (Hp' : p < n) by lia. pose proof (IH H' Hp'). lia.
Qed.

Lemma sumf_add f g n : sumf (fun i => f i + g i) n = sumf f n + sumf g n.
Proof. induction n as [|n IH]; [reflexivity|]. cbn [sumf]. rewrite IH. lia. Qed.

Lemma sumf_delta q n : sumf (fun i => b2n (Nat.eqb i q)) n = b2n (Nat.ltb q n).
Proof.
  induction n as [|n IH]; [reflexivity|]. cbn [sumf]. rewrite IH.
  destruct (Nat.eqb_spec n q), (Nat.ltb_spec q n), (Nat.ltb_spec q (S n)); cbn [b2n]; lia.
Qed.

Lemma sumf_zero n : sumf (fun _ => 0) n = 0.
Proof. induction n as [|n IH]; [reflexivity|]. cbn [sumf]. rewrite IH. reflexivity. Qed.

Lemma sumf_shift f n : sumf f (S n) = f 0 + sumf (fun i => f (S i)) n.
Proof. induction n as [|n IH]; [cbn; lia|]. cbn [sumf] in *. rewrite IH. lia. Qed.

Lemma sum_list_sumf (l : list nat) : fold_right Nat.add 0 l = sumf (fun q => nth q l 0) (length l).
Proof.
  induction l as [|x l IH]; [reflexivity|]. cbn [length]. rewrite sumf_shift. cbn [fold_right nth]. rewrite IH. reflexivity.
Qed.

(* every channel is unassigned or carries exactly one precision < P *)
Definition in_range (P : nat) (a : assignment) : Prop := forall c x, get a c = Some x -> x < P.

Lemma in_range_tail P x a : in_range P (x :: a) -> in_range P a.
Proof. intros H c y Hc. apply (H (S c) y). exact Hc. Qed.

Lemma count_partition P a : in_range P a ->
  length a = cnt is_none a + sumf (fun q => count q a) P.
Proof.
  induction a as [|x a IH]; intro Hr.
  - rewrite (sumf_ext _ (fun _ => 0) P) by reflexivity. rewrite sumf_zero. reflexivity.
  - pose proof (IH (in_range_tail _ _ _ Hr)) as IH'. cbn [length]. rewrite cnt_cons.
    assert (E : sumf (fun q => count q (x :: a)) P = sumf (fun q => b2n (is_prec q x)) P + sumf (fun q => count q a) P).
    { rewrite <- sumf_add. apply sumf_ext. intros i _. rewrite !count_cnt, cnt_cons. reflexivity. }
    rewrite E. destruct x as [q|].
    + assert (Hq : q < P) by (apply (Hr 0 q); reflexivity).
      cbn [is_none is_prec b2n]. rewrite sumf_delta. apply Nat.ltb_lt in Hq. rewrite Hq. cbn [b2n]. lia.
    + cbn [is_none is_prec b2n].
      rewrite sumf_zero. lia.
Qed.

(* ------------------------------------------------------------------ folding an invariant over the precisions *)
Lemma fold_prec_inv (f : assignment -> nat -> list nat -> nat -> assignment) (Inv : nat -> assignment -> Prop) :
  forall os ts p a, length os = length ts ->
  (forall i a, i < length os -> Inv (p + i) a -> Inv (S (p + i)) (f a (p + i) (nth i os []) (nth i ts 0))) ->
  Inv p a -> Inv (p + length os) (fold_prec f a p os ts).
Proof.
  induction os as [|o os IH]; intros ts p a Hl Hstep H0.
  - cbn. rewrite Nat.add_0_r. exact H0.
  - destruct ts as [|t ts]; [discriminate|]. cbn [fold_prec length]. rewrite <- Nat.add_succ_comm.
    apply IH.
    + cbn in Hl. lia.
    + intros i a' Hi Ha'. rewrite Nat.add_succ_comm. rewrite Nat.add_succ_comm in Ha'.
      apply (Hstep (S i) a'); [cbn; lia|exact Ha'].
    + pose proof (Hstep 0 a) as H. rewrite Nat.add_0_r in H. apply H; [cbn; lia|exact H0].
Qed.

Lemma firstn_In {A} k (l : list A) x : In x (firstn k l) -> In x l.
Proof. intro H. rewrite <- (firstn_skipn k l). apply in_or_app. left. exact H. Qed.

Lemma NoDup_firstn {A} k (l : list A) : NoDup l -> NoDup (firstn k l).
Proof.
  revert l. induction k as [|k IH]; intros l H; [constructor|].
  destruct l as [|x l]; [constructor|]. inversion H; subst. cbn [firstn]. constructor.
  - intro K. apply firstn_In in K. contradiction.
  - apply IH. assumption.
Qed.

Section General.
Variables (P C : nat) (cur : list nat) (orders : list (list nat)) (best : list nat).
Hypothesis Hcur : length cur = C.
Hypothesis Hcur_lt : Forall (fun p => p < P) cur.
Hypothesis Hord : length orders = P.
Hypothesis Hperm : Forall (fun o => Permutation o (seq 0 C)) orders.
Hypothesis Hbest : length best = P.
Hypothesis Hsum : fold_right Nat.add 0 best = C.

Lemma order_perm p : p < P -> Permutation (nth p orders []) (seq 0 C).
Proof.
  intro Hp. rewrite Forall_forall in Hperm. apply Hperm. apply nth_In. lia.
Qed.

(* ---- pass 1 *)
Definition inv1 (p : nat) (a : assignment) : Prop :=
  length a = C /\
  (forall c, c < C -> get a c = None \/ get a c = Some (nth c cur 0)) /\
  (forall q, q < p -> count q a <= nth q best 0).

Lemma inv1_init : inv1 0 (map Some cur).
Proof.
  split; [rewrite map_length; exact Hcur|]. split; [|intros; lia].
  intros c Hc. right. unfold get. rewrite (nth_indep _ None (Some 0)) by (rewrite map_length; lia).
  apply (map_nth Some cur 0 c).
Qed.

Lemma inv1_step p a : p < P -> inv1 p a -> inv1 (S p) (pass1_step cur a p (nth p orders []) (nth p best 0)).
Proof.
  intros Hp (Hl & Hg & Hc). unfold pass1_step.
  set (ord := nth p orders []). set (t := nth p best 0).
  set (M := filter (fun c => Nat.eqb (nth c cur 0) p) ord).
  set (a' := set_all (skipn t M) None a).
  assert (Hl' : length a' = C) by (unfold a'; rewrite length_set_all; exact Hl).
  assert (Hpo : Permutation ord (seq 0 C)) by (apply order_perm; exact Hp).
  split; [exact Hl'|]. split.
  - intros c Hcc. destruct (get_set_all_cases (skipn t M) None a c) as [H|H]; [left; exact H|].
    fold a' in H. rewrite H. apply Hg. exact Hcc.
  - intros q Hq. destruct (Nat.eq_dec q p) as [E|E].
    + subst q. rewrite count_cnt. rewrite (cnt_perm _ a' ord) by (rewrite Hl'; exact Hpo).
      eapply Nat.le_trans; [|apply (firstn_le_length t M)].
      apply NoDup_incl_length.
      * apply NoDup_filter. apply (Permutation_NoDup (Permutation_sym Hpo)). apply seq_NoDup.
      * intros c Hin. apply filter_In in Hin as [Hin Hpc].
        assert (Hcc : c < C) by (apply (Permutation_in _ Hpo) in Hin; apply in_seq in Hin; lia).
        destruct (get a' c) as [x|] eqn:Ex; [|discriminate]. cbn [is_prec] in Hpc. apply Nat.eqb_eq in Hpc. subst x.
        assert (HM : In c M).
        { apply filter_In. split; [exact Hin|]. apply Nat.eqb_eq.
          destruct (get_set_all_cases (skipn t M) None a c) as [H|H]; fold a' in H; [congruence|].
          destruct (Hg c Hcc) as [K|K]; congruence. }
        rewrite <- (firstn_skipn t M) in HM. apply in_app_or in HM as [HM|HM]; [exact HM|].
        exfalso. assert (K : get a' c = None) by (apply get_set_all_in; [left; exact HM|lia]). congruence.
    + eapply Nat.le_trans; [apply cnt_set_all_none; reflexivity|]. apply Hc. lia.
Qed.

Lemma pass1_inv : inv1 P (fold_prec (pass1_step cur) (map Some cur) 0 orders best).
Proof.
  pose proof (fold_prec_inv (pass1_step cur) inv1 orders best 0 (map Some cur)) as H.
  rewrite Hord in H. cbn [plus] in H. apply H; [lia| |exact inv1_init].
  intros i a Hi Ha. apply inv1_step; assumption.
Qed.

(* ---- pass 2 *)
Definition inv2 (p : nat) (a : assignment) : Prop :=
  length a = C /\ in_range P a /\
  (forall q, q < p -> count q a = nth q best 0) /\
  (forall q, p <= q -> q < P -> count q a <= nth q best 0).

Lemma inv2_init a : inv1 P a -> inv2 0 a.
Proof.
  intros (Hl & Hg & Hc). split; [exact Hl|]. split; [|split; [intros; lia|intros; apply Hc; assumption]].
  intros c x Hx. destruct (Nat.lt_ge_cases c C) as [Hcc|Hcc].
  - destruct (Hg c Hcc) as [K|K]; [congruence|]. rewrite K in Hx. inversion Hx; subst.
    rewrite Forall_forall in Hcur_lt. apply Hcur_lt. apply nth_In. lia.
  - unfold get in Hx. rewrite nth_overflow in Hx by lia. discriminate.
Qed.

Lemma inv2_step p a : p < P -> inv2 p a -> inv2 (S p) (pass2_step a p (nth p orders []) (nth p best 0)).
Proof.
  intros Hp (Hl & Hr & Heq & Hle). unfold pass2_step.
  set (ord := nth p orders []). set (t := nth p best 0).
  assert (Hpo : Permutation ord (seq 0 C)) by (apply order_perm; exact Hp).
  pose proof (Hle p (Nat.le_refl p) Hp) as Hpt. fold t in Hpt.
  destruct (Nat.ltb (count p a) t) eqn:Elt.
  - apply Nat.ltb_lt in Elt.
    set (F := filter (fun c => is_none (get a c)) ord).
    set (k := t - count p a).
    set (cs := firstn k F).
    (* enough unassigned channels *)
    assert (HF : length F = cnt is_none a).
    { unfold F. symmetry. apply (cnt_perm is_none a ord). rewrite Hl. exact Hpo. }
    assert (Hk : k <= length F).
    { rewrite HF. pose proof (count_partition P a Hr) as Hpart. rewrite Hl in Hpart.
      assert (Hall : forall i, i < P -> count i a <= nth i best 0).
      { intros i Hi. destruct (Nat.lt_ge_cases i p) as [K|K]; [rewrite Heq by exact K; apply Nat.le_refl|apply Hle; assumption]. }
      pose proof (sumf_le_at (fun q => count q a) (fun q => nth q best 0) P p Hall Hp) as Hs.
      cbn beta in Hs. rewrite sum_list_sumf, Hbest in Hsum. fold t in Hs. unfold k. lia. }
    assert (Hlen : length cs = k) by (unfold cs; rewrite firstn_length; lia).
    assert (Hnd : NoDup cs).
    { unfold cs, F. apply NoDup_firstn, NoDup_filter. apply (Permutation_NoDup (Permutation_sym Hpo)). apply seq_NoDup. }
    assert (Hcs : forall c, In c cs -> c < length a /\ get a c = None).
    { intros c Hc. unfold cs in Hc. apply firstn_In in Hc. unfold F in Hc. apply filter_In in Hc as [Hin Hn].
      split.
      - apply (Permutation_in _ Hpo) in Hin. apply in_seq in Hin. lia.
      - destruct (get a c); [discriminate|reflexivity]. }
    assert (Hcount : forall q, count q (set_all cs (Some p) a) = count q a + (if Nat.eqb q p then k else 0)).
    { intro q. rewrite !count_cnt. rewrite (cnt_set_all_some (is_prec q) p cs a eq_refl Hnd Hcs).
      cbn [is_prec]. rewrite Hlen. reflexivity. }
    split; [rewrite length_set_all; exact Hl|]. split; [|split].
    + intros c x Hx. destruct (get_set_all_cases cs (Some p) a c) as [K|K].
      * rewrite K in Hx. inversion Hx; subst. exact Hp.
      * rewrite K in Hx. apply (Hr c x Hx).
    + intros q Hq. rewrite Hcount. destruct (Nat.eqb q p) eqn:E.
      * apply Nat.eqb_eq in E. subst q. fold t. unfold k. lia.
      * apply Nat.eqb_neq in E. rewrite Nat.add_0_r. apply Heq. lia.
    + intros q Hq1 Hq2. rewrite Hcount. destruct (Nat.eqb q p) eqn:E.
      * apply Nat.eqb_eq in E. lia.
      * rewrite Nat.add_0_r. apply Hle; lia.
  - apply Nat.ltb_ge in Elt. split; [exact Hl|]. split; [exact Hr|]. split.
    + intros q Hq. destruct (Nat.eq_dec q p) as [E|E]; [subst q; fold t; lia|apply Heq; lia].
    + intros q Hq1 Hq2. apply Hle; lia.
Qed.

Lemma pass2_inv a : inv2 0 a -> inv2 P (fold_prec pass2_step a 0 orders best).
Proof.
  intro H0. pose proof (fold_prec_inv pass2_step inv2 orders best 0 a) as H.
  rewrite Hord in H. cbn [plus] in H. apply H; [lia| |exact H0].
  intros i a' Hi Ha. apply inv2_step; assumption.
Qed.

Lemma cnt_none_total a : cnt is_none a = 0 -> total a = true.
Proof.
  induction a as [|x a IH]; intro H; [reflexivity|]. rewrite cnt_cons in H. unfold total in *. cbn [forallb].
  destruct x; cbn [is_none b2n negb] in *; [|lia]. apply IH. lia.
Qed.

Lemma in_combine_seq (l : list nat) : forall s q t, In (q, t) (combine (seq s (length l)) l) ->
  s <= q /\ q < s + length l /\ t = nth (q - s) l 0.
Proof.
  induction l as [|x l IH]; intros s q t H; [destruct H|].
  cbn [length seq combine] in H. destruct H as [H|H].
  - inversion H; subst. rewrite Nat.sub_diag. cbn. lia.
  - apply IH in H as (H1 & H2 & H3). cbn [length]. split; [lia|]. split; [lia|].
    replace (q - s) with (S (q - S s)) by lia. exact H3.
Qed.

Lemma inv2_ok a : inv2 P a -> reassign_ok a best = true.
Proof.
  intros (Hl & Hr & Heq & _). unfold reassign_ok. apply andb_true_intro. split.
  - apply cnt_none_total. pose proof (count_partition P a Hr) as Hpart.
    rewrite (sumf_ext _ (fun q => nth q best 0) P Heq) in Hpart.
    rewrite sum_list_sumf, Hbest in Hsum. lia.
  - unfold counts_met. apply forallb_forall. intros [q t] Hin. apply in_combine_seq in Hin as (_ & H2 & H3).
    cbn [fst snd]. rewrite Nat.sub_0_r in H3. apply Nat.eqb_eq. subst t. apply Heq. lia.
Qed.

Theorem reassign_total_sec : reassign_ok (reassign_abs cur orders best) best = true.
Proof. unfold reassign_abs. apply inv2_ok, pass2_inv, inv2_init, pass1_inv. Qed.
End General.

Theorem reassign_total : forall (P C : nat) (cur : list nat) (orders : list (list nat)) (best : list nat),
  length cur = C -> Forall (fun p => p < P) cur ->
  length orders = P -> Forall (fun o => Permutation o (seq 0 C)) orders ->
  length best = P -> fold_right Nat.add 0 best = C ->
  reassign_ok (reassign_abs cur orders best) best = true.
Proof. intros. eapply reassign_total_sec; eassumption. Qed.

(* ------------------------------------------------------------------ the concrete entry point: a score matrix *)
Lemma insert_desc_perm s c l : Permutation (insert_desc s c l) (c :: l).
Proof.
  induction l as [|d l IH]; cbn [insert_desc]; [apply Permutation_refl|].
  destruct (Qle_bool (s d) (s c)); [apply Permutation_refl|].
  eapply Permutation_trans; [apply perm_skip; exact IH|apply perm_swap].
Qed.

Lemma argsort_desc_perm row : Permutation (argsort_desc row) (seq 0 (length row)).
Proof.
  unfold argsort_desc. generalize (seq 0 (length row)) as l.
  induction l as [|c l IH]; cbn [fold_right]; [apply Permutation_refl|].
  eapply Permutation_trans; [apply insert_desc_perm|apply perm_skip; exact IH].
Qed.

Lemma argmax_from_in s cands bi : argmax_from s cands bi = bi \/ In (argmax_from s cands bi) cands.
Proof.
  revert bi. induction cands as [|c t IH]; intro bi; cbn [argmax_from]; [left; reflexivity|].
  destruct (qlt_bool (s bi) (s c)).
  - destruct (IH c) as [H|H]; [right; left; symmetry; exact H|right; right; exact H].
  - destruct (IH bi) as [H|H]; [left; exact H|right; right; exact H].
Qed.

Lemma col_argmax_lt scores c : 1 <= length scores -> col_argmax scores c < length scores.
Proof.
  intro H. unfold col_argmax.
  destruct (argmax_from_in (fun p => nth c (nth p scores []) 0%Q) (seq 1 (length scores - 1)) 0) as [E|E].
  - rewrite E. lia.
  - apply in_seq in E. lia.
Qed.

Theorem reassign_matrix_total : forall (P C : nat) (scores : list (list Q)) (best : list nat),
  length scores = P -> 1 <= P -> Forall (fun row => length row = C) scores ->
  length best = P -> fold_right Nat.add 0 best = C ->
  reassign_ok (reassign scores best) best = true.
Proof.
  intros P C scores best HP H1 Hrows Hbest Hsum. unfold reassign.
  assert (HC : ncols scores = C).
  { unfold ncols. destruct scores as [|r rs]; [cbn in HP; lia|]. inversion Hrows as [|r' rs' Hr Hrs]. exact Hr. }
  rewrite HC. apply (reassign_total P C).
  - rewrite map_length, seq_length. reflexivity.
  - apply Forall_forall. intros x Hx. apply in_map_iff in Hx as [c [E _]]. subst x P. apply col_argmax_lt. exact H1.
  - rewrite map_length. exact HP.
  - apply Forall_forall. intros o Ho. apply in_map_iff in Ho as [row [E Hrow]]. subst o.
    rewrite Forall_forall in Hrows. rewrite <- (Hrows row Hrow). apply argsort_desc_perm.
  - exact Hbest.
  - exact Hsum.
Qed.

