(* C01 — PIT export computes the same function as the searched (masked) network.
   Statements only (proofs: Proofs/Conv.v, Proofs/PitNet.v; models: Model/Conv.v, Model/Masks.v, Model/PitNet.v). *)
From Coq Require Import QArith ZArith List Bool Arith.
Import ListNotations.
Require Import Plinio.Model.Masks Plinio.Model.Conv Plinio.Proofs.Conv.
Local Open Scope nat_scope.

Theorem C01_masked_sum_filter : forall (m : list bool) (w X : nat -> Z) K, length m = K ->
  rsum 0%Z Z.add (map (fun j => ((bit 0 1 (nth j m false) * w j) * X j)%Z) (seq 0 K)) = rsum 0%Z Z.add (map (fun j => (w j * X j)%Z) (kept m)).
Proof. exact (masked_sum_filter Z 0%Z 1%Z Z.add Z.mul Z.add_0_l Z.mul_0_l Z.mul_1_l). Qed.

Print Assumptions C01_masked_sum_filter.
