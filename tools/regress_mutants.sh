#!/bin/bash
# usage: tools/regress_mutants.sh [lanes] [ids...]   re-runs every kept seeded change (seeded/<id>/patch.diff) against the
# CURRENT checks on a scratch worktree of /repo HEAD; one line per change in build/regress/summary.txt
lanes=${1:-3}; shift
cd /verif; mkdir -p build/regress
ids="$@"; [ -z "$ids" ] && ids=$(ls seeded)
run_one() {
  id=$1; p=${id%%-*}
  r=$(/verif/tools/mutant_run.sh /verif/seeded/$id $p quick 2>&1)
  echo "$r" > /verif/build/regress/$id.log
  echo "$id clean=$(echo "$r" | grep -o 'demo exit on clean: [0-9]*' | grep -o '[0-9]*$') mut=$(echo "$r" | grep -o 'demo exit on mutant: [0-9]*' | grep -o '[0-9]*$') check=$(echo "$r" | grep -o 'check exit: [0-9]*' | grep -o '[0-9]*$') viol=$(echo "$r" | grep -c '^VIOLATION') noinput=$(echo "$r" | grep -c 'no-failing-input-found') $(echo "$r" | grep -m1 -o 'patch does not apply')"
}
export -f run_one
# one lane per GROUP of properties that share generated Gen/*.v files (C01+C08: MasksGen; C04+C12: PitCostGen; C12 also reads MpsCostGen (C05) and SnCostGen (C06);
# C02+C03+C06+C10+C13: SamplerGen / QuantGen / SnCostGen), so that two runs never rewrite a generated file the other one is building
groups="C01,C08 C02,C03,C04,C05,C06,C10,C12,C13 C07 C09 C11 C14 C15 C16 C17 C18 C19 C20"
want=" $(echo "$ids" | tr '\n' ' ') "
for g in $groups; do echo "$g"; done > build/regress/groups.txt
cat build/regress/groups.txt | xargs -P $lanes -I{} bash -c 'for p in $(echo {} | tr "," " "); do for id in $(ls /verif/seeded | grep "^$p-"); do case "'"$want"'" in *" $id "*) run_one $id;; esac; done; done' >> build/regress/summary.txt
