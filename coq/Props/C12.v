(* C12 -- cost is a differentiable, monotone function of the architecture only (thin slice; extended below) *)
From Coq Require Import QArith ZArith List.
Import ListNotations.
Require Import Plinio.Base.Qx Plinio.Model.Masks Plinio.Model.CostGrad Plinio.Proofs.CostGrad.
Open Scope Q_scope.

Theorem C12_pit_cost_nonneg : forall (St : Type) (f : St -> Q -> Q -> Q -> Q),
  (forall s a b c, 0 <= a -> 0 <= b -> 0 <= c -> 0 <= f s a b c) ->
  (forall s a b c a' b' c', 0 <= a <= a' -> 0 <= b <= b' -> 0 <= c <= c' -> f s a b c <= f s a' b' c') ->
  forall n : net St, wf_net n -> 0 <= pit_cost f n.
Proof. exact pit_cost_nonneg. Qed.
Print Assumptions C12_pit_cost_nonneg.
