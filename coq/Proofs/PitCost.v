(* Proofs about the PIT cost model (Model/PitCost.v)                                                (C04) *)
From Coq Require Import QArith Qround ZArith List Bool Arith Lia Lqa Setoid Morphisms.
Import ListNotations.
Require Import Plinio.Base.Qx Plinio.Base.Round Plinio.Model.Masks Plinio.Proofs.Masks Plinio.Model.PitCost.
Local Open Scope nat_scope.

(* ------------------------------------------------------------------ induction on calculators *)
Section CalcInd.
  Variable P : calc -> Prop.
  Hypothesis Hc : forall n, P (CConst n).
  Hypothesis Hm : forall i, P (CMod i).
  Hypothesis Hf : forall p m, P p -> P (CFlat p m).
  Hypothesis Hk : forall l, Forall P l -> P (CCat l).
  Fixpoint calc_ind2 (c : calc) : P c :=
    match c with
    | CConst n => Hc n
    | CMod i => Hm i
    | CFlat p m => Hf p m (calc_ind2 p)
    | CCat l => Hk l ((fix go (l : list calc) : Forall P l :=
                         match l with [] => Forall_nil P | c :: t => Forall_cons c (calc_ind2 c) (go t) end) l)
    end.
End CalcInd.

(* ------------------------------------------------------------------ counting *)
Lemma count_true_app a b : count_true (a ++ b) = count_true a + count_true b.
Proof. unfold count_true. rewrite filter_app, app_length. reflexivity. Qed.
Lemma count_true_repeat_true n : count_true (repeat true n) = n.
Proof. induction n; [reflexivity|]. unfold count_true in *. cbn. rewrite IHn. reflexivity. Qed.
Lemma count_true_repeat_false n : count_true (repeat false n) = 0.
Proof. induction n; [reflexivity|]. unfold count_true in *. cbn. exact IHn. Qed.
Lemma count_true_flat l m : count_true (flat_map (fun b => repeat b m) l) = m * count_true l.
Proof.
  induction l as [|b t IH]; cbn [flat_map].
  - unfold count_true. cbn. lia.
  - rewrite count_true_app, IH. destruct b.
    + rewrite count_true_repeat_true. unfold count_true. cbn. lia.
    + rewrite count_true_repeat_false. unfold count_true. cbn. lia.
Qed.

(* the number of features the calculator reports (all layers discrete) is the number of alive bits of its mask:
   in_channels handed to the cost function = in_features_opt = in_channels of the exported layer *)
Lemma calc_count_mask ms c : calc_count ms c = count_true (calc_mask ms c).
Proof.
  induction c as [n|i|p m IH|l IH] using calc_ind2; cbn [calc_count calc_mask].
  - symmetry. apply count_true_repeat_true.
  - reflexivity.
  - rewrite count_true_flat, IH. reflexivity.
  - induction IH as [|c t Hc Ht IHt]; [reflexivity|].
    rewrite count_true_app, <- Hc, <- IHt. reflexivity.
Qed.

(* ------------------------------------------------------------------ discrete cost = cost of the exported layers *)
Definition groups_blind (spec : cspec) : Prop :=
  forall k dw a b c g g' d e, s_fn spec k dw (mkHp a b c g d e) = s_fn spec k dw (mkHp a b c g' d e).
Definition dw_consistent (net : list layer) (ms : list lmask) : Prop :=
  Forall (fun lm => dw_consistent_b ms (fst lm) (snd lm) = true) (combine net ms).
Definition no_degenerate (net : list layer) (ms : list lmask) : Prop :=
  Forall (fun lm => degenerate_b ms (fst lm) (snd lm) = false) (combine net ms).

Lemma export_fixed ms l m : l_search l = false -> export_layer ms l m = l.
Proof. unfold export_layer. intros ->. reflexivity. Qed.

Lemma export_kind ms l m : l_kind (export_layer ms l m) = l_kind l.
Proof. unfold export_layer. destruct (l_search l); reflexivity. Qed.
Lemma export_search ms l m : l_search (export_layer ms l m) = l_search l.
Proof. unfold export_layer. destruct (l_search l) eqn:E; [reflexivity|exact E]. Qed.
Lemma export_sites ms l m : l_sites (export_layer ms l m) = l_sites l.
Proof. unfold export_layer. destruct (l_search l); reflexivity. Qed.
Lemma export_counted full ms l m : counted full (export_layer ms l m) = counted full l.
Proof. unfold counted. rewrite export_search. reflexivity. Qed.
Lemma export_sites_of spec ms l m : sites_of spec (export_layer ms l m) = sites_of spec l.
Proof. unfold sites_of. rewrite export_sites. reflexivity. Qed.

(* every hyper-parameter handed to the cost function, except `groups`, is the exported layer's *)
Lemma pit_hp_export ms l m site : l_search l = true ->
  pit_hp ms true l m site =
  let e := export_layer ms l m in mkHp (nq (l_cin e)) (nq (l_cout e)) (map nq (l_ks e)) (l_groups l) (l_bias e) site.
Proof.
  intros Hs. unfold pit_hp, export_layer. rewrite Hs. cbn [l_cin l_cout l_ks l_bias].
  rewrite calc_count_mask. destruct (l_kind l); reflexivity.
Qed.

Lemma dwc_refl n : dwc n n n = true.
Proof. unfold dwc. rewrite Nat.eqb_refl. reflexivity. Qed.

(* the constraint evaluated on the exported layer's own attributes *)
Lemma export_static_dw ms l m : l_search l = true ->
  dw_consistent_b ms l m = true -> degenerate_b ms l m = false ->
  static_dw (export_layer ms l m) = static_dw l.
Proof.
  intros Hs Hc Hd. unfold dw_consistent_b, degenerate_b in *. rewrite Hs in *. cbn [andb negb orb] in *.
  unfold export_layer. rewrite Hs. unfold static_dw at 1. cbn [l_kind l_cin l_cout l_groups].
  destruct (l_kind l) eqn:Ek; cbn [is_conv andb] in *.
  - destruct (static_dw l) eqn:Es; cbn [negb orb andb] in *.
    + apply Nat.eqb_eq in Hc. rewrite Hc. apply dwc_refl.
    + exact Hd.
  - destruct (static_dw l) eqn:Es; cbn [negb orb andb] in *.
    + apply Nat.eqb_eq in Hc. rewrite Hc. apply dwc_refl.
    + exact Hd.
  - unfold static_dw. rewrite Ek. reflexivity.
Qed.

Lemma layer_cost_export spec ms l m : groups_blind spec ->
  dw_consistent_b ms l m = true -> degenerate_b ms l m = false ->
  pit_layer_cost spec ms true l m = plain_layer_cost spec (export_layer ms l m).
Proof.
  intros Hg Hc Hd. unfold pit_layer_cost, plain_layer_cost. rewrite export_sites_of, export_kind.
  destruct (l_search l) eqn:Hs.
  - rewrite (export_static_dw ms l m Hs Hc Hd). f_equal. apply map_ext. intro site.
    rewrite (pit_hp_export ms l m site Hs). cbn zeta. unfold static_hp. apply Hg.
  - rewrite (export_fixed ms l m Hs). reflexivity.
Qed.

Theorem cost_discrete_eq_export spec net ms full :
  groups_blind spec -> dw_consistent net ms -> no_degenerate net ms ->
  pit_cost spec net ms true full = plain_cost spec full (export_net net ms).
Proof.
  intros Hg Hc Hd. unfold pit_cost, plain_cost, export_net. rewrite map_map. f_equal.
  apply map_ext_in. intros [l m] Hin. cbn [fst snd]. rewrite export_counted.
  destruct (counted full l); [|reflexivity].
  unfold dw_consistent, no_degenerate in *. rewrite Forall_forall in Hc, Hd.
  apply layer_cost_export; [exact Hg|exact (Hc _ Hin)|exact (Hd _ Hin)].
Qed.

(* ================================================================== open masks: k_eff = K for every K *)

Lemma keep_alive_ones n : keep_alive (repeat 1%Q n) = repeat 1%Q n.
Proof.
  induction n as [|n IH]; [reflexivity|]. destruct n as [|n]; [reflexivity|].
  change (repeat 1%Q (S (S n))) with (1%Q :: repeat 1%Q (S n)).
  change (keep_alive (1%Q :: repeat 1%Q (S n))) with (qabs 1 :: keep_alive (repeat 1%Q (S n))).
  rewrite IH. reflexivity.
Qed.

Lemma nq_S n : (nq (S n) == nq n + 1)%Q.
Proof. unfold nq. rewrite Nat2Z.inj_succ. unfold Z.succ. rewrite inject_Z_plus. reflexivity. Qed.
Lemma nq_plus a b : (nq (a + b) == nq a + nq b)%Q.
Proof. unfold nq. rewrite Nat2Z.inj_add, inject_Z_plus. reflexivity. Qed.
Lemma nq_mult a b : (nq (a * b) == nq a * nq b)%Q.
Proof. unfold nq. rewrite Nat2Z.inj_mul, inject_Z_mult. reflexivity. Qed.

Lemma qsum_repeat_one n : (qsum (repeat 1%Q n) == nq n)%Q.
Proof. induction n as [|n IH]; [reflexivity|]. cbn [repeat]. rewrite qsum_cons, IH, nq_S. ring. Qed.

Lemma firstn_repeat {A} (x : A) n k : n <= k -> firstn n (repeat x k) = repeat x n.
Proof. revert k. induction n as [|n IH]; intros k H; [reflexivity|]. destruct k as [|k]; [lia|]. cbn. f_equal. apply IH. lia. Qed.

Lemma nq_inv n : 1 <= n -> (nq n * (1 # Pos.of_nat n) == 1)%Q.
Proof.
  intros H. unfold nq, Qeq, Qmult. cbn [Qnum Qden]. destruct n as [|n]; [lia|].
  assert (E : Zpos (Pos.of_nat (S n)) = Z.of_nat (S n)) by (rewrite <- Pos.of_nat_succ, Zpos_P_of_succ_nat, Nat2Z.inj_succ; lia).
  cbn [inject_Z Qnum Qden]. rewrite Pos.mul_1_l, E. lia.
Qed.

(* theta_beta * beta_norm : all ones *)
Lemma beta_open_nth K t : t < K ->
  (qsum (firstn (S t) (keep_alive (repeat 1%Q K))) * (1 # Pos.of_nat (S t)) == 1)%Q.
Proof. intros H. rewrite keep_alive_ones, firstn_repeat by lia. rewrite qsum_repeat_one. apply nq_inv. lia. Qed.

Lemma qsum_indicator (c : nat -> bool) l :
  (qsum (map (fun i => if c i then 1%Q else 0%Q) l) == nq (length (filter c l)))%Q.
Proof.
  induction l as [|x t IH]; [reflexivity|]. cbn [map filter]. rewrite qsum_cons, IH.
  destruct (c x); cbn [length]; [rewrite nq_S|]; ring.
Qed.

Lemma theta_gamma_at_ones L d :
  (theta_gamma_at (repeat 1%Q L) d == nq (length (filter (fun p => Nat.eqb (d mod 2 ^ p) 0) (seq 0 L))))%Q.
Proof.
  unfold theta_gamma_at. rewrite repeat_length. rewrite <- qsum_indicator.
  apply qsum_map_ext. intros i Hi. apply in_seq in Hi.
  destruct (Nat.eqb (d mod 2 ^ i) 0); [|reflexivity].
  rewrite nth_indep with (d' := 1%Q) by (rewrite repeat_length; lia).
  rewrite nth_repeat. reflexivity.
Qed.

Lemma comb_count_pos L d : 1 <= L -> 1 <= length (filter (fun p => Nat.eqb (d mod 2 ^ p) 0) (seq 0 L)).
Proof.
  intros H. destruct L as [|L]; [lia|]. cbn [seq filter]. cbn [Nat.pow]. rewrite Nat.mod_1_r. cbn. lia.
Qed.

Lemma gamma_len_pos K : 1 <= gamma_len K.
Proof. unfold gamma_len. lia. Qed.

Lemma qmul3_map (f g : nat -> Q) l : qmul3 (map f l) (map g l) = map (fun i => (f i * g i)%Q) l.
Proof. unfold qmul3. induction l as [|x t IH]; [reflexivity|]. cbn. f_equal. exact IH. Qed.

Lemma qsum_map_one {A} (f : A -> Q) l : (forall x, In x l -> (f x == 1)%Q) -> (qsum (map f l) == nq (length l))%Q.
Proof.
  induction l as [|x t IH]; intros H; [reflexivity|]. cbn [map length]. rewrite qsum_cons, nq_S, IH, (H x) by (intros; try apply H; simpl; auto). ring.
Qed.

(* with all masks open the continuous effective kernel size is K, for EVERY K >= 1 *)
Theorem k_eff_open K : 1 <= K ->
  (k_eff_cont true K (repeat 1%Q K) (repeat 1%Q (gamma_len K)) == nq K)%Q.
Proof.
  intros HK. unfold k_eff_cont, theta_gamma, theta_beta, gamma_norm, beta_norm. rewrite repeat_length.
  rewrite !qmul3_map. transitivity (nq (length (seq 0 K))); [|rewrite seq_length; reflexivity].
  apply qsum_map_one. intros j Hj. apply in_seq in Hj. unfold dist.
  rewrite (beta_open_nth K j) by lia. rewrite keep_alive_ones, theta_gamma_at_ones.
  rewrite nq_inv; [ring|]. apply comb_count_pos, gamma_len_pos.
Qed.



Lemma count_true_all {A} (f : A -> bool) l : (forall x, In x l -> f x = true) -> count_true (map f l) = length l.
Proof.
  induction l as [|x t IH]; intros H; [reflexivity|]. unfold count_true in *. cbn [map filter].
  rewrite (H x) by (left; reflexivity). cbn [length]. f_equal. apply IH. intros y Hy. apply H. right. exact Hy.
Qed.

Lemma nq_ge_half n : 1 <= n -> bin (nq n) = true.
Proof. intros H. apply bin_true. unfold nq, Qlt. cbn. lia. Qed.
Lemma bin_eq x y : (x == y)%Q -> bin x = bin y.
Proof.
  intros E. destruct (bin y) eqn:B.
  - apply bin_true. apply bin_true in B. rewrite E. exact B.
  - apply bin_false. apply bin_false in B. rewrite E. exact B.
Qed.

Lemma combine_map_seq {A B} (f : nat -> A) (g : nat -> B) l : combine (map f l) (map g l) = map (fun i => (f i, g i)) l.
Proof. induction l as [|x t IH]; [reflexivity|]. cbn. f_equal. exact IH. Qed.

(* with all masks open every tap is kept, for EVERY K >= 1 *)
Theorem k_opt_open K : 1 <= K -> kernel_size_opt true K (repeat 1%Q K) (repeat 1%Q (gamma_len K)) = K.
Proof.
  intros HK. unfold kernel_size_opt, time_mask, theta_gamma, theta_beta. rewrite repeat_length.
  rewrite combine_map_seq, map_map. rewrite count_true_all; [apply seq_length|].
  intros j Hj. apply in_seq in Hj. cbn [fst snd]. apply andb_true_intro. split.
  - rewrite keep_alive_ones. rewrite (bin_eq _ _ (theta_gamma_at_ones _ _)). apply nq_ge_half, comb_count_pos, gamma_len_pos.
  - rewrite keep_alive_ones, firstn_repeat by lia. rewrite (bin_eq _ _ (qsum_repeat_one _)). apply nq_ge_half. lia.
Qed.

Lemma map_repeat' {A B} (f : A -> B) x n : map f (repeat x n) = repeat (f x) n.
Proof. induction n; [reflexivity|]. cbn. f_equal. assumption. Qed.

Lemma theta_a_open m n : m_alpha m = repeat 1%Q n -> theta_a m = repeat 1%Q n.
Proof.
  intros E. unfold theta_a, theta_alpha_frozen, theta_alpha. rewrite E.
  destruct (m_afrozen m); [exact (map_repeat' (fun _ => 1%Q) 1%Q n)|apply keep_alive_ones].
Qed.
Lemma out_opt_open m n : m_alpha m = repeat 1%Q n -> out_opt m = n.
Proof.
  intros E. unfold out_opt, feat_mask. rewrite (theta_a_open m n E), map_repeat'.
  change (bin 1) with true. clear. induction n; [reflexivity|]. unfold count_true in *. cbn. f_equal. assumption.
Qed.

(* ------------------------------------------------------------------ hyper-parameters up to equality of rationals *)
Definition hp_eq (a b : hp) : Prop :=
  (h_in a == h_in b)%Q /\ (h_out a == h_out b)%Q /\ Forall2 Qeq (h_k a) (h_k b) /\
  h_groups a = h_groups b /\ h_bias a = h_bias b /\ h_oshape a = h_oshape b.
(* a cost function of real numbers: equal rationals (3/3 and 1) give equal costs *)
Definition spec_proper (spec : cspec) : Prop :=
  forall k dw a b, hp_eq a b -> (s_fn spec k dw a == s_fn spec k dw b)%Q.

Lemma Forall2_Qeq_refl l : Forall2 Qeq l l.
Proof. induction l; constructor; [reflexivity|assumption]. Qed.

Lemma Forall2_nth {A B} (R : A -> B -> Prop) l1 l2 d1 d2 : Forall2 R l1 l2 -> R d1 d2 -> forall i, R (nth i l1 d1) (nth i l2 d2).
Proof. intros H Hd. induction H as [|x y l1 l2 Hxy H IH]; intros [|i]; cbn; auto. Qed.

Definition alpha_open (l : layer) (m : lmask) : Prop := m_alpha m = repeat 1%Q (l_cout l).

Section OpenNet.
  Variable net : list layer.
  Variable ms : list lmask.
  Hypothesis Hopen : Forall2 alpha_open net ms.

  Lemma alpha_open_nth i : alpha_open (nth i net dlayer) (nth i ms dmask).
  Proof. apply Forall2_nth; [exact Hopen|reflexivity]. Qed.

  Lemma calc_count_open c : calc_count ms c = calc_width net c.
  Proof.
    induction c as [n|i|p m IH|l IH] using calc_ind2; cbn [calc_count calc_width].
    - reflexivity.
    - apply out_opt_open, alpha_open_nth.
    - rewrite IH. reflexivity.
    - induction IH as [|c t Hc Ht IHt]; [reflexivity|]. rewrite Hc, IHt. reflexivity.
  Qed.
  Lemma calc_feat_open c : (calc_feat ms c == nq (calc_width net c))%Q.
  Proof.
    induction c as [n|i|p m IH|l IH] using calc_ind2; cbn [calc_feat calc_width].
    - reflexivity.
    - rewrite (theta_a_open _ _ (alpha_open_nth i)). apply qsum_repeat_one.
    - rewrite IH, nq_mult. reflexivity.
    - induction IH as [|c t Hc Ht IHt]; [reflexivity|]. rewrite Hc, IHt, nq_plus. reflexivity.
  Qed.
End OpenNet.

(* static well-formedness used by the open-mask theorem: the calculator describes a tensor as wide as the layer's
   input, a Conv1d has one kernel dimension K >= 1 *)
Definition wf_open (net : list layer) (l : layer) : Prop :=
  l_search l = true ->
  calc_width net (l_calc l) = l_cin l /\ (l_kind l = KConv1d -> l_ks l = [ksize l] /\ 1 <= ksize l).

Lemma open_mask_alpha l m : open_mask l m -> alpha_open l m.
Proof. intros [H _]. exact H. Qed.

Lemma open_hp net ms d l m site :
  Forall2 alpha_open net ms -> wf_open net l -> l_search l = true -> open_mask l m ->
  hp_eq (pit_hp ms d l m site) (static_hp l site).
Proof.
  intros Ho Hw Hs [Ha [Hb Hg]]. destruct (Hw Hs) as [Hc Hk]. unfold hp_eq, pit_hp, static_hp. cbn [h_in h_out h_k h_groups h_bias h_oshape].
  repeat split.
  - destruct d; [rewrite (calc_count_open net ms Ho), Hc; reflexivity|rewrite (calc_feat_open net ms Ho), Hc; reflexivity].
  - destruct d; [rewrite (out_opt_open m _ Ha); reflexivity|rewrite (theta_a_open m _ Ha); apply qsum_repeat_one].
  - destruct (l_kind l) eqn:Ek; try apply Forall2_Qeq_refl.
    destruct (Hk eq_refl) as [E1 E2]. rewrite E1. cbn [map]. constructor; [|constructor].
    rewrite Hb, Hg. destruct d; [rewrite (k_opt_open _ E2); reflexivity|apply (k_eff_open _ E2)].
Qed.

Lemma qsum_map_ext2 {A} (f g : A -> Q) l : (forall x, In x l -> (f x == g x)%Q) -> (qsum (map f l) == qsum (map g l))%Q.
Proof. apply qsum_map_ext. Qed.

Lemma open_layer_cost spec net ms d l m :
  spec_proper spec -> Forall2 alpha_open net ms -> wf_open net l -> open_mask l m ->
  (pit_layer_cost spec ms d l m == plain_layer_cost spec l)%Q.
Proof.
  intros Hp Ho Hw Hm. unfold pit_layer_cost, plain_layer_cost. apply qsum_map_ext. intros site _.
  destruct (l_search l) eqn:Hs; [|reflexivity]. apply Hp. apply (open_hp net); assumption.
Qed.

(* before any mask is pruned: continuous cost = discrete cost = cost of the original network *)
Theorem cost_open_eq_original spec net ms d full :
  spec_proper spec -> Forall (wf_open net) net -> Forall2 open_mask net ms ->
  (pit_cost spec net ms d full == plain_cost spec full net)%Q.
Proof.
  intros Hp Hw Hm.
  assert (Ho : Forall2 alpha_open net ms).
  { clear - Hm. induction Hm; constructor; [apply open_mask_alpha|]; assumption. }
  unfold pit_cost, plain_cost.
  assert (G : forall net' ms', Forall (wf_open net) net' -> Forall2 open_mask net' ms' ->
    (qsum (map (fun lm => if counted full (fst lm) then pit_layer_cost spec ms d (fst lm) (snd lm) else 0%Q) (combine net' ms')) ==
     qsum (map (fun l => if counted full l then plain_layer_cost spec l else 0%Q) net'))%Q).
  { intros net' ms' Hw' Hm'. induction Hm' as [|l m net' ms' Hlm Hm' IH]; [reflexivity|].
    inversion Hw' as [|? ? Hwl Hw'']; subst. cbn [combine map]. rewrite !qsum_cons, (IH Hw''). cbn [fst snd].
    destruct (counted full l); [|reflexivity]. rewrite (open_layer_cost spec net ms d l m Hp Ho Hwl Hlm). reflexivity. }
  apply G; assumption.
Qed.

Lemma open_of_open l : open_mask l (open_of l).
Proof. unfold open_mask, open_of. cbn. repeat split. Qed.
Lemma open_of_net net : Forall2 open_mask net (map open_of net).
Proof. induction net; constructor; [apply open_of_open|assumption]. Qed.



(* ------------------------------------------------------------------ the five built-in specifications *)
Lemma groups_blind_params : groups_blind params_spec.
Proof. intros k dw a b c g g' d e. reflexivity. Qed.
Lemma groups_blind_params_nb : groups_blind params_nb_spec.
Proof. intros k dw a b c g g' d e. reflexivity. Qed.
Lemma groups_blind_ops : groups_blind ops_spec.
Proof. intros k dw a b c g g' d e. reflexivity. Qed.
Lemma groups_blind_ops_nb : groups_blind ops_nb_spec.
Proof. intros k dw a b c g g' d e. reflexivity. Qed.
Lemma groups_blind_gap8 : groups_blind gap8_spec.
Proof. intros k dw a b c g g' d e. reflexivity. Qed.

Lemma nth_Forall2_Qeq l l' i : Forall2 Qeq l l' -> (nth i l 0 == nth i l' 0)%Q.
Proof. intros H. revert i. induction H; intros [|i]; cbn; auto; reflexivity. Qed.

Lemma fl_proper x y n : (x == y)%Q -> fl x n = fl y n.
Proof. intros E. unfold fl. f_equal. apply Qfloor_comp. rewrite E. reflexivity. Qed.

Ltac hp_setup :=
  intros k dw [ai ao ak ag ab ash] [bi bo bk bg bb bsh] (Hi & Ho & Hk & Hg & Hb & Hs);
  cbn [h_in h_out h_k h_groups h_bias h_oshape] in *; subst bg bb bsh;
  pose proof (nth_Forall2_Qeq _ _ 0 Hk) as Hk0; pose proof (nth_Forall2_Qeq _ _ 1 Hk) as Hk1.

Lemma proper_params : spec_proper params_spec.
Proof.
  hp_setup. cbn [s_fn params_spec]. unfold params_fn, k0, k1. cbn [h_in h_out h_k h_bias].
  destruct k, dw; rewrite ?Hi, ?Ho, ?Hk0, ?Hk1; reflexivity.
Qed.
Lemma proper_params_nb : spec_proper params_nb_spec.
Proof.
  hp_setup. cbn [s_fn params_nb_spec]. unfold params_nb_fn, k0, k1. cbn [h_in h_out h_k h_bias].
  destruct k, dw; rewrite ?Hi, ?Ho, ?Hk0, ?Hk1; reflexivity.
Qed.
Lemma proper_ops : spec_proper ops_spec.
Proof.
  hp_setup. cbn [s_fn ops_spec]. unfold ops_fn, params_fn, spatial, os, k0, k1. cbn [h_in h_out h_k h_bias h_oshape].
  destruct k, dw; rewrite ?Hi, ?Ho, ?Hk0, ?Hk1; reflexivity.
Qed.
Lemma proper_ops_nb : spec_proper ops_nb_spec.
Proof.
  hp_setup. cbn [s_fn ops_nb_spec]. unfold ops_nb_fn, params_nb_fn, spatial, os, k0, k1. cbn [h_in h_out h_k h_bias h_oshape].
  destruct k, dw; rewrite ?Hi, ?Ho, ?Hk0, ?Hk1; reflexivity.
Qed.
Lemma proper_gap8 : spec_proper gap8_spec.
Proof.
  hp_setup. cbn [s_fn gap8_spec]. unfold gap8_fn, os, k0, k1. cbn [h_in h_out h_k h_bias h_oshape].
  destruct k, dw; try reflexivity.
  - rewrite (fl_proper ao bo 4 Ho). rewrite Hk0, Hk1. reflexivity.
  - assert (E : (nth 0 ak 0 * nth 1 ak 0 * ai == nth 0 bk 0 * nth 1 bk 0 * bi)%Q) by (rewrite Hk0, Hk1, Hi; reflexivity).
    rewrite (fl_proper _ _ 4 E), (fl_proper ao bo 4 Ho), E. reflexivity.
  - rewrite (fl_proper ai bi 2 Hi), (fl_proper ao bo 4 Ho). reflexivity.
  - rewrite (fl_proper ai bi 2 Hi), (fl_proper ao bo 4 Ho). reflexivity.
Qed.

(* at 1 -> 1 channels the depthwise and the generic formula coincide *)
Definition dw_insensitive (spec : cspec) : Prop :=
  forall k h, (h_in h == 1)%Q -> (h_out h == 1)%Q -> (s_fn spec k true h == s_fn spec k false h)%Q.
Lemma dw_insensitive_params : dw_insensitive params_spec.
Proof. intros k h Hi Ho. cbn [s_fn params_spec]. unfold params_fn. destruct k; rewrite ?Hi, ?Ho; ring. Qed.
Lemma dw_insensitive_params_nb : dw_insensitive params_nb_spec.
Proof. intros k h Hi Ho. cbn [s_fn params_nb_spec]. unfold params_nb_fn. destruct k; rewrite ?Hi, ?Ho; ring. Qed.
Lemma dw_insensitive_ops : dw_insensitive ops_spec.
Proof. intros k h Hi Ho. cbn [s_fn ops_spec]. unfold ops_fn, params_fn. destruct k; rewrite ?Hi, ?Ho; ring. Qed.
Lemma dw_insensitive_ops_nb : dw_insensitive ops_nb_spec.
Proof. intros k h Hi Ho. cbn [s_fn ops_nb_spec]. unfold ops_nb_fn, params_nb_fn. destruct k; rewrite ?Hi, ?Ho; ring. Qed.

(* ------------------------------------------------------------------ discrete = exported, without the guard, for such metrics *)
Lemma layer_cost_export_ins spec ms l m : groups_blind spec -> dw_insensitive spec ->
  wf_layer_b l = true -> dw_consistent_b ms l m = true ->
  (pit_layer_cost spec ms true l m == plain_layer_cost spec (export_layer ms l m))%Q.
Proof.
  intros Hg Hi Hw Hc. destruct (degenerate_b ms l m) eqn:Hd.
  2: { rewrite (layer_cost_export spec ms l m Hg Hc Hd). reflexivity. }
  unfold degenerate_b in Hd.
  apply andb_prop in Hd. destruct Hd as [Hd1 Hd2]. apply andb_prop in Hd1. destruct Hd1 as [Hd1 Hn].
  apply andb_prop in Hd1. destruct Hd1 as [Hs Hk]. apply negb_true_iff in Hn.
  assert (G1 : l_groups l = 1).
  { unfold wf_layer_b in Hw. apply andb_prop in Hw. destruct Hw as [_ Hw].
    destruct (l_kind l); cbn [is_conv] in Hk; try discriminate;
      apply andb_prop in Hw; destruct Hw as [Hw _]; rewrite Hn in Hw; cbn [andb orb] in Hw;
      rewrite orb_false_r in Hw; apply Nat.eqb_eq in Hw; exact Hw. }
  unfold dwc in Hd2. rewrite G1 in Hd2. apply andb_prop in Hd2. destruct Hd2 as [E1 E2]. apply Nat.eqb_eq in E1, E2.
  assert (Ed : static_dw (export_layer ms l m) = true).
  { unfold export_layer. rewrite Hs. unfold static_dw at 1. cbn [l_kind l_cin l_cout l_groups].
    destruct (l_kind l); cbn [is_conv] in Hk; try discriminate; rewrite Hn, G1, E1, E2; reflexivity. }
  unfold pit_layer_cost, plain_layer_cost. rewrite export_sites_of, export_kind, Ed, Hn, Hs.
  apply qsum_map_ext. intros site _.
  rewrite (pit_hp_export ms l m site Hs). cbn zeta.
  rewrite (Hg _ _ _ _ _ (l_groups l) (l_groups (export_layer ms l m))). symmetry.
  apply Hi; unfold static_hp; cbn [h_in h_out]; unfold export_layer; rewrite Hs; cbn [l_cin l_cout]; rewrite ?E1, ?E2; reflexivity.
Qed.

Definition wf_net (net : list layer) : Prop := Forall (fun l => wf_layer_b l = true) net.

Lemma In_combine_l {A B} (l : list A) (l' : list B) x y : In (x, y) (combine l l') -> In x l.
Proof. apply in_combine_l. Qed.

Theorem cost_discrete_eq_export_insensitive spec net ms full :
  groups_blind spec -> dw_insensitive spec -> wf_net net -> dw_consistent net ms ->
  (pit_cost spec net ms true full == plain_cost spec full (export_net net ms))%Q.
Proof.
  intros Hg Hi Hw Hc. unfold pit_cost, plain_cost, export_net. rewrite map_map.
  apply qsum_map_ext. intros [l m] Hin. cbn [fst snd]. rewrite export_counted.
  destruct (counted full l); [|reflexivity].
  unfold dw_consistent, wf_net in *. rewrite Forall_forall in Hc, Hw.
  apply layer_cost_export_ins; [exact Hg|exact Hi|apply Hw; exact (in_combine_l _ _ _ _ Hin)|exact (Hc _ Hin)].
Qed.

(* ------------------------------------------------------------------ params = number of weights and biases *)
Lemma nq_bias (b : bool) (n : nat) : (nq (if b then n else 0%nat) == bq b * nq n)%Q.
Proof. destruct b; unfold bq; [ring|]. unfold nq. cbn. ring. Qed.

Lemma params_layer_numel l : wf_layer_b l = true -> (plain_layer_cost params_spec l == nq (numel l))%Q.
Proof.
  intros Hw. unfold wf_layer_b in Hw. apply andb_prop in Hw. destruct Hw as [Hs Hw].
  unfold plain_layer_cost, sites_of. cbn [s_shared params_spec s_fn].
  destruct (l_sites l) as [|site rest]; [discriminate|]. cbn [firstn map]. rewrite qsum_cons, qsum_nil.
  unfold numel, static_hp, params_fn, static_dw, k0, k1. cbn [h_in h_out h_k h_bias].
  destruct (l_kind l) eqn:Ek.
  - (* conv1d *) apply andb_prop in Hw. destruct Hw as [Hg Hl]. apply Nat.eqb_eq in Hl.
    destruct (l_ks l) as [|ka [|kb ks]]; try discriminate. cbn [map nth prod_nat fold_right].
    destruct (dwc (l_cin l) (l_cout l) (l_groups l)) eqn:Ed.
    + unfold dwc in Ed. apply andb_prop in Ed. destruct Ed as [E1 E2]. apply Nat.eqb_eq in E1, E2.
      unfold static_dw in Hg. rewrite Ek in Hg. unfold dwc in Hg. rewrite E1, E2, !Nat.eqb_refl in Hg. cbn [andb] in Hg.
      assert (G : 1 <= l_groups l).
      { destruct (Nat.eqb (l_groups l) 1) eqn:E; [apply Nat.eqb_eq in E; lia|]. cbn [orb] in Hg. apply Nat.leb_le in Hg. exact Hg. }
      rewrite E1, E2, Nat.div_same by lia. rewrite nq_plus, !nq_mult, nq_bias. change (nq 1) with 1%Q. ring.
    + unfold static_dw in Hg. rewrite Ek, Ed in Hg. cbn [andb orb] in Hg. rewrite orb_false_r in Hg. apply Nat.eqb_eq in Hg.
      rewrite Hg, Nat.div_1_r. rewrite nq_plus, !nq_mult, nq_bias. change (nq 1) with 1%Q. ring.
  - (* conv2d *) apply andb_prop in Hw. destruct Hw as [Hg Hl]. apply Nat.eqb_eq in Hl.
    destruct (l_ks l) as [|ka [|kb [|kc ks]]]; try discriminate. cbn [map nth prod_nat fold_right].
    destruct (dwc (l_cin l) (l_cout l) (l_groups l)) eqn:Ed.
    + unfold dwc in Ed. apply andb_prop in Ed. destruct Ed as [E1 E2]. apply Nat.eqb_eq in E1, E2.
      unfold static_dw in Hg. rewrite Ek in Hg. unfold dwc in Hg. rewrite E1, E2, !Nat.eqb_refl in Hg. cbn [andb] in Hg.
      assert (G : 1 <= l_groups l).
      { destruct (Nat.eqb (l_groups l) 1) eqn:E; [apply Nat.eqb_eq in E; lia|]. cbn [orb] in Hg. apply Nat.leb_le in Hg. exact Hg. }
      rewrite E1, E2, Nat.div_same by lia. rewrite nq_plus, !nq_mult, nq_bias. change (nq 1) with 1%Q. ring.
    + unfold static_dw in Hg. rewrite Ek, Ed in Hg. cbn [andb orb] in Hg. rewrite orb_false_r in Hg. apply Nat.eqb_eq in Hg.
      rewrite Hg, Nat.div_1_r. rewrite nq_plus, !nq_mult, nq_bias. change (nq 1) with 1%Q. ring.
  - (* linear *) apply andb_prop in Hw. destruct Hw as [Hg Hl]. apply Nat.eqb_eq in Hg, Hl.
    destruct (l_ks l); try discriminate. cbn [prod_nat fold_right].
    rewrite Hg, Nat.div_1_r. rewrite nq_plus, !nq_mult, nq_bias. change (nq 1) with 1%Q. ring.
Qed.

Lemma nq_fold_sum (f : layer -> nat) (net : list layer) :
  (nq (fold_right Nat.add 0%nat (map f net)) == qsum (map (fun l => nq (f l)) net))%Q.
Proof. induction net as [|l t IH]; [reflexivity|]. cbn [map fold_right]. rewrite nq_plus, qsum_cons, IH. reflexivity. Qed.

Theorem params_plain_is_numel net full : wf_net net ->
  (plain_cost params_spec full net == nq (numel_net full net))%Q.
Proof.
  intros Hw. unfold plain_cost, numel_net. rewrite nq_fold_sum. apply qsum_map_ext. intros l Hl.
  unfold wf_net in Hw. rewrite Forall_forall in Hw.
  destruct (counted full l); [apply params_layer_numel, Hw, Hl|reflexivity].
Qed.

Lemma export_wf ms l m : wf_layer_b l = true -> dw_consistent_b ms l m = true ->
  (l_search l = true -> static_dw l = true -> 1 <= out_opt m) -> wf_layer_b (export_layer ms l m) = true.
Proof.
  intros Hw Hc Hpos. destruct (l_search l) eqn:Hs; [|rewrite export_fixed; assumption].
  unfold wf_layer_b in *. rewrite export_sites, export_kind. apply andb_prop in Hw. destruct Hw as [Hsites Hw].
  rewrite Hsites. cbn [andb]. unfold export_layer. rewrite Hs. cbn [l_groups l_ks].
  unfold dw_consistent_b in Hc. rewrite Hs in Hc. cbn [andb] in Hc.
  destruct (l_kind l) eqn:Ek.
  - apply andb_prop in Hw. destruct Hw as [Hg Hl]. apply andb_true_intro. split; [|reflexivity].
    destruct (static_dw l) eqn:Ed.
    + cbn [negb orb] in Hc. apply Nat.eqb_eq in Hc. unfold static_dw. cbn [l_kind l_cin l_cout l_groups]. rewrite Hc, dwc_refl. cbn [andb]. apply orb_true_intro. right.
      apply Nat.leb_le. rewrite <- Hc. apply Hpos; reflexivity.
    + cbn [andb orb] in Hg. rewrite orb_false_r in Hg. rewrite Hg. reflexivity.
  - apply andb_prop in Hw. destruct Hw as [Hg Hl]. apply andb_true_intro. split; [|exact Hl].
    destruct (static_dw l) eqn:Ed.
    + cbn [negb orb] in Hc. apply Nat.eqb_eq in Hc. unfold static_dw. cbn [l_kind l_cin l_cout l_groups]. rewrite Hc, dwc_refl. cbn [andb]. apply orb_true_intro. right.
      apply Nat.leb_le. rewrite <- Hc. apply Hpos; reflexivity.
    + cbn [andb orb] in Hg. rewrite orb_false_r in Hg. rewrite Hg. reflexivity.
  - exact Hw.
Qed.

Lemma out_opt_pos m : m_alpha m <> [] -> 1 <= out_opt m.
Proof.
  intros H. unfold out_opt, feat_mask, theta_a. destruct (m_afrozen m).
  - unfold theta_alpha_frozen. rewrite map_map. change (fun x : Q => bin ((fun _ => 1%Q) x)) with (fun _ : Q => true).
    rewrite count_true_all by reflexivity. destruct (m_alpha m); [contradiction|cbn; lia].
  - apply (alpha_alive _ H).
Qed.

Definition masks_nonempty (net : list layer) (ms : list lmask) : Prop :=
  Forall (fun lm => m_alpha (snd lm) <> []) (combine net ms).

Lemma export_net_wf net ms : wf_net net -> dw_consistent net ms -> masks_nonempty net ms -> wf_net (export_net net ms).
Proof.
  intros Hw Hc Hn. unfold wf_net, export_net. apply Forall_forall. intros e He. apply in_map_iff in He.
  destruct He as [[l m] [E Hin]]. subst e. cbn [fst snd].
  unfold wf_net, dw_consistent, masks_nonempty in *. rewrite Forall_forall in Hw, Hc, Hn.
  apply export_wf; [apply Hw; exact (in_combine_l _ _ _ _ Hin)|exact (Hc _ Hin)|].
  intros _ _. apply out_opt_pos. exact (Hn _ Hin).
Qed.

(* for `params` the discrete PIT cost is the number of weights and biases of the exported conv / linear layers *)
Theorem params_is_numel net ms full : wf_net net -> dw_consistent net ms -> masks_nonempty net ms ->
  (pit_cost params_spec net ms true full == nq (numel_net full (export_net net ms)))%Q.
Proof.
  intros Hw Hc Hn.
  rewrite (cost_discrete_eq_export_insensitive params_spec net ms full groups_blind_params dw_insensitive_params Hw Hc).
  apply params_plain_is_numel, export_net_wf; assumption.
Qed.

(* ------------------------------------------------------------------ full_cost adds exactly the layers that are not searched *)
Definition fixed_cost (spec : cspec) (net : list layer) : Q :=
  qsum (map (fun l => if l_search l then 0%Q else plain_layer_cost spec l) net).

Theorem full_cost_adds_fixed spec net ms d : length ms = length net ->
  (pit_cost spec net ms d true == pit_cost spec net ms d false + fixed_cost spec net)%Q.
Proof.
  unfold pit_cost, fixed_cost. generalize ms at 2 4 as gms. intros gms. revert ms.
  induction net as [|l t IH]; intros [|m ms] H; try discriminate.
  - cbn. ring.
  - cbn [combine map]. rewrite !qsum_cons, (IH ms) by (cbn in H; lia). cbn [fst snd]. unfold counted.
    destruct (l_search l) eqn:Hs; cbn [orb].
    + ring.
    + unfold pit_layer_cost, plain_layer_cost. rewrite Hs. ring.
Qed.

(* ------------------------------------------------------------------ shared and per-invocation metrics *)
Definition site_cost (spec : cspec) (ms : list lmask) (d : bool) (l : layer) (m : lmask) (site : list nat) : Q :=
  s_fn spec (l_kind l) (static_dw l) (if l_search l then pit_hp ms d l m site else static_hp l site).

Theorem shared_counts_once spec ms d l m s rest : s_shared spec = true -> l_sites l = s :: rest ->
  (pit_layer_cost spec ms d l m == site_cost spec ms d l m s)%Q.
Proof. intros Hs E. unfold pit_layer_cost, sites_of. rewrite Hs, E. cbn [firstn map]. rewrite qsum_cons, qsum_nil. unfold site_cost. ring. Qed.

Theorem per_invocation_counts_each spec ms d l m : s_shared spec = false ->
  pit_layer_cost spec ms d l m = qsum (map (site_cost spec ms d l m) (l_sites l)).
Proof. intros Hs. unfold pit_layer_cost, sites_of. rewrite Hs. reflexivity. Qed.

Corollary invoked_twice spec ms d l m s : l_sites l = [s; s] ->
  (pit_layer_cost spec ms d l m == (if s_shared spec then 1 else 2) * site_cost spec ms d l m s)%Q.
Proof.
  intros E. destruct (s_shared spec) eqn:Hs.
  - rewrite (shared_counts_once spec ms d l m s [s] Hs E). ring.
  - rewrite (per_invocation_counts_each spec ms d l m Hs), E. cbn [map]. rewrite !qsum_cons, qsum_nil. ring.
Qed.

(* ------------------------------------------------------------------ the guard is necessary (gap8_latency) *)
Definition wit_net : list layer := [mkLayer KConv2d 1 3 1 [3; 3] true true (CConst 1) [[6; 6]]].
Definition wit_ms : list lmask := [mkMask false [0; 0; 0]%Q [] []].
Lemma wit_values : qpair (pit_cost gap8_spec wit_net wit_ms true false) = (225, 1)%Z /\
                   qpair (plain_cost gap8_spec false (export_net wit_net wit_ms)) = (1296, 1)%Z /\
                   map lsize (export_net wit_net wit_ms) = [(1, 1, 1, [3; 3])].
Proof. vm_compute. repeat split. Qed.

Theorem dw_degenerate_refuted : exists net ms, wf_net net /\ dw_consistent net ms /\ masks_nonempty net ms /\
  ~ (pit_cost gap8_spec net ms true false == plain_cost gap8_spec false (export_net net ms))%Q.
Proof.
  exists wit_net, wit_ms. repeat split.
  - repeat constructor.
  - repeat constructor.
  - repeat constructor. cbn. discriminate.
  - intro H. vm_compute in H. discriminate H.
Qed.
