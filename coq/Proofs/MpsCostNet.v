(* Proofs about Model/MpsCostNet.v (C05, network level). *)
From Coq Require Import String List Arith Bool QArith Lia Lqa.
Import ListNotations.
Require Import Plinio.Base.Qx Plinio.Model.MpsNet Plinio.Proofs.MpsNet Plinio.Model.MpsCost Plinio.Proofs.MpsCost Plinio.Model.MpsCostNet.
Open Scope Q_scope.

Section Fuel.
  Variable net : list node.
  Variable lays : list lay.
  Hypothesis Hwf : wf net = true.

  Lemma sbv_le : forall f i, (sbv net f i <= i)%nat.
  Proof.
    induction f; intros i; simpl; [lia|].
    destruct (nth_error net i) as [nd|] eqn:E; [|lia].
    pose proof (wf_nth net i nd Hwf E) as Hn.
    destruct nd; simpl in Hn; try lia.
    - apply Nat.ltb_lt in Hn. specialize (IHf src). lia.
    - apply Nat.ltb_lt in Hn. specialize (IHf src). lia.
    - apply andb_true_iff in Hn. destruct Hn as [Ha _]. apply Nat.ltb_lt in Ha. specialize (IHf a). lia.
  Qed.

  Lemma sbv_fuel : forall f f' i, (i < f)%nat -> (i < f')%nat -> sbv net f i = sbv net f' i.
  Proof.
    induction f; intros f' i H H'; [lia|]. destruct f'; [lia|]. simpl.
    destruct (nth_error net i) as [nd|] eqn:E; [|reflexivity].
    pose proof (wf_nth net i nd Hwf E) as Hn.
    destruct nd; simpl in Hn; try reflexivity.
    - apply Nat.ltb_lt in Hn. apply IHf; lia.
    - apply Nat.ltb_lt in Hn. apply IHf; lia.
    - apply andb_true_iff in Hn. destruct Hn as [Ha _]. apply Nat.ltb_lt in Ha. apply IHf; lia.
  Qed.

  Lemma fcv_fuel : forall f f' i, (i < f)%nat -> (i < f')%nat -> fcv net lays f i = fcv net lays f' i.
  Proof.
    induction f; intros f' i H H'; [lia|]. destruct f'; [lia|]. simpl.
    destruct (nth_error net i) as [nd|] eqn:E; [|reflexivity].
    pose proof (wf_nth net i nd Hwf E) as Hn.
    destruct nd; simpl in Hn; try reflexivity.
    - apply Nat.ltb_lt in Hn. apply IHf; lia.
    - apply Nat.ltb_lt in Hn. f_equal. apply IHf; lia.
    - apply andb_true_iff in Hn. destruct Hn as [Ha _]. apply Nat.ltb_lt in Ha.
      rewrite (sbv_fuel f f' a) by lia. pose proof (sbv_le f' a). apply IHf; lia.
  Qed.
End Fuel.

(* "tensor s carries m times the features of the features-defining layer p" through ReLU / pooling / flatten *)
Inductive feeds (net : list node) (p : nat) : nat -> Q -> Prop :=
| feeds_here : forall nd, nth_error net p = Some nd -> (ltype_of nd = Some LConv \/ ltype_of nd = Some LLin) -> feeds net p p 1
| feeds_prop : forall s s' m, nth_error net s = Some (NProp s') -> feeds net p s' m -> feeds net p s m
| feeds_flat : forall s s' k m, nth_error net s = Some (NFlat s' k) -> feeds net p s' m ->
    feeds net p s (m * inject_Z (Z.of_nat k)).

Lemma feeds_fcv : forall net lays p s m, wf net = true -> feeds net p s m ->
  forall f, (s < f)%nat ->
  fcv net lays f s == m * own_out net lays p /\ fcv net lays f (sbv net f s) == m * own_out net lays p.
Proof.
  intros net lays p s m Hwf H. induction H; intros f Hf; (destruct f; [lia|]).
  - simpl. rewrite H. destruct nd; simpl in H0; destruct H0 as [A|A]; try discriminate; simpl; rewrite H; split; ring.
  - pose proof (wf_nth _ _ _ Hwf H) as Hn. simpl in Hn. apply Nat.ltb_lt in Hn.
    destruct (IHfeeds f ltac:(lia)) as [I1 I2]. split.
    + simpl. rewrite H. exact I1.
    + assert (E : sbv net (S f) s = sbv net f s') by (simpl; rewrite H; reflexivity).
      rewrite E. pose proof (sbv_le net Hwf f s').
      rewrite (fcv_fuel net lays Hwf (S f) f) by lia. exact I2.
  - pose proof (wf_nth _ _ _ Hwf H) as Hn. simpl in Hn. apply Nat.ltb_lt in Hn.
    destruct (IHfeeds f ltac:(lia)) as [I1 _].
    assert (E : sbv net (S f) s = s) by (simpl; rewrite H; reflexivity).
    rewrite E. simpl. rewrite H. rewrite I1. split; ring.
Qed.

(* the code shows a consumer m x (own effective output features of its features-defining producer) *)
Theorem ein_feeds : forall net lays i nd s p m, wf net = true ->
  nth_error net i = Some nd -> first_src nd = Some s -> feeds net p s m ->
  ein_of net lays false s == m * own_out net lays p.
Proof.
  intros net lays i nd s p m Hwf E Hs Hf. unfold ein_of, F.
  assert (Hi : (i < length net)%nat) by (apply nth_error_Some; congruence).
  pose proof (wf_nth net i nd Hwf E) as Hn.
  assert (s < i)%nat.
  { destruct nd; simpl in Hs; inversion Hs; subst; simpl in Hn; try (apply Nat.ltb_lt in Hn; lia).
    apply andb_true_iff in Hn. destruct Hn as [Ha _]. apply Nat.ltb_lt in Ha. lia. }
  apply (feeds_fcv net lays p s m Hwf Hf). lia.
Qed.

(* network level: pruning channels of a producer lowers what its consumer is shown, hence its cost, whatever the
   consumer type, through any chain of ReLU / pooling / flatten.  (Chains through a depthwise layer / add: see the
   refutation below — the two open findings.) *)
Theorem net_producer_pruning_lowers_consumer : forall net lays lays' i nd s p m, wf net = true ->
  nth_error net i = Some nd -> first_src nd = Some s -> feeds net p s m -> 0 < m ->
  own_out net lays' p < own_out net lays p ->
  ein_of net lays' false s < ein_of net lays false s.
Proof.
  intros net lays lays' i nd s p m Hwf E Hs Hf Hm Hlt.
  rewrite (ein_feeds net lays i nd s p m), (ein_feeds net lays' i nd s p m) by assumption.
  assert (0 < own_out net lays p - own_out net lays' p) by lra.
  pose proof (Qmult_lt_0_compat _ _ Hm H). lra.
Qed.

Corollary net_producer_pruning_lowers_consumer_cost : forall net lays lays' i nd s p m t cin cout kh kw oh ow eout ip wp tw,
  wf net = true -> nth_error net i = Some nd -> first_src nd = Some s -> feeds net p s m -> 0 < m ->
  own_out net lays' p < own_out net lays p -> t <> LDw ->
  0 < kh -> 0 < kw -> 0 < oh -> 0 < ow -> 0 < eout -> 0 < wp -> 0 < ip ->
  entry (params_bit t) (modified_vars true t (static_vars t cin cout kh kw oh ow) (ein_of net lays' false s) eout) ip wp tw
  < entry (params_bit t) (modified_vars true t (static_vars t cin cout kh kw oh ow) (ein_of net lays false s) eout) ip wp tw /\
  entry (ops_bit t) (modified_vars true t (static_vars t cin cout kh kw oh ow) (ein_of net lays' false s) eout) ip wp tw
  < entry (ops_bit t) (modified_vars true t (static_vars t cin cout kh kw oh ow) (ein_of net lays false s) eout) ip wp tw.
Proof.
  intros. apply producer_pruning_lowers_consumer; try assumption.
  eapply net_producer_pruning_lowers_consumer; eauto.
Qed.

(* the code as it is: a depthwise layer that prunes channels of its own (own selector, or network-input group)
   does not lower what a conv consumer is shown; the intended (mask) propagation does *)
Definition pc_lay (th : list (list Q)) : lay := mkLay [3; 3; 4; 4] [8] [1] [0; 8] true [] th (Some 0%nat) false.
Theorem net_pruning_behind_depthwise_refuted : exists net lays lays' dw c s,
  wf net = true /\ nth_error net dw = Some (NDw s c) /\
  own_out net lays' dw < own_out net lays dw /\
  ein_of net lays' false dw == ein_of net lays false dw /\
  ein_of net lays' true dw < ein_of net lays true dw.
Proof.
  exists [NIn 3; NConv 0 3 4; NDw 1 4; NConv 2 4 2; NFlat 3 16; NLin 4 32 2],
         [no_lay; pc_lay [[0;0;0;0];[1;1;1;1]]; pc_lay [[0;0;0;0];[1;1;1;1]]; pc_lay [[0;0];[1;1]]; no_lay; pc_lay [[0;0];[1;1]]],
         [no_lay; pc_lay [[0;0;0;0];[1;1;1;1]]; pc_lay [[1;0;0;0];[0;1;1;1]]; pc_lay [[0;0];[1;1]]; no_lay; pc_lay [[0;0];[1;1]]],
         2%nat, 4%nat, 1%nat.
  repeat split; vm_compute; try reflexivity.
Qed.
Theorem net_pruning_input_group_refuted : exists net lays lays' dw c s,
  wf net = true /\ nth_error net dw = Some (NDw s c) /\ nth_error net s = Some (NIn c) /\
  own_out net lays' dw < own_out net lays dw /\
  ein_of net lays' false dw == ein_of net lays false dw /\
  ein_of net lays' true dw < ein_of net lays true dw.
Proof.
  exists [NIn 3; NDw 0 3; NConv 1 3 2; NFlat 2 16; NLin 3 32 2],
         [no_lay; pc_lay [[0;0;0];[1;1;1]]; pc_lay [[0;0];[1;1]]; no_lay; pc_lay [[0;0];[1;1]]],
         [no_lay; pc_lay [[0;1;0];[1;0;1]]; pc_lay [[0;0];[1;1]]; no_lay; pc_lay [[0;0];[1;1]]],
         1%nat, 3%nat, 0%nat.
  repeat split; vm_compute; try reflexivity.
Qed.

(* ------------------------------------------------------------------ exact network cost, one-hot coefficients *)
Definition node_bits (cost_of : ltype -> Q -> Q -> Q -> Q -> Q -> Q -> Q) (net : list node) (lays : list lay) (intended : bool)
    (ki kw : nat -> nat) (ops : bool) (i : nat) : Q :=
  match nth_error net i with
  | Some nd =>
      match ltype_of nd, first_src nd with
      | Some t, Some s =>
          let l := lay_at lays i in let g := fun k => nth k (l_geom l) 0 in
          cost_of t (g 0%nat) (g 1%nat) (g 2%nat) (g 3%nat) (ein_of net lays intended s) (own_out net lays i)
          * nth (kw i) (l_pw l) 0 * (if ops then nth (ki i) (l_pin l) 0 else 1)
      | _, _ => 0
      end
  | None => 0
  end.

Definition onehot_layers (net : list node) (lays : list lay) (ki kw : nat -> nat) : Prop :=
  forall i nd t, nth_error net i = Some nd -> ltype_of nd = Some t ->
    let l := lay_at lays i in
    l_pc l = false /\ (ki i < length (l_pin l))%nat /\ (kw i < length (l_pw l))%nat /\
    l_tin l = onehotQ (ki i) (length (l_pin l)) /\ l_tw l = onehotQ (kw i) (length (l_pw l)).

(* per-layer search, eval / hard mode: the network cost is the sum over the layers of
   (own weights with effective input features) x selected weight bits  [x selected input bits x pixels for ops] *)
Theorem net_cost_params_exact : forall net lays intended ki kw, onehot_layers net lays ki kw ->
  mps_net_cost net lays params_bit intended
  == qsum (map (node_bits (fun t kh kw' _ _ ein eout => weights_of t kh kw' ein eout) net lays intended ki kw false) (seq 0 (length net))).
Proof.
  intros net lays intended ki kw H. unfold mps_net_cost. apply qsum_map_ext. intros i.
  unfold node_cost, node_bits. destruct (nth_error net i) as [nd|] eqn:E; [|reflexivity].
  destruct (ltype_of nd) as [t|] eqn:T; [|reflexivity]. destruct (first_src nd) as [s|]; [|reflexivity].
  destruct (H i nd t E T) as [Hpc [Hki [Hkw [Htin Htw]]]].
  unfold tw_of. rewrite Hpc, Htin, Htw. rewrite params_bit_exact by assumption. ring.
Qed.

Theorem net_cost_ops_exact : forall net lays intended ki kw, onehot_layers net lays ki kw ->
  mps_net_cost net lays ops_bit intended
  == qsum (map (node_bits (fun t kh kw' oh ow ein eout => macs_of t kh kw' oh ow ein eout) net lays intended ki kw true) (seq 0 (length net))).
Proof.
  intros net lays intended ki kw H. unfold mps_net_cost. apply qsum_map_ext. intros i.
  unfold node_cost, node_bits. destruct (nth_error net i) as [nd|] eqn:E; [|reflexivity].
  destruct (ltype_of nd) as [t|] eqn:T; [|reflexivity]. destruct (first_src nd) as [s|]; [|reflexivity].
  destruct (H i nd t E T) as [Hpc [Hki [Hkw [Htin Htw]]]].
  unfold tw_of. rewrite Hpc, Htin, Htw. rewrite ops_bit_exact by assumption. ring.
Qed.

(* per-layer search prunes nothing: every layer's own effective output is its channel count *)
Lemma own_out_per_layer : forall net lays i nd, nth_error net i = Some nd -> l_pc (lay_at lays i) = false ->
  own_out net lays i = inject_Z (Z.of_nat (chan_out nd)).
Proof. intros. unfold own_out, own_out_l. rewrite H, H0. reflexivity. Qed.

(* ------------------------------------------------------------------ per-channel search without the 0-bit row *)
Lemma perchannel_generic : forall (cf : spec -> Q) v (K : Q -> Q) C pin pw ns ki, (ki < length pin)%nat -> ~ C == 0 ->
  (forall ip wp tw, entry cf v ip wp tw == K ip * wp) ->
  layer_cost cf v pin (onehotQ ki (length pin)) pw (map (fun n => n / C) ns) == K (nth ki pin 0) / C * dot ns pw.
Proof.
  intros cf v K C pin pw ns ki Hi HC HK. unfold layer_cost, table_cost.
  set (tw := map (fun n => n / C) ns).
  set (h := fun (row : list Q) (ti : Q) => qsum (map (fun et => ti * snd et * fst et) (combine row tw))).
  set (m := cost_matrix cf v pin pw tw).
  assert (Lm : length m = length pin) by (unfold m, cost_matrix; apply map_length).
  change (qsum (map (fun rt => h (fst rt) (snd rt)) (combine m (onehotQ ki (length pin)))) == K (nth ki pin 0) / C * dot ns pw).
  rewrite <- Lm. rewrite (qsum_onehot _ h []) by (try lia; intros x; unfold h; apply qsum_map_zero; intros; ring).
  unfold m, cost_matrix.
  set (f := fun ip => map (fun wt => entry cf v ip (fst wt) (snd wt)) (combine pw tw)).
  rewrite (nth_indep _ [] (f 0)) by (rewrite map_length; lia).
  rewrite map_nth. unfold f, h.
  transitivity (qsum (map (fun et => 1 * snd et * fst et) (combine (map (fun wt => K (nth ki pin 0) * fst wt) (combine pw tw)) tw))).
  - apply qsum_combine_ext. induction (combine pw tw); cbn [map]; constructor; try assumption. apply HK.
  - subst tw. apply dot_scale. exact HC.
Qed.

Definition node_pc (net : list node) (lays : list lay) (intended : bool) (ki : nat -> nat) (ops : bool) (i : nat) : Q :=
  match nth_error net i with
  | Some nd =>
      match ltype_of nd, first_src nd with
      | Some t, Some s =>
          let l := lay_at lays i in let g := fun k => nth k (l_geom l) 0 in
          let ein := ein_of net lays intended s in
          (if ops then macs_of t (g 0%nat) (g 1%nat) (g 2%nat) (g 3%nat) ein 1 * nth (ki i) (l_pin l) 0
           else weights_of t (g 0%nat) (g 1%nat) ein 1)
          * dot (map qsum (l_th l)) (l_pw l)          (* sum_j (channels at precision j) x bits_j *)
      | _, _ => 0
      end
  | None => 0
  end.

Definition perchannel_layers (net : list node) (lays : list lay) (ki : nat -> nat) : Prop :=
  forall i nd t, nth_error net i = Some nd -> ltype_of nd = Some t ->
    let l := lay_at lays i in
    l_pc l = true /\ l_zero l = None /\ (chan_out nd > 0)%nat /\ (ki i < length (l_pin l))%nat /\
    l_tin l = onehotQ (ki i) (length (l_pin l)).

Lemma chan_nonzero : forall n, (n > 0)%nat -> ~ inject_Z (Z.of_nat n) == 0.
Proof. intros n H E. unfold Qeq in E. simpl in E. lia. Qed.

(* per-channel search without the 0-bit option: exact, every layer type, whole network *)
Theorem net_cost_params_exact_perchannel : forall net lays intended ki, perchannel_layers net lays ki ->
  mps_net_cost net lays params_bit intended == qsum (map (node_pc net lays intended ki false) (seq 0 (length net))).
Proof.
  intros net lays intended ki H. unfold mps_net_cost. apply qsum_map_ext. intros i.
  unfold node_cost, node_pc. destruct (nth_error net i) as [nd|] eqn:E; [|reflexivity].
  destruct (ltype_of nd) as [t|] eqn:T; [|reflexivity]. destruct (first_src nd) as [s|]; [|reflexivity].
  destruct (H i nd t E T) as [Hpc [Hz [HC [Hki Htin]]]].
  pose proof (chan_nonzero _ HC) as HC'.
  unfold own_out, own_out_l, tw_of, eff_out, row_means. rewrite E, Hpc, Hz, Htin.
  rewrite <- (map_map qsum (fun n => n / inject_Z (Z.of_nat (chan_out nd)))).
  set (C := inject_Z (Z.of_nat (chan_out nd))) in *.
  rewrite (perchannel_generic _ _ (fun _ => weights_of t (nth 0 (l_geom (lay_at lays i)) 0) (nth 1 (l_geom (lay_at lays i)) 0) (ein_of net lays intended s) C) C)
    by (try assumption; intros; apply entry_params).
  destruct t; unfold weights_of; field; exact HC'.
Qed.

Theorem net_cost_ops_exact_perchannel : forall net lays intended ki, perchannel_layers net lays ki ->
  mps_net_cost net lays ops_bit intended == qsum (map (node_pc net lays intended ki true) (seq 0 (length net))).
Proof.
  intros net lays intended ki H. unfold mps_net_cost. apply qsum_map_ext. intros i.
  unfold node_cost, node_pc. destruct (nth_error net i) as [nd|] eqn:E; [|reflexivity].
  destruct (ltype_of nd) as [t|] eqn:T; [|reflexivity]. destruct (first_src nd) as [s|]; [|reflexivity].
  destruct (H i nd t E T) as [Hpc [Hz [HC [Hki Htin]]]].
  pose proof (chan_nonzero _ HC) as HC'.
  unfold own_out, own_out_l, tw_of, eff_out, row_means. rewrite E, Hpc, Hz, Htin.
  rewrite <- (map_map qsum (fun n => n / inject_Z (Z.of_nat (chan_out nd)))).
  set (C := inject_Z (Z.of_nat (chan_out nd))) in *.
  rewrite (perchannel_generic _ _ (fun ip => macs_of t (nth 0 (l_geom (lay_at lays i)) 0) (nth 1 (l_geom (lay_at lays i)) 0) (nth 2 (l_geom (lay_at lays i)) 0) (nth 3 (l_geom (lay_at lays i)) 0) (ein_of net lays intended s) C * ip) C)
    by (try assumption; intros; rewrite entry_ops; ring).
  destruct t; unfold macs_of; field; exact HC'.
Qed.

(* ------------------------------------------------------------------ modules invoked more than once *)
Theorem net_cost_per_invocation : forall net lays cf intended,
  mps_net_cost_sh net lays false cf intended = mps_net_cost net lays cf intended.
Proof. intros. reflexivity. Qed.
Theorem net_cost_shared_no_reuse : forall net lays cf intended shared,
  (forall i, l_reuse (lay_at lays i) = false) ->
  mps_net_cost_sh net lays shared cf intended == mps_net_cost net lays cf intended.
Proof. intros. unfold mps_net_cost_sh, mps_net_cost. apply qsum_map_ext. intros i. rewrite H, andb_false_r. reflexivity. Qed.
