(* C06: "under hard selection the cost equals the same metric computed on the exported network", with the coefficients
   PRODUCED by the generated forward pass of every combiner (Gen/SamplerGen.v: `self.sample_alpha()` at the head of
   SuperNetCombiner.forward, translated by translator/sampler2coq.py) and READ by the generated cost functions
   (Gen/SnCostGen.v), and the winners export() uses (best_layer_index = arg-max of the raw alpha).
   Hard selection without noise: hard_softmax set, and eval mode or a plain soft-max sampler. *)
From Coq Require Import QArith ZArith List Bool Arith Lia.
Import ListNotations.
Require Import Plinio.Base.Qx Plinio.Model.SuperNet Plinio.Proofs.SuperNet Plinio.Gen.SnCostGen Plinio.Proofs.SnCostGen.
Require Plinio.Model.Sampler Plinio.Proofs.Sampler Plinio.Gen.SamplerGen Plinio.Proofs.SamplerGen.
Module S := Plinio.Model.Sampler.
Module SP := Plinio.Proofs.Sampler.
Module SG := Plinio.Gen.SamplerGen.
Module SGP := Plinio.Proofs.SamplerGen.
Local Open Scope Q_scope.

(* the two models of torch.argmax / F.one_hot agree *)
Lemma argmax_aux_from : forall l i bi bv, S.argmax_aux l i bi bv = argmax_from bi bv i l.
Proof. induction l as [|x l IH]; intros i bi bv; cbn; [reflexivity|]. destruct (qlt_bool bv x); apply IH. Qed.
Lemma argmax_same : forall l, S.argmax l = argmax l.
Proof. intros [|x l]; [reflexivity|]. apply argmax_aux_from. Qed.

Lemma map_const_zeros : forall (l : list nat), map (fun _ => 0) l = zeros (length l).
Proof. induction l as [|x l IH]; cbn; [reflexivity|]. f_equal. exact IH. Qed.
Lemma onehot_same : forall n k, S.onehot n k = one_hot k n.
Proof.
  unfold S.onehot. induction n as [|n IH]; intro k; [destruct k; reflexivity|].
  cbn [seq map one_hot]. rewrite <- seq_shift, map_map. destruct k as [|k]; cbn [Nat.eqb one_hot].
  - f_equal. rewrite (map_const_zeros (seq 0 n)), seq_length. reflexivity.
  - f_equal. apply IH.
Qed.

(* the cost reads the coefficients of the blocks of the network only *)
Lemma sn_cost_theta_ext : forall cost shared full th th' nt, (forall b brs, In (NChoice b brs) nt -> th b = th' b) ->
  sn_cost cost shared full th nt == sn_cost cost shared full th' nt.
Proof.
  intros cost shared full th th' nt H. unfold sn_cost. apply qsum_eq. intros [b brs|i s] Hin; cbn [entry_cost]; [|reflexivity].
  rewrite (H b brs (target_in _ _ _ _ Hin)). reflexivity.
Qed.

Section Fwd.
Variable g : Q -> Q.
Hypothesis g_pos : forall x, 0 < g x.
Hypothesis g_incr : forall x y, x < y -> g x < g y.
Variable costv : Z -> Z -> Z -> Z -> nat -> Q.
Variable st : Z -> S.sampler.                 (* the state of the combiner of block b before the forward pass *)
Variable noise : Z -> list (list Q).          (* what F.gumbel_softmax would draw (not used on these paths) *)

(* theta_alpha of combiner b after the generated forward pass / its raw alpha (1-D tensors: one column) *)
Definition theta_after (b : Z) : list Q := hd [] (S.theta (SG.core (SG.comb_forward_gen g (SG.embed (st b)) (noise b)))).
Definition alpha_of (b : Z) : list Q := hd [] (S.alpha (st b)).

(* hard selection, nothing random: hard_softmax set, and eval mode or the plain soft-max sampler; positive temperature;
   alpha has one entry per branch *)
Definition hard_det (nt : net) : Prop :=
  forall b brs, In (NChoice b brs) nt ->
    SP.wf (st b) /\ S.disabled (st b) = false /\ S.hard (st b) = true /\
    (S.training (st b) = false \/ S.gumbel (st b) = false) /\
    exists a, S.alpha (st b) = [a] /\ length a = length brs.

Lemma theta_after_hard : forall nt b brs, blocks_consistent nt -> hard_det nt -> In (NChoice b brs) nt ->
  theta_after b = hard_sel nt (fun b => comb_best_layer_index_gen (alpha_of b)) b.
Proof.
  intros nt b brs Hc Hh Hin. destruct (Hh b brs Hin) as [Hw [Hd [Hhard [Hm [a [Ea Hl]]]]]].
  assert (Hcov : SGP.covered_now S.KComb (st b)) by (right; right; exact Hhard).
  assert (Hm' : S.training (st b) = false \/ (S.hard (st b) = true /\ S.gumbel (st b) = false)) by (destruct Hm; auto).
  destruct (SGP.gen_selected_onehot g g_pos g_incr S.KComb (st b) (noise b) Hcov Hw Hd Hm') as [Et _].
  unfold theta_after. change (SG.comb_forward_gen g (SG.embed (st b)) (noise b)) with (SG.forward_gen g S.KComb (SG.embed (st b)) (noise b)).
  rewrite Et, Ea. cbn [map hd]. unfold hard_sel, alpha_of. rewrite Ea. cbn [hd].
  rewrite (find_block_in nt b brs Hc Hin), onehot_same, argmax_same, Hl. reflexivity.
Qed.

(* forward pass of every combiner under hard selection, then get_cost, against the exported network *)
Theorem gen_forward_hard_cost_eq_export : forall inb nt e cs0 full0 ops name c, cs_wf cs0 -> Forall op_wf ops ->
  resolve (last_spec cs0 ops) name = Some c ->
  let cost := cost_of costv c in let win := fun b => comb_best_layer_index_gen (alpha_of b) in
  hard_det nt -> site_independent cost -> blocks_consistent nt -> names_ok inb nt ->
  (if sp_shared c then blocks_disjoint nt else winners_nodup win nt) ->
  sn_export win nt = Some e ->
  exists v, dnas_get_cost_gen costv theta_after (live nt cs0 full0 ops) name = Some v /\
            v == plain_cost cost (sp_shared c) (last_full full0 ops) inb (fixed_layers e).
Proof.
  intros inb nt e cs0 full0 ops name c Hw Ho Hr cost win Hh Hs Hc Hn Hd He.
  destruct (gen_get_cost_eq costv theta_after nt cs0 full0 ops name c Hw Ho Hr) as [v [Ev Hv]].
  exists v. split; [exact Ev|]. rewrite Hv. fold cost.
  rewrite (sn_cost_theta_ext cost (sp_shared c) (last_full full0 ops) theta_after (hard_sel nt win) nt)
    by (intros b brs Hin; apply (theta_after_hard nt b brs Hc Hh Hin)).
  destruct (sp_shared c).
  - apply sn_cost_hard_eq_export_cost_shared; assumption.
  - apply sn_cost_hard_eq_export_cost_per_call; assumption.
Qed.
End Fwd.
