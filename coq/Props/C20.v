(* C20 — Precision refinement only promotes channels and never raises the cost.
   Statements only (proofs: Proofs/Reassign.v; model: Model/Reassign.v). *)
From Coq Require Import QArith ZArith List Bool Arith.
Import ListNotations.
Require Import Plinio.Base.Qx Plinio.Model.Reassign Plinio.Proofs.Reassign.
Local Open Scope nat_scope.

(* The two searches of optimize_prec_assignment, for EVERY cost function of the per-precision channel
   counts, every number of precisions, every initial count vector and every set of skipped (0-bit)
   precisions: the configuration they keep never costs more than the initial one ... *)
Theorem C20_refine_cost_le : forall (cost : vec -> Q) (skip : nat -> bool) (init : vec),
  (cost (refine cost skip init) <= cost init)%Q.
Proof. exact refine_cost_le. Qed.

(* ... and is reached from it by moving channels to higher precisions only, *)
Theorem C20_refine_up : forall (cost : vec -> Q) (skip : nat -> bool) (init : vec),
  up init (refine cost skip init).
Proof. exact refine_up. Qed.

(* which preserves the number of channels and never lowers, for any threshold k, the number of
   channels whose precision index is at least k. *)
Theorem C20_up_total : forall v w, up v w -> total_of w = total_of v.
Proof. exact up_total. Qed.
Theorem C20_up_upper : forall v w, up v w -> forall k, upper k v <= upper k w.
Proof. exact up_upper. Qed.

(* The reassignment step assigns every channel exactly one precision and meets every count.
   PARTIAL: proved by exhaustive evaluation for the sizes (precisions, channels) listed in
   small_sizes (up to 4 x 3 and 2 x 4), over every current assignment, every tuple of channel
   rankings and every composition of the channel count; the statement for arbitrary sizes
   (reassign_total: forall P C ...) is not proved yet. *)
Theorem C20_reassign_total_partial : forall P C cur orders best,
  In (P, C) small_sizes ->
  In cur (lists C (seq 0 P)) -> In orders (lists P (perms (seq 0 C))) -> In best (compositions P C) ->
  reassign_ok (reassign_abs cur orders best) best = true.
Proof. exact reassign_ok_bounded. Qed.

(* the algorithm of the pinned upstream commit (reassign_v0) misses counts *)
Theorem C20_upstream_reassign_refuted : exists scores best,
  fold_right Nat.add 0 best = ncols scores /\ reassign_ok (reassign_v0 scores best) best = false.
Proof. exact reassign_v0_refuted. Qed.

Example C20_example :
  run_reassign [[5; 1; 9; 4]; [2; 8; 3; 7]; [0; 6; 10; 11]]%Q [2; 1; 1] = [0; 1; 0; 2]%Z /\
  existsb (fun l => if list_eq_dec Nat.eq_dec l [2; 1; 1] then true else false) (compositions 3 4) = true /\
  run_refine [([2;1], 10%Q); ([1;2], 7%Q); ([0;3], 9%Q)] [] [2;1] = [1;2].
Proof. vm_compute. repeat split. Qed.

Print Assumptions C20_refine_cost_le.
Print Assumptions C20_refine_up.
Print Assumptions C20_up_total.
Print Assumptions C20_up_upper.
Print Assumptions C20_reassign_total_partial.
Print Assumptions C20_upstream_reassign_refuted.
