From Coq Require Import QArith Qround ZArith List Lia Lqa Psatz.
Import ListNotations.
Require Import Plinio.Base.Qx Plinio.Base.Round Plinio.Model.Quant.
Open Scope Q_scope.

(* ---------- powers of two *)
Lemma pow2_pos p : (1 <= pow2 p)%Z.
Proof. unfold pow2. pose proof (Z.pow_pos_nonneg 2 (Z.of_nat p)). lia. Qed.
Lemma pow2_S p : pow2 (S p) = (2 * pow2 p)%Z.
Proof. unfold pow2. rewrite Nat2Z.inj_succ, Z.pow_succ_r by lia. reflexivity. Qed.
Lemma qpow2_S p : qpow2 (S p) == 2 * qpow2 p.
Proof. unfold qpow2. rewrite pow2_S, inject_Z_mult. reflexivity. Qed.
Lemma qpow2_ge1 p : 1 <= qpow2 p.
Proof. unfold qpow2. change 1 with (inject_Z 1). rewrite <- Zle_Qle. apply pow2_pos. Qed.
Lemma N_pos p : 0 < qpow2 (S p) - 1.
Proof. rewrite qpow2_S. pose proof (qpow2_ge1 p). lra. Qed.

(* ---------- channel maximum *)
Lemma chan_max_acc xs a : 0 <= a -> a <= fold_left (fun a x => qmax a (qabs x)) xs a /\
  forall x, In x xs -> qabs x <= fold_left (fun a x => qmax a (qabs x)) xs a.
Proof.
  revert a. induction xs as [|y ys IH]; intros a Ha; cbn [fold_left].
  - split; [lra|intros x []].
  - assert (Hm : a <= qmax a (qabs y) /\ qabs y <= qmax a (qabs y)).
    { destruct (qmax_cases a (qabs y)) as [[H E]|[H E]]; rewrite E; lra. }
    destruct Hm as [Hm1 Hm2]. destruct (IH (qmax a (qabs y))) as [I1 I2]; [lra|].
    split; [lra|]. intros x [Hx|Hx]; [subst; lra|apply I2; exact Hx].
Qed.
Lemma chan_max_nonneg xs : 0 <= chan_max xs.
Proof. unfold chan_max. destruct (chan_max_acc xs 0); lra. Qed.
Lemma chan_max_bound xs x : In x xs -> - chan_max xs <= x <= chan_max xs.
Proof.
  intro H. unfold chan_max. destruct (chan_max_acc xs 0) as [_ B]; [lra|]. specialize (B x H).
  destruct (qabs_cases x) as [[H0 E]|[H0 E]]; rewrite E in B; lra.
Qed.

(* ---------- weight quantizer *)
Section Weight.
Variable p' : nat.
Local Notation p := (S p').
Variable m : Q.
Hypothesis Hm : 0 <= m.
Local Notation N := (qpow2 (S p') - 1).
Local Notation s := (wq_scale (S p') m).

Lemma wq_scale_cases : (m == 0 /\ s == 1 / N) \/ (0 < m /\ s == (2 * m) / N).
Proof.
  unfold wq_scale.
  destruct (Qeq_bool (m - - m) 0) eqn:E.
  - apply Qeq_bool_iff in E. left. split; [lra|reflexivity].
  - apply Qeq_bool_neq in E. right. split; [lra|]. assert (m - - m == 2 * m) by lra.
    unfold Qdiv. rewrite H. reflexivity.
Qed.

Lemma wq_scale_pos : 0 < s.
Proof.
  pose proof (N_pos p') as HN.
  destruct wq_scale_cases as [[_ E]|[Hp E]]; rewrite E; apply Qlt_shift_div_l; lra.
Qed.

(* |x| <= m  ->  |x / s| <= N / 2 *)
Lemma wq_pre_bounds x : - m <= x <= m -> - (N / 2) <= x / s <= N / 2.
Proof.
  intros [Hl Hu]. pose proof wq_scale_pos as Hs. pose proof (N_pos p') as HN.
  destruct wq_scale_cases as [[Hm0 E]|[Hp E]].
  - assert (Hx : x == 0) by lra. rewrite Hx. unfold Qdiv at 2 3. rewrite Qmult_0_l.
    split; [|apply Qle_shift_div_l; lra].
    assert (0 <= N / 2) by (apply Qle_shift_div_l; lra). lra.
  - assert (Hk : N / 2 * s == m) by (rewrite E; field; lra).
    split.
    + apply Qle_shift_div_l; [exact Hs|]. assert (- (N / 2) * s == - (N / 2 * s)) by ring. lra.
    + apply Qle_shift_div_r; [exact Hs|]. lra.
Qed.

Lemma half_N : N / 2 == inject_Z (pow2 p') - (1 # 2).
Proof. rewrite qpow2_S. unfold qpow2. field. Qed.

Lemma wq_range x : - m <= x <= m -> (- pow2 p' <= wq_int p m x <= pow2 p' - 1)%Z.
Proof.
  intro Hx. pose proof (wq_pre_bounds x Hx) as [Hl _]. rewrite half_N in Hl.
  unfold wq_int.
  assert (A : (- pow2 p' <= rne (x / s))%Z).
  { apply rne_ge_int. rewrite inject_Z_opp. lra. }
  pose proof (pow2_pos p'). lia.
Qed.

Lemma wq_mono x x' : x <= x' -> (wq_int p m x <= wq_int p m x')%Z.
Proof.
  intro Hx. unfold wq_int. pose proof wq_scale_pos as Hs.
  assert (A : x / s <= x' / s).
  { apply Qle_shift_div_l; [exact Hs|]. assert (x / s * s == x) by (field; lra). lra. }
  pose proof (rne_mono _ _ A). lia.
Qed.

Lemma wq_err x : - m <= x <= m -> - (s / 2) <= x - wq_fq p m x <= s / 2.
Proof.
  intro Hx. pose proof (wq_pre_bounds x Hx) as [_ Hu]. rewrite half_N in Hu.
  pose proof wq_scale_pos as Hs. pose proof (rne_err (x / s)) as He.
  unfold wq_fq, wq_int.
  assert (Hxs : x == x / s * s) by (field; lra).
  set (q := x / s) in *. set (n := rne q) in *. set (c := (pow2 p' - 1)%Z).
  assert (Hc : inject_Z c == inject_Z (pow2 p') - 1).
  { unfold c, Zminus. rewrite inject_Z_plus, inject_Z_opp. reflexivity. }
  assert (D : - (1#2) <= q - inject_Z (Z.min n c) <= 1#2).
  { destruct (Z.min_spec n c) as [[Hlt E]|[Hge E]]; rewrite E; [exact He|].
    assert (Hn : inject_Z c <= inject_Z n) by (rewrite <- Zle_Qle; lia). lra. }
  set (d := q - inject_Z (Z.min n c)) in *.
  assert (Hd : x - inject_Z (Z.min n c) * s == d * s) by (unfold d; rewrite Hxs at 1; ring).
  rewrite Hd. assert (s / 2 == s * (1#2)) by (field). rewrite H. split; nra.
Qed.
End Weight.

Lemma wq_zero_bits m x : wq_int 0 m x = 0%Z /\ wq_fq 0 m x == 0 /\ wq_scale 0 m = 0.
Proof. unfold wq_fq, wq_int, wq_scale. split; [reflexivity|split; [ring|reflexivity]]. Qed.

(* the statement for a whole channel: every code of every element is in range *)
Lemma wq_channel_range p' xs :
  Forall (fun z => (- pow2 p' <= z <= pow2 p' - 1)%Z) (wq_channel (S p') xs).
Proof.
  unfold wq_channel. apply Forall_forall. intros z Hz. apply in_map_iff in Hz as [x [E Hx]]. subst.
  apply wq_range; [apply chan_max_nonneg|apply chan_max_bound; exact Hx].
Qed.

(* ---------- activation quantizer *)
Section Act.
Variable p' : nat.
Local Notation p := (S p').
Variable clip : Q.
Hypothesis Hclip : 0 < clip.
Local Notation N := (qpow2 (S p') - 1).
Local Notation sf := (aq_sf (S p') clip).

Lemma aq_sf_pos : 0 < sf.
Proof. pose proof (N_pos p') as HN. unfold aq_sf. apply Qlt_shift_div_l; lra. Qed.

Lemma qclamp_bounds x : 0 <= qclamp x 0 clip <= clip.
Proof.
  unfold qclamp. destruct (qmax_cases x 0) as [[H E]|[H E]]; rewrite E;
  match goal with |- context [qmin ?a ?b] => destruct (qmin_cases a b) as [[H' E']|[H' E']]; rewrite E' end; lra.
Qed.
Lemma qmax_mono_l a a' b : a <= a' -> qmax a b <= qmax a' b.
Proof.
  intro H. destruct (qmax_cases a b) as [[H1 E1]|[H1 E1]]; destruct (qmax_cases a' b) as [[H2 E2]|[H2 E2]]; rewrite E1, E2; lra.
Qed.
Lemma qmin_mono_l a a' b : a <= a' -> qmin a b <= qmin a' b.
Proof.
  intro H. destruct (qmin_cases a b) as [[H1 E1]|[H1 E1]]; destruct (qmin_cases a' b) as [[H2 E2]|[H2 E2]]; rewrite E1, E2; lra.
Qed.
Lemma qclamp_mono x x' : x <= x' -> qclamp x 0 clip <= qclamp x' 0 clip.
Proof. intro Hx. unfold qclamp. apply qmin_mono_l, qmax_mono_l. exact Hx. Qed.
Lemma qclamp_low x : x <= 0 -> qclamp x 0 clip == 0.
Proof.
  intro Hx. unfold qclamp. destruct (qmax_cases x 0) as [[H E]|[H E]]; rewrite E;
  match goal with |- context [qmin ?a ?b] => destruct (qmin_cases a b) as [[H' E']|[H' E']]; rewrite E' end; lra.
Qed.
Lemma qclamp_high x : clip <= x -> qclamp x 0 clip == clip.
Proof.
  intro Hx. unfold qclamp. destruct (qmax_cases x 0) as [[H E]|[H E]]; rewrite E;
  match goal with |- context [qmin ?a ?b] => destruct (qmin_cases a b) as [[H' E']|[H' E']]; rewrite E' end; lra.
Qed.
Lemma qclamp_mid x : 0 <= x <= clip -> qclamp x 0 clip == x.
Proof.
  intro Hx. unfold qclamp. destruct (qmax_cases x 0) as [[H E]|[H E]]; rewrite E;
  match goal with |- context [qmin ?a ?b] => destruct (qmin_cases a b) as [[H' E']|[H' E']]; rewrite E' end; lra.
Qed.

Lemma sf_clip_lt_N : sf * clip < N.
Proof.
  pose proof (N_pos p') as HN. unfold aq_sf.
  assert (E : N / (clip + (1#1000)) * clip == N * (clip / (clip + (1#1000)))) by (field; lra).
  rewrite E. assert (clip / (clip + (1#1000)) < 1) by (apply Qlt_shift_div_r; lra). nra.
Qed.

Lemma aq_range x : (0 <= aq_int p clip x <= pow2 p - 1)%Z.
Proof.
  pose proof aq_sf_pos as Hs. pose proof (qclamp_bounds x) as [H0 H1]. pose proof sf_clip_lt_N as HN.
  unfold aq_int. split.
  - apply floor_ge_int. change (inject_Z 0) with 0. nra.
  - apply floor_le_int. unfold qpow2 in HN.
    unfold Zminus. rewrite inject_Z_plus, inject_Z_opp. change (inject_Z 1) with 1. nra.
Qed.

Lemma aq_nonpos_zero x : x <= 0 -> aq_int p clip x = 0%Z.
Proof.
  intro Hx. unfold aq_int. rewrite (Qfloor_comp _ 0); [reflexivity|]. rewrite (qclamp_low x Hx). ring.
Qed.

Lemma aq_top_common x : clip <= x -> aq_int p clip x = aq_int p clip clip.
Proof.
  intro Hx. unfold aq_int. apply Qfloor_comp.
  rewrite (qclamp_high x Hx), (qclamp_high clip) by lra. reflexivity.
Qed.

Lemma aq_mono x x' : x <= x' -> (aq_int p clip x <= aq_int p clip x')%Z.
Proof.
  intro Hx. unfold aq_int. apply floor_mono. pose proof aq_sf_pos. pose proof (qclamp_mono x x' Hx). nra.
Qed.

(* truncation: inside [0, clip] the fake-quantized value is below the input by less than one step *)
Lemma aq_trunc x : 0 <= x <= clip -> 0 <= x - aq_fq p clip x /\ x - aq_fq p clip x < 1 / sf.
Proof.
  intro Hx. pose proof aq_sf_pos as Hs. unfold aq_fq, aq_int.
  assert (E : Qfloor (sf * qclamp x 0 clip) = Qfloor (sf * x)).
  { apply Qfloor_comp. rewrite (qclamp_mid x Hx). reflexivity. }
  rewrite E. destruct (floor_bounds (sf * x)) as [F0 F1]. set (f := inject_Z (Qfloor (sf * x))) in *.
  assert (Hd : x - f / sf == (sf * x - f) / sf) by (field; lra).
  rewrite Hd. split.
  - apply Qle_shift_div_l; lra.
  - apply Qlt_shift_div_r; [exact Hs|]. assert (1 / sf * sf == 1) by (field; lra). lra.
Qed.

(* fake-quantized output = integer output x reported scale *)
Lemma aq_fq_scale x : aq_fq p clip x == inject_Z (aq_int p clip x) * aq_scale p clip.
Proof.
  pose proof (N_pos p') as HN. unfold aq_fq, aq_scale, aq_sf. field. lra.
Qed.
End Act.

Lemma aq_scale_v0_refuted : exists p clip x, 0 < clip /\ ~ aq_fq p clip x == inject_Z (aq_int p clip x) * aq_scale_v0 p clip.
Proof. exists 2%nat, 6, 6. split; [reflexivity|]. vm_compute. discriminate. Qed.

(* ---------- bias quantizer *)
Lemma bq_zero_scale sb b : qabs sb <= 1 # 100000000 -> bq_int sb b = 0%Z /\ bq_fq sb b == 0.
Proof.
  intro H. unfold bq_fq, bq_int. apply Qle_bool_iff in H. rewrite H. split; [reflexivity|ring].
Qed.

Lemma bq_mono sb b b' : (1 # 100000000) < sb -> b <= b' -> (bq_int sb b <= bq_int sb b')%Z.
Proof.
  intros Hs Hb. unfold bq_int. destruct (qabs_cases sb) as [[H0 E]|[H0 E]]; [|lra].
  destruct (Qle_bool (qabs sb) (1 # 100000000)) eqn:El; [lia|].
  apply rne_mono. apply Qle_shift_div_l; [lra|]. assert (b / sb * sb == b) by (field; lra). lra.
Qed.

Lemma bq_err sb b : (1 # 100000000) < qabs sb -> - (qabs sb / 2) <= b - bq_fq sb b <= qabs sb / 2.
Proof.
  intro Hs. unfold bq_fq, bq_int.
  destruct (Qle_bool (qabs sb) (1 # 100000000)) eqn:El; [apply Qle_bool_iff in El; lra|].
  pose proof (rne_err (b / sb)) as He.
  assert (Hne : ~ sb == 0). { intro Z0. destruct (qabs_cases sb) as [[H0 E]|[H0 E]]; rewrite E in Hs; lra. }
  set (n := inject_Z (rne (b / sb))) in *.
  assert (Hd : b - sb * n == (b / sb - n) * sb) by (field; exact Hne).
  rewrite Hd. set (d := b / sb - n) in *.
  assert (Hh : qabs sb / 2 == qabs sb * (1#2)) by field. rewrite Hh.
  destruct (qabs_cases sb) as [[H0 E]|[H0 E]]; rewrite E; split; nra.
Qed.
