(* C11: the model GENERATED from the source of the trainability bookkeeping (Gen/TrainGen.v, rewritten by
   translator/train2coq.py on every run: DNAS.train_* / nas_parameters / net_parameters, PIT / MPS / SuperNet
   named_nas_parameters / named_net_parameters, the train_features / train_rf / train_dilation / discrete_cost /
   train_selection properties and setters at model, layer and masker level, the constructors of the maskers) computes
   the hand-written model of Model/Train.v for the repaired code (v0 = false: frozen masks are buffers):
     gen_nas_ids = nas_ids false, gen_net_ids = net_ids false, dnas_train_*_gen = train false .., the switch setters =
     the TSet* cases of step false, gen_step = step false, gen_run = run false, gen_trace = trace false
   on the states of one method (`method_state`).  These equalities are the obligations that tie the theorems of
   Props/C11.v to the code as it is now.
   Proof style: every generated loop is captured (`set (f := <the generated function>)`), its ONE-STEP behaviour is
   established by unfolding + case analysis + computation, and a lemma about folds that does not mention generated text
   concludes; a rewrite of the source that keeps the one-step behaviour keeps the script. *)
From Coq Require Import ZArith QArith List Bool Lia Permutation.
Import ListNotations.
Require Import Plinio.Base.Qx Plinio.Model.Train Plinio.Proofs.Train Plinio.Gen.TrainGen.

(* ================================================================ folds (no generated text below this line until `maskers`) *)
Lemma fold_left_snoc {A} : forall (l a : list A), fold_left (fun out x => out ++ [x]) l a = a ++ l.
Proof. induction l as [|x l IH]; intro a; cbn [fold_left]; [rewrite app_nil_r; reflexivity|]. rewrite IH, <- app_assoc. reflexivity. Qed.

Lemma fold_snoc_steps {A} (g : list A -> A -> list A) : (forall o x, g o x = o ++ [x]) -> forall l a, fold_left g l a = a ++ l.
Proof. intro H. induction l as [|x l IH]; intro a; cbn [fold_left]; [rewrite app_nil_r; reflexivity|]. rewrite H, IH, <- app_assoc. reflexivity. Qed.

(* the `included` set after a walk *)
Fixpoint seen_after (seen l : list nat) : list nat :=
  match l with
  | [] => seen
  | x :: r => if memb x seen then seen_after seen r else seen_after (x :: seen) r
  end.

Lemma dedup_app : forall a b seen, dedup seen (a ++ b) = dedup seen a ++ dedup (seen_after seen a) b.
Proof. induction a as [|x a IH]; intros b seen; cbn [app dedup seen_after]; [reflexivity|].
  destruct (memb x seen); [apply IH|]. cbn [app]. f_equal. apply IH. Qed.
Lemma seen_after_app : forall a b seen, seen_after seen (a ++ b) = seen_after (seen_after seen a) b.
Proof. induction a as [|x a IH]; intros b seen; cbn [app seen_after]; [reflexivity|]. destruct (memb x seen); apply IH. Qed.

Lemma filter_flat_map {A B} (p : B -> bool) (f : A -> list B) : forall l, filter p (flat_map f l) = flat_map (fun x => filter p (f x)) l.
Proof. induction l as [|x l IH]; cbn [flat_map filter]; [reflexivity|]. rewrite filter_app, IH. reflexivity. Qed.

Lemma filter_all {A} (p : A -> bool) l : forallb p l = true -> filter p l = l.
Proof. induction l as [|x l IH]; cbn [forallb filter]; intro H; [reflexivity|]. apply andb_true_iff in H. destruct H as [H1 H2]. rewrite H1, IH by exact H2. reflexivity. Qed.

Lemma forallb_ext' {A} (f g : A -> bool) : (forall x, f x = g x) -> forall l, forallb f l = forallb g l.
Proof. intros H l. induction l as [|x l IH]; cbn [forallb]; [reflexivity|]. rewrite H, IH. reflexivity. Qed.

(* inner loop of named_nas_parameters: `if param not in included: included.add(param); yield param` *)
Lemma fold_dedup_plain (g : list nat * list nat -> nat -> list nat * list nat) :
  (forall x o i, g (o, i) x = if memb x i then (o, i) else (o ++ [x], x :: i)) ->
  forall xs o i, fold_left g xs (o, i) = (o ++ dedup i xs, seen_after i xs).
Proof. intro H. induction xs as [|x xs IH]; intros o i; cbn [fold_left dedup seen_after]; [rewrite app_nil_r; reflexivity|].
  rewrite H. destruct (memb x i); rewrite IH; [reflexivity|]. rewrite <- app_assoc. reflexivity. Qed.

(* the same with `if param is None: break` in front, on parameters none of which is None *)
Lemma fold_dedup_brk (g : list nat * list nat * bool -> option nat -> list nat * list nat * bool) :
  (forall x o i, g (o, i, false) (Some x) = if memb x i then (o, i, false) else (o ++ [x], x :: i, false)) ->
  forall xs o i, fold_left g (map Some xs) (o, i, false) = (o ++ dedup i xs, seen_after i xs, false).
Proof. intro H. induction xs as [|x xs IH]; intros o i; cbn [map fold_left dedup seen_after]; [rewrite app_nil_r; reflexivity|].
  rewrite H. destruct (memb x i); rewrite IH; [reflexivity|]. rewrite <- app_assoc. reflexivity. Qed.

(* the break fires on a None: nothing of the rest is seen *)
Lemma fold_brk_stuck {S X} (g : S * bool -> X -> S * bool) : (forall s x, g (s, true) x = (s, true)) -> forall xs s, fold_left g xs (s, true) = (s, true).
Proof. intro H. induction xs as [|x xs IH]; intro s; cbn [fold_left]; [reflexivity|]. rewrite H. apply IH. Qed.

(* outer loop: one layer after the other *)
Lemma fold_dedup_steps {X} (g : list nat * list nat -> X -> list nat * list nat) (items : X -> list nat) (P : X -> bool) :
  (forall x o i, P x = true -> g (o, i) x = (o ++ dedup i (items x), seen_after i (items x))) ->
  forall xs o i, forallb P xs = true -> fold_left g xs (o, i) = (o ++ dedup i (flat_map items xs), seen_after i (flat_map items xs)).
Proof. intro H. induction xs as [|x xs IH]; intros o i Hp; cbn [fold_left flat_map dedup seen_after]; [rewrite app_nil_r; reflexivity|].
  cbn [forallb] in Hp. apply andb_true_iff in Hp. destruct Hp as [Hx Hp].
  rewrite (H x o i Hx), (IH _ _ Hp), dedup_app, seen_after_app, <- app_assoc. reflexivity. Qed.

(* `for param in all: if param not in exclude: yield param` *)
Lemma fold_filter_steps (g : list nat -> nat -> list nat) (p : nat -> bool) :
  (forall o x, g o x = if p x then o ++ [x] else o) -> forall xs o, fold_left g xs o = o ++ filter p xs.
Proof. intro H. induction xs as [|x xs IH]; intro o; cbn [fold_left filter]; [rewrite app_nil_r; reflexivity|].
  rewrite H. destruct (p x); rewrite IH; [|reflexivity]. rewrite <- app_assoc. reflexivity. Qed.

(* ================================================================ the heap *)
Lemma with_tens_same st : with_tens st (tens st) = st.
Proof. destruct st; reflexivity. Qed.
Lemma with_tens_twice st a b : with_tens (with_tens st a) b = with_tens st b.
Proof. reflexivity. Qed.

Lemma with_rg_twice t b : with_rg (with_rg t b) b = with_rg t b.
Proof. reflexivity. Qed.

Lemma memb_cons x i r : memb x (i :: r) = Nat.eqb x i || memb x r.
Proof. reflexivity. Qed.

(* `for param in group: param.requires_grad = b`, one tensor identity after the other *)
Lemma set_rg_cons i r b ts : set_rg r b (map (fun t => if Nat.eqb (p_id t) i then with_rg t b else t) ts) = set_rg (i :: r) b ts.
Proof. unfold set_rg. rewrite map_map. apply map_ext. intro t. rewrite memb_cons.
  destruct (Nat.eqb (p_id t) i); cbn [orb p_id with_rg]; [destruct (memb (p_id t) r); reflexivity|reflexivity]. Qed.
Lemma set_rg_nil b ts : set_rg [] b ts = ts.
Proof. unfold set_rg. rewrite <- (map_id ts) at 2. apply map_ext. intro t. reflexivity. Qed.

Lemma fold_set_rg (g : tstate -> nat -> tstate) b : (forall s i, g s i = update_tensor s i (fun t => with_rg t b)) ->
  forall ids st, fold_left g ids st = with_tens st (set_rg ids b (tens st)).
Proof. intro H. induction ids as [|i r IH]; intro st; cbn [fold_left]; [rewrite set_rg_nil, with_tens_same; reflexivity|].
  rewrite H, IH. unfold update_tensor. cbn [tens with_tens]. rewrite set_rg_cons. reflexivity. Qed.

(* `masker.trainable = v` for one masker after the other: the Frozen classes ignore the assignment *)
Definition upd_nf (i : nat) (v : bool) (t : ptensor) : ptensor := if Nat.eqb (p_id t) i then (if p_frozen t then t else with_rg t v) else t.
Lemma set_rg_nf_cons i r v ts : set_rg_nf r v (map (upd_nf i v) ts) = set_rg_nf (i :: r) v ts.
Proof. unfold set_rg_nf, upd_nf. rewrite map_map. apply map_ext. intro t. rewrite memb_cons.
  destruct (Nat.eqb (p_id t) i); cbn [orb]; [|reflexivity].
  destruct (p_frozen t) eqn:F; [rewrite F, !andb_false_r; reflexivity|]. cbn [p_id p_frozen with_rg]. rewrite F.
  destruct (memb (p_id t) r); reflexivity. Qed.
Lemma set_rg_nf_nil v ts : set_rg_nf [] v ts = ts.
Proof. unfold set_rg_nf. rewrite <- (map_id ts) at 2. apply map_ext. intro t. reflexivity. Qed.
Lemma set_rg_nf_app a : forall b v ts, set_rg_nf b v (set_rg_nf a v ts) = set_rg_nf (a ++ b) v ts.
Proof. intros b v ts. unfold set_rg_nf. rewrite map_map. apply map_ext. intro t.
  assert (E : memb (p_id t) (a ++ b) = memb (p_id t) a || memb (p_id t) b) by (unfold memb; apply existsb_app). rewrite E.
  destruct (memb (p_id t) a); cbn [orb andb]; [|reflexivity].
  destruct (p_frozen t) eqn:F; cbn [negb]; [rewrite F, andb_false_r; reflexivity|]. cbn [p_id p_frozen with_rg]. rewrite F.
  destruct (memb (p_id t) b); reflexivity. Qed.

Lemma fold_switch (g : tstate -> layer -> tstate) (sel : layer -> option nat) (P : layer -> bool) v :
  (forall s l, P l = true -> g s l = with_tens s (set_rg_nf (oid (sel l)) v (tens s))) ->
  forall ls st, forallb P ls = true -> fold_left g ls st = with_tens st (set_rg_nf (flat_map (fun l => oid (sel l)) ls) v (tens st)).
Proof. intro H. induction ls as [|l ls IH]; intros st Hp; cbn [fold_left flat_map]; [rewrite set_rg_nf_nil, with_tens_same; reflexivity|].
  cbn [forallb] in Hp. apply andb_true_iff in Hp. destruct Hp as [Hl Hp]. rewrite (H st l Hl), (IH _ Hp). cbn [tens with_tens].
  rewrite set_rg_nf_app. reflexivity. Qed.

(* `layer.discrete_cost = v` for the layer at one position after the other *)
Lemma upd_nth_app {A} (f : A -> A) : forall pre x r, upd_nth (length pre) f (pre ++ x :: r) = pre ++ f x :: r.
Proof. induction pre as [|p pre IH]; intros x r; cbn [length app upd_nth]; [reflexivity|]. rewrite IH. reflexivity. Qed.

Lemma fold_update_layers (g : tstate -> nat * layer -> tstate) (f : layer -> layer) :
  (forall s k l, g s (k, l) = update_layer s k f) ->
  forall ls pre st, layers st = pre ++ ls ->
    fold_left g (enumerate_from (length pre) ls) st = with_layers st (pre ++ map f ls).
Proof. intro H. induction ls as [|l ls IH]; intros pre st E; cbn [enumerate_from fold_left map].
  - rewrite <- E. destruct st; reflexivity.
  - rewrite H. unfold update_layer. rewrite E, upd_nth_app.
    assert (L : S (length pre) = length (pre ++ [f l])) by (rewrite app_length; cbn; lia). rewrite L.
    rewrite (IH (pre ++ [f l]) (with_layers st (pre ++ f l :: ls))); [|cbn [layers with_layers]; rewrite <- app_assoc; reflexivity].
    rewrite <- app_assoc. reflexivity. Qed.

(* ================================================================ the maskers *)
(* the constructors: the base classes register the mask as a Parameter, the Frozen ones end with a buffer *)
Theorem masker_mask_reg_eq k f : reg_is_param (masker_mask_reg_gen k f) = negb f.
Proof. destruct k, f; reflexivity. Qed.

(* `trainable = v`: requires_grad of the mask, nothing on a Frozen masker *)
Theorem masker_set_trainable_eq k t v : masker_set_trainable_gen k t v = if p_frozen t then t else with_rg t v.
Proof. unfold masker_set_trainable_gen. destruct k, (p_frozen t); reflexivity. Qed.

(* `trainable` reads requires_grad of the mask (False on a frozen features masker): the same thing where frozen masks are not trainable *)
Theorem masker_trainable_eq k t : (p_frozen t = true -> p_rg t = false) -> masker_trainable_gen k t = p_rg t.
Proof. unfold masker_trainable_gen. intro H. destruct k, (p_frozen t) eqn:F; try reflexivity; rewrite (H eq_refl); reflexivity. Qed.

Lemma tensor_is_parameter_eq t : tensor_is_parameter_gen t = is_param false t.
Proof. unfold tensor_is_parameter_gen, is_param. rewrite !masker_mask_reg_eq. destruct (p_frozen t); reflexivity. Qed.

Theorem module_named_parameters_eq st : module_named_parameters st = param_ids false st.
Proof. unfold module_named_parameters, param_ids. rewrite (filter_ext _ _ tensor_is_parameter_eq). reflexivity. Qed.

Definition regd (st : tstate) (i : nat) : bool := memb i (param_ids false st).

Lemma registered_eq k i ts :
  existsb (fun t => Nat.eqb i (p_id t) && reg_is_param (masker_mask_reg_gen k (p_frozen t))) ts
  = memb i (map p_id (filter (is_param false) ts)).
Proof. unfold memb. induction ts as [|t ts IH]; cbn [existsb filter map]; [reflexivity|].
  rewrite masker_mask_reg_eq. unfold is_param at 1. cbn [orb]. destruct (p_frozen t); cbn [negb map existsb].
  - rewrite andb_false_r. exact IH.
  - rewrite andb_true_r, IH. reflexivity. Qed.

Lemma is_registered_eq st i : is_registered st i = regd st i.
Proof. unfold is_registered, regd, param_ids, memb. induction (tens st) as [|t ts IH]; cbn [existsb filter map]; [reflexivity|].
  rewrite tensor_is_parameter_eq. destruct (is_param false t); cbn [map existsb]; [rewrite andb_true_r, IH; reflexivity|rewrite andb_false_r; exact IH]. Qed.

Lemma masker_named_parameters_eq st k m : masker_named_parameters st k m = map Some (filter (regd st) (oid m)).
Proof. unfold masker_named_parameters, regd, param_ids. destruct m as [i|]; [|reflexivity]. rewrite registered_eq. cbn [oid filter].
  destruct (memb i _); reflexivity. Qed.

Lemma set_masker_trainable_eq st k m v : set_masker_trainable st k m v = with_tens st (set_rg_nf (oid m) v (tens st)).
Proof. unfold set_masker_trainable. destruct m as [i|]; cbn [oid]; [|rewrite set_rg_nf_nil, with_tens_same; reflexivity].
  unfold update_tensor. f_equal. rewrite <- (set_rg_nf_nil v (map _ (tens st))), <- (set_rg_nf_cons i [] v (tens st)). f_equal.
  apply map_ext. intro t. unfold upd_nf. rewrite masker_set_trainable_eq. reflexivity. Qed.

(* ================================================================ the PIT layers *)
Definition layer_params (st : tstate) (l : layer) : list nat := filter (regd st) (layer_ids l).

Ltac snoc_norm := cbv zeta; repeat (rewrite (fold_snoc_steps _ (fun o x => eq_refl))); rewrite ?app_nil_l.

Theorem conv1d_nas_eq st l : conv1d_named_nas_parameters_gen st l = map Some (filter (regd st) (oid (l_feat l) ++ oid (l_rf l) ++ oid (l_dil l))).
Proof. unfold conv1d_named_nas_parameters_gen. snoc_norm. rewrite !masker_named_parameters_eq, !filter_app, !map_app, <- ?app_assoc. reflexivity. Qed.
Theorem conv2d_nas_eq st l : conv2d_named_nas_parameters_gen st l = map Some (filter (regd st) (oid (l_feat l))).
Proof. unfold conv2d_named_nas_parameters_gen. snoc_norm. rewrite !masker_named_parameters_eq. reflexivity. Qed.
(* PITLinear has the code of PITConv2d (the class a feature-only record is dispatched to) *)
Theorem linear_nas_eq st l : linear_named_nas_parameters_gen st l = conv2d_named_nas_parameters_gen st l.
Proof. transitivity (map Some (filter (regd st) (oid (l_feat l)))); [|symmetry; apply conv2d_nas_eq].
  unfold linear_named_nas_parameters_gen. snoc_norm. rewrite !masker_named_parameters_eq. reflexivity. Qed.
Theorem linear_set_train_features_eq st l v : linear_set_train_features_gen st l v = conv2d_set_train_features_gen st l v.
Proof. unfold linear_set_train_features_gen, conv2d_set_train_features_gen. cbv zeta. rewrite !set_masker_trainable_eq. reflexivity. Qed.
(* a PITBatchNorm layer yields ("", None): the walk over its parameters stops at once *)
Theorem batchnorm_nas_eq st l : batchnorm1d_named_nas_parameters_gen st l = [None] /\ batchnorm2d_named_nas_parameters_gen st l = [None].
Proof. split; reflexivity. Qed.

Theorem pit_layer_nas_eq st l : is_pit_module l = true ->
  pit_layer_named_nas_parameters_gen st (pit_class l) l = map Some (layer_params st l).
Proof. unfold is_pit_module, layer_params, layer_ids, pit_class. intro H. apply andb_true_iff in H. destruct H as [H1 H2].
  destruct (l_sel l); [discriminate|]. destruct (l_other l); [|discriminate]. cbn [oid app]. rewrite !app_nil_r.
  destruct (l_rf l) as [r|] eqn:Er; [|destruct (l_dil l) as [d|] eqn:Ed]; cbn [pit_layer_named_nas_parameters_gen].
  - rewrite conv1d_nas_eq, Er. reflexivity.
  - rewrite conv1d_nas_eq, Er, Ed. reflexivity.
  - rewrite conv2d_nas_eq. cbn [oid app]. rewrite app_nil_r. reflexivity. Qed.

(* `if hasattr(layer, 'train_X'): layer.train_X = v` on a layer record: the masker of that kind, if the layer holds one *)
Ltac layer_switch l :=
  unfold pit_class, pit_class_has_train_features_gen, pit_class_has_train_rf_gen, pit_class_has_train_dilation_gen,
    pit_layer_set_train_features_gen, pit_layer_set_train_rf_gen, pit_layer_set_train_dilation_gen,
    conv1d_set_train_features_gen, conv1d_set_train_rf_gen, conv1d_set_train_dilation_gen, conv2d_set_train_features_gen;
  cbv zeta; destruct (l_rf l) eqn:Er, (l_dil l) eqn:Ed; cbv iota; rewrite ?set_masker_trainable_eq; cbn [oid];
  rewrite ?set_rg_nf_nil, ?with_tens_same; reflexivity.

Theorem pit_layer_switch_features st l v :
  (if pit_class_has_train_features_gen (pit_class l) then pit_layer_set_train_features_gen st (pit_class l) l v else st)
  = with_tens st (set_rg_nf (oid (l_feat l)) v (tens st)).
Proof. layer_switch l. Qed.
Theorem pit_layer_switch_rf st l v :
  (if pit_class_has_train_rf_gen (pit_class l) then pit_layer_set_train_rf_gen st (pit_class l) l v else st)
  = with_tens st (set_rg_nf (oid (l_rf l)) v (tens st)).
Proof. layer_switch l. Qed.
Theorem pit_layer_switch_dilation st l v :
  (if pit_class_has_train_dilation_gen (pit_class l) then pit_layer_set_train_dilation_gen st (pit_class l) l v else st)
  = with_tens st (set_rg_nf (oid (l_dil l)) v (tens st)).
Proof. layer_switch l. Qed.
Theorem pit_layer_has_discrete l : pit_class_has_discrete_cost_gen (pit_class l) = true.
Proof. unfold pit_class. destruct (l_rf l), (l_dil l); reflexivity. Qed.

(* PITConv1d.autoimport: a strided convolution gets the Frozen receptive-field and dilation maskers, any other the plain ones *)
Theorem conv1d_autoimport_frozen_eq stride :
  conv1d_autoimport_timestep_frozen_gen stride = negb (Z.eqb stride 1) /\ conv1d_autoimport_dilation_frozen_gen stride = negb (Z.eqb stride 1).
Proof. unfold conv1d_autoimport_timestep_frozen_gen, conv1d_autoimport_dilation_frozen_gen. destruct (Z.eqb stride 1); split; reflexivity. Qed.

(* ================================================================ the two parameter groups *)
Lemma nas_ids_flat st : nas_ids false st = dedup [] (flat_map (layer_params st) (layers st)).
Proof. unfold nas_ids. cbv zeta. rewrite filter_flat_map. reflexivity. Qed.

Lemma method_state_pit st : method_state MPit st = forallb is_pit_module (layers st).
Proof. reflexivity. Qed.

(* the walk of named_nas_parameters: capture the outer loop, give its one-step behaviour, conclude *)
Ltac nas_walk st P step :=
  rewrite nas_ids_flat; cbv zeta;
  let f := fresh "f" in
  match goal with |- context [fold_left ?F (layers st) _] => set (f := F) end;
  rewrite (fold_dedup_steps f (layer_params st) P); [reflexivity| |assumption];
  let l := fresh "l" in let o := fresh "o" in let i := fresh "i" in let Hl := fresh "Hl" in
  intros l o i Hl; subst f; cbv beta iota; step l o i Hl.

Theorem pit_named_nas_parameters_eq st : method_state MPit st = true -> pit_named_nas_parameters_gen st = nas_ids false st.
Proof.
  intro W. rewrite method_state_pit in W. unfold pit_named_nas_parameters_gen, named_modules.
  nas_walk st is_pit_module ltac:(fun l o i Hl =>
    rewrite Hl, (pit_layer_nas_eq st l Hl);
    match goal with |- context [fold_left ?G (map Some _) _] => rewrite (fold_dedup_brk G) end;
    [reflexivity|let x := fresh "x" in intros x ? ?; cbv beta iota; destruct (memb x _); reflexivity]).
Qed.

Lemma mps_layer_params st l : method_layer MMps st l = true -> mps_layer_named_nas_parameters l = layer_params st l.
Proof. unfold method_layer, is_mps_module, mps_layer_named_nas_parameters, layer_params, layer_ids. intro H.
  repeat (apply andb_true_iff in H; destruct H as [H ?]).
  destruct (l_feat l), (l_rf l), (l_dil l), (l_sel l); try discriminate. cbn [oid app]. symmetry. apply filter_all.
  rewrite <- (forallb_ext' _ _ (is_registered_eq st)). assumption. Qed.

Theorem mps_named_nas_parameters_eq st : method_state MMps st = true -> mps_named_nas_parameters_gen st = nas_ids false st.
Proof.
  intro W. unfold method_state in W. unfold mps_named_nas_parameters_gen, named_modules.
  nas_walk st (method_layer MMps st) ltac:(fun l o i Hl =>
    let Hm := fresh "Hm" in
    assert (Hm : is_mps_module l = true) by (unfold method_layer in Hl; apply andb_true_iff in Hl; tauto);
    rewrite Hm, (mps_layer_params st l Hl);
    match goal with |- context [fold_left ?G (layer_params st l) _] => rewrite (fold_dedup_plain G) end;
    [reflexivity|let x := fresh "x" in intros x ? ?; cbv beta iota; destruct (memb x _); reflexivity]).
Qed.

Lemma sn_layer_params st l : method_layer MSn st l = true -> combiner_layer_named_nas_parameters l = layer_params st l.
Proof. unfold method_layer, is_combiner, combiner_layer_named_nas_parameters, combiner_named_nas_parameters_gen, layer_params, layer_ids. intro H.
  repeat (apply andb_true_iff in H; destruct H as [H ?]).
  destruct (l_feat l), (l_rf l), (l_dil l), (l_sel l) as [a|], (l_other l); try discriminate. cbn [oid app]. cbv zeta. symmetry. apply filter_all.
  rewrite <- (forallb_ext' _ _ (is_registered_eq st)). assumption. Qed.

Theorem sn_named_nas_parameters_eq st : method_state MSn st = true -> sn_named_nas_parameters_gen st = nas_ids false st.
Proof.
  intro W. unfold method_state in W. unfold sn_named_nas_parameters_gen, named_modules.
  nas_walk st (method_layer MSn st) ltac:(fun l o i Hl =>
    let Hm := fresh "Hm" in
    assert (Hm : is_combiner l = true) by (unfold method_layer in Hl; apply andb_true_iff in Hl; destruct Hl as [Hl _]; apply andb_true_iff in Hl; destruct Hl as [Hl _]; exact Hl);
    rewrite Hm, (sn_layer_params st l Hl);
    match goal with |- context [fold_left ?G (layer_params st l) _] => rewrite (fold_dedup_plain G) end;
    [reflexivity|let x := fresh "x" in intros x ? ?; cbv beta iota; destruct (memb x _); reflexivity]).
Qed.

Theorem gen_named_nas_eq m st : method_state m st = true -> gen_named_nas m st = nas_ids false st.
Proof. destruct m; [apply pit_named_nas_parameters_eq|apply mps_named_nas_parameters_eq|apply sn_named_nas_parameters_eq]. Qed.

(* named_net_parameters: every registered parameter that is not in the set of the NAS ones *)
Ltac net_walk st :=
  cbv zeta; rewrite module_named_parameters_eq, ?map_id;
  match goal with |- fold_left ?F _ _ = _ => rewrite (fold_filter_steps F (fun i => negb (memb i (nas_ids false st)))) end;
  [reflexivity|let x := fresh "x" in intros ? x; cbv beta; destruct (memb x _); reflexivity].

Theorem gen_named_net_eq m st : method_state m st = true -> gen_named_net m st = net_ids false st.
Proof.
  intro W. unfold net_ids. destruct m; cbn [gen_named_net].
  - unfold pit_named_net_parameters_gen. rewrite (pit_named_nas_parameters_eq st W). net_walk st.
  - unfold mps_named_net_parameters_gen. rewrite (mps_named_nas_parameters_eq st W). net_walk st.
  - unfold sn_named_net_parameters_gen. rewrite (sn_named_nas_parameters_eq st W). net_walk st.
Qed.

(* DNAS.nas_parameters / net_parameters drop the names *)
Theorem dnas_nas_parameters_eq nn ne st : dnas_nas_parameters_gen nn ne st = nn st.
Proof. unfold dnas_nas_parameters_gen. snoc_norm. reflexivity. Qed.
Theorem dnas_net_parameters_eq nn ne st : dnas_net_parameters_gen nn ne st = ne st.
Proof. unfold dnas_net_parameters_gen. snoc_norm. reflexivity. Qed.

Theorem gen_nas_ids_eq m st : method_state m st = true -> gen_nas_ids m st = nas_ids false st.
Proof. intro W. unfold gen_nas_ids. rewrite dnas_nas_parameters_eq. apply gen_named_nas_eq. exact W. Qed.
Theorem gen_net_ids_eq m st : method_state m st = true -> gen_net_ids m st = net_ids false st.
Proof. intro W. unfold gen_net_ids. rewrite dnas_net_parameters_eq. apply gen_named_net_eq. exact W. Qed.

(* ================================================================ static part of a state and method_state *)
Lemma not_frozen_eq st i : not_frozen st i = negb (memb i (frozen_ids st)).
Proof. unfold not_frozen, frozen_ids, memb. induction (tens st) as [|t ts IH]; cbn [forallb filter map existsb]; [reflexivity|].
  destruct (p_frozen t); cbn [map existsb]; [rewrite andb_true_r, IH, negb_orb; reflexivity|rewrite andb_false_r; exact IH]. Qed.

Lemma static_method_layer m a b l l' : same_static a b -> lk l = lk l' -> method_layer m a l = method_layer m b l'.
Proof. intros S E. unfold lk in E. injection E as E1 E2 E3 E4 E5.
  assert (R : forall i, is_registered a i = is_registered b i) by (intro i; rewrite !is_registered_eq; unfold regd; rewrite (static_param_ids false a b S); reflexivity).
  assert (F : forall i, not_frozen a i = not_frozen b i) by (intro i; rewrite !not_frozen_eq, (static_frozen_ids a b S); reflexivity).
  unfold method_layer, is_pit_module, is_mps_module, is_combiner. rewrite E1, E2, E3, E4, E5.
  rewrite (forallb_ext' _ _ R), (forallb_ext' _ _ R (oid (l_sel l'))), (forallb_ext' _ _ F). reflexivity. Qed.

Lemma static_method_state m a b : same_static a b -> method_state m a = method_state m b.
Proof. intro S. unfold method_state. destruct S as [S1 S2]. assert (S : same_static a b) by (split; assumption).
  revert S2. generalize (layers b). induction (layers a) as [|l ls IH]; intros [|l' ls'] E; cbn [map] in E; try discriminate; [reflexivity|].
  cbn [forallb]. rewrite (static_method_layer m a b l l' S) by congruence. f_equal. apply IH. congruence. Qed.

Lemma method_state_with_tens m st ts : map sk ts = map sk (tens st) -> method_state m (with_tens st ts) = method_state m st.
Proof. intro E. apply static_method_state. split; [exact E|reflexivity]. Qed.

(* ================================================================ train_nas_only / train_net_only / train_net_and_nas *)
Ltac train_tac m st W :=
  cbv zeta; rewrite !dnas_nas_parameters_eq, !dnas_net_parameters_eq;
  match goal with |- fold_left ?G2 (gen_named_net m (fold_left ?G1 _ _)) _ = _ =>
    rewrite (fold_set_rg G1 _ (fun s i => eq_refl)), (fold_set_rg G2 _ (fun s i => eq_refl)) end;
  rewrite (gen_named_nas_eq m st W), gen_named_net_eq by (rewrite method_state_with_tens; [exact W|apply sk_set_rg]);
  rewrite (static_net_ids false _ st) by (split; [apply sk_set_rg|reflexivity]);
  reflexivity.

Theorem dnas_train_nas_only_eq m st : method_state m st = true ->
  dnas_train_nas_only_gen (gen_named_nas m) (gen_named_net m) st = train false true false st.
Proof. intro W. unfold dnas_train_nas_only_gen, train. train_tac m st W. Qed.
Theorem dnas_train_net_only_eq m st : method_state m st = true ->
  dnas_train_net_only_gen (gen_named_nas m) (gen_named_net m) st = train false false true st.
Proof. intro W. unfold dnas_train_net_only_gen, train. train_tac m st W. Qed.
Theorem dnas_train_net_and_nas_eq m st : method_state m st = true ->
  dnas_train_net_and_nas_gen (gen_named_nas m) (gen_named_net m) st = train false true true st.
Proof. intro W. unfold dnas_train_net_and_nas_gen, train. train_tac m st W. Qed.

(* ================================================================ the switches *)
(* `lem s l b` : (if has (pit_class l) then <set> else s) = <model>; the generated loop body may test the condition either way round *)
Ltac switch_tac st sel has lem b :=
  cbv zeta; unfold leaf_modules, unique_leaf_modules;
  match goal with |- context [fold_left ?G (layers st) st] => rewrite (fold_switch G sel (fun _ => true) b) end;
  [reflexivity
  |let s := fresh "s" in let l := fresh "l" in let H := fresh "H" in
   intros s l _; cbv beta; pose proof (lem s l b) as H; revert H; destruct (has (pit_class l)); cbn [negb]; intro H; exact H
  |clear; induction (layers st); [reflexivity|assumption]].

Theorem pit_set_train_features_eq st b : pit_set_train_features_gen st b = fst (step false st (TSetFeat b)).
Proof. unfold pit_set_train_features_gen. switch_tac st l_feat pit_class_has_train_features_gen pit_layer_switch_features b. Qed.
Theorem pit_set_train_rf_eq st b : pit_set_train_rf_gen st b = fst (step false st (TSetRf b)).
Proof. unfold pit_set_train_rf_gen. switch_tac st l_rf pit_class_has_train_rf_gen pit_layer_switch_rf b. Qed.
Theorem pit_set_train_dilation_eq st b : pit_set_train_dilation_gen st b = fst (step false st (TSetDil b)).
Proof. unfold pit_set_train_dilation_gen. switch_tac st l_dil pit_class_has_train_dilation_gen pit_layer_switch_dilation b. Qed.

Theorem pit_set_discrete_cost_eq st b : pit_set_discrete_cost_gen st b = fst (step false st (TSetDiscrete b)).
Proof. unfold pit_set_discrete_cost_gen, unique_leaf_modules, enumerate. cbv zeta.
  match goal with |- context [fold_left ?G (enumerate_from 0 (layers st)) st] =>
    pose proof (fold_update_layers G (fun l => with_disc l b) (fun s k l => ltac:(cbv beta iota; rewrite pit_layer_has_discrete; reflexivity)) (layers st) [] st eq_refl) as H end.
  cbn [length app] in H. rewrite H. reflexivity. Qed.

(* SuperNet.train_selection: the combiners' alpha *)
Lemma sn_layer_switch st0 s l v : method_layer MSn st0 l = true -> map sk (tens s) = map sk (tens st0) ->
  (if is_combiner l then combiner_layer_set_train_selection s l v else s) = with_tens s (set_rg_nf (oid (l_sel l)) v (tens s)).
Proof. unfold method_layer. intros H E. apply andb_true_iff in H. destruct H as [H Hn]. apply andb_true_iff in H. destruct H as [Hc _].
  rewrite Hc. unfold combiner_layer_set_train_selection. destruct (l_sel l) as [a|]; cbn [oid]; [|rewrite set_rg_nf_nil, with_tens_same; reflexivity].
  cbn [oid forallb] in Hn. rewrite andb_true_r in Hn.
  assert (Hn' : not_frozen s a = true).
  { rewrite not_frozen_eq in *. unfold frozen_ids in *.
    rewrite (sk_filter_ids p_frozen (fun q => snd (fst (fst q))) (fun t => eq_refl) _ _ E). exact Hn. }
  unfold update_tensor. f_equal. unfold set_rg_nf, not_frozen in *. apply map_ext_in. intros t Ht. rewrite memb_cons. cbn [memb existsb]. rewrite orb_false_r.
  rewrite forallb_forall in Hn'. specialize (Hn' t Ht). rewrite Nat.eqb_sym in Hn'.
  destruct (Nat.eqb (p_id t) a); cbn [andb negb] in *; [|reflexivity].
  apply negb_true_iff in Hn'. rewrite Hn'. reflexivity. Qed.

Lemma fold_switch_inv (g : tstate -> layer -> tstate) (sel : layer -> option nat) (P : layer -> bool) v st0 :
  (forall s l, P l = true -> map sk (tens s) = map sk (tens st0) -> g s l = with_tens s (set_rg_nf (oid (sel l)) v (tens s))) ->
  forall ls st, map sk (tens st) = map sk (tens st0) -> forallb P ls = true ->
    fold_left g ls st = with_tens st (set_rg_nf (flat_map (fun l => oid (sel l)) ls) v (tens st)).
Proof. intro H. induction ls as [|l ls IH]; intros st E Hp; cbn [fold_left flat_map]; [rewrite set_rg_nf_nil, with_tens_same; reflexivity|].
  cbn [forallb] in Hp. apply andb_true_iff in Hp. destruct Hp as [Hl Hp]. rewrite (H st l Hl E), IH; [|cbn [tens with_tens]; rewrite sk_set_rg_nf; exact E|exact Hp].
  cbn [tens with_tens]. rewrite set_rg_nf_app. reflexivity. Qed.

Theorem sn_set_train_selection_eq st b : method_state MSn st = true -> sn_set_train_selection_gen st b = fst (step false st (TSetSel b)).
Proof. intro W. unfold sn_set_train_selection_gen, unique_leaf_modules. cbv zeta.
  match goal with |- context [fold_left ?G (layers st) st] =>
    rewrite (fold_switch_inv G l_sel (method_layer MSn st) b st) end;
  [reflexivity| |reflexivity|exact W].
  intros s l Hl E. cbv beta. pose proof (sn_layer_switch st s l b Hl E) as H. revert H. destruct (is_combiner l); cbn [negb]; intro H; exact H. Qed.

(* the property getters read the flag the setter stored *)
Theorem switch_getters st :
  pit_train_features_gen st = tr_feat st /\ pit_train_rf_gen st = tr_rf st /\ pit_train_dilation_gen st = tr_dil st /\
  pit_discrete_cost_gen st = discrete st /\ sn_train_selection_gen st = tr_sel st.
Proof. repeat split; reflexivity. Qed.

(* ================================================================ op sequences *)
Theorem gen_step_eq m st o : method_state m st = true -> gen_step m st o = step false st o.
Proof. intro W. destruct o; cbn [gen_step step]; try (destruct m; reflexivity).
  - destruct m; rewrite (dnas_train_nas_only_eq _ st W); reflexivity.
  - destruct m; rewrite (dnas_train_net_only_eq _ st W); reflexivity.
  - destruct m; rewrite (dnas_train_net_and_nas_eq _ st W); reflexivity.
  - destruct m; try reflexivity. rewrite pit_set_train_features_eq. reflexivity.
  - destruct m; try reflexivity. rewrite pit_set_train_rf_eq. reflexivity.
  - destruct m; try reflexivity. rewrite pit_set_train_dilation_eq. reflexivity.
  - destruct m; try reflexivity. rewrite (sn_set_train_selection_eq st b W). reflexivity.
  - destruct m; try reflexivity. rewrite pit_set_discrete_cost_eq. reflexivity.
Qed.

Lemma step_method_state m st o : method_state m (fst (step false st o)) = method_state m st.
Proof. apply static_method_state. apply step_static. Qed.

Theorem gen_run_eq m : forall ops st, method_state m st = true -> gen_run m ops st = run false ops st.
Proof. induction ops as [|o ops IH]; intros st W; [reflexivity|]. unfold gen_run, run in *. cbn [fold_left].
  rewrite (gen_step_eq m st o W). apply IH. rewrite step_method_state. exact W. Qed.

Theorem gen_trace_eq m : forall ops st, method_state m st = true -> gen_trace m ops st = trace false ops st.
Proof. induction ops as [|o ops IH]; intros st W; [reflexivity|]. cbn [gen_trace trace].
  rewrite (gen_step_eq m st o W). f_equal. apply IH. rewrite step_method_state. exact W. Qed.

Lemma run_method_state m ops st : method_state m (run false ops st) = method_state m st.
Proof. apply static_method_state. apply run_static. Qed.

(* the comparison made by the harness gives the same bit with either model *)
Theorem check_step_gen_eq m st0 path o e_rg e_flags e_disc e_samp e_obs : method_state m st0 = true ->
  check_step_gen m st0 path o e_rg e_flags e_disc e_samp e_obs = check_step false st0 path o e_rg e_flags e_disc e_samp e_obs.
Proof. intro W. unfold check_step_gen, check_step. cbv zeta. rewrite (gen_run_eq m path st0 W).
  assert (W1 : method_state m (run false path st0) = true) by (rewrite run_method_state; exact W).
  rewrite (gen_step_eq m _ o W1).
  assert (W2 : method_state m (fst (step false (run false path st0) o)) = true) by (rewrite step_method_state; exact W1).
  rewrite !(gen_nas_ids_eq m _ W2), !(gen_net_ids_eq m _ W2), (gen_nas_ids_eq m _ W), (gen_net_ids_eq m _ W).
  destruct m; reflexivity. Qed.

(* ================================================================ the sentences of C11, about the generated code *)
Theorem gen_partition : forall m ops st, wfb st = true -> method_state m st = true ->
  let st' := gen_run m ops st in
  gen_nas_ids m st' = gen_nas_ids m st /\ gen_net_ids m st' = gen_net_ids m st /\ module_named_parameters st' = module_named_parameters st /\
  (NoDup (gen_nas_ids m st') /\ NoDup (gen_net_ids m st') /\
   (forall i, In i (gen_nas_ids m st') -> In i (gen_net_ids m st') -> False) /\
   (forall i, In i (module_named_parameters st') <-> In i (gen_nas_ids m st') \/ In i (gen_net_ids m st')) /\
   Permutation (gen_nas_ids m st' ++ gen_net_ids m st') (module_named_parameters st')).
Proof. intros m ops st Hw W st'. subst st'. rewrite (gen_run_eq m ops st W).
  assert (W' : method_state m (run false ops st) = true) by (rewrite run_method_state; exact W).
  rewrite !(gen_nas_ids_eq m _ W'), !(gen_net_ids_eq m _ W'), (gen_nas_ids_eq m _ W), (gen_net_ids_eq m _ W), !module_named_parameters_eq.
  exact (c11_partition false ops st Hw). Qed.

Theorem gen_train_x_exact : forall m ops st, wfb st = true -> method_state m st = true ->
  let s1 := gen_run m ops st in
  (forall t, In t (tens (dnas_train_nas_only_gen (gen_named_nas m) (gen_named_net m) s1)) -> p_rg t = memb (p_id t) (gen_nas_ids m st)) /\
  (forall t, In t (tens (dnas_train_net_only_gen (gen_named_nas m) (gen_named_net m) s1)) -> p_rg t = memb (p_id t) (gen_net_ids m st)) /\
  (forall t, In t (tens (dnas_train_net_and_nas_gen (gen_named_nas m) (gen_named_net m) s1)) -> p_rg t = memb (p_id t) (module_named_parameters st)).
Proof. intros m ops st Hw W s1. subst s1. rewrite (gen_run_eq m ops st W).
  assert (W' : method_state m (run false ops st) = true) by (rewrite run_method_state; exact W).
  rewrite (dnas_train_nas_only_eq m _ W'), (dnas_train_net_only_eq m _ W'), (dnas_train_net_and_nas_eq m _ W'),
    (gen_nas_ids_eq m _ W), (gen_net_ids_eq m _ W), module_named_parameters_eq.
  exact (c11_train ops st Hw). Qed.

Theorem gen_frozen_never_trainable : forall m ops st, wfb st = true -> method_state m st = true ->
  forall t, In t (tens (gen_run m ops st)) -> p_frozen t = true -> p_rg t = false.
Proof. intros m ops st Hw W. rewrite (gen_run_eq m ops st W). exact (c11_frozen_rg ops st Hw). Qed.

(* a frozen mask is in neither group reported by the generated nas_parameters() / net_parameters() *)
Theorem gen_frozen_in_no_group : forall m ops st, wfb st = true -> method_state m st = true ->
  forall t, In t (tens (gen_run m ops st)) -> p_frozen t = true ->
    memb (p_id t) (gen_nas_ids m (gen_run m ops st)) = false /\ memb (p_id t) (gen_net_ids m (gen_run m ops st)) = false.
Proof. intros m ops st Hw W t Ht Hf. rewrite (gen_run_eq m ops st W) in *.
  assert (W' : method_state m (run false ops st) = true) by (rewrite run_method_state; exact W).
  rewrite (gen_nas_ids_eq m _ W'), (gen_net_ids_eq m _ W').
  apply frozen_not_nas; [|exact Ht|exact Hf]. pose proof (run_inv ops st (wfb_inv st Hw)) as [N _]. exact N. Qed.

Theorem gen_frozen_never_gets_grad : forall m ops st, wfb st = true -> method_state m st = true ->
  forall o, In o (gen_trace m ops st) -> forall i, In i (frozen_ids st) -> ~ In (i, true) o.
Proof. intros m ops st Hw W. rewrite (gen_trace_eq m ops st W). exact (c11_frozen_grad ops st Hw). Qed.

Theorem gen_switch_exact : forall m ops st k b, method_state m st = true ->
  let s1 := gen_run m ops st in
  Forall2 (fun t t' => p_id t' = p_id t /\ p_frozen t' = p_frozen t /\
                      p_rg t' = if memb (p_id t) (sw_ids (sw_sel k) st) && negb (p_frozen t) then b else p_rg t)
          (tens s1) (tens (fst (gen_step m s1 (sw_op k b)))).
Proof. intros m ops st k b W s1. subst s1. rewrite (gen_run_eq m ops st W).
  assert (W' : method_state m (run false ops st) = true) by (rewrite run_method_state; exact W).
  rewrite (gen_step_eq m _ _ W'). exact (switch_exact false ops st k b). Qed.

(* non-vacuity: a PIT model with a shared features masker (id 1: a Conv1d and a Linear), a strided Conv1d with frozen
   receptive-field / dilation masks (ids 2, 3) and a frozen output features mask (id 5); the generated functions run *)
Definition gex_state : tstate :=
  {| tens := [ {| p_id := 0; p_frozen := false; p_reads := true; p_via := None; p_rg := true |};
               {| p_id := 1; p_frozen := false; p_reads := true; p_via := None; p_rg := true |};
               {| p_id := 2; p_frozen := true; p_reads := true; p_via := None; p_rg := false |};
               {| p_id := 3; p_frozen := true; p_reads := true; p_via := None; p_rg := false |};
               {| p_id := 4; p_frozen := false; p_reads := true; p_via := None; p_rg := true |};
               {| p_id := 5; p_frozen := true; p_reads := false; p_via := None; p_rg := false |} ]%nat;
     layers := [ {| l_feat := Some 1; l_rf := Some 2; l_dil := Some 3; l_sel := None; l_other := []; l_disc := false |};
                 {| l_feat := Some 1; l_rf := Some 4; l_dil := None; l_sel := None; l_other := []; l_disc := false |};
                 {| l_feat := Some 5; l_rf := None; l_dil := None; l_sel := None; l_other := []; l_disc := false |} ]%nat;
     samplers := []; tr_feat := true; tr_rf := true; tr_dil := true; tr_sel := true; discrete := false |}.

Theorem gen_example :
  wfb gex_state = true /\ method_state MPit gex_state = true /\
  let s := gen_run MPit [TNetOnly; TSetRf false; TSetDiscrete true; TNasOnly; TSetFeat false] gex_state in
  gen_nas_ids MPit s = [1; 4]%nat /\ gen_net_ids MPit s = [0]%nat /\
  map p_rg (tens s) = [false; false; false; false; true; false] /\ map l_disc (layers s) = [true; true; true] /\
  gen_flags MPit s = [false; false; true; true; true].
Proof. vm_compute. repeat split; reflexivity. Qed.
