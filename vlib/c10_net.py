"""C10, family `net`: option updates through the PUBLIC paths of whole MPS models.

A real MPS model (Conv2d or Conv1d stem, optional residual add, Linear head, input quantizer) is driven by
  ('mupd', t, h, g, d)          MPS.update_softmax_options(...)           -> reaches the out / w selectors of every MPS layer
  ('lupd', role, t, h, g, d)    <layer>.update_softmax_options(...) of one MPS layer (MPSConv2d / MPSConv1d / MPSLinear /
                                MPSIdentity / MPSAdd)                     -> reaches that layer's out / w selectors
  ('train',) ('eval',) ('fwd', seed, autograd mode) ('opt', seed, route)  (new coefficients for every selector, arg-max moved)
After EVERY op every selector object of the model is observed (sampler fn, hard, training, temperature, theta_alpha).  Each
selector is one KMps sampler of Model/Sampler.v: the harness applies SUpdate to exactly the selectors the call is documented
to reach (selectors not reached must stay untouched) and the whole per-selector trace is compared inside Coq.  Gumbel noise:
forward pre-hooks (PyTorch API) record the order in which the selectors are called, the noise is regenerated in that order
after re-seeding; a selector shared by several layers is sampled several times per forward, the last draw is the one in use.
Oracle: the forward-pass sentences of the property, judged against the options the USER REQUESTED through the public calls
(not against the sampler function the implementation happens to have bound).
"""
import math, random
from .common import *
from . import c10 as base
frac = base.frac        # nan / inf safe

ROLES = ('conv_a', 'conv_b', 'linear', 'input', 'add')


def build(spec):
    torch = base._torch()
    import torch.nn as nn
    from plinio.methods import MPS
    from plinio.methods.mps import MPSType, get_default_qinfo
    d1 = spec['dim'] == 1
    Conv = nn.Conv1d if d1 else nn.Conv2d
    Pool = nn.AdaptiveAvgPool1d if d1 else nn.AdaptiveAvgPool2d
    topo = spec.get('topo') or ('residual' if spec['residual'] else 'seq')
    res = topo == 'residual'
    w = spec['width']

    class N(nn.Module):
        def __init__(s):
            super().__init__()
            s.c = Conv(3, w, 3, padding=1)
            s.r = nn.ReLU()
            if topo == 'dw':
                s.c2 = Conv(w, w, 3, padding=1, groups=w)          # depthwise after its producer: same activation-quantizer group
            else:
                s.c2 = Conv(w, w if res else w + 1, 3, padding=1)
            s.p = Pool(1)
            s.f = nn.Flatten()
            s.l = nn.Linear(w if (res or topo == 'dw') else w + 1, 3)

        def forward(s, x):
            a = s.r(s.c(x))
            b = s.c2(a)
            return s.l(s.f(s.p(a + b if res else b)))
    shape = (3, 8) if d1 else (3, 6, 6)
    T, h, g, d = spec['ctor']
    torch.manual_seed(spec['seed'])
    p = MPS(N(), input_shape=shape, w_search_type=MPSType.PER_CHANNEL if spec['per_channel'] else MPSType.PER_LAYER,
            qinfo=get_default_qinfo(tuple(spec['wprec']), tuple(spec['aprec'])), temperature=T, hard_softmax=h, gumbel_softmax=g, disable_sampling=d,
            disable_shared_quantizers=bool(spec.get('dsq', False)))
    x = torch.rand((2,) + shape)
    return p, x


def selection_check(p, step):
    """the last sentence of the property on a whole MPS model, per channel: summary() reports, and export() materialises, for
    every decision (and for every output channel of a per-channel weight selector) the arg-max alternative of the CURRENT
    raw coefficients, and the two agree.  Returns (failures, records for Model.run_selected)."""
    torch = base._torch()
    from plinio.methods.mps.nn.qtz import MPSBaseQtz
    from plinio.methods.mps.nn.module import MPSModule
    fails, recs = [], []
    summ = p.summary()
    try:
        exp = p.export()
    except Exception as ex:
        if base.pytorch_inference_limit(ex):
            raise
        import traceback
        from plinio.methods.mps.nn import MPSConv1d, MPSConv2d
        from plinio.methods.mps.nn.qtz import MPSPerChannelQtz
        kinds = sorted({('conv1d' if isinstance(l, MPSConv1d) else 'conv2d') + ('-per-channel' if isinstance(l.w_mps_quantizer, MPSPerChannelQtz) else '-per-layer')
                        for l in p.seed.modules() if isinstance(l, (MPSConv1d, MPSConv2d))})
        dw = any(isinstance(l, (MPSConv1d, MPSConv2d)) and l.groups > 1 and l.groups == l.in_channels and isinstance(l.w_mps_quantizer, MPSPerChannelQtz)
                 for l in p.seed.modules())
        if dw and 'divisible by groups' in str(ex):
            kinds = ['depthwise-per-channel']
        return [('mps:export-raised:' + '+'.join(kinds), 'export() raised EXC:%s %s' % (type(ex).__name__, ' | '.join(traceback.format_exc().strip().splitlines()[-3:])[:300]), step)], []
    for lname, layer in p.seed.named_modules():
        if not isinstance(layer, MPSModule):
            continue
        for role in ('in', 'out', 'w'):
            q = getattr(layer, role + '_mps_quantizer', None)
            if not isinstance(q, MPSBaseQtz) or (role + '_precision') not in summ.get(lname, {}):
                continue
            al = q.alpha.detach()
            acols = [[frac(v) for v in al[:, j].tolist()] for j in range(al.shape[1])] if al.dim() == 2 else [[frac(v) for v in al.tolist()]]
            prec = [int(v) for v in q.precision.tolist()]
            want = [prec[base.argmax_first(c)] for c in acols]
            got = summ[lname][role + '_precision']
            gotl = got if isinstance(got, list) else [got]
            tag = ':sampling-disabled-at-export' if q.sample_alpha.__name__ == 'sample_alpha_none' else ''
            recs.append({'layer': lname, 'role': role, 'alpha': acols, 'prec': prec, 'summary': gotl})
            if gotl != want:
                fails.append(('mps:summary-is-not-argmax-alpha' + tag, '%s.%s_precision: summary() says %r, argmax(alpha) selects %r' % (lname, role, gotl, want), step))
            try:
                em = exp.get_submodule(lname)
                subs = [m for m in em.modules() if getattr(m, role + '_quantizer', None) is not None]
                if role == 'w' and al.dim() == 2:
                    # per-channel: every exported group must hold exactly the channels summary() reports at its precision
                    chan = [None] * len(gotl)
                    W = layer.weight.detach()
                    seen = 0
                    for m in subs:
                        pr = int(m.w_quantizer.precision)
                        mw = m.weight.detach()
                        seen += mw.shape[0]
                        mask = torch.tensor([v == pr for v in gotl])
                        if int(mask.sum()) != mw.shape[0] or not torch.equal(W[mask], mw):
                            # which channels does the group hold?
                            held = [c for c in range(W.shape[0]) if any(torch.equal(W[c], mw[k]) for k in range(mw.shape[0]))]
                            fails.append(('mps:export-channels-differ-from-summary' + tag, '%s: the exported %d-bit group holds channels %r, summary() reports %d bit for channels %r (argmax(alpha): %r)' % (
                                lname, pr, held, pr, [c for c, v in enumerate(gotl) if v == pr], [c for c, v in enumerate(want) if v == pr]), step))
                    if seen != len(gotl):
                        fails.append(('mps:export-channels-differ-from-summary' + tag, '%s: exported groups hold %d channels, the layer has %d' % (lname, seen, len(gotl)), step))
                else:
                    gotp = sorted({int(getattr(m, role + '_quantizer').precision) for m in subs})
                    if gotp != sorted(set(gotl)):
                        fails.append(('mps:summary-differs-from-export' + tag, '%s.%s: summary() says %r, export() materialises %r' % (lname, role, gotl, gotp), step))
                    if gotp != sorted(set(want)):
                        fails.append(('mps:export-is-not-argmax-alpha' + tag, '%s.%s: exported %r, argmax(alpha) selects %r' % (lname, role, gotp, want), step))
            except Exception as ex:
                fails.append(('mps:export-inspection-raised', 'EXC:%s %s' % (type(ex).__name__, str(ex)[:150]), step))
    return fails, recs


def exec_net(spec):
    torch = base._torch()
    from plinio.methods.mps.nn.qtz import MPSBaseQtz
    from plinio.methods.mps.nn.module import MPSModule
    from plinio.methods.mps.nn import MPSAdd, MPSIdentity
    rng = random.Random(spec['seed'])
    res = {'spec': spec, 'fails': [], 'sel': {}, 'mism': [], 'cut': None, 'selrecs': [], 'samples': []}
    try:
        p, x = build(spec)
        qs = {}                                   # id -> (name, module)
        for n_, m in p.seed.named_modules():
            if isinstance(m, MPSBaseQtz):
                qs.setdefault(id(m), (n_, m))
        layers = {n_: m for n_, m in p.seed.named_modules() if isinstance(m, MPSModule)}
        role2layer = {'conv_a': 'c', 'conv_b': 'c2', 'linear': 'l'}
        for n_, m in layers.items():
            if type(m) is MPSAdd:
                role2layer['add'] = n_
            elif type(m) is MPSIdentity:
                role2layer['input'] = n_

        def reach(lname):
            out = set()
            for r_ in ('out', 'w'):
                q = getattr(layers[lname], r_ + '_mps_quantizer', None)
                if isinstance(q, MPSBaseQtz):
                    out.add(id(q))
            return out

        def cols(t):
            t = t.detach()
            return [[frac(v) for v in t[:, j].tolist()] for j in range(t.shape[1])] if t.dim() == 2 else [[frac(v) for v in t.tolist()]]

        def obs(m):
            return {'name': m.sample_alpha.__name__, 'hard': bool(m.hard_softmax), 'training': bool(m.training), 'T': frac(float(m.temperature)),
                    'theta': cols(m.theta_alpha), 'alpha': cols(m.alpha)}

        def new_alpha(m, move):
            P = m.alpha.shape[0]
            C = m.alpha.shape[1] if m.alpha.dim() == 2 else 1
            new = base.gen_alpha(rng, P, C)
            if move and P > 1:
                old = cols(m.alpha)
                for j in range(C):
                    if base.argmax_first(new[j]) == base.argmax_first(old[j]):
                        k = base.argmax_first(new[j])
                        o2 = (k + 1 + rng.randrange(P - 1)) % P
                        new[j][k], new[j][o2] = new[j][o2], new[j][k]
            a = torch.tensor(new, dtype=torch.float32)
            return a.t().contiguous() if m.alpha.dim() == 2 else a[0]
        # ---- right after construction, before any forward: every selector holds what its constructor sampled (the selectors are
        # built with their own defaults: plain softmax, T = 1, training mode) - a probability vector per decision / channel
        for qid, (n_, m) in qs.items():
            st = obs(m)
            if not all(base.is_prob(c) for c in st['theta']):
                res['fails'].append(('mps:theta-not-a-probability-vector:after-construction', '%s: theta_alpha right after MPS(...) is %r (precisions %r)' % (
                    n_, [[float(v) for v in c] for c in st['theta']], [int(v) for v in m.precision.tolist()]), -1))
            al = m.alpha.detach()
            flat = (lambda t: (t.t() if t.dim() == 2 else t).flatten().tolist())
            res['samples'].append({'q': n_ + ' (after construction)', 'theta': st['theta'], 'tab': [(Fraction(1), [base.z30(a_) for a_ in flat(al)], [base.me30(base.sexp(z_)) for z_ in flat(al)])],
                                   'state': {'hard': False, 'gumbel': False, 'disabled': False, 'T': Fraction(1), 'training': True, 'alpha': st['alpha'], 'theta': st['theta']}})
        for qid, (n_, m) in qs.items():
            base.set_alpha(m, new_alpha(m, False), 'copy')
        T, h, g, d = spec['ctor']
        keep = spec['keep']
        req = {}
        for qid, (n_, m) in qs.items():
            st = obs(m)
            reached_by_ctor = any(qid in reach(l_) for l_ in layers)      # MPS(...) options go through the layer-level calls
            req[qid] = {'hard': bool(h), 'gumbel': bool(g), 'disabled': bool(d)} if reached_by_ctor else \
                {'hard': st['hard'], 'gumbel': st['name'] == 'sample_alpha_gs', 'disabled': st['name'] == 'sample_alpha_none'}
            res['sel'][n_] = {'init': dict(st, gumbel=req[qid]['gumbel'] or st['name'] == 'sample_alpha_gs', disabled=st['name'] == 'sample_alpha_none' or (keep and req[qid]['disabled'])),
                              'mops': [], 'steps': [], 'tab': [], 'margins': [], 'P': m.alpha.shape[0]}
        order = []
        originals = None
        hooks = [m.register_forward_pre_hook(lambda mod, inp, k=qid: order.append(k)) for qid, (n_, m) in qs.items()]
        for i, op in enumerate(spec['ops']):
            before = {qid: obs(m) for qid, (n_, m) in qs.items()}
            touched = set(qs)
            mop = None
            if op[0] in ('mupd', 'lupd'):
                t, h_, g_, d_ = op[-4:]
                if op[0] == 'mupd':
                    p.update_softmax_options(temperature=t, hard=h_, gumbel=g_, disable_sampling=d_)
                    touched = set().union(*[reach(l_) for l_ in layers])     # every out / w selector of every MPS layer
                else:
                    if op[1] not in role2layer:
                        continue
                    layers[role2layer[op[1]]].update_softmax_options(temperature=t, hard=h_, gumbel=g_, disable_sampling=d_)
                    touched = reach(role2layer[op[1]])
                mop = ['upd', None if t is None else frac(base.f32(t)), h_, g_, d_]
                for qid in touched:
                    r_ = req[qid]
                    if h_ is not None:
                        r_['hard'] = h_
                    r_['gumbel'] = g_ if g_ is not None else (r_['gumbel'] if keep else False)
                    r_['disabled'] = d_ if d_ is not None else (r_['disabled'] if keep else False)
            elif op[0] == 'comp':
                # MPS.compensate_weights_values(): rescales the layer WEIGHTS; no selector may change, coefficients stay probability vectors
                p.compensate_weights_values()
                for qid, (n_, m) in qs.items():
                    st = obs(m)
                    if st != before[qid]:
                        res['mism'].append(('compensate_weights_values-changed-a-selector', n_, i))
                    if all(base.is_prob(c) for c in before[qid]['theta']) and not all(base.is_prob(c) for c in st['theta']):
                        res['fails'].append(('mps:theta-not-a-probability-vector:after-compensate_weights_values', '%s: theta_alpha was %r, after compensate_weights_values() it is %r' % (
                            n_, [[float(v) for v in c] for c in before[qid]['theta']], [[float(v) for v in c] for c in st['theta']]), i))
                continue
            elif op[0] == 'snap':
                # snapshot = copy.deepcopy(model); every later op acts on the COPY, the original must stay as it is.  For the
                # sampler model nothing happens (the copy is in the state of the original)
                import copy
                for h_ in hooks:
                    h_.remove()
                try:
                    cp = copy.deepcopy(p)
                except RuntimeError as ex:
                    if 'deepcopy protocol' in str(ex):      # PyTorch: a theta_alpha with a grad_fn cannot be deep-copied
                        res['cut'] = i
                        break
                    raise
                originals = (p, {n_: (m, obs(m)) for qid, (n_, m) in qs.items()})
                old_names = {qid: n_ for qid, (n_, m) in qs.items()}
                p = cp
                qs = {}
                for n_, m in p.seed.named_modules():
                    if isinstance(m, MPSBaseQtz):
                        qs.setdefault(id(m), (n_, m))
                name2new = {n_: qid for qid, (n_, m) in qs.items()}
                if sorted(name2new) != sorted(old_names.values()):
                    res['fails'].append(('mps:snapshot:copy-has-different-selectors', 'selectors of the copy %r, of the original %r' % (sorted(name2new), sorted(old_names.values())), i))
                    break
                req = {name2new[old_names[qid]]: r_ for qid, r_ in req.items()}
                layers = {n_: m for n_, m in p.seed.named_modules() if isinstance(m, MPSModule)}
                hooks = [m.register_forward_pre_hook(lambda mod, inp, k=qid: order.append(k)) for qid, (n_, m) in qs.items()]
                for qid, (n_, m) in qs.items():
                    if obs(m) != before[[k for k, v in old_names.items() if v == n_][0]]:
                        res['fails'].append(('mps:snapshot:copy-differs-from-the-original', '%s: the deep copy holds %r' % (n_, {k: v for k, v in obs(m).items() if k in ('name', 'hard', 'training')}), i))
                continue
            elif op[0] == 'train':
                p.train()
                mop = ['train']
            elif op[0] == 'eval':
                p.eval()
                mop = ['eval']
            elif op[0] == 'opt':
                mop = 'opt'
                newa = {}
                for qid, (n_, m) in qs.items():
                    base.set_alpha(m, new_alpha(m, True), op[2])
                    newa[qid] = cols(m.alpha)
            elif op[0] == 'fwd':
                del order[:]
                torch.manual_seed(op[1])
                try:
                    with base.grad_ctx(op[2]):
                        p(x)
                except Exception as ex:
                    if base.pytorch_inference_limit(ex):
                        res['cut'] = i
                        break
                    raise
                torch.manual_seed(op[1])
                noise = {}
                for qid in order:
                    n_, m = qs[qid]
                    b = before[qid]
                    if b['name'] == 'sample_alpha_gs' and b['training']:
                        noise[qid] = -torch.empty_like(m.alpha).exponential_().log()
                mop = 'fwd'
            for qid, (n_, m) in qs.items():
                rec = res['sel'][n_]
                st = obs(m)
                if qid not in touched:
                    if {k: v for k, v in st.items()} != before[qid]:
                        res['mism'].append(('layer-update-touched-a-selector-it-does-not-own', n_, i))
                    continue
                if mop == 'opt':
                    rec['mops'].append(['opt', newa[qid]])
                elif mop == 'fwd':
                    b = before[qid]
                    al = m.alpha.detach()
                    Timpl = m.temperature.item()
                    flat = (lambda t: (t.t() if t.dim() == 2 else t).flatten().tolist())
                    rec['tab'].append((frac(Timpl), [base.z30(a_) for a_ in flat(al)], [base.me30(base.sexp(z_)) for z_ in flat(al / Timpl)]))
                    nz, margin = [], None
                    if qid in noise and qid in order:
                        zg = (al + noise[qid]) / Timpl
                        rec['tab'].append((frac(Timpl), [base.z30(a_) + base.z30(n__) for a_, n__ in zip(flat(al), flat(noise[qid]))], [base.me30(base.sexp(z_)) for z_ in flat(zg)]))
                        nz = cols(noise[qid])
                        zz = zg if zg.dim() == 2 else zg.unsqueeze(1)
                        if zz.shape[0] > 1:
                            top2 = zz.topk(2, dim=0).values
                            margin = float((top2[0] - top2[1]).min())
                    if qid not in order:
                        # a selector that no layer calls in forward (e.g. the dummy selector of the input quantizer): nothing sampled
                        if st['theta'] != b['theta']:
                            res['mism'].append(('theta-changed-without-a-call', n_, i))
                        continue
                    rec['margins'].append((len(rec['steps']), margin))
                    rec['mops'].append(['fwd', nz, margin])
                    # oracle against the REQUESTED options
                    r_ = req[qid]
                    want = dict(b, hard=r_['hard'], name='sample_alpha_none' if r_['disabled'] else 'sample_alpha_gs' if r_['gumbel'] else 'sample_alpha_sm')
                    for key, what in base.oracle_forward('mps-model', want, st):
                        if not key.startswith('disable-sampling'):
                            key += ':options-requested-through-public-api'
                        res['fails'].append((key, '%s: %s [requested hard=%s gumbel=%s disable_sampling=%s; bound sampler %s, hard_softmax=%s]' % (
                            n_, what, r_['hard'], r_['gumbel'], r_['disabled'], b['name'], b['hard']), i))
                else:
                    rec['mops'].append(mop)
                rec['steps'].append(st)
        for h_ in hooks:
            h_.remove()
        if originals is not None:
            for n_, (m, st0) in originals[1].items():
                st = obs(m)
                if st != st0:
                    diff = [k for k in st if st[k] != st0[k]]
                    res['fails'].append(('mps:snapshot:ops-on-the-copy-changed-the-original', '%s of the ORIGINAL model changed (%s) while only its deep copy was used: theta_alpha %r -> %r' % (
                        n_, ', '.join(diff), [[float(v) for v in c] for c in st0['theta']], [[float(v) for v in c] for c in st['theta']]), len(spec['ops'])))
        if res['cut'] is None:
            # what summary() reports and export() materialises at the end of the sequence, whatever the options in force
            # (also with sampling disabled and coefficients frozen before the last alpha update / drawn with Gumbel noise)
            try:
                import io, contextlib
                with contextlib.redirect_stderr(io.StringIO()):      # torch.fx prints the traceback of a failing node itself
                    f_, recs = selection_check(p, len(spec['ops']))
                res['fails'] += f_
                res['selrecs'] = recs
            except Exception as ex:
                if not base.pytorch_inference_limit(ex):
                    raise
    except Exception as ex:
        import traceback
        if base.pytorch_inference_limit(ex):
            res['cut'] = -1
        else:
            res['fails'].append(('mps:public-update-run-raised', 'EXC:%s %s' % (type(ex).__name__, traceback.format_exc()[-500:]), None))
    return res


def exec_ckpt(spec):
    """save -> new wrapper -> load_state_dict -> eval forward.  A searched model A (options / history from the spec) is
    check-pointed with torch.save(state_dict()); a NEW wrapper B around the same seed network is built with sampling
    disabled (at construction, or switched off right after the load and before any forward) and loads the checkpoint.
    Oracle (own keys `mps:checkpoint:*`): every selector of B holds the coefficients of the saved model and evaluates them
    (one-hot at argmax of the loaded alpha when A was saved after an eval-mode forward), B's outputs equal A's, and
    summary()/export() of B report / materialise what A's summary() reports."""
    torch = base._torch()
    import io, copy
    from plinio.methods.mps.nn.qtz import MPSBaseQtz
    rng = random.Random(spec['seed'])
    res = {'spec': spec, 'fails': [], 'sel': {}, 'mism': [], 'cut': None, 'selrecs': []}
    nops = len(spec['ops'])
    try:
        def selectors(p):
            qs = {}
            for n_, m in p.seed.named_modules():
                if isinstance(m, MPSBaseQtz):
                    qs.setdefault(id(m), (n_, m))
            return dict(qs.values())

        def cols(t):
            t = t.detach()
            return [[frac(v) for v in t[:, j].tolist()] for j in range(t.shape[1])] if t.dim() == 2 else [[frac(v) for v in t.tolist()]]

        def obs(m):
            return {'name': m.sample_alpha.__name__, 'hard': bool(m.hard_softmax), 'training': bool(m.training), 'T': frac(float(m.temperature)),
                    'theta': cols(m.theta_alpha), 'alpha': cols(m.alpha)}
        A, x = build(spec)
        for n_, m in selectors(A).items():
            P = m.alpha.shape[0]
            C = m.alpha.shape[1] if m.alpha.dim() == 2 else 1
            a = torch.tensor(base.gen_alpha(rng, P, C), dtype=torch.float32)
            base.set_alpha(m, a.t().contiguous() if m.alpha.dim() == 2 else a[0], 'data')
        for op in spec['ops']:
            if op[0] == 'mupd':
                A.update_softmax_options(temperature=op[1], hard=op[2], gumbel=op[3], disable_sampling=op[4])
            elif op[0] in ('train', 'eval'):
                A.train(op[0] == 'train')
            elif op[0] == 'fwd':
                torch.manual_seed(op[1])
                with base.grad_ctx(op[2]):
                    yA = A(x)
        saved = {n_: obs(m) for n_, m in selectors(A).items()}
        summA = A.summary()
        buf = io.BytesIO()
        torch.save(A.state_dict(), buf)
        buf.seek(0)
        # ---- the new wrapper
        T, h, g, d = spec['ctor']
        bspec = dict(spec, ctor=(T, h, g, spec['b_disable_at_ctor']))
        B, _ = build(bspec)
        B.load_state_dict(torch.load(buf))
        if not spec['b_disable_at_ctor']:
            B.update_softmax_options(disable_sampling=True)
        selB = selectors(B)
        for n_, m in selB.items():
            st = obs(m)
            if st['alpha'] != saved[n_]['alpha']:
                res['fails'].append(('mps:checkpoint:reloaded-alpha-differs-from-saved', '%s: alpha after load_state_dict %r, saved %r' % (n_, [[float(v) for v in c] for c in st['alpha']], [[float(v) for v in c] for c in saved[n_]['alpha']]), nops))
            if st['theta'] != saved[n_]['theta']:
                res['fails'].append(('mps:checkpoint:reloaded-coefficients-differ-from-saved', '%s: theta_alpha after load_state_dict into a wrapper with sampling disabled is %r, the saved model evaluates %r' % (
                    n_, [[float(v) for v in c] for c in st['theta']], [[float(v) for v in c] for c in saved[n_]['theta']]), nops))
            # the model: a disabled sampler holding the SAVED coefficients
            res['sel'][n_] = {'init': dict(saved[n_], name=st['name'], hard=st['hard'], T=st['T'], training=st['training'], gumbel=st['name'] == 'sample_alpha_gs', disabled=st['name'] == 'sample_alpha_none'),
                              'mops': [], 'steps': [], 'tab': [], 'margins': [], 'P': m.alpha.shape[0]}
        order = []
        hooks = [m.register_forward_pre_hook(lambda mod, inp, k=n_: order.append(k)) for n_, m in selB.items()]
        B.eval()
        for n_, m in selB.items():
            res['sel'][n_]['mops'].append(['eval'])
            res['sel'][n_]['steps'].append(obs(m))
        with base.grad_ctx(spec['b_grad_mode']):
            yB = B(x)
        for h_ in hooks:
            h_.remove()
        saved_in_eval = bool(spec['ops']) and spec['ops'][-1][0] == 'fwd' and ('eval',) in [tuple(o) for o in spec['ops']] and \
            [tuple(o) for o in spec['ops'] if o[0] in ('train', 'eval')][-1] == ('eval',)
        for n_, m in selB.items():
            if n_ not in order:
                continue
            st = obs(m)
            rec = res['sel'][n_]
            Timpl = m.temperature.item()
            al = m.alpha.detach()
            flat = (lambda t: (t.t() if t.dim() == 2 else t).flatten().tolist())
            rec['tab'].append((frac(Timpl), [base.z30(a_) for a_ in flat(al)], [base.me30(base.sexp(z_)) for z_ in flat(al / Timpl)]))
            rec['mops'].append(['fwd', [], None])
            rec['steps'].append(st)
            if st['theta'] != saved[n_]['theta']:
                res['fails'].append(('mps:checkpoint:evaluated-coefficients-differ-from-saved', '%s: the re-loaded wrapper (sampling disabled) evaluates %r, the saved model %r' % (
                    n_, [[float(v) for v in c] for c in st['theta']], [[float(v) for v in c] for c in saved[n_]['theta']]), nops))
            if saved_in_eval:
                if [base.onehot_pos(c) for c in st['theta']] != [base.argmax_first(a) for a in st['alpha']]:
                    res['fails'].append(('mps:checkpoint:eval-not-onehot-at-argmax-after-reload', '%s: eval-mode coefficients of the re-loaded model %r are not the one-hot at argmax of the loaded alpha %r' % (
                        n_, [[float(v) for v in c] for c in st['theta']], [[float(v) for v in c] for c in st['alpha']]), nops))
            else:
                # saved in training mode: the frozen soft / Gumbel coefficients are evaluated in eval mode -> the open disable-sampling finding
                for key, what in base.oracle_forward('mps-model', dict(st, name='sample_alpha_none'), st):
                    res['fails'].append((key, '%s: %s' % (n_, what), nops))
        if saved_in_eval and not torch.allclose(yA.detach(), yB.detach(), atol=1e-5):
            res['fails'].append(('mps:checkpoint:reloaded-model-computes-different-function', 'outputs of the saved model and of the re-loaded wrapper differ by %.4g' % float((yA - yB).abs().max()), nops))
        if B.summary() != summA:
            res['fails'].append(('mps:checkpoint:reloaded-summary-differs-from-saved', 'summary() of the re-loaded wrapper %r, of the saved model %r' % (B.summary(), summA), nops))
        import contextlib
        with contextlib.redirect_stderr(io.StringIO()):
            f_, recs = selection_check(B, nops)
        res['fails'] += f_
        res['selrecs'] = recs
    except Exception as ex:
        import traceback
        if base.pytorch_inference_limit(ex):
            res['cut'] = -1
        else:
            res['fails'].append(('mps:checkpoint:run-raised', 'EXC:%s %s' % (type(ex).__name__, traceback.format_exc()[-500:]), None))
    return res


def specs_ckpt(ctx):
    rng = ctx.rng
    out = []
    for dim in (1, 2):
        for pc in (False, True):
            for saved_mode in ('eval', 'eval', 'train'):
                for at_ctor in (True, False):
                    for rep in range(1 if ctx.quick else 4):
                        ops = []
                        if rng.random() < 0.5:
                            ops.append(('mupd', rng.choice([None] + base.TEMPS), rng.choice([None, True, False]), rng.choice([None, True, False]), None))
                        if rng.random() < 0.6:
                            ops += [('train',), ('fwd', rng.randrange(1 << 30), 'grad')]
                        ops += [(saved_mode,), ('fwd', rng.randrange(1 << 30), rng.choice(['grad', 'no_grad']))]
                        out.append({'fam': 'ckpt', 'dim': dim, 'residual': rng.random() < 0.4, 'per_channel': pc, 'width': rng.choice([2, 3, 4]),
                                    'wprec': rng.sample([2, 4, 8], rng.randint(2, 3)), 'aprec': rng.sample([2, 4, 8], rng.randint(2, 3)),
                                    'ctor': (rng.choice(base.TEMPS), rng.random() < 0.4, rng.random() < 0.4, False), 'seed': rng.randrange(1 << 30),
                                    'keep': True, 'ops': ops, 'b_disable_at_ctor': at_ctor, 'b_grad_mode': rng.choice(['grad', 'no_grad'])})
    return out


def upd(path, **kw):
    a = (kw.get('t'), kw.get('h'), kw.get('g'), kw.get('d'))
    return ('mupd',) + a if path == 'model' else ('lupd', path) + a


def specs_net(ctx, keep):
    """on -> off -> forward through every public path; off-only calls with all-falsy arguments; each single option False
    alone; on through one path and off through another; random mixes"""
    rng = ctx.rng
    out = []

    def mk(ctor, ops, **kw):
        dim = kw.get('dim', rng.choice([1, 2]))
        out.append({'fam': 'net', 'dim': dim, 'residual': kw.get('residual', rng.random() < 0.5), 'per_channel': rng.random() < 0.5, 'width': rng.choice([2, 3, 4]),
                    'wprec': rng.sample([2, 4, 8], rng.randint(2, 3)), 'aprec': rng.sample([2, 4, 8], rng.randint(2, 3)), 'ctor': ctor,
                    'seed': rng.randrange(1 << 30), 'keep': keep, 'ops': ops})

    def fwd():
        return ('fwd', rng.randrange(1 << 30), rng.choice(base.GRAD_MODES[:2]) if rng.random() < 0.8 else 'inference')

    def opt():
        return ('opt', rng.randrange(1 << 30), rng.choice(base.ROUTES))
    paths = ('model',) + ROLES
    flags = {'h': 1, 'g': 2, 'd': 3}
    for path in paths:
        for dim in (1, 2):
            residual = True if path == 'add' else (dim == 1)
            for X in ('h', 'g', 'd'):
                for mode in ('train', 'eval'):
                    # constructed ON -> forward -> X=False alone through `path` -> new coefficients -> forwards
                    ctor = [rng.choice(base.TEMPS), rng.random() < 0.5, rng.random() < 0.5, False]
                    ctor[flags[X]] = True
                    if X == 'g':
                        ctor[1] = True              # hard Gumbel: once Gumbel is off the sample must sit at argmax(alpha)
                    mk(tuple(ctor), [(mode,), fwd(), upd(path, **{X: False}), opt(), fwd(), fwd()], dim=dim, residual=residual)
            # all-falsy off-only call; on through the model, off through `path`; on through `path`, off through the model
            mk((rng.choice(base.TEMPS), True, True, False), [('train',), fwd(), upd(path, h=False, g=False, d=False), opt(), fwd(), ('eval',), fwd()], dim=dim, residual=residual)
            mk((rng.choice(base.TEMPS), False, False, False), [upd('model', h=True, g=True), fwd(), upd(path, g=False), opt(), fwd(), upd(path, h=False), ('eval',), fwd()], dim=dim, residual=residual)
            mk((rng.choice(base.TEMPS), False, False, False), [upd(path, d=True), ('eval',), fwd(), opt(), upd('model', d=False), fwd(), fwd()], dim=dim, residual=residual)
            mk((rng.choice(base.TEMPS), False, False, False), [upd(path, t=rng.choice(base.TEMPS), h=True), fwd(), upd(path, t=rng.choice(base.TEMPS)), fwd(), upd('model', h=False), fwd()], dim=dim, residual=residual)
    # sequences that END with sampling disabled (fine-tuning set-up) while the frozen coefficients differ from the current alpha:
    # Gumbel draw then freeze; freeze then new alpha; also in eval mode; per-channel and per-layer weight search
    for path in ('model', 'conv_a', 'conv_b', 'linear'):
        for dim in (1, 2):
            for pc in (True, True, False):
                for variant in range(4):
                    T = rng.choice(base.TEMPS)
                    if variant == 0:
                        ctor, ops = (T, rng.random() < 0.5, True, False), [('train',), fwd(), upd(path, d=True)]
                    elif variant == 1:
                        ctor, ops = (T, rng.random() < 0.5, True, False), [('train',), fwd(), upd(path, d=True), ('eval',), fwd()]
                    elif variant == 2:
                        ctor, ops = (T, False, False, False), [('train',), fwd(), upd(path, d=True), opt(), fwd()]
                    else:
                        ctor, ops = (T, rng.random() < 0.5, rng.random() < 0.5, True), [opt(), (rng.choice(['train', 'eval']),), fwd(), opt()]
                    mk(ctor, ops, dim=dim, residual=rng.random() < 0.3)
                    out[-1]['per_channel'] = pc
    # weight precision tuples WITH 0 bit (and at least two other precisions): observation right after construction (MPS.__init__ calls
    # compensate_weights_values()), explicit compensate_weights_values() / option calls before any forward, then forwards
    for dim in (1, 2):
        for pc in (False, True):
            for kw in ((False, False, False), (True, False, False), (False, True, False), (False, False, True), (True, True, False)):
                for rep in range(1 if ctx.quick else 3):
                    T = rng.choice(base.TEMPS)
                    ops = [('comp',)] if rng.random() < 0.7 else []
                    ops += [upd(rng.choice(paths), t=rng.choice([None] + base.TEMPS), h=rng.choice([None, True, False])), ('comp',)] if rng.random() < 0.5 else []
                    ops += [(rng.choice(['train', 'eval']),), fwd(), ('comp',), fwd()]
                    mk((T,) + kw, ops, dim=dim, residual=rng.random() < 0.3)
                    out[-1]['per_channel'] = pc
                    out[-1]['wprec'] = [0] + rng.sample([2, 4, 8], rng.randint(2, 3))
                    rng.shuffle(out[-1]['wprec'])
    # one WEIGHT quantizer per layer (disable_shared_quantizers=True) in topologies where two weight layers share an activation
    # quantizer (conv1(a) + conv2(a); depthwise after its producer): non-default options through MPS(...) and through every path
    for topo in ('residual', 'dw'):
        for dim in (1, 2):
            for pc in (False, True):
                for kw in ((True, False, False), (False, True, False), (True, True, False), (False, False, False)):
                    for rep in range(1 if ctx.quick else 3):
                        T = rng.choice([t for t in base.TEMPS if t != 1.0])
                        path = rng.choice(paths)
                        ops = [('train',), fwd(), upd(path, t=rng.choice(base.TEMPS), h=not kw[0]), fwd(), upd('model', g=not kw[1]), opt(), fwd(), ('eval',), fwd()]
                        mk((T,) + kw, ops, dim=dim)
                        out[-1].update(per_channel=pc, topo=topo, residual=topo == 'residual', dsq=True)
    # deep-copied snapshots: copy.deepcopy(model) after construction or after a no_grad pass, then alpha / mode / options change on the
    # COPY and it is evaluated; the copy must follow ITS coefficients, the original must stay untouched
    for dim in (1, 2):
        for pc in (False, True):
            for variant in range(6 if ctx.quick else 12):
                T = rng.choice(base.TEMPS)
                nog = ('fwd', rng.randrange(1 << 30), 'no_grad')
                v = variant % 6
                if v == 0:
                    ops = [('snap',), ('eval',), fwd(), opt(), fwd()]
                elif v == 1:
                    ops = [('eval',), nog, ('snap',), opt(), fwd(), fwd()]
                elif v == 2:
                    ops = [('train',), nog, ('snap',), ('eval',), opt(), fwd()]
                elif v == 3:
                    ops = [('eval',), nog, ('snap',), ('train',), opt(), fwd(), ('eval',), fwd()]
                elif v == 4:
                    ops = [nog, ('snap',), upd('model', h=True, t=rng.choice(base.TEMPS)), opt(), fwd(), upd(rng.choice(paths), g=True), fwd()]
                else:
                    ops = [('snap',), opt(), ('comp',), fwd(), ('snap',), ('eval',), opt(), nog, fwd()]
                mk((T, rng.random() < 0.4, rng.random() < 0.4, False), ops, dim=dim)
                out[-1]['per_channel'] = pc
                if rng.random() < 0.3:
                    out[-1].update(topo=rng.choice(['residual', 'dw']), dsq=rng.random() < 0.5)
    for _ in range(20 if ctx.quick else 200):
        ops = []
        for _ in range(rng.randint(4, 10)):
            x = rng.random()
            if x < 0.35:
                ops.append(fwd())
            elif x < 0.75:
                ops.append(upd(rng.choice(paths), t=rng.choice([None, None] + base.TEMPS), h=rng.choice([None, True, False]), g=rng.choice([None, True, False]),
                               d=rng.choice([None, None, True, False])))
            elif x < 0.85:
                ops.append((rng.choice(['train', 'eval']),))
            else:
                ops.append(opt())
        ops.append(fwd())
        mk((rng.choice(base.TEMPS), rng.random() < 0.4, rng.random() < 0.4, rng.random() < 0.1), ops)
    return out


def net_exprs(r, keep):
    """one run_trace per selector of the model"""
    out = []
    for n_, rec in r['sel'].items():
        if not rec['steps']:
            continue
        e = 'run_trace %s false KMps %s %s %s %s %s %s' % (coq(keep), coq(base.q_tab(rec['tab'])), coq(base.TOL), coq(base.q_sampler(rec['init'])),
                                                         coq([base.q_op(m) for m in rec['mops']]), coq(Nat(0)), coq([base.q_obs(s) for s in rec['steps']]))
        out.append((n_, rec, e))
    return out
