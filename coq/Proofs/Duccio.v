From Coq Require Import QArith List ZArith Lia Lqa Psatz.
Import ListNotations.
Require Import Plinio.Base.Qx Plinio.Model.Duccio.
Open Scope Q_scope.

Ltac qc := unfold Qdiv in *; change (/ 2) with (1#2) in *; change (/ 100) with (1#100) in *.

Lemma ramp_lin s e n : 0 < n -> ramp s e n == s * (1#100) + e * ((s * (99#100)) * (2 / n)).
Proof. intros Hn. unfold ramp. field. lra. Qed.

Lemma slope_nonneg s n : 0 <= s -> 0 < n -> 0 <= (s * (99#100)) * (2 / n).
Proof.
  intros Hs Hn. apply Qmult_le_0_compat; [lra|].
  apply Qle_shift_div_l; [exact Hn|lra].
Qed.

Lemma ramp_mono s e e' n : 0 <= s -> 0 < n -> e <= e' -> ramp s e n <= ramp s e' n.
Proof.
  intros Hs Hn He. rewrite !ramp_lin by assumption.
  pose proof (slope_nonneg s n Hs Hn) as Hk. nra.
Qed.

Lemma ramp_at_0 s n : 0 < n -> ramp s 0 n == s / 100.
Proof. intros Hn. unfold ramp. field. lra. Qed.

Lemma ramp_at_half s n : 0 < n -> ramp s (n / 2) n == s.
Proof. intros Hn. unfold ramp. field. lra. Qed.

Lemma eff_le_final s e n : eff s e n <= s.
Proof. unfold eff. destruct (qmin_cases (ramp s e n) s) as [[H E]|[H E]]; rewrite E; lra. Qed.

Lemma eff_mono_epoch s e e' n : 0 <= s -> 0 < n -> e <= e' -> eff s e n <= eff s e' n.
Proof.
  intros Hs Hn He. pose proof (ramp_mono s e e' n Hs Hn He) as Hr. unfold eff.
  destruct (qmin_cases (ramp s e n) s) as [[H E]|[H E]];
  destruct (qmin_cases (ramp s e' n) s) as [[H' E']|[H' E']]; rewrite E, E'; lra.
Qed.

Lemma eff_at_0 s n : 0 <= s -> 0 < n -> eff s 0 n == s / 100.
Proof.
  intros Hs Hn. unfold eff. pose proof (ramp_at_0 s n Hn) as Hr.
  destruct (qmin_cases (ramp s 0 n) s) as [[H E]|[H E]]; rewrite E; [exact Hr|].
  rewrite Hr in H. qc. lra.
Qed.

Lemma eff_from_half s e n : 0 <= s -> 0 < n -> n / 2 <= e -> eff s e n == s.
Proof.
  intros Hs Hn He. pose proof (ramp_mono s (n/2) e n Hs Hn He) as Hr. rewrite ramp_at_half in Hr by exact Hn.
  unfold eff. destruct (qmin_cases (ramp s e n) s) as [[H E]|[H E]]; rewrite E; lra.
Qed.

Lemma eff_pos s e n : 0 < s -> 0 < n -> 0 <= e -> 0 < eff s e n.
Proof.
  intros Hs Hn He.
  assert (Hs' : 0 <= s) by lra.
  pose proof (eff_mono_epoch s 0 e n Hs' Hn He) as Hm. rewrite eff_at_0 in Hm by assumption. qc. lra.
Qed.

Lemma eff_nonneg s e n : 0 <= s -> 0 < n -> 0 <= e -> 0 <= eff s e n.
Proof.
  intros Hs Hn He.
  pose proof (eff_mono_epoch s 0 e n Hs Hn He) as Hm. rewrite eff_at_0 in Hm by assumption. qc. lra.
Qed.

(* ---- sums *)
Definition good (e n : Q) (m : Q * Q * Q) : Prop := 0 < fst (fst m).

Lemma term_nonneg e n m : 0 < n -> 0 <= e -> 0 <= fst (fst m) -> 0 <= term e n m.
Proof.
  destruct m as [[s c] t]; cbn [fst]. intros Hn He Hs. unfold term.
  pose proof (eff_nonneg s e n Hs Hn He) as H1.
  destruct (qmax_cases 0 (c - t)) as [[H E]|[H E]]; rewrite E; nra.
Qed.

Lemma term_zero_iff e n m : 0 < n -> 0 <= e -> 0 < fst (fst m) ->
  (term e n m == 0 <-> snd (fst m) <= snd m).
Proof.
  destruct m as [[s c] t]; cbn [fst snd]. intros Hn He Hs. unfold term.
  pose proof (eff_pos s e n Hs Hn He) as H1.
  destruct (qmax_cases 0 (c - t)) as [[H E]|[H E]]; rewrite E; split; intro H2; try nra; try lra.
Qed.

Lemma duccio_acc ms e n a : fold_left (fun acc m => acc + term e n m) ms a == a + duccio ms e n.
Proof.
  unfold duccio. revert a. induction ms as [|m ms IH]; intro a; cbn [fold_left].
  - lra.
  - rewrite IH. rewrite (IH (0 + term e n m)). lra.
Qed.

Lemma duccio_cons m ms e n : duccio (m :: ms) e n == term e n m + duccio ms e n.
Proof. unfold duccio at 1. cbn [fold_left]. rewrite duccio_acc. lra. Qed.

Lemma duccio_nonneg ms e n : 0 < n -> 0 <= e -> Forall (fun m => 0 <= fst (fst m)) ms -> 0 <= duccio ms e n.
Proof.
  intros Hn He H. induction H as [|m ms Hm Hms IH].
  - unfold duccio; cbn. lra.
  - rewrite duccio_cons. pose proof (term_nonneg e n m Hn He Hm). lra.
Qed.

Lemma duccio_zero_iff ms e n : 0 < n -> 0 <= e -> Forall (fun m => 0 < fst (fst m)) ms ->
  (duccio ms e n == 0 <-> Forall (fun m => snd (fst m) <= snd m) ms).
Proof.
  intros Hn He H. induction H as [|m ms Hm Hms IH].
  - unfold duccio; cbn. split; [constructor|lra].
  - rewrite duccio_cons.
    assert (Hm' : 0 <= fst (fst m)) by lra.
    pose proof (term_nonneg e n m Hn He Hm') as Ht.
    assert (Hd : 0 <= duccio ms e n).
    { apply duccio_nonneg; try assumption. eapply Forall_impl; [|exact Hms]. cbn; intros; lra. }
    split.
    + intro H0. constructor.
      * apply (term_zero_iff e n m Hn He Hm). lra.
      * apply IH. lra.
    + intro HF. inversion HF as [|x l Hx Hl]; subst.
      apply (term_zero_iff e n m Hn He Hm) in Hx. apply IH in Hl. lra.
Qed.

(* growing any cost never lowers the penalty, and raises it strictly where the cost is above target *)
Lemma term_mono e n s c c' t : 0 < n -> 0 <= e -> 0 <= s -> c <= c' -> term e n (s, c, t) <= term e n (s, c', t).
Proof.
  intros Hn He Hs Hc. unfold term. pose proof (eff_nonneg s e n Hs Hn He) as H1.
  destruct (qmax_cases 0 (c - t)) as [[H E]|[H E]]; destruct (qmax_cases 0 (c' - t)) as [[H' E']|[H' E']]; rewrite E, E'; nra.
Qed.

Lemma term_strict e n s c c' t : 0 < n -> 0 <= e -> 0 < s -> t <= c -> c < c' -> term e n (s, c, t) < term e n (s, c', t).
Proof.
  intros Hn He Hs Ht Hc. unfold term. pose proof (eff_pos s e n Hs Hn He) as H1.
  destruct (qmax_cases 0 (c - t)) as [[H E]|[H E]]; destruct (qmax_cases 0 (c' - t)) as [[H' E']|[H' E']]; rewrite E, E'; nra.
Qed.

Inductive costs_le : list (Q*Q*Q) -> list (Q*Q*Q) -> Prop :=
| cl_nil : costs_le [] []
| cl_cons s c c' t ms ms' : c <= c' -> costs_le ms ms' -> costs_le ((s, c, t) :: ms) ((s, c', t) :: ms').

Lemma duccio_mono_excess ms ms' e n : 0 < n -> 0 <= e -> Forall (fun m => 0 <= fst (fst m)) ms ->
  costs_le ms ms' -> duccio ms e n <= duccio ms' e n.
Proof.
  intros Hn He HF H. induction H as [|s c c' t ms ms' Hc H IH].
  - lra.
  - rewrite !duccio_cons. inversion HF as [|x l Hx Hl]; subst. cbn [fst] in Hx.
    pose proof (term_mono e n s c c' t Hn He Hx Hc). specialize (IH Hl). lra.
Qed.

Lemma duccio_strict_excess ms1 ms2 s c c' t e n : 0 < n -> 0 <= e -> 0 < s -> t <= c -> c < c' ->
  duccio (ms1 ++ (s, c, t) :: ms2) e n < duccio (ms1 ++ (s, c', t) :: ms2) e n.
Proof.
  intros Hn He Hs Ht Hc. induction ms1 as [|m ms1 IH]; cbn [app].
  - rewrite !duccio_cons. pose proof (term_strict e n s c c' t Hn He Hs Ht Hc). lra.
  - rewrite !duccio_cons. lra.
Qed.

(* derived strengths *)
Lemma derive_above task c t : 0 < task -> t < c -> 0 < derive task c t /\ derive task c t * (c - t) == task.
Proof.
  intros Htask Hc. unfold derive. assert (Hc' : 0 < c - t) by lra. apply qlt_bool_iff in Hc' as Hb. rewrite Hb.
  assert (Hp : 0 < task / (c - t)) by (apply Qlt_shift_div_l; lra).
  destruct (qmax_cases 0 (task / (c - t))) as [[H E]|[H E]]; rewrite E; [|lra]. split; [exact Hp|].
  field. lra.
Qed.
Lemma derive_not_above task c t : c <= t -> derive task c t = 0.
Proof.
  intros Hc. unfold derive. destruct (qlt_bool 0 (c - t)) eqn:E; [|reflexivity].
  apply qlt_bool_iff in E. lra.
Qed.
Lemma derive_v0_at_target_refuted : exists task c t, 0 < task /\ derive_v0 task c t = Inf.
Proof. exists 2, 100, 100. split; [lra|reflexivity]. Qed.

Lemma base_linear s c : base s c == s * c.
Proof. unfold base. lra. Qed.
Lemma duccio_opt_acc ms e n a : fold_left (fun acc m => acc + term_opt e n m) ms a == a + duccio_opt ms e n.
Proof.
  unfold duccio_opt. revert a. induction ms as [|m ms IH]; intro a; cbn [fold_left].
  - lra.
  - rewrite IH. rewrite (IH (0 + term_opt e n m)). lra.
Qed.

(* a metric with an infinite target contributes nothing and leaves every other metric with ITS OWN strength *)
Theorem duccio_opt_finite_part ms e n : duccio_opt ms e n == duccio (finite_part ms) e n.
Proof.
  induction ms as [|[[s c] [t|]] ms IH].
  - reflexivity.
  - unfold duccio_opt. cbn [fold_left]. rewrite duccio_opt_acc.
    change (finite_part ((s, c, Some t) :: ms)) with ((s, c, t) :: finite_part ms).
    rewrite duccio_cons, IH. cbn [term_opt term]. lra.
  - unfold duccio_opt. cbn [fold_left]. rewrite duccio_opt_acc.
    change (finite_part ((s, c, None) :: ms)) with (finite_part ms).
    rewrite IH. cbn [term_opt]. lra.
Qed.
