#!/venv/bin/python
"""asbuilt_round.py <round> Cxx [Cyy ...]: append /root/scratch/out/Cxx/asbuilt_r<round>.md inside the as-built block of Cxx in
DESIGN.md (and to the builder's DESIGN_asbuilt.md so that a later tools/asbuilt.py keeps it)"""
import sys, os, re
D = '/verif/DESIGN.md'
s = open(D).read()
rnd = sys.argv[1]
for pid in sys.argv[2:]:
    f = '/root/scratch/out/%s/asbuilt_r%s.md' % (pid, rnd)
    if not os.path.exists(f):
        print('no round note for', pid); continue
    body = open(f).read().strip()
    body = re.sub(r'^#+ .*\n', '', body, count=1).strip() if body.startswith('#') else body
    tag = '<!-- round%s:%s -->' % (rnd, pid)
    block = '%s\n**Round %s additions.** %s\n' % (tag, rnd, body)
    end = '<!-- /asbuilt:%s -->' % pid
    if tag in s:
        i = s.index(tag); j = s.index(end, i)
        s = s[:i] + block + s[j:]
    elif end in s:
        j = s.index(end)
        s = s[:j].rstrip('\n') + '\n\n' + block + s[j:]
    else:
        print('no as-built block for', pid); continue
    g = '/root/scratch/out/%s/DESIGN_asbuilt.md' % pid
    if os.path.exists(g) and tag not in open(g).read():
        open(g, 'a').write('\n\n' + block)
    print('added', pid)
open(D, 'w').write(s)
